(* C12: trackDetailsFromSDP reads back what addSenderSDP wrote (one encoding) *)
From Coq Require Import List ZArith NArith String Ascii Bool Lia.
Import ListNotations.
From Verif Require Import Common.Base Common.NegoText Model.OfferShape Model.OfferTrackDetails
  Proofs.NegoText Proofs.OfferShape.
Open Scope string_scope.

Definition u32 (n : N) : Prop := (n < 4294967296)%N.

(* ---------- splitting the lines addSenderSDP writes ---------- *)

Lemma split_group : forall tok a b, no_space tok = true ->
  split_sp (tok ++ " " ++ itoaN a ++ " " ++ itoaN b) = [tok; itoaN a; itoaN b].
Proof.
  intros tok a b H. change (tok ++ " " ++ itoaN a ++ " " ++ itoaN b)
    with (tok ++ String " " (itoaN a ++ String " " (itoaN b))).
  rewrite split_sp_app by exact H. rewrite split_sp_app by apply itoaN_no_space.
  rewrite split_sp_no_space by apply itoaN_no_space. reflexivity.
Qed.

Lemma split_source2 : forall n tag x, no_space tag = true -> no_space x = true ->
  split_sp (itoaN n ++ String " " (tag ++ x)) = [itoaN n; tag ++ x].
Proof.
  intros n tag x Ht Hx. rewrite split_sp_app by apply itoaN_no_space.
  rewrite split_sp_no_space; auto. rewrite no_space_app, Ht, Hx. reflexivity.
Qed.

Lemma split_source3 : forall n tag x y, no_space tag = true -> no_space x = true -> no_space y = true ->
  split_sp (itoaN n ++ String " " (tag ++ x ++ String " " y)) = [itoaN n; tag ++ x; y].
Proof.
  intros n tag x y Ht Hx Hy. rewrite split_sp_app by apply itoaN_no_space.
  rewrite <- append_assoc. rewrite split_sp_app by (rewrite no_space_app, Ht, Hx; reflexivity).
  rewrite split_sp_no_space; auto.
Qed.

Lemma split_msid : forall x y, no_space x = true -> no_space y = true ->
  split_sp (x ++ String " " y) = [x; y].
Proof. intros x y Hx Hy. rewrite split_sp_app by exact Hx. now rewrite split_sp_no_space. Qed.

(* ---------- the switch, per line ---------- *)

Lemma step_fid_empty : forall st a b,
  u32 a -> u32 b -> ts_tracks st = [] ->
  step_group st ("FID " ++ itoaN a ++ " " ++ itoaN b)
  = Ok {| ts_tracks := []; ts_rtx := flow_set b a (ts_rtx st); ts_fec := ts_fec st;
          ts_stream := ts_stream st; ts_track := ts_track st |}.
Proof.
  intros st a b Ha Hb Ht. unfold step_group.
  change ("FID " ++ itoaN a ++ " " ++ itoaN b) with ("FID" ++ " " ++ itoaN a ++ " " ++ itoaN b).
  rewrite (split_group "FID") by reflexivity. cbn [String.eqb Ascii.eqb Bool.eqb].
  change (String.eqb "FID" "FID") with true. cbv iota.
  unfold step_group_with. rewrite !parse_u32_itoaN by assumption. rewrite Ht. reflexivity.
Qed.

Lemma step_fec_empty : forall st a b,
  u32 a -> u32 b -> ts_tracks st = [] ->
  step_group st ("FEC-FR " ++ itoaN a ++ " " ++ itoaN b)
  = Ok {| ts_tracks := []; ts_rtx := ts_rtx st; ts_fec := flow_set b a (ts_fec st);
          ts_stream := ts_stream st; ts_track := ts_track st |}.
Proof.
  intros st a b Ha Hb Ht. unfold step_group.
  change ("FEC-FR " ++ itoaN a ++ " " ++ itoaN b) with ("FEC-FR" ++ " " ++ itoaN a ++ " " ++ itoaN b).
  rewrite (split_group "FEC-FR") by reflexivity.
  change (String.eqb "FEC-FR" "FID") with false. change (String.eqb "FEC-FR" "FEC-FR") with true. cbv iota.
  unfold step_group_with. rewrite !parse_u32_itoaN by assumption. rewrite Ht. reflexivity.
Qed.

(* a source whose ssrc is a known repair flow is skipped, all four lines *)
Lemma source_skipped : forall mid k st n stream track,
  u32 n -> flow_has n (ts_rtx st) || flow_has n (ts_fec st) = true ->
  td_loop mid k st (media_source n stream track) = Ok st.
Proof.
  intros mid k st n stream track Hn Hf.
  assert (S : forall v, exists rest, split_sp (itoaN n ++ String " " v) = itoaN n :: rest).
  { intro v. rewrite split_sp_app by apply itoaN_no_space. eauto. }
  assert (K : forall v, step_ssrc mid k st (itoaN n ++ String " " v) = Ok st).
  { intro v. unfold step_ssrc. destruct (S v) as [rest ->]. rewrite parse_u32_itoaN by exact Hn.
    apply orb_true_iff in Hf. destruct Hf as [Hf|Hf].
    - now rewrite Hf.
    - rewrite Hf. destruct (flow_has n (ts_rtx st)); reflexivity. }
  unfold media_source. cbn [td_loop td_step].
  change (String.eqb "ssrc" "ssrc-group") with false. change (String.eqb "ssrc" "msid") with false.
  change (String.eqb "ssrc" "ssrc") with true. cbv iota.
  change (itoaN n ++ " cname:" ++ stream) with (itoaN n ++ String " " ("cname:" ++ stream)).
  change (itoaN n ++ " msid:" ++ stream ++ " " ++ track) with (itoaN n ++ String " " ("msid:" ++ stream ++ " " ++ track)).
  change (itoaN n ++ " mslabel:" ++ stream) with (itoaN n ++ String " " ("mslabel:" ++ stream)).
  change (itoaN n ++ " label:" ++ track) with (itoaN n ++ String " " ("label:" ++ track)).
  rewrite !K. reflexivity.
Qed.

(* a repair flow found once is found again *)
Lemma flow_repair_idem : forall n l c,
  flow_repair_of n l (flow_repair_of n l c) = flow_repair_of n l c.
Proof.
  intros n l. unfold flow_repair_of.
  set (F := fun (acc : option N) (x : N * N) => if N.eqb (snd x) n then Some (fst x) else acc).
  assert (G : forall l c, (exists r : N, fold_left F l c = Some r /\ forall c', fold_left F l c' = Some r)
                          \/ forall c', fold_left F l c' = c').
  { clear l. induction l as [|x l IH]; intro c.
    - right. intro; reflexivity.
    - cbn [fold_left]. destruct (N.eqb (snd x) n) eqn:E.
      + assert (HF : forall a, F a x = Some (fst x)) by (intro; unfold F; now rewrite E).
        rewrite HF. destruct (IH (Some (fst x))) as [[r [H1 H2]]|H].
        * left. exists r. split; [auto|intro c'; cbn [fold_left]; rewrite ?HF; auto].
        * left. exists (fst x). split; [apply H|intro c'; cbn [fold_left]; rewrite ?HF; apply H].
      + assert (HF : forall a, F a x = a) by (intro; unfold F; now rewrite E).
        rewrite HF. destruct (IH c) as [[r [H1 H2]]|H].
        * left. exists r. split; [auto|intro c'; cbn [fold_left]; rewrite ?HF; auto].
        * right. intro c'. cbn [fold_left]. rewrite ?HF. apply H. }
  intro c. destruct (G l c) as [[r [H1 H2]]|H].
  - rewrite H1. apply H2.
  - rewrite !H. reflexivity.
Qed.

(* the primary source, read into an empty track list *)
Lemma source_read : forall mid k st n stream track,
  u32 n -> no_space stream = true -> no_space track = true ->
  flow_has n (ts_rtx st) = false -> flow_has n (ts_fec st) = false -> ts_tracks st = [] ->
  td_loop mid k st (media_source n stream track)
  = Ok {| ts_tracks := [{| td_mid := mid; td_kind := k; td_stream := stream; td_id := track;
                           td_ssrcs := [n];
                           td_rtx := flow_repair_of n (ts_rtx st) None;
                           td_fec := flow_repair_of n (ts_fec st) None;
                           td_rids := [] |}];
          ts_rtx := ts_rtx st; ts_fec := ts_fec st; ts_stream := stream; ts_track := track |}.
Proof.
  intros mid k st n stream track Hn Hs Ht Hr Hf Hnil.
  unfold media_source. cbn [td_loop td_step].
  change (String.eqb "ssrc" "ssrc-group") with false. change (String.eqb "ssrc" "msid") with false.
  change (String.eqb "ssrc" "ssrc") with true. cbv iota.
  change (itoaN n ++ " cname:" ++ stream) with (itoaN n ++ String " " ("cname:" ++ stream)).
  change (itoaN n ++ " msid:" ++ stream ++ " " ++ track)
    with (itoaN n ++ String " " ("msid:" ++ stream ++ String " " track)).
  change (itoaN n ++ " mslabel:" ++ stream) with (itoaN n ++ String " " ("mslabel:" ++ stream)).
  change (itoaN n ++ " label:" ++ track) with (itoaN n ++ String " " ("label:" ++ track)).
  (* line 1: cname *)
  unfold step_ssrc at 1. rewrite split_source2 by auto. rewrite parse_u32_itoaN by exact Hn.
  rewrite Hr, Hf, Hnil. cbn [last_with_ssrc app].
  (* line 2: msid *)
  unfold step_ssrc at 1. cbn [ts_rtx ts_fec ts_tracks ts_stream ts_track].
  rewrite split_source3 by auto. rewrite parse_u32_itoaN by exact Hn. rewrite Hr, Hf.
  rewrite strip_prefix_app.
  cbn [last_with_ssrc existsb td_ssrcs]. rewrite N.eqb_refl. cbn [orb nth_error update_nth td_rtx td_fec td_rids].
  (* line 3: mslabel *)
  unfold step_ssrc at 1. cbn [ts_rtx ts_fec ts_tracks ts_stream ts_track].
  rewrite split_source2 by auto. rewrite parse_u32_itoaN by exact Hn. rewrite Hr, Hf.
  cbn [last_with_ssrc existsb td_ssrcs]. rewrite N.eqb_refl. cbn [orb nth_error update_nth td_rtx td_fec td_rids].
  (* line 4: label *)
  unfold step_ssrc at 1. cbn [ts_rtx ts_fec ts_tracks ts_stream ts_track].
  rewrite split_source2 by auto. rewrite parse_u32_itoaN by exact Hn. rewrite Hr, Hf.
  cbn [last_with_ssrc existsb td_ssrcs]. rewrite N.eqb_refl. cbn [orb nth_error update_nth td_rtx td_fec td_rids].
  rewrite !flow_repair_idem. reflexivity.
Qed.

Lemma step_msid_line : forall st stream track,
  no_space stream = true -> no_space track = true ->
  step_msid st (stream ++ " " ++ track)
  = Ok {| ts_tracks := ts_tracks st; ts_rtx := ts_rtx st; ts_fec := ts_fec st;
          ts_stream := stream; ts_track := track |}.
Proof.
  intros st stream track Hs Ht. unfold step_msid.
  change (stream ++ " " ++ track) with (stream ++ String " " track).
  rewrite split_msid by auto. reflexivity.
Qed.

Lemma td_loop_app : forall mid k a b st,
  td_loop mid k st (a ++ b) =
  match td_loop mid k st a with Ok st' => td_loop mid k st' b | e => e end.
Proof.
  induction a as [|x a IH]; intros b st; cbn [app td_loop]; auto.
  destruct (td_step mid k st x); auto.
Qed.

(* a sender with one encoding, as GetParameters reports it *)
Definition single_sender (tr : trk) (ssrc rtx fec : N) : sender :=
  {| sn_encs := [{| e_track := Some tr; e_ssrc := ssrc; e_rtx := rtx; e_fec := fec |}];
     sn_negotiated := false; sn_sent := false; sn_stopped := false |}.

Definition nz (n : N) : option N := if N.eqb n 0 then None else Some n.

Lemma roundtrip_single : forall mid k tr ssrc rtx fec neg sent stopped,
  no_space (k_id tr) = true -> no_space (k_stream tr) = true ->
  u32 ssrc -> u32 rtx -> u32 fec ->
  (rtx = 0 \/ rtx <> ssrc)%N -> (fec = 0 \/ fec <> ssrc)%N -> (rtx = 0 \/ fec = 0 \/ rtx <> fec)%N ->
  track_details_media mid k
    (sender_attrs (Some {| sn_encs := [{| e_track := Some tr; e_ssrc := ssrc; e_rtx := rtx; e_fec := fec |}];
                           sn_negotiated := neg; sn_sent := sent; sn_stopped := stopped |}))
  = Ok [{| td_mid := mid; td_kind := k; td_stream := k_stream tr; td_id := k_id tr;
           td_ssrcs := [ssrc]; td_rtx := nz rtx; td_fec := nz fec; td_rids := [] |}].
Proof.
  intros mid k tr ssrc rtx fec neg sent stopped Hid Hst Hs Hr Hf Drs Dfs Drf.
  unfold track_details_media, sender_attrs, sender_track. cbn [sn_encs e_track flat_map List.length Nat.ltb Nat.leb].
  rewrite !app_nil_r. unfold enc_attrs. cbn [e_ssrc e_rtx e_fec].
  (* no rid lines: the simulcast branch is not taken *)
  assert (Hrid : forall l, (forall a, In a l -> fst a = "ssrc-group" \/ fst a = "ssrc" \/ fst a = "msid") -> rid_ids l = []).
  { induction l as [|a l IH]; intro H; [reflexivity|].
    unfold rid_ids in *. cbn [flat_map]. rewrite IH by (intros; apply H; now right).
    destruct (H a (or_introl eq_refl)) as [E|[E|E]]; rewrite E; reflexivity. }
  unfold nz.
  destruct (N.eqb rtx 0) eqn:Er; destruct (N.eqb fec 0) eqn:Ef; cbn [app].
  - (* no RTX, no FEC *)
    rewrite Hrid by (unfold media_source; cbn; intros a Ha; repeat (destruct Ha as [<-|Ha]; [cbn; auto|]); contradiction).
    rewrite td_loop_app, source_read by (cbn; auto). cbn [td_loop td_step ts_tracks].
    change (String.eqb "msid" "ssrc-group") with false. change (String.eqb "msid" "msid") with true. cbv iota.
    rewrite step_msid_line by auto. reflexivity.
  - (* FEC only *)
    apply N.eqb_neq in Ef. destruct Dfs as [Dfs|Dfs]; [congruence|].
    rewrite Hrid by (unfold media_source; cbn; intros a Ha; repeat (destruct Ha as [<-|Ha]; [cbn; auto|]); contradiction).
    cbn [td_loop td_step]. change (String.eqb "ssrc-group" "ssrc-group") with true. cbv iota.
    rewrite step_fec_empty by (cbn; auto).
    rewrite !td_loop_app.
    rewrite source_read; cbn [ts_rtx ts_fec ts_tracks td_init flow_set filter app flow_has existsb fst]; auto.
    2:{ apply N.eqb_neq in Dfs. cbn. rewrite Dfs. reflexivity. }
    rewrite td_loop_app, source_skipped by (cbn; auto; rewrite N.eqb_refl; auto).
    cbn [td_loop td_step ts_tracks].
    change (String.eqb "msid" "ssrc-group") with false. change (String.eqb "msid" "msid") with true. cbv iota.
    rewrite step_msid_line by auto. cbn [flow_repair_of fold_left snd fst]. rewrite N.eqb_refl. reflexivity.
  - (* RTX only *)
    apply N.eqb_neq in Er. destruct Drs as [Drs|Drs]; [congruence|].
    rewrite Hrid by (unfold media_source; cbn; intros a Ha; repeat (destruct Ha as [<-|Ha]; [cbn; auto|]); contradiction).
    cbn [td_loop td_step]. change (String.eqb "ssrc-group" "ssrc-group") with true. cbv iota.
    rewrite step_fid_empty by (cbn; auto).
    rewrite !td_loop_app.
    rewrite source_read; cbn [ts_rtx ts_fec ts_tracks td_init flow_set filter app flow_has existsb fst]; auto.
    2:{ apply N.eqb_neq in Drs. cbn. rewrite Drs. reflexivity. }
    rewrite td_loop_app, source_skipped by (cbn; auto; rewrite N.eqb_refl; auto).
    cbn [td_loop td_step ts_tracks].
    change (String.eqb "msid" "ssrc-group") with false. change (String.eqb "msid" "msid") with true. cbv iota.
    rewrite step_msid_line by auto. cbn [flow_repair_of fold_left snd fst]. rewrite N.eqb_refl. reflexivity.
  - (* RTX and FEC *)
    apply N.eqb_neq in Er. apply N.eqb_neq in Ef.
    destruct Drs as [Drs|Drs]; [congruence|]. destruct Dfs as [Dfs|Dfs]; [congruence|].
    destruct Drf as [Drf|[Drf|Drf]]; try congruence.
    rewrite Hrid by (unfold media_source; cbn; intros a Ha; repeat (destruct Ha as [<-|Ha]; [cbn; auto|]); contradiction).
    cbn [td_loop td_step]. change (String.eqb "ssrc-group" "ssrc-group") with true. cbv iota.
    rewrite step_fid_empty by (cbn; auto). cbn [td_loop td_step].
    change (String.eqb "ssrc-group" "ssrc-group") with true. cbv iota.
    rewrite step_fec_empty by (cbn; auto).
    rewrite !td_loop_app.
    rewrite source_read; cbn [ts_rtx ts_fec ts_tracks td_init flow_set filter app flow_has existsb fst]; auto.
    2:{ apply N.eqb_neq in Drs. cbn. rewrite Drs. reflexivity. }
    2:{ apply N.eqb_neq in Dfs. cbn. rewrite Dfs. reflexivity. }
    rewrite td_loop_app, source_skipped by (cbn; auto; rewrite N.eqb_refl; auto).
    rewrite td_loop_app, source_skipped by (cbn; auto; rewrite N.eqb_refl, orb_true_r; auto).
    cbn [td_loop td_step ts_tracks].
    change (String.eqb "msid" "ssrc-group") with false. change (String.eqb "msid" "msid") with true. cbv iota.
    rewrite step_msid_line by auto. cbn [flow_repair_of fold_left snd fst]. rewrite !N.eqb_refl. reflexivity.
Qed.

(* ====================================================================== *)
(* any number of encodings (the simulcast envelope)                        *)
(* ====================================================================== *)

(* every track read so far lists exactly one ssrc, and it is not n *)
Definition tfresh (n : N) (T : list tdetail) : Prop :=
  Forall (fun x => exists s, td_ssrcs x = [s] /\ s <> n) T.
(* no repair flow read so far mentions n, as repair or as base *)
Definition ffresh (n : N) (l : list (N * N)) : Prop :=
  Forall (fun x => fst x <> n /\ snd x <> n) l.

Lemma ffresh_fst : forall n l, ffresh n l -> Forall (fun x => fst x <> n) l.
Proof. intros n l H. eapply Forall_impl; [|exact H]. cbn. tauto. Qed.
Lemma ffresh_snd : forall n l, ffresh n l -> Forall (fun x => snd x <> n) l.
Proof. intros n l H. eapply Forall_impl; [|exact H]. cbn. tauto. Qed.

Lemma existsb_fresh : forall n x,
  (exists s, td_ssrcs x = [s] /\ s <> n) -> existsb (N.eqb n) (td_ssrcs x) = false.
Proof.
  intros n x [s [-> H]]. cbn. destruct (N.eqb n s) eqn:E; [apply N.eqb_eq in E; congruence|]. reflexivity.
Qed.

Lemma filter_track_fresh : forall n T, tfresh n T -> filter_track_with_ssrc T n = T.
Proof.
  unfold filter_track_with_ssrc. induction 1 as [|x T Hx _ IH]; cbn [filter]; auto.
  rewrite (existsb_fresh _ _ Hx). cbn [negb]. now rewrite IH.
Qed.

Lemma mark_repair_fresh : forall set n T, tfresh n T -> mark_repair set n T = Ok T.
Proof.
  induction 1 as [|x T [s [Hs Hn]] _ IH]; cbn [mark_repair]; auto.
  rewrite Hs, IH. destruct (N.eqb s n) eqn:E; [apply N.eqb_eq in E; congruence|]. reflexivity.
Qed.

Lemma flow_set_fresh : forall r b l,
  Forall (fun x => fst x <> r) l -> flow_set r b l = (l ++ [(r, b)])%list.
Proof.
  unfold flow_set. intros r b l H. f_equal. induction H as [|x l Hx _ IH]; cbn [filter]; auto.
  destruct (N.eqb (fst x) r) eqn:E; [apply N.eqb_eq in E; congruence|]. cbn [negb]. now rewrite IH.
Qed.

Lemma flow_has_fresh : forall n l, Forall (fun x => fst x <> n) l -> flow_has n l = false.
Proof.
  unfold flow_has. induction 1 as [|x l Hx _ IH]; cbn [existsb]; auto.
  destruct (N.eqb (fst x) n) eqn:E; [apply N.eqb_eq in E; congruence|]. exact IH.
Qed.

Lemma flow_has_snoc : forall r b l, flow_has r (l ++ [(r, b)]) = true.
Proof.
  intros r b l. unfold flow_has. rewrite existsb_app. cbn. rewrite N.eqb_refl. now rewrite orb_true_r.
Qed.

Lemma flow_repair_fresh : forall n l c, Forall (fun x => snd x <> n) l -> flow_repair_of n l c = c.
Proof.
  unfold flow_repair_of. intros n l c H. revert c. induction H as [|x l Hx _ IH]; intro c; cbn [fold_left]; auto.
  destruct (N.eqb (snd x) n) eqn:E; [apply N.eqb_eq in E; congruence|]. apply IH.
Qed.

Lemma flow_repair_app : forall n l l' c,
  flow_repair_of n (l ++ l') c = flow_repair_of n l' (flow_repair_of n l c).
Proof. intros. unfold flow_repair_of. now rewrite fold_left_app. Qed.

Lemma last_fresh : forall n T i c, tfresh n T -> last_with_ssrc n T i c = c.
Proof.
  intros n T i c H. revert i c. induction H as [|x T Hx _ IH]; intros i c; cbn [last_with_ssrc]; auto.
  rewrite (existsb_fresh _ _ Hx). apply IH.
Qed.

Lemma last_snoc : forall n T t i c, tfresh n T -> td_ssrcs t = [n] ->
  last_with_ssrc n (T ++ [t]) i c = Some (i + List.length T)%nat.
Proof.
  intros n T t i c H Ht. revert i c.
  induction H as [|x T Hx _ IH]; intros i c; cbn [app last_with_ssrc List.length].
  - rewrite Ht. cbn [existsb]. rewrite N.eqb_refl. cbn [orb]. f_equal. lia.
  - rewrite (existsb_fresh _ _ Hx). rewrite IH. f_equal. lia.
Qed.

Lemma nth_snoc {A} : forall (T : list A) t, nth_error (T ++ [t]) (List.length T) = Some t.
Proof. induction T; cbn; auto. Qed.
Lemma update_snoc {A} : forall (T : list A) t f,
  update_nth (List.length T) f (T ++ [t]) = (T ++ [f t])%list.
Proof. induction T; cbn; intros; auto. now rewrite IHT. Qed.

(* a FID / FEC-FR line whose two ssrcs are new to the tracks read so far *)
Lemma step_group_fresh : forall (rtx : bool) st a b,
  u32 a -> u32 b -> tfresh b (ts_tracks st) -> tfresh a (ts_tracks st) ->
  Forall (fun x => fst x <> b) (if rtx then ts_rtx st else ts_fec st) ->
  step_group st ((if rtx then "FID" else "FEC-FR") ++ " " ++ itoaN a ++ " " ++ itoaN b)
  = Ok {| ts_tracks := ts_tracks st;
          ts_rtx := if rtx then (ts_rtx st ++ [(b, a)])%list else ts_rtx st;
          ts_fec := if rtx then ts_fec st else (ts_fec st ++ [(b, a)])%list;
          ts_stream := ts_stream st; ts_track := ts_track st |}.
Proof.
  intros rtx st a b Ha Hb Tb Ta Fb. unfold step_group. destruct rtx.
  - rewrite (split_group "FID") by reflexivity.
    change (String.eqb "FID" "FID") with true. cbv iota.
    unfold step_group_with. rewrite !parse_u32_itoaN by assumption.
    rewrite filter_track_fresh by exact Tb. rewrite mark_repair_fresh by exact Ta.
    rewrite flow_set_fresh by exact Fb. reflexivity.
  - rewrite (split_group "FEC-FR") by reflexivity.
    change (String.eqb "FEC-FR" "FID") with false. change (String.eqb "FEC-FR" "FEC-FR") with true. cbv iota.
    unfold step_group_with. rewrite !parse_u32_itoaN by assumption.
    rewrite filter_track_fresh by exact Tb. rewrite mark_repair_fresh by exact Ta.
    rewrite flow_set_fresh by exact Fb. reflexivity.
Qed.

(* the four lines of a primary source whose ssrc is new: one track is appended *)
Lemma source_read_gen : forall mid k st n stream track,
  u32 n -> no_space stream = true -> no_space track = true ->
  Forall (fun x => fst x <> n) (ts_rtx st) -> Forall (fun x => fst x <> n) (ts_fec st) ->
  tfresh n (ts_tracks st) ->
  td_loop mid k st (media_source n stream track)
  = Ok {| ts_tracks := ts_tracks st ++
                       [{| td_mid := mid; td_kind := k; td_stream := stream; td_id := track;
                           td_ssrcs := [n];
                           td_rtx := flow_repair_of n (ts_rtx st) None;
                           td_fec := flow_repair_of n (ts_fec st) None;
                           td_rids := [] |}];
          ts_rtx := ts_rtx st; ts_fec := ts_fec st; ts_stream := stream; ts_track := track |}.
Proof.
  intros mid k st n stream track Hn Hs Ht Hr0 Hf0 Hfresh.
  pose proof (flow_has_fresh _ _ Hr0) as Hr. pose proof (flow_has_fresh _ _ Hf0) as Hf.
  unfold media_source. cbn [td_loop td_step].
  change (String.eqb "ssrc" "ssrc-group") with false. change (String.eqb "ssrc" "msid") with false.
  change (String.eqb "ssrc" "ssrc") with true. cbv iota.
  change (itoaN n ++ " cname:" ++ stream) with (itoaN n ++ String " " ("cname:" ++ stream)).
  change (itoaN n ++ " msid:" ++ stream ++ " " ++ track)
    with (itoaN n ++ String " " ("msid:" ++ stream ++ String " " track)).
  change (itoaN n ++ " mslabel:" ++ stream) with (itoaN n ++ String " " ("mslabel:" ++ stream)).
  change (itoaN n ++ " label:" ++ track) with (itoaN n ++ String " " ("label:" ++ track)).
  (* line 1: cname -- a new track *)
  unfold step_ssrc at 1. rewrite split_source2 by auto. rewrite parse_u32_itoaN by exact Hn.
  rewrite Hr, Hf. rewrite last_fresh by exact Hfresh. cbv iota.
  (* line 2: msid *)
  unfold step_ssrc at 1. cbn [ts_rtx ts_fec ts_tracks ts_stream ts_track].
  rewrite split_source3 by auto. rewrite parse_u32_itoaN by exact Hn. rewrite Hr, Hf.
  rewrite strip_prefix_app.
  rewrite last_snoc by (auto). cbn [Nat.add]. rewrite nth_snoc, update_snoc. cbn [td_rtx td_fec td_rids].
  (* line 3: mslabel *)
  unfold step_ssrc at 1. cbn [ts_rtx ts_fec ts_tracks ts_stream ts_track].
  rewrite split_source2 by auto. rewrite parse_u32_itoaN by exact Hn. rewrite Hr, Hf.
  rewrite last_snoc by (auto). cbn [Nat.add]. rewrite nth_snoc, update_snoc. cbn [td_rtx td_fec td_rids].
  (* line 4: label *)
  unfold step_ssrc at 1. cbn [ts_rtx ts_fec ts_tracks ts_stream ts_track].
  rewrite split_source2 by auto. rewrite parse_u32_itoaN by exact Hn. rewrite Hr, Hf.
  rewrite last_snoc by (auto). cbn [Nat.add]. rewrite nth_snoc, update_snoc. cbn [td_rtx td_fec td_rids].
  rewrite !flow_repair_idem. reflexivity.
Qed.

(* ---------- one encoding's lines ---------- *)

Definition nzl (n : N) : list N := if N.eqb n 0 then [] else [n].
(* the ssrc values one encoding announces *)
Definition enc_vals (e : enc) : list N := e_ssrc e :: (nzl (e_rtx e) ++ nzl (e_fec e))%list.
(* the track trackDetailsFromSDP's switch builds for one encoding *)
Definition det (mid : string) (k : kind) (stream track : string) (e : enc) : tdetail :=
  {| td_mid := mid; td_kind := k; td_stream := stream; td_id := track;
     td_ssrcs := [e_ssrc e]; td_rtx := nz (e_rtx e); td_fec := nz (e_fec e); td_rids := [] |}.
Definition rflow (e : enc) : list (N * N) := if N.eqb (e_rtx e) 0 then [] else [(e_rtx e, e_ssrc e)].
Definition fflow (e : enc) : list (N * N) := if N.eqb (e_fec e) 0 then [] else [(e_fec e, e_ssrc e)].

Definition st_fresh (v : N) (st : tdstate) : Prop :=
  tfresh v (ts_tracks st) /\ ffresh v (ts_rtx st) /\ ffresh v (ts_fec st).

Lemma msid_step : forall mid k st stream track,
  no_space stream = true -> no_space track = true ->
  td_loop mid k st [("msid", stream ++ " " ++ track)]
  = Ok {| ts_tracks := ts_tracks st; ts_rtx := ts_rtx st; ts_fec := ts_fec st;
          ts_stream := stream; ts_track := track |}.
Proof.
  intros. cbn [td_loop td_step].
  change (String.eqb "msid" "ssrc-group") with false. change (String.eqb "msid" "msid") with true. cbv iota.
  now rewrite step_msid_line by auto.
Qed.

Lemma Forall_snoc {A} (P : A -> Prop) : forall l x, Forall P l -> P x -> Forall P (l ++ [x]).
Proof. intros. apply Forall_app. split; auto. Qed.

Lemma enc_step : forall mid k stream track st e,
  no_space stream = true -> no_space track = true ->
  Forall u32 (enc_vals e) -> NoDup (enc_vals e) ->
  (forall v, In v (enc_vals e) -> st_fresh v st) ->
  td_loop mid k st (enc_attrs stream track e)
  = Ok {| ts_tracks := ts_tracks st ++ [det mid k stream track e];
          ts_rtx := ts_rtx st ++ rflow e; ts_fec := ts_fec st ++ fflow e;
          ts_stream := stream; ts_track := track |}.
Proof.
  intros mid k stream track st e Hs Ht Hu Hnd Hfr.
  unfold enc_attrs, enc_vals, det, rflow, fflow, nz, nzl in *.
  destruct (Hfr (e_ssrc e) (or_introl eq_refl)) as [Ts [Rs Fs]].
  assert (Us : u32 (e_ssrc e)) by (inversion Hu; auto).
  destruct (N.eqb (e_rtx e) 0) eqn:Er; destruct (N.eqb (e_fec e) 0) eqn:Ef; cbn [app] in *.
  - (* no RTX, no FEC *)
    rewrite !app_nil_r. rewrite td_loop_app.
    rewrite source_read_gen by (auto using ffresh_fst).
    rewrite msid_step by auto. cbn [ts_tracks ts_rtx ts_fec].
    rewrite (flow_repair_fresh _ (ts_rtx st)), (flow_repair_fresh _ (ts_fec st)) by (auto using ffresh_snd). reflexivity.
  - (* FEC only *)
    destruct (Hfr (e_fec e)) as [Tf [Rf Ff]]; [cbn; auto|].
    assert (Uf : u32 (e_fec e)) by (inversion Hu as [|? ? _ H2]; inversion H2; auto).
    assert (D : e_fec e <> e_ssrc e) by (inversion Hnd as [|? ? H1 _]; intro X; apply H1; rewrite X; cbn; auto).
    cbn [td_loop td_step]. change (String.eqb "ssrc-group" "ssrc-group") with true. cbv iota.
    change ("FEC-FR " ++ itoaN (e_ssrc e) ++ " " ++ itoaN (e_fec e))
      with ((if false then "FID" else "FEC-FR") ++ " " ++ itoaN (e_ssrc e) ++ " " ++ itoaN (e_fec e)).
    rewrite step_group_fresh by (auto using ffresh_fst). cbv iota.
    rewrite !td_loop_app.
    rewrite source_read_gen; cbn [ts_tracks ts_rtx ts_fec]; auto using ffresh_fst.
    2:{ apply Forall_snoc; auto using ffresh_fst. }
    rewrite td_loop_app, source_skipped by (cbn [ts_rtx ts_fec]; auto; rewrite flow_has_snoc; apply orb_true_r).
    cbv iota. rewrite msid_step by auto. cbn [ts_tracks ts_rtx ts_fec].
    rewrite flow_repair_app. rewrite (flow_repair_fresh _ (ts_rtx st)), (flow_repair_fresh _ (ts_fec st)) by (auto using ffresh_snd).
    cbn [flow_repair_of fold_left snd fst]. rewrite N.eqb_refl. rewrite ?app_nil_r. reflexivity.
  - (* RTX only *)
    destruct (Hfr (e_rtx e)) as [Tr [Rr Fr]]; [cbn; auto|].
    assert (Ur : u32 (e_rtx e)) by (inversion Hu as [|? ? _ H2]; inversion H2; auto).
    assert (D : e_rtx e <> e_ssrc e) by (inversion Hnd as [|? ? H1 _]; intro X; apply H1; rewrite X; cbn; auto).
    cbn [td_loop td_step]. change (String.eqb "ssrc-group" "ssrc-group") with true. cbv iota.
    change ("FID " ++ itoaN (e_ssrc e) ++ " " ++ itoaN (e_rtx e))
      with ((if true then "FID" else "FEC-FR") ++ " " ++ itoaN (e_ssrc e) ++ " " ++ itoaN (e_rtx e)).
    rewrite step_group_fresh by (auto using ffresh_fst). cbv iota.
    rewrite !td_loop_app.
    rewrite source_read_gen; cbn [ts_tracks ts_rtx ts_fec]; auto using ffresh_fst.
    2:{ apply Forall_snoc; auto using ffresh_fst. }
    rewrite td_loop_app, source_skipped by (cbn [ts_rtx ts_fec]; auto; rewrite flow_has_snoc; reflexivity).
    cbv iota. rewrite msid_step by auto. cbn [ts_tracks ts_rtx ts_fec].
    rewrite flow_repair_app. rewrite (flow_repair_fresh _ (ts_rtx st)), (flow_repair_fresh _ (ts_fec st)) by (auto using ffresh_snd).
    cbn [flow_repair_of fold_left snd fst]. rewrite N.eqb_refl. rewrite ?app_nil_r. reflexivity.
  - (* RTX and FEC *)
    destruct (Hfr (e_rtx e)) as [Tr [Rr Fr]]; [cbn; auto|].
    destruct (Hfr (e_fec e)) as [Tf [Rf Ff]]; [cbn; auto|].
    assert (Ur : u32 (e_rtx e)) by (inversion Hu as [|? ? _ H2]; inversion H2; auto).
    assert (Uf : u32 (e_fec e)) by (inversion Hu as [|? ? _ H2]; inversion H2 as [|? ? _ H3]; inversion H3; auto).
    assert (D1 : e_rtx e <> e_ssrc e) by (inversion Hnd as [|? ? H1 _]; intro X; apply H1; rewrite X; cbn; auto).
    assert (D2 : e_fec e <> e_ssrc e) by (inversion Hnd as [|? ? H1 _]; intro X; apply H1; rewrite X; cbn; auto).
    cbn [td_loop td_step]. change (String.eqb "ssrc-group" "ssrc-group") with true. cbv iota.
    change ("FID " ++ itoaN (e_ssrc e) ++ " " ++ itoaN (e_rtx e))
      with ((if true then "FID" else "FEC-FR") ++ " " ++ itoaN (e_ssrc e) ++ " " ++ itoaN (e_rtx e)).
    rewrite step_group_fresh by (auto using ffresh_fst). cbv iota.
    cbn [td_loop td_step]. change (String.eqb "ssrc-group" "ssrc-group") with true. cbv iota.
    change ("FEC-FR " ++ itoaN (e_ssrc e) ++ " " ++ itoaN (e_fec e))
      with ((if false then "FID" else "FEC-FR") ++ " " ++ itoaN (e_ssrc e) ++ " " ++ itoaN (e_fec e)).
    rewrite step_group_fresh by (cbn [ts_tracks ts_rtx ts_fec]; auto using ffresh_fst). cbv iota.
    cbn [ts_tracks ts_rtx ts_fec ts_stream ts_track].
    rewrite !td_loop_app.
    rewrite source_read_gen; cbn [ts_tracks ts_rtx ts_fec]; auto using ffresh_fst.
    2:{ apply Forall_snoc; auto using ffresh_fst. }
    2:{ apply Forall_snoc; auto using ffresh_fst. }
    rewrite td_loop_app, source_skipped by (cbn [ts_rtx ts_fec]; auto; rewrite flow_has_snoc; reflexivity).
    cbv iota.
    rewrite td_loop_app, source_skipped by (cbn [ts_rtx ts_fec]; auto; rewrite flow_has_snoc; apply orb_true_r).
    cbv iota. rewrite msid_step by auto. cbn [ts_tracks ts_rtx ts_fec].
    rewrite !flow_repair_app. rewrite (flow_repair_fresh _ (ts_rtx st)), (flow_repair_fresh _ (ts_fec st)) by (auto using ffresh_snd).
    cbn [flow_repair_of fold_left snd fst]. rewrite !N.eqb_refl. reflexivity.
Qed.

(* ---------- the loop over all encodings ---------- *)

Lemma NoDup_app_disjoint {A} : forall (a b : list A) x, NoDup (a ++ b) -> In x a -> In x b -> False.
Proof.
  induction a as [|y a IH]; intros b x H Ha Hb; [contradiction|].
  cbn in H. inversion H as [|? ? Hn Hr]; subst. destruct Ha as [->|Ha].
  - apply Hn. apply in_or_app. now right.
  - eapply IH; eauto.
Qed.

Lemma NoDup_app_l {A} : forall (a b : list A), NoDup (a ++ b) -> NoDup a.
Proof.
  induction a as [|y a IH]; intros b H; [constructor|].
  cbn in H. inversion H as [|? ? Hn Hr]; subst. constructor; eauto.
  intro Hc. apply Hn. apply in_or_app. now left.
Qed.
Lemma NoDup_app_r {A} : forall (a b : list A), NoDup (a ++ b) -> NoDup b.
Proof. induction a as [|y a IH]; intros b H; auto. cbn in H. inversion H; subst. auto. Qed.

Lemma in_rflow : forall e x, In x (rflow e) -> In (fst x) (enc_vals e) /\ In (snd x) (enc_vals e).
Proof.
  intros e x H. unfold rflow, enc_vals, nzl in *. destruct (N.eqb (e_rtx e) 0); [contradiction|].
  destruct H as [<-|[]]. cbn. auto.
Qed.
Lemma in_fflow : forall e x, In x (fflow e) -> In (fst x) (enc_vals e) /\ In (snd x) (enc_vals e).
Proof.
  intros e x H. unfold fflow, enc_vals, nzl in *. destruct (N.eqb (e_fec e) 0); [contradiction|].
  destruct H as [<-|[]]. cbn [fst snd]. split; [right; apply in_or_app; right; cbn; auto|left; reflexivity].
Qed.

Lemma encs_loop : forall mid k stream track encs st,
  no_space stream = true -> no_space track = true ->
  Forall u32 (flat_map enc_vals encs) -> NoDup (flat_map enc_vals encs) ->
  (forall v, In v (flat_map enc_vals encs) -> st_fresh v st) ->
  td_loop mid k st (flat_map (enc_attrs stream track) encs)
  = Ok {| ts_tracks := ts_tracks st ++ map (det mid k stream track) encs;
          ts_rtx := ts_rtx st ++ flat_map rflow encs;
          ts_fec := ts_fec st ++ flat_map fflow encs;
          ts_stream := match encs with [] => ts_stream st | _ => stream end;
          ts_track := match encs with [] => ts_track st | _ => track end |}.
Proof.
  intros mid k stream track encs. induction encs as [|e rest IH]; intros st Hs Ht Hu Hnd Hfr.
  - cbn. rewrite !app_nil_r. destruct st; reflexivity.
  - cbn [flat_map] in *. rewrite td_loop_app.
    apply Forall_app in Hu. destruct Hu as [Hu1 Hu2].
    rewrite enc_step; auto.
    2:{ eapply NoDup_app_l; eauto. }
    2:{ intros v Hv. apply Hfr. apply in_or_app. now left. }
    rewrite IH; auto.
    + cbn [ts_tracks ts_rtx ts_fec ts_stream ts_track map]. rewrite <- !app_assoc. cbn [app].
      destruct rest; reflexivity.
    + eapply NoDup_app_r; eauto.
    + intros v Hv. destruct (Hfr v) as [T [R F]]; [apply in_or_app; now right|].
      assert (Hne : forall w, In w (enc_vals e) -> w <> v).
      { intros w Hw X. subst w. eapply NoDup_app_disjoint; eauto. }
      unfold st_fresh. cbn [ts_tracks ts_rtx ts_fec]. split; [|split].
      * apply Forall_snoc; auto. exists (e_ssrc e). split; [reflexivity|]. apply Hne. cbn. auto.
      * apply Forall_app. split; auto. apply Forall_forall. intros x Hx.
        destruct (in_rflow _ _ Hx). split; apply Hne; auto.
      * apply Forall_app. split; auto. apply Forall_forall. intros x Hx.
        destruct (in_fflow _ _ Hx). split; apply Hne; auto.
Qed.

(* rid / simulcast lines do not touch the switch's state *)
Lemma td_loop_other : forall mid k l st,
  Forall (fun a => fst a = "rid" \/ fst a = "simulcast") l -> td_loop mid k st l = Ok st.
Proof.
  induction l as [|a l IH]; intros st H; [reflexivity|].
  inversion H as [|? ? Ha Hl]; subst. cbn [td_loop]. destruct a as [key v]. cbn [fst] in Ha.
  assert (E : td_step mid k st (key, v) = Ok st) by (destruct Ha; subst key; reflexivity).
  rewrite E. now apply IH.
Qed.

Lemma rid_ids_app : forall a b, rid_ids (a ++ b) = (rid_ids a ++ rid_ids b)%list.
Proof. intros. unfold rid_ids. now rewrite flat_map_app. Qed.

Lemma rid_ids_none : forall l,
  Forall (fun a => In (fst a) ["ssrc-group"; "ssrc"; "msid"]) l -> rid_ids l = [].
Proof.
  induction 1 as [|a l Ha _ IH]; [reflexivity|].
  unfold rid_ids in *. cbn [flat_map]. rewrite IH.
  destruct Ha as [E|[E|[E|[]]]]; rewrite <- E; reflexivity.
Qed.

Lemma rid_ids_rid_lines : forall encs,
  Forall (fun e => no_space (enc_rid e) = true) encs ->
  rid_ids (map (fun e => ("rid", enc_rid e ++ " send")) encs) = map enc_rid encs.
Proof.
  induction 1 as [|e l He _ IH]; [reflexivity|].
  unfold rid_ids in *. cbn [map flat_map fst snd]. change (String.eqb "rid" "rid") with true. cbv iota.
  change (enc_rid e ++ " send") with (enc_rid e ++ String " " "send").
  rewrite split_sp_app by exact He. cbn [app]. now rewrite IH.
Qed.

(* the switch's result for a sender's section, before the rid step: one track
   per encoding, in order, with the announced primary / RTX / FEC ssrcs *)
Lemma sources_of_sender : forall mid k tr e0 rest neg sent stopped,
  e_track e0 = Some tr ->
  no_space (k_id tr) = true -> no_space (k_stream tr) = true ->
  Forall u32 (flat_map enc_vals (e0 :: rest)) -> NoDup (flat_map enc_vals (e0 :: rest)) ->
  exists st,
    td_loop mid k td_init
      (sender_attrs (Some {| sn_encs := e0 :: rest; sn_negotiated := neg; sn_sent := sent; sn_stopped := stopped |}))
    = Ok st
    /\ ts_tracks st = map (det mid k (k_stream tr) (k_id tr)) (e0 :: rest)
    /\ ts_stream st = k_stream tr /\ ts_track st = k_id tr.
Proof.
  intros mid k tr e0 rest neg sent stopped Htr Hid Hst Hu Hnd.
  unfold sender_attrs, sender_track. cbn [sn_encs]. rewrite Htr.
  rewrite td_loop_app. rewrite encs_loop; auto.
  2:{ intros v _. repeat split; constructor. }
  rewrite td_loop_other.
  - eexists. split; [reflexivity|]. cbn. auto.
  - destruct (Nat.ltb 1 (List.length (e0 :: rest))); [|constructor].
    apply Forall_app. split.
    + apply Forall_forall. intros x Hx. apply in_map_iff in Hx. destruct Hx as [e [<- _]]. cbn. auto.
    + constructor; [cbn; auto|constructor].
Qed.

(* trackDetailsFromSDP's result for that section: with one encoding the track
   itself; with several (rid lines present, ids non-empty) a single simulcast
   track carrying the rids in order and no ssrc *)
Lemma roundtrip_encodings : forall mid k tr e0 rest neg sent stopped,
  e_track e0 = Some tr ->
  no_space (k_id tr) = true -> no_space (k_stream tr) = true ->
  Forall (fun e => no_space (enc_rid e) = true) (e0 :: rest) ->
  Forall u32 (flat_map enc_vals (e0 :: rest)) -> NoDup (flat_map enc_vals (e0 :: rest)) ->
  track_details_media mid k
    (sender_attrs (Some {| sn_encs := e0 :: rest; sn_negotiated := neg; sn_sent := sent; sn_stopped := stopped |}))
  = Ok (if Nat.ltb 1 (List.length (e0 :: rest))
           && (negb (String.eqb (k_id tr) "") && negb (String.eqb (k_stream tr) ""))
        then [{| td_mid := mid; td_kind := k; td_stream := k_stream tr; td_id := k_id tr;
                 td_ssrcs := []; td_rtx := None; td_fec := None; td_rids := map enc_rid (e0 :: rest) |}]
        else map (det mid k (k_stream tr) (k_id tr)) (e0 :: rest)).
Proof.
  intros mid k tr e0 rest neg sent stopped Htr Hid Hst Hrid Hu Hnd.
  destruct (sources_of_sender mid k tr e0 rest neg sent stopped Htr Hid Hst Hu Hnd) as [st [L [T [S1 S2]]]].
  unfold track_details_media. rewrite L.
  unfold sender_attrs, sender_track. cbn [sn_encs]. rewrite Htr.
  rewrite rid_ids_app. rewrite rid_ids_none.
  2:{ apply Forall_flat_map. apply Forall_forall. intros e _. apply (enc_attrs_by_key (k_stream tr) (k_id tr) e). }
  cbn [app]. destruct rest as [|e1 rest].
  - cbn. rewrite T. reflexivity.
  - change (Nat.ltb 1 (List.length (e0 :: e1 :: rest))) with true. cbv iota.
    rewrite rid_ids_app, rid_ids_rid_lines by exact Hrid.
    change (rid_ids [("simulcast", "send " ++ join_with ";" (map enc_rid (e0 :: e1 :: rest)))]) with (@nil string).
    rewrite app_nil_r. cbn [map app andb]. rewrite S1, S2, T.
    destruct (negb (String.eqb (k_id tr) "") && negb (String.eqb (k_stream tr) "")); reflexivity.
Qed.
