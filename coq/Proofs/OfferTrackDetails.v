(* C12: trackDetailsFromSDP reads back what addSenderSDP wrote (one encoding) *)
From Coq Require Import List ZArith NArith String Ascii Bool Lia.
Import ListNotations.
From Verif Require Import Common.Base Common.NegoText Model.OfferShape Model.OfferTrackDetails
  Proofs.NegoText.
Open Scope string_scope.

Definition u32 (n : N) : Prop := (n < 4294967296)%N.

(* ---------- splitting the lines addSenderSDP writes ---------- *)

Lemma split_group : forall tok a b, no_space tok = true ->
  split_sp (tok ++ " " ++ itoaN a ++ " " ++ itoaN b) = [tok; itoaN a; itoaN b].
Proof.
  intros tok a b H. change (tok ++ " " ++ itoaN a ++ " " ++ itoaN b)
    with (tok ++ String " " (itoaN a ++ String " " (itoaN b))).
  rewrite split_sp_app by exact H. rewrite split_sp_app by apply itoaN_no_space.
  rewrite split_sp_no_space by apply itoaN_no_space. reflexivity.
Qed.

Lemma split_source2 : forall n tag x, no_space tag = true -> no_space x = true ->
  split_sp (itoaN n ++ String " " (tag ++ x)) = [itoaN n; tag ++ x].
Proof.
  intros n tag x Ht Hx. rewrite split_sp_app by apply itoaN_no_space.
  rewrite split_sp_no_space; auto. rewrite no_space_app, Ht, Hx. reflexivity.
Qed.

Lemma split_source3 : forall n tag x y, no_space tag = true -> no_space x = true -> no_space y = true ->
  split_sp (itoaN n ++ String " " (tag ++ x ++ String " " y)) = [itoaN n; tag ++ x; y].
Proof.
  intros n tag x y Ht Hx Hy. rewrite split_sp_app by apply itoaN_no_space.
  rewrite <- append_assoc. rewrite split_sp_app by (rewrite no_space_app, Ht, Hx; reflexivity).
  rewrite split_sp_no_space; auto.
Qed.

Lemma split_msid : forall x y, no_space x = true -> no_space y = true ->
  split_sp (x ++ String " " y) = [x; y].
Proof. intros x y Hx Hy. rewrite split_sp_app by exact Hx. now rewrite split_sp_no_space. Qed.

(* ---------- the switch, per line ---------- *)

Lemma step_fid_empty : forall st a b,
  u32 a -> u32 b -> ts_tracks st = [] ->
  step_group st ("FID " ++ itoaN a ++ " " ++ itoaN b)
  = Ok {| ts_tracks := []; ts_rtx := flow_set b a (ts_rtx st); ts_fec := ts_fec st;
          ts_stream := ts_stream st; ts_track := ts_track st |}.
Proof.
  intros st a b Ha Hb Ht. unfold step_group.
  change ("FID " ++ itoaN a ++ " " ++ itoaN b) with ("FID" ++ " " ++ itoaN a ++ " " ++ itoaN b).
  rewrite (split_group "FID") by reflexivity. cbn [String.eqb Ascii.eqb Bool.eqb].
  change (String.eqb "FID" "FID") with true. cbv iota.
  unfold step_group_with. rewrite !parse_u32_itoaN by assumption. rewrite Ht. reflexivity.
Qed.

Lemma step_fec_empty : forall st a b,
  u32 a -> u32 b -> ts_tracks st = [] ->
  step_group st ("FEC-FR " ++ itoaN a ++ " " ++ itoaN b)
  = Ok {| ts_tracks := []; ts_rtx := ts_rtx st; ts_fec := flow_set b a (ts_fec st);
          ts_stream := ts_stream st; ts_track := ts_track st |}.
Proof.
  intros st a b Ha Hb Ht. unfold step_group.
  change ("FEC-FR " ++ itoaN a ++ " " ++ itoaN b) with ("FEC-FR" ++ " " ++ itoaN a ++ " " ++ itoaN b).
  rewrite (split_group "FEC-FR") by reflexivity.
  change (String.eqb "FEC-FR" "FID") with false. change (String.eqb "FEC-FR" "FEC-FR") with true. cbv iota.
  unfold step_group_with. rewrite !parse_u32_itoaN by assumption. rewrite Ht. reflexivity.
Qed.

(* a source whose ssrc is a known repair flow is skipped, all four lines *)
Lemma source_skipped : forall mid k st n stream track,
  u32 n -> flow_has n (ts_rtx st) || flow_has n (ts_fec st) = true ->
  td_loop mid k st (media_source n stream track) = Ok st.
Proof.
  intros mid k st n stream track Hn Hf.
  assert (S : forall v, exists rest, split_sp (itoaN n ++ String " " v) = itoaN n :: rest).
  { intro v. rewrite split_sp_app by apply itoaN_no_space. eauto. }
  assert (K : forall v, step_ssrc mid k st (itoaN n ++ String " " v) = Ok st).
  { intro v. unfold step_ssrc. destruct (S v) as [rest ->]. rewrite parse_u32_itoaN by exact Hn.
    apply orb_true_iff in Hf. destruct Hf as [Hf|Hf].
    - now rewrite Hf.
    - rewrite Hf. destruct (flow_has n (ts_rtx st)); reflexivity. }
  unfold media_source. cbn [td_loop td_step].
  change (String.eqb "ssrc" "ssrc-group") with false. change (String.eqb "ssrc" "msid") with false.
  change (String.eqb "ssrc" "ssrc") with true. cbv iota.
  change (itoaN n ++ " cname:" ++ stream) with (itoaN n ++ String " " ("cname:" ++ stream)).
  change (itoaN n ++ " msid:" ++ stream ++ " " ++ track) with (itoaN n ++ String " " ("msid:" ++ stream ++ " " ++ track)).
  change (itoaN n ++ " mslabel:" ++ stream) with (itoaN n ++ String " " ("mslabel:" ++ stream)).
  change (itoaN n ++ " label:" ++ track) with (itoaN n ++ String " " ("label:" ++ track)).
  rewrite !K. reflexivity.
Qed.

(* a repair flow found once is found again *)
Lemma flow_repair_idem : forall n l c,
  flow_repair_of n l (flow_repair_of n l c) = flow_repair_of n l c.
Proof.
  intros n l. unfold flow_repair_of.
  set (F := fun (acc : option N) (x : N * N) => if N.eqb (snd x) n then Some (fst x) else acc).
  assert (G : forall l c, (exists r : N, fold_left F l c = Some r /\ forall c', fold_left F l c' = Some r)
                          \/ forall c', fold_left F l c' = c').
  { clear l. induction l as [|x l IH]; intro c.
    - right. intro; reflexivity.
    - cbn [fold_left]. destruct (N.eqb (snd x) n) eqn:E.
      + assert (HF : forall a, F a x = Some (fst x)) by (intro; unfold F; now rewrite E).
        rewrite HF. destruct (IH (Some (fst x))) as [[r [H1 H2]]|H].
        * left. exists r. split; [auto|intro c'; cbn [fold_left]; rewrite ?HF; auto].
        * left. exists (fst x). split; [apply H|intro c'; cbn [fold_left]; rewrite ?HF; apply H].
      + assert (HF : forall a, F a x = a) by (intro; unfold F; now rewrite E).
        rewrite HF. destruct (IH c) as [[r [H1 H2]]|H].
        * left. exists r. split; [auto|intro c'; cbn [fold_left]; rewrite ?HF; auto].
        * right. intro c'. cbn [fold_left]. rewrite ?HF. apply H. }
  intro c. destruct (G l c) as [[r [H1 H2]]|H].
  - rewrite H1. apply H2.
  - rewrite !H. reflexivity.
Qed.

(* the primary source, read into an empty track list *)
Lemma source_read : forall mid k st n stream track,
  u32 n -> no_space stream = true -> no_space track = true ->
  flow_has n (ts_rtx st) = false -> flow_has n (ts_fec st) = false -> ts_tracks st = [] ->
  td_loop mid k st (media_source n stream track)
  = Ok {| ts_tracks := [{| td_mid := mid; td_kind := k; td_stream := stream; td_id := track;
                           td_ssrcs := [n];
                           td_rtx := flow_repair_of n (ts_rtx st) None;
                           td_fec := flow_repair_of n (ts_fec st) None;
                           td_rids := [] |}];
          ts_rtx := ts_rtx st; ts_fec := ts_fec st; ts_stream := stream; ts_track := track |}.
Proof.
  intros mid k st n stream track Hn Hs Ht Hr Hf Hnil.
  unfold media_source. cbn [td_loop td_step].
  change (String.eqb "ssrc" "ssrc-group") with false. change (String.eqb "ssrc" "msid") with false.
  change (String.eqb "ssrc" "ssrc") with true. cbv iota.
  change (itoaN n ++ " cname:" ++ stream) with (itoaN n ++ String " " ("cname:" ++ stream)).
  change (itoaN n ++ " msid:" ++ stream ++ " " ++ track)
    with (itoaN n ++ String " " ("msid:" ++ stream ++ String " " track)).
  change (itoaN n ++ " mslabel:" ++ stream) with (itoaN n ++ String " " ("mslabel:" ++ stream)).
  change (itoaN n ++ " label:" ++ track) with (itoaN n ++ String " " ("label:" ++ track)).
  (* line 1: cname *)
  unfold step_ssrc at 1. rewrite split_source2 by auto. rewrite parse_u32_itoaN by exact Hn.
  rewrite Hr, Hf, Hnil. cbn [last_with_ssrc app].
  (* line 2: msid *)
  unfold step_ssrc at 1. cbn [ts_rtx ts_fec ts_tracks ts_stream ts_track].
  rewrite split_source3 by auto. rewrite parse_u32_itoaN by exact Hn. rewrite Hr, Hf.
  rewrite strip_prefix_app.
  cbn [last_with_ssrc existsb td_ssrcs]. rewrite N.eqb_refl. cbn [orb nth_error update_nth td_rtx td_fec td_rids].
  (* line 3: mslabel *)
  unfold step_ssrc at 1. cbn [ts_rtx ts_fec ts_tracks ts_stream ts_track].
  rewrite split_source2 by auto. rewrite parse_u32_itoaN by exact Hn. rewrite Hr, Hf.
  cbn [last_with_ssrc existsb td_ssrcs]. rewrite N.eqb_refl. cbn [orb nth_error update_nth td_rtx td_fec td_rids].
  (* line 4: label *)
  unfold step_ssrc at 1. cbn [ts_rtx ts_fec ts_tracks ts_stream ts_track].
  rewrite split_source2 by auto. rewrite parse_u32_itoaN by exact Hn. rewrite Hr, Hf.
  cbn [last_with_ssrc existsb td_ssrcs]. rewrite N.eqb_refl. cbn [orb nth_error update_nth td_rtx td_fec td_rids].
  rewrite !flow_repair_idem. reflexivity.
Qed.

Lemma step_msid_line : forall st stream track,
  no_space stream = true -> no_space track = true ->
  step_msid st (stream ++ " " ++ track)
  = Ok {| ts_tracks := ts_tracks st; ts_rtx := ts_rtx st; ts_fec := ts_fec st;
          ts_stream := stream; ts_track := track |}.
Proof.
  intros st stream track Hs Ht. unfold step_msid.
  change (stream ++ " " ++ track) with (stream ++ String " " track).
  rewrite split_msid by auto. reflexivity.
Qed.

Lemma td_loop_app : forall mid k a b st,
  td_loop mid k st (a ++ b) =
  match td_loop mid k st a with Ok st' => td_loop mid k st' b | e => e end.
Proof.
  induction a as [|x a IH]; intros b st; cbn [app td_loop]; auto.
  destruct (td_step mid k st x); auto.
Qed.

(* a sender with one encoding, as GetParameters reports it *)
Definition single_sender (tr : trk) (ssrc rtx fec : N) : sender :=
  {| sn_encs := [{| e_track := Some tr; e_ssrc := ssrc; e_rtx := rtx; e_fec := fec |}];
     sn_negotiated := false; sn_sent := false; sn_stopped := false |}.

Definition nz (n : N) : option N := if N.eqb n 0 then None else Some n.

Lemma roundtrip_single : forall mid k tr ssrc rtx fec neg sent stopped,
  no_space (k_id tr) = true -> no_space (k_stream tr) = true ->
  u32 ssrc -> u32 rtx -> u32 fec ->
  (rtx = 0 \/ rtx <> ssrc)%N -> (fec = 0 \/ fec <> ssrc)%N -> (rtx = 0 \/ fec = 0 \/ rtx <> fec)%N ->
  track_details_media mid k
    (sender_attrs (Some {| sn_encs := [{| e_track := Some tr; e_ssrc := ssrc; e_rtx := rtx; e_fec := fec |}];
                           sn_negotiated := neg; sn_sent := sent; sn_stopped := stopped |}))
  = Ok [{| td_mid := mid; td_kind := k; td_stream := k_stream tr; td_id := k_id tr;
           td_ssrcs := [ssrc]; td_rtx := nz rtx; td_fec := nz fec; td_rids := [] |}].
Proof.
  intros mid k tr ssrc rtx fec neg sent stopped Hid Hst Hs Hr Hf Drs Dfs Drf.
  unfold track_details_media, sender_attrs, sender_track. cbn [sn_encs e_track flat_map List.length Nat.ltb Nat.leb].
  rewrite !app_nil_r. unfold enc_attrs. cbn [e_ssrc e_rtx e_fec].
  (* no rid lines: the simulcast branch is not taken *)
  assert (Hrid : forall l, (forall a, In a l -> fst a = "ssrc-group" \/ fst a = "ssrc" \/ fst a = "msid") -> rid_ids l = []).
  { induction l as [|a l IH]; intro H; [reflexivity|].
    unfold rid_ids in *. cbn [flat_map]. rewrite IH by (intros; apply H; now right).
    destruct (H a (or_introl eq_refl)) as [E|[E|E]]; rewrite E; reflexivity. }
  unfold nz.
  destruct (N.eqb rtx 0) eqn:Er; destruct (N.eqb fec 0) eqn:Ef; cbn [app].
  - (* no RTX, no FEC *)
    rewrite Hrid by (unfold media_source; cbn; intros a Ha; repeat (destruct Ha as [<-|Ha]; [cbn; auto|]); contradiction).
    rewrite td_loop_app, source_read by (cbn; auto). cbn [td_loop td_step ts_tracks].
    change (String.eqb "msid" "ssrc-group") with false. change (String.eqb "msid" "msid") with true. cbv iota.
    rewrite step_msid_line by auto. reflexivity.
  - (* FEC only *)
    apply N.eqb_neq in Ef. destruct Dfs as [Dfs|Dfs]; [congruence|].
    rewrite Hrid by (unfold media_source; cbn; intros a Ha; repeat (destruct Ha as [<-|Ha]; [cbn; auto|]); contradiction).
    cbn [td_loop td_step]. change (String.eqb "ssrc-group" "ssrc-group") with true. cbv iota.
    rewrite step_fec_empty by (cbn; auto).
    rewrite !td_loop_app.
    rewrite source_read; cbn [ts_rtx ts_fec ts_tracks td_init flow_set filter app flow_has existsb fst]; auto.
    2:{ apply N.eqb_neq in Dfs. cbn. rewrite Dfs. reflexivity. }
    rewrite td_loop_app, source_skipped by (cbn; auto; rewrite N.eqb_refl; auto).
    cbn [td_loop td_step ts_tracks].
    change (String.eqb "msid" "ssrc-group") with false. change (String.eqb "msid" "msid") with true. cbv iota.
    rewrite step_msid_line by auto. cbn [flow_repair_of fold_left snd fst]. rewrite N.eqb_refl. reflexivity.
  - (* RTX only *)
    apply N.eqb_neq in Er. destruct Drs as [Drs|Drs]; [congruence|].
    rewrite Hrid by (unfold media_source; cbn; intros a Ha; repeat (destruct Ha as [<-|Ha]; [cbn; auto|]); contradiction).
    cbn [td_loop td_step]. change (String.eqb "ssrc-group" "ssrc-group") with true. cbv iota.
    rewrite step_fid_empty by (cbn; auto).
    rewrite !td_loop_app.
    rewrite source_read; cbn [ts_rtx ts_fec ts_tracks td_init flow_set filter app flow_has existsb fst]; auto.
    2:{ apply N.eqb_neq in Drs. cbn. rewrite Drs. reflexivity. }
    rewrite td_loop_app, source_skipped by (cbn; auto; rewrite N.eqb_refl; auto).
    cbn [td_loop td_step ts_tracks].
    change (String.eqb "msid" "ssrc-group") with false. change (String.eqb "msid" "msid") with true. cbv iota.
    rewrite step_msid_line by auto. cbn [flow_repair_of fold_left snd fst]. rewrite N.eqb_refl. reflexivity.
  - (* RTX and FEC *)
    apply N.eqb_neq in Er. apply N.eqb_neq in Ef.
    destruct Drs as [Drs|Drs]; [congruence|]. destruct Dfs as [Dfs|Dfs]; [congruence|].
    destruct Drf as [Drf|[Drf|Drf]]; try congruence.
    rewrite Hrid by (unfold media_source; cbn; intros a Ha; repeat (destruct Ha as [<-|Ha]; [cbn; auto|]); contradiction).
    cbn [td_loop td_step]. change (String.eqb "ssrc-group" "ssrc-group") with true. cbv iota.
    rewrite step_fid_empty by (cbn; auto). cbn [td_loop td_step].
    change (String.eqb "ssrc-group" "ssrc-group") with true. cbv iota.
    rewrite step_fec_empty by (cbn; auto).
    rewrite !td_loop_app.
    rewrite source_read; cbn [ts_rtx ts_fec ts_tracks td_init flow_set filter app flow_has existsb fst]; auto.
    2:{ apply N.eqb_neq in Drs. cbn. rewrite Drs. reflexivity. }
    2:{ apply N.eqb_neq in Dfs. cbn. rewrite Dfs. reflexivity. }
    rewrite td_loop_app, source_skipped by (cbn; auto; rewrite N.eqb_refl; auto).
    rewrite td_loop_app, source_skipped by (cbn; auto; rewrite N.eqb_refl, orb_true_r; auto).
    cbn [td_loop td_step ts_tracks].
    change (String.eqb "msid" "ssrc-group") with false. change (String.eqb "msid" "msid") with true. cbv iota.
    rewrite step_msid_line by auto. cbn [flow_repair_of fold_left snd fst]. rewrite !N.eqb_refl. reflexivity.
Qed.
