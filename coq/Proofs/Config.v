(* C39 proofs: SetConfiguration is "reject, or assign only the mutable tail". *)
From Coq Require Import List Bool String NArith ZArith Lia.
Import ListNotations.
From Verif Require Import Common.Base Model.Config.
Open Scope string_scope.

Lemma with_identity_id : forall c, with_identity c (identity c) = c.
Proof. intros []; reflexivity. Qed.
Lemma with_certs_id : forall c, with_certs c (certs c) = c.
Proof. intros []; reflexivity. Qed.
Lemma with_bundle_id : forall c, with_bundle c (bundle c) = c.
Proof. intros []; reflexivity. Qed.
Lemma with_rtcpmux_id : forall c, with_rtcpmux c (rtcpmux c) = c.
Proof. intros []; reflexivity. Qed.

Lemma cert_equals_spec : forall c n, cert_equals c n = same_cert c n.
Proof.
  intros [kt k x e] [kt' k' x' e']. unfold cert_equals, same_cert, comparable. cbn.
  destruct kt, kt'; cbn; auto; destruct (Z.eqb k k'); cbn; auto.
Qed.

(* Certificate.Equals sees key type, key and x509 identity -- not the expiry *)
Lemma same_cert_id : forall a b, same_cert a b = true -> cert_id a = cert_id b.
Proof.
  intros [kt k x e] [kt' k' x' e'] H. unfold same_cert in H. cbn in H.
  repeat (apply andb_true_iff in H as [H ?]).
  assert (kt = kt') by (destruct kt, kt'; cbn in *; congruence || discriminate).
  unfold cert_id. cbn. repeat f_equal; auto; now apply Z.eqb_eq.
Qed.

Lemma same_cert_refl : forall a, comparable a = true -> same_cert a a = true.
Proof.
  intros [kt k x e] H. unfold same_cert. cbn in *. rewrite H, !Z.eqb_refl. now destruct kt.
Qed.

Lemma certs_equal_spec : forall new cur,
  List.length cur = List.length new ->
  certs_equal cur new = Ok (forallb (fun p => same_cert (fst p) (snd p)) (combine cur new)).
Proof.
  unfold certs_equal.
  induction new as [|n ns IH]; intros [|c cs] H; cbn in *; try discriminate; auto.
  rewrite cert_equals_spec. destruct (same_cert c n); cbn; auto.
Qed.

Lemma list_cert_same_ids : forall a b, list_cert_same a b = true -> map cert_id a = map cert_id b.
Proof.
  unfold list_cert_same. induction a as [|x xs IH]; intros [|y ys] H; cbn in *; try discriminate; auto.
  apply andb_true_iff in H as [H1 H2]. apply andb_true_iff in H2 as [H2 H3].
  apply same_cert_id in H2. rewrite H2. f_equal. apply IH. now rewrite H1, H3.
Qed.

Lemma list_cert_same_refl : forall a, forallb comparable a = true -> list_cert_same a a = true.
Proof.
  unfold list_cert_same. induction a as [|x xs IH]; cbn; auto.
  intro H. apply andb_true_iff in H as [Hx Hxs].
  specialize (IH Hxs). apply andb_true_iff in IH as [H1 H2].
  now rewrite H1, (same_cert_refl x Hx), H2.
Qed.

(* position by position *)
Lemma list_cert_same_nth : forall a b i c n,
  list_cert_same a b = true -> nth_error a i = Some c -> nth_error b i = Some n ->
  cert_id c = cert_id n.
Proof.
  intros a b i c n H Ha Hb. apply list_cert_same_ids in H.
  apply (map_nth_error cert_id) in Ha. apply (map_nth_error cert_id) in Hb.
  rewrite H in Ha. congruence.
Qed.

(* each block either rejects with InvalidModification, leaving the stored
   configuration as it was, or goes on with the stored configuration as it was *)
Lemma sc_identity_spec : forall c new,
  sc_identity c new = if changes_identity c new then (c, Err E_modification) else (c, Ok tt).
Proof.
  intros c new. unfold sc_identity, changes_identity.
  destruct (String.eqb (identity new) "") eqn:A; cbn; auto.
  destruct (String.eqb (identity new) (identity c)) eqn:B; cbn; auto.
  apply String.eqb_eq in B. rewrite B. now rewrite with_identity_id.
Qed.

(* the certificate block only compares: reject, or go on with nothing assigned *)
Lemma sc_certs_spec : forall c new,
  sc_certs c new = if changes_certs c new then (c, Err E_modification) else (c, Ok tt).
Proof.
  intros c new. unfold sc_certs, sc_certs_by, changes_certs. fold certs_equal.
  destruct (certs new) as [|n ns] eqn:N; auto.
  unfold list_cert_same. rewrite (Nat.eqb_sym (List.length (n :: ns))).
  destruct (Nat.eqb (List.length (certs c)) (List.length (n :: ns))) eqn:L; cbn [negb andb]; auto.
  apply Nat.eqb_eq in L. rewrite (certs_equal_spec _ _ L).
  destruct (forallb (fun p => same_cert (fst p) (snd p)) (combine (certs c) (n :: ns))) eqn:F; cbn [negb]; auto.
Qed.

Lemma sc_bundle_spec : forall c new,
  sc_bundle c new = if changes_bundle c new then (c, Err E_modification) else (c, Ok tt).
Proof.
  intros c new. unfold sc_bundle, changes_bundle.
  destruct (Z.eqb (bundle new) 0) eqn:A; cbn; auto.
  destruct (Z.eqb (bundle new) (bundle c)) eqn:B; cbn; auto.
  apply Z.eqb_eq in B. rewrite B. now rewrite with_bundle_id.
Qed.

Lemma sc_rtcpmux_spec : forall c new,
  sc_rtcpmux c new = if changes_rtcpmux c new then (c, Err E_modification) else (c, Ok tt).
Proof.
  intros c new. unfold sc_rtcpmux, changes_rtcpmux.
  destruct (Z.eqb (rtcpmux new) 0) eqn:A; cbn; auto.
  destruct (Z.eqb (rtcpmux new) (rtcpmux c)) eqn:B; cbn; auto.
  apply Z.eqb_eq in B. rewrite B. now rewrite with_rtcpmux_id.
Qed.

Lemma sc_pool_spec : forall hl c new,
  sc_pool hl c new = if changes_pool hl c new then (c, Err E_modification) else (c, Ok tt).
Proof.
  intros hl c new. unfold sc_pool, changes_pool.
  destruct (N.eqb (pool new) 0); cbn; auto.
Qed.

Definition mutable_tail (cur new : config) : config :=
  with_tail cur (policy new) (if always_dc new then true else always_dc cur) (servers new).

(* the whole function in one equation *)
Lemma set_configuration_spec : forall closed hl cur new,
  set_configuration closed hl cur new =
  if closed then (cur, Err E_state)
  else if changes_immutable hl cur new then (cur, Err E_modification)
  else match validate_all (servers new) with
       | Ok _ => (mutable_tail cur new, Ok tt)
       | Err e => (cur, Err e)
       | Panic => (cur, Panic)
       end.
Proof.
  intros closed hl cur new. unfold set_configuration, changes_immutable.
  destruct closed; auto.
  rewrite sc_identity_spec. destruct (changes_identity cur new); cbn [and_then orb]; auto.
  rewrite sc_certs_spec. destruct (changes_certs cur new); cbn [and_then orb]; auto.
  rewrite sc_bundle_spec. destruct (changes_bundle cur new); cbn [and_then orb]; auto.
  rewrite sc_rtcpmux_spec. destruct (changes_rtcpmux cur new); cbn [and_then orb]; auto.
  rewrite sc_pool_spec. destruct (changes_pool hl cur new); cbn [and_then orb]; auto.
Qed.

Lemma validate_all_spec : forall l,
  validate_all l = if servers_valid l then Ok tt else Err E_access.
Proof.
  unfold servers_valid. induction l as [|s more IH]; cbn; auto.
  destruct (server_valid s); cbn; auto.
Qed.

(* ---------- the clauses of the property ---------- *)
Lemma reject_unchanged : forall closed hl cur new c' r,
  set_configuration closed hl cur new = (c', r) -> r <> Ok tt -> c' = cur.
Proof.
  intros closed hl cur new c' r H Hr. rewrite set_configuration_spec in H.
  destruct closed; [now injection H as <- _|].
  destruct (changes_immutable hl cur new); [now injection H as <- _|].
  rewrite validate_all_spec in H. destruct (servers_valid (servers new)).
  - injection H as _ <-. congruence.
  - now injection H as <- _.
Qed.

Lemma success_effect : forall closed hl cur new c',
  set_configuration closed hl cur new = (c', Ok tt) ->
  closed = false /\ changes_immutable hl cur new = false /\ servers_valid (servers new) = true /\
  c' = mutable_tail cur new.
Proof.
  intros closed hl cur new c' H. rewrite set_configuration_spec in H.
  destruct closed; [discriminate|].
  destruct (changes_immutable hl cur new); [discriminate|].
  rewrite validate_all_spec in H. destruct (servers_valid (servers new)); [|discriminate].
  injection H as <-. auto.
Qed.

Lemma immutable_kept : forall closed hl cur new c',
  set_configuration closed hl cur new = (c', Ok tt) ->
  bundle c' = bundle cur /\ rtcpmux c' = rtcpmux cur /\ identity c' = identity cur /\
  certs c' = certs cur /\ pool c' = pool cur /\ semantics c' = semantics cur.
Proof.
  intros closed hl cur new c' H. apply success_effect in H as (_ & _ & _ & ->).
  cbn. auto 10.
Qed.

(* any result: the immutable settings (and the pool size, always) are as before *)
Lemma immutable_always : forall closed hl cur new,
  let c' := fst (set_configuration closed hl cur new) in
  bundle c' = bundle cur /\ rtcpmux c' = rtcpmux cur /\ identity c' = identity cur /\
  certs c' = certs cur /\ pool c' = pool cur /\ semantics c' = semantics cur.
Proof.
  intros closed hl cur new. cbn zeta.
  destruct (set_configuration closed hl cur new) as [c' r] eqn:H. cbn [fst].
  destruct r as [[]|e|].
  - eapply immutable_kept; eauto.
  - rewrite (reject_unchanged _ _ _ _ _ _ H); [auto 10|discriminate].
  - rewrite (reject_unchanged _ _ _ _ _ _ H); [auto 10|discriminate].
Qed.

Lemma change_rejected : forall hl cur new,
  changes_immutable hl cur new = true ->
  set_configuration false hl cur new = (cur, Err E_modification).
Proof. intros hl cur new H. rewrite set_configuration_spec. now rewrite H. Qed.

Lemma error_class : forall closed hl cur new c' e,
  set_configuration closed hl cur new = (c', Err e) ->
  (closed = true /\ e = E_state) \/
  (closed = false /\ changes_immutable hl cur new = true /\ e = E_modification) \/
  (closed = false /\ changes_immutable hl cur new = false /\
   servers_valid (servers new) = false /\ e = E_access).
Proof.
  intros closed hl cur new c' e H. rewrite set_configuration_spec in H.
  destruct closed; [left; injection H as _ <-; auto|].
  destruct (changes_immutable hl cur new); [right; left; injection H as _ <-; auto|].
  rewrite validate_all_spec in H. destruct (servers_valid (servers new)); [discriminate|].
  right. right. injection H as _ <-. auto.
Qed.

Lemma never_panics : forall closed hl cur new, snd (set_configuration closed hl cur new) <> Panic.
Proof.
  intros closed hl cur new. rewrite set_configuration_spec.
  destruct closed; [discriminate|]. destruct (changes_immutable hl cur new); [discriminate|].
  rewrite validate_all_spec. destruct (servers_valid (servers new)); discriminate.
Qed.

Lemma servers_atomic : forall hl cur new,
  changes_immutable hl cur new = false -> servers_valid (servers new) = false ->
  set_configuration false hl cur new = (cur, Err E_access).
Proof.
  intros hl cur new H1 H2. rewrite set_configuration_spec, H1, validate_all_spec. now rewrite H2.
Qed.

(* a server list is invalid as soon as one server is, wherever it stands *)
Lemma servers_valid_app : forall a s b,
  server_valid s = false -> servers_valid (a ++ s :: b) = false.
Proof.
  intros a s b H. unfold servers_valid. rewrite forallb_app. cbn. rewrite H.
  now rewrite andb_false_r.
Qed.

(* ---------- histories ---------- *)
Definition immutable_part (c : config) := (bundle c, rtcpmux c, identity c, certs c, pool c, semantics c).

Lemma cstep_immutable : forall s o, immutable_part (conf (fst (cstep s o))) = immutable_part (conf s).
Proof.
  intros s o. destruct o as [new| |]; cbn [cstep].
  - pose proof (immutable_always (is_closed s) (has_local_desc s) (conf s) new) as H. cbn zeta in H.
    destruct (set_configuration (is_closed s) (has_local_desc s) (conf s) new) as [c r].
    cbn [fst conf] in *. destruct H as (A & B & C & D & E & F). unfold immutable_part. congruence.
  - destruct (is_closed s); reflexivity.
  - reflexivity.
Qed.

Lemma crun_immutable : forall os s, immutable_part (conf (crun s os)) = immutable_part (conf s).
Proof.
  unfold crun. induction os as [|o more IH]; intros s; cbn; auto.
  rewrite IH. apply cstep_immutable.
Qed.

(* once closed, every call is rejected with InvalidState and nothing changes *)
Lemma closed_rejects : forall hl cur new,
  set_configuration true hl cur new = (cur, Err E_state).
Proof. reflexivity. Qed.

(* ---------- initConfiguration and the clock ---------- *)
Lemma check_expiry_spec : forall now l,
  check_expiry now l = negb (existsb (cert_expired now) l).
Proof.
  induction l as [|c more IH]; cbn; auto. destruct (cert_expired now c); cbn; auto.
Qed.

(* the IsZero arm: a certificate whose Expires() is the zero time never expires *)
Lemma zero_expiry_never_expired : forall now c, c_expires c = 0%Z -> cert_expired now c = false.
Proof. intros now c H. unfold cert_expired. now rewrite H. Qed.

Lemma cert_expired_iff : forall now c,
  cert_expired now c = true <-> (c_expires c <> 0 /\ c_expires c < now)%Z.
Proof.
  intros now c. unfold cert_expired. rewrite andb_true_iff, negb_true_iff, Z.eqb_neq, Z.ltb_lt. tauto.
Qed.

(* an expired certificate anywhere in the list: NewPeerConnection fails with
   InvalidAccess, whatever else the configuration holds *)
Lemma init_rejects_expired : forall now c,
  existsb (cert_expired now) (certs c) = true -> init_configuration now c = Err E_access.
Proof.
  intros now c H. unfold init_configuration. rewrite check_expiry_spec, H. reflexivity.
Qed.

Lemma init_ok_inv : forall now c c', init_configuration now c = Ok c' ->
  existsb (cert_expired now) (certs c) = false /\
  certs c' = match certs c with [] => [generated_cert now] | l => l end /\
  bundle c' = (if Z.eqb (bundle c) 0 then bundle default_config else bundle c) /\
  rtcpmux c' = (if Z.eqb (rtcpmux c) 0 then rtcpmux default_config else rtcpmux c) /\
  pool c' = (if N.eqb (pool c) 0 then pool default_config else pool c) /\
  (negb (N.eqb (pool c) 0) && N.ltb 1 (pool c) = false).
Proof.
  intros now c c' H. unfold init_configuration in H. rewrite check_expiry_spec, negb_involutive in H.
  destruct (existsb (cert_expired now) (certs c)); [discriminate|].
  destruct (negb (N.eqb (pool c) 0) && N.ltb 1 (pool c)) eqn:P; [discriminate|].
  destruct (servers c) as [|s l].
  - injection H as <-. cbn. auto 10.
  - destruct (validate_all (s :: l)) as [[]|e|]; try discriminate. injection H as <-. cbn. auto 10.
Qed.

(* no stored certificate is expired at the instant initConfiguration read *)
Lemma init_stored_unexpired : forall now c c', init_configuration now c = Ok c' ->
  existsb (cert_expired now) (certs c') = false.
Proof.
  intros now c c' H. apply init_ok_inv in H as (E & C & _). rewrite C.
  destruct (certs c) as [|x l]; auto.
  cbn. unfold cert_expired, generated_cert, generated_validity. cbn [c_expires].
  replace (Z.ltb (now + 27 * 86400 * 1000000000) now) with false by (symmetry; apply Z.ltb_ge; lia).
  now rewrite andb_false_r.
Qed.

(* initConfiguration leaves no zero values in the immutable policies *)
Lemma init_nonzero : forall now c c', init_configuration now c = Ok c' ->
  bundle c' <> 0%Z /\ rtcpmux c' <> 0%Z /\ certs c' <> [] /\ (pool c' = 0 \/ pool c' = 1)%N.
Proof.
  intros now c c' H. apply init_ok_inv in H as (_ & C & B & R & PL & P).
  rewrite C, B, R, PL. repeat split.
  - destruct (Z.eqb (bundle c) 0) eqn:Z; [cbn; discriminate|]. now apply Z.eqb_neq in Z.
  - destruct (Z.eqb (rtcpmux c) 0) eqn:Z; [cbn; discriminate|]. now apply Z.eqb_neq in Z.
  - destruct (certs c); discriminate.
  - destruct (N.eqb (pool c) 0) eqn:Z; [left; reflexivity|]. cbn in P.
    apply N.ltb_ge in P. apply N.eqb_neq in Z. right. lia.
Qed.

(* SetConfiguration has no expiry check and no clock: naming the stored
   configuration again succeeds and changes nothing, also when every stored
   certificate has expired since NewPeerConnection *)
Lemma same_configuration_accepted : forall hl cur,
  forallb comparable (certs cur) = true -> servers_valid (servers cur) = true ->
  set_configuration false hl cur cur = (cur, Ok tt).
Proof.
  intros hl cur HC HS. rewrite set_configuration_spec.
  assert (CI : changes_immutable hl cur cur = false).
  { unfold changes_immutable, changes_identity, changes_certs, changes_bundle, changes_rtcpmux, changes_pool.
    rewrite String.eqb_refl, !Z.eqb_refl, N.eqb_refl. rewrite !andb_false_r. cbn [orb andb negb].
    destruct (certs cur) eqn:E; auto. rewrite <- E in *. now rewrite list_cert_same_refl. }
  rewrite CI, validate_all_spec, HS. f_equal. unfold mutable_tail. destruct cur. cbn.
  now destruct always_dc.
Qed.

Lemma servers_atomic_anywhere : forall hl cur new (a : list server) s b,
  changes_immutable hl cur new = false ->
  servers new = (a ++ s :: b)%list -> server_valid s = false ->
  set_configuration false hl cur new = (cur, Err E_access).
Proof.
  intros hl cur new a s b H E V. apply servers_atomic; auto.
  rewrite E. now apply servers_valid_app.
Qed.

(* ---------- certificates: identity is the x509 certificate with its key ---------- *)
(* naming, at some position, a certificate that Equals can tell from the stored
   one -- another x509 certificate for the same key, the same x509 certificate
   with another key, anything -- is a change and is rejected *)
Lemma other_certificate_rejected : forall hl cur new i c n,
  nth_error (certs cur) i = Some c -> nth_error (certs new) i = Some n -> cert_id c <> cert_id n ->
  set_configuration false hl cur new = (cur, Err E_modification).
Proof.
  intros hl cur new i c n Hc Hn Hne. apply change_rejected.
  unfold changes_immutable. assert (C : changes_certs cur new = true).
  { unfold changes_certs. destruct (certs new) as [|n0 ns] eqn:N.
    - destruct i; discriminate.
    - destruct (list_cert_same (certs cur) (n0 :: ns)) eqn:S; auto.
      exfalso. apply Hne. eapply list_cert_same_nth; eauto. }
  rewrite C. now rewrite !orb_true_r.
Qed.

Lemma same_key_other_x509_rejected : forall hl cur new i c n,
  nth_error (certs cur) i = Some c -> nth_error (certs new) i = Some n ->
  c_x509 c <> c_x509 n ->
  set_configuration false hl cur new = (cur, Err E_modification).
Proof.
  intros hl cur new i c n Hc Hn Hx. eapply other_certificate_rejected; eauto.
  unfold cert_id. congruence.
Qed.

(* the stored list named again (certificates pion can compare) is no change *)
Lemma same_certificates_no_change : forall cur new,
  certs new = certs cur -> forallb comparable (certs cur) = true -> changes_certs cur new = false.
Proof.
  intros cur new E H. unfold changes_certs. rewrite E.
  destruct (certs cur); auto. now rewrite list_cert_same_refl.
Qed.

Lemma certificate_identity : forall hl cur new i c n,
  nth_error (certs cur) i = Some c -> nth_error (certs new) i = Some n ->
  (cert_id c <> cert_id n -> set_configuration false hl cur new = (cur, Err E_modification)) /\
  (c_x509 c <> c_x509 n -> set_configuration false hl cur new = (cur, Err E_modification)).
Proof.
  intros hl cur new i c n Hc Hn. split.
  - exact (other_certificate_rejected hl cur new i c n Hc Hn).
  - exact (same_key_other_x509_rejected hl cur new i c n Hc Hn).
Qed.

(* the expiry is the one thing Equals does not look at: a named certificate
   that differs from the stored one ONLY there is accepted *)
Lemma expiry_not_compared : forall c n,
  cert_id c = cert_id n -> cert_equals c n = cert_equals c c.
Proof.
  intros [kt k x e] [kt' k' x' e'] H. unfold cert_id in H. cbn in H.
  injection H as -> -> ->. reflexivity.
Qed.
