(* Two pion peers: in every orderly schedule the descriptions each peer applies
   form a chain, with nothing assumed about the descriptions that are delivered -
   the remote part of the chain guard is discharged by the other peer's own
   invariants. *)
From Coq Require Import List ZArith String Ascii Bool Lia.
Import ListNotations.
From Verif Require Import Common.Base Common.JsepNumeral Model.JsepMid Model.JsepMidSpec Model.JsepMidPair
  Proofs.JsepMid Proofs.JsepMidGen Proofs.JsepMidWit Proofs.JsepMidStable Proofs.JsepMidChain.
Open Scope string_scope.
Open Scope list_scope.

(* ---------- what the receiver reads from a well-formed description ---------- *)
Lemma mids_to_remote d : (forall x, In x (l_secs d) -> l_mid x <> None) -> mids_of_r (to_remote d) = sec_mids d.
Proof.
  intro H. unfold mids_of_r, to_remote, sec_mids. cbn [r_secs]. rewrite !map_map.
  apply map_ext_in. intros x Hx. cbn. destruct (l_mid x) eqn:E; [reflexivity|]. exfalso. exact (H x Hx E).
Qed.

Lemma wf_mids d : wf_l d -> mids_of_r (to_remote d) = sec_mids d.
Proof. intros [_ H]. apply mids_to_remote. intros x Hx. exact (proj1 (H x Hx)). Qed.

Lemma some_inj_nodup {A} (l : list A) : NoDup (map Some l) -> NoDup l.
Proof.
  induction l as [|a l IH]; intro H; [constructor|]. cbn in H. apply NoDup_cons_iff in H. destruct H as [Ha Hl].
  constructor; [|exact (IH Hl)]. intro Hc. apply Ha. apply in_map. exact Hc.
Qed.

Lemma wf_rdesc_ok d : wf_l d -> rdesc_ok (to_remote d).
Proof.
  intro H. pose proof (wf_mids d H) as E. destruct H as [Hn _]. unfold rdesc_ok.
  apply some_inj_nodup. fold (mids_of_r (to_remote d)). rewrite E. exact Hn.
Qed.

Lemma wf_usable d : wf_l d -> all_usable (to_remote d).
Proof.
  intros [_ H] r Hr. unfold to_remote in Hr. cbn [r_secs] in Hr. apply in_map_iff in Hr.
  destruct Hr as (x & <- & Hx). destruct (H x Hx) as (_ & Hk & Hd).
  unfold usable, to_rsection. cbn. destruct (l_kind x); try reflexivity; try (destruct (l_dir x); [reflexivity|contradiction]).
  contradiction.
Qed.

(* ---------- per peer ---------- *)
Definition top (p : peer) : option (list (option string)) := g_last (p_gh p).
Definition psig (p : peer) : sigst := sig (p_st p).
Definition pinv (p : peer) : Prop := ginv_l (p_st p) (p_gh p) /\ ginv_d (p_st p) (p_gh p).

Lemma pinv0 : pinv peer0.
Proof. split; [apply ginv_l_init|apply ginv_d_init]. Qed.

Lemma peer_call_pinv p o : pinv p -> chain_guard (p_st p) (p_gh p) o -> pinv (peer_call p o).
Proof.
  intros [HL HD] Hg. unfold peer_call, pinv.
  pose proof (gstep_ginv_l _ _ o HL (chain_guard_light_of _ _ _ Hg)) as H1.
  pose proof (gstep_ginv_d _ _ o HL HD Hg) as H2.
  destruct (step (p_st p) o) as [s' out]. cbn [fst snd p_st p_gh] in *. split; assumption.
Qed.

(* calls that apply nothing leave signalling state, top and outbox alone *)
Definition quiet (o : op) : Prop :=
  match o with SetLocal _ | SetRemote _ _ => False | _ => True end.

Lemma quiet_applies s o : quiet o -> applies s o = None.
Proof. destruct o; cbn; intro H; try contradiction; reflexivity. Qed.

Lemma quiet_sig s o : quiet o -> sig (fst (step s o)) = sig s.
Proof.
  destruct o; cbn [quiet step]; intro H; try contradiction.
  - unfold add_transceiver. destruct d; try destruct (has_codecs s k); reflexivity.
  - unfold add_track. destruct (reuse_for_track k (trs s)); reflexivity.
  - unfold remove_track. destruct (nth_error (trs s) i) as [t|]; [|reflexivity]. destruct (t_sender t); reflexivity.
  - unfold stop_transceiver. destruct (upd_nth i stop_tr (trs s)); reflexivity.
  - reflexivity.
  - destruct (create_offer s) as [s' r] eqn:E. pose proof (create_offer_frame s) as (Fs & _). rewrite E in Fs. exact Fs.
  - destruct (create_answer s) as [s' r] eqn:E. pose proof (create_answer_frame s) as (Fs & _). rewrite E in Fs. exact Fs.
Qed.

Lemma quiet_call p o : quiet o ->
  psig (peer_call p o) = psig p /\ top (peer_call p o) = top p /\ p_out (peer_call p o) = p_out p.
Proof.
  intro H. unfold peer_call, psig, top, g_last.
  pose proof (quiet_sig (p_st p) o H) as Hs.
  pose proof (ghost_step_applied (p_gh p) (p_st p) o (snd (step (p_st p) o))) as Hg.
  rewrite (quiet_applies _ _ H) in Hg.
  destruct (step (p_st p) o) as [s' out]. cbn [fst snd p_st p_gh p_out] in *.
  split; [exact Hs|]. split; [rewrite Hg; reflexivity|]. destruct o; try reflexivity; contradiction.
Qed.

(* a rejected SetLocal / SetRemote changes nothing but (possibly) nothing *)
Lemma rejected_local p ty :
  local_next (psig p) ty = None -> peer_call p (SetLocal ty) = p.
Proof.
  unfold psig. intro N. unfold peer_call. cbn [step].
  pose proof (applies_none_frame_local (p_st p) ty N) as Es.
  unfold ghost_step. cbn [applies]. rewrite N.
  destruct (set_local (p_st p) ty) as [s' r]. cbn [fst] in Es. subst s'. destruct p; reflexivity.
Qed.

(* an accepted SetLocal *)
Lemma accepted_local p ty g d :
  local_next (psig p) ty = Some g -> local_desc (p_st p) ty = Some d ->
  psig (peer_call p (SetLocal ty)) = g /\
  top (peer_call p (SetLocal ty)) = Some (sec_mids d) /\
  p_out (peer_call p (SetLocal ty)) = Some (ty, d).
Proof.
  unfold psig. intros N D. unfold peer_call. cbn [step].
  pose proof (set_local_fields (p_st p) ty g N) as (Fs & _).
  unfold ghost_step, top, g_last. cbn [applies]. rewrite N.
  destruct (set_local (p_st p) ty) as [s' r]. cbn [fst p_st p_gh p_out g_applied hd_error] in *.
  rewrite D. split; [exact Fs|]. split; [|reflexivity].
  unfold local_desc in D. destruct ty; rewrite D; reflexivity.
Qed.

(* an accepted SetRemote *)
Lemma accepted_remote p ty rdsc g :
  remote_next (psig p) ty = Some g ->
  psig (peer_call p (SetRemote ty rdsc)) = g /\
  top (peer_call p (SetRemote ty rdsc)) = Some (mids_of_r rdsc) /\
  p_out (peer_call p (SetRemote ty rdsc)) = p_out p.
Proof.
  unfold psig. intro N. unfold peer_call. cbn [step].
  pose proof (set_remote_fields (p_st p) ty rdsc g N) as (Fs & _).
  unfold ghost_step, top, g_last. cbn [applies]. rewrite N.
  destruct (set_remote (p_st p) ty rdsc) as [s' r]. cbn [fst p_st p_gh p_out g_applied hd_error] in *.
  split; [exact Fs|]. split; reflexivity.
Qed.

(* ---------- the joint invariant: phases of an exchange ---------- *)
(* x made the offer, y answers *)
Inductive phase (x y : peer) : Prop :=
| Ph1 O : psig x = HaveLocalOffer -> psig y = Stable -> p_out x = Some (TOffer, O) -> p_out y = None ->
          top x = Some (sec_mids O) -> prefix_of (top y) (sec_mids O) -> wf_l O -> phase x y
| Ph2 : psig x = HaveLocalOffer -> psig y = HaveRemoteOffer -> p_out x = None -> p_out y = None ->
        top x = top y -> phase x y
| Ph3 a : psig x = HaveLocalOffer -> psig y = HaveLocalPranswer -> p_out x = None -> p_out y = Some (TPranswer, a) ->
          top y = Some (sec_mids a) -> top x = top y -> wf_l a -> phase x y
| Ph4 : psig x = HaveRemotePranswer -> psig y = HaveLocalPranswer -> p_out x = None -> p_out y = None ->
        top x = top y -> phase x y
| Ph5 a : (psig x = HaveLocalOffer \/ psig x = HaveRemotePranswer) -> psig y = Stable ->
          p_out x = None -> p_out y = Some (TAnswer, a) ->
          top y = Some (sec_mids a) -> top x = top y -> wf_l a -> phase x y.

Definition idle (A B : peer) : Prop :=
  psig A = Stable /\ psig B = Stable /\ p_out A = None /\ p_out B = None /\ top A = top B.

Definition joint (A B : peer) : Prop := idle A B \/ phase A B \/ phase B A.

Lemma joint_sym A B : joint A B -> joint B A.
Proof.
  intros [(a & b & c & d & e)|[H|H]]; [left|right; right|right; left]; auto.
  repeat split; auto.
Qed.

(* a quiet call on either side keeps the phase *)
Lemma phase_quiet_x x y o : quiet o -> phase x y -> phase (peer_call x o) y.
Proof.
  intros Hq H. destruct (quiet_call x o Hq) as (Es & Et & Eo).
  destruct H; [eapply Ph1|eapply Ph2|eapply Ph3|eapply Ph4|eapply Ph5]; rewrite ?Es, ?Et, ?Eo; eauto.
Qed.
Lemma phase_quiet_y x y o : quiet o -> phase x y -> phase x (peer_call y o).
Proof.
  intros Hq H. destruct (quiet_call y o Hq) as (Es & Et & Eo).
  destruct H; [eapply Ph1|eapply Ph2|eapply Ph3|eapply Ph4|eapply Ph5]; rewrite ?Es, ?Et, ?Eo; eauto.
Qed.
Lemma joint_quiet x y o : quiet o -> joint x y -> joint (peer_call x o) y.
Proof.
  intros Hq [(a & b & c & d & e)|[H|H]].
  - destruct (quiet_call x o Hq) as (Es & Et & Eo). left. unfold idle. rewrite Es, Et, Eo. auto.
  - right. left. apply phase_quiet_x; assumption.
  - right. right. apply phase_quiet_y; assumption.
Qed.

(* ---------- a call on x (the other peer is y) ---------- *)
Lemma call_step x y o :
  pinv x -> joint x y -> call_guard x y o ->
  pinv (peer_call x o) /\ joint (peer_call x o) y.
Proof.
  intros Hx HJ Hg. destruct o.
  1-7: (split; [apply peer_call_pinv; [exact Hx|exact Hg]|apply joint_quiet; [exact I|exact HJ]]).
  - (* SetLocal *)
    cbn [call_guard] in Hg. fold (psig x) in Hg.
    destruct (local_next (psig x) ty) as [g|] eqn:N.
    + destruct Hg as (Hfresh & Hout & Hglare).
      assert (Hcg : chain_guard (p_st x) (p_gh x) (SetLocal ty)).
      { cbn [chain_guard]. unfold psig in N. rewrite N. exact Hfresh. }
      split; [apply peer_call_pinv; assumption|].
      destruct Hx as [[_ _ Hlo Hla] [_ _ Hdo Hda]].
      destruct (local_next_cases _ _ _ N) as [(-> & Hs & ->)|[(-> & Hs & ->)|(-> & Hs & ->)]].
      * (* an offer is applied: the exchange starts *)
        destruct (Hglare eq_refl) as [Hsy Hoy].
        destruct (Hlo Hs Hfresh) as (O & EO & Hpre). destruct (Hdo Hs Hfresh) as (O' & EO' & Hwf).
        assert (O' = O) by congruence. subst O'.
        destruct (accepted_local x TOffer HaveLocalOffer O N EO) as (Es & Et & Eo).
        destruct HJ as [(a & b & c & d & e)|[H|H]].
        -- right. left. eapply (Ph1 _ _ O); eauto. fold (top x) in Hpre. rewrite <- e. exact Hpre.
        -- exfalso. unfold psig in *. destruct H as [? ? ? ? ? ? ? ?|? ? ? ? ?|? ? ? ? ? ? ? ?|? ? ? ? ?|? [?|?] ? ? ? ? ? ?]; unfold psig in *; congruence.
        -- exfalso. unfold psig in *.
           destruct H as [? ? ? ? ? ? ? ?|? ? ? ? ?|? ? ? ? ? ? ? ?|? ? ? ? ?|? [?|?] ? ? ? ? ? ?]; unfold psig in *; congruence.
      * (* a provisional answer *)
        assert (Hans : answering (p_st x)) by (left; exact Hs).
        destruct (Hla Hans Hfresh) as (a & Ea & Hlast). destruct (Hda Hans Hfresh) as (a' & Ea' & Hwf).
        assert (a' = a) by congruence. subst a'.
        destruct (accepted_local x TPranswer HaveLocalPranswer a N Ea) as (Es & Et & Eo).
        destruct HJ as [(i1 & i2 & i3 & i4 & i5)|[H|H]].
        -- exfalso. unfold psig in *. congruence.
        -- exfalso. unfold psig in *. destruct H as [? ? ? ? ? ? ? ?|? ? ? ? ?|? ? ? ? ? ? ? ?|? ? ? ? ?|? [?|?] ? ? ? ? ? ?]; unfold psig in *; congruence.
        -- right. right. destruct H as [? ? ? ? ? ? ? ?|h1 h2 h3 h4 h5|? ? ? ? ? ? ? ?|? ? ? ? ?|? [?|?] ? ? ? ? ? ?]; unfold psig in *;
             unfold psig in *; try congruence.
           eapply (Ph3 _ _ a); eauto. rewrite h5. fold (top x). rewrite Et. exact Hlast.
      * (* the final answer *)
        assert (Hans : answering (p_st x)) by exact Hs.
        destruct (Hla Hans Hfresh) as (a & Ea & Hlast). destruct (Hda Hans Hfresh) as (a' & Ea' & Hwf).
        assert (a' = a) by congruence. subst a'.
        destruct (accepted_local x TAnswer Stable a N Ea) as (Es & Et & Eo).
        destruct HJ as [(i1 & i2 & i3 & i4 & i5)|[H|H]].
        -- exfalso. unfold psig in *. destruct Hs; congruence.
        -- exfalso. unfold psig in *. destruct H as [? ? ? ? ? ? ? ?|? ? ? ? ?|? ? ? ? ? ? ? ?|? ? ? ? ?|? [?|?] ? ? ? ? ? ?]; unfold psig in *; destruct Hs; congruence.
        -- right. right.
           destruct H as [? ? ? ? ? ? ? ?|h1 h2 h3 h4 h5|? ? ? ? ? ? ? ?|h1 h2 h3 h4 h5|? [?|?] ? ? ? ? ? ?]; unfold psig in *;
             unfold psig in *; try (destruct Hs; congruence).
           ++ eapply (Ph5 _ _ a); eauto. rewrite h5. fold (top x). rewrite Et. exact Hlast.
           ++ eapply (Ph5 _ _ a); eauto. rewrite h5. fold (top x). rewrite Et. exact Hlast.
    + rewrite (rejected_local x ty N). split; assumption.
  - (* SetRemote: not a call of the pair system *)
    destruct Hg.
Qed.

(* ---------- a delivery from x to y ---------- *)
Lemma deliver_step x y :
  pinv x -> pinv y -> joint x y -> deliver_guard x y ->
  match p_out x with
  | Some (ty, d) =>
      pinv (peer_call y (SetRemote ty (to_remote d))) /\ joint (sent x) (peer_call y (SetRemote ty (to_remote d)))
  | None => True
  end.
Proof.
  intros Hx Hy HJ Hg. unfold deliver_guard in Hg. destruct (p_out x) as [[ty d]|] eqn:Eo; [|exact I].
  fold (psig y) in Hg. destruct (remote_next (psig y) ty) as [g|] eqn:N; [|contradiction]. clear Hg.
  (* which description it is, and how it relates to the receiver's top *)
  assert (Hd : wf_l d /\ match ty with TOffer => prefix_of (top y) (sec_mids d) | _ => top y = Some (sec_mids d) end).
  { destruct HJ as [(i1 & i2 & i3 & i4 & i5)|[H|H]].
    - congruence.
    - destruct H as [O h1 h2 h3 h4 h5 h6 h7|h1 h2 h3 h4 h5|a h1 h2 h3 h4 h5 h6 h7|h1 h2 h3 h4 h5|a h1 h2 h3 h4 h5 h6 h7]; unfold psig in *; try congruence.
      assert (E : (ty, d) = (TOffer, O)) by congruence. injection E as -> ->. split; assumption.
    - destruct H as [O h1 h2 h3 h4 h5 h6 h7|h1 h2 h3 h4 h5|a h1 h2 h3 h4 h5 h6 h7|h1 h2 h3 h4 h5|a h1 h2 h3 h4 h5 h6 h7]; unfold psig in *; try congruence.
      + assert (E : (ty, d) = (TPranswer, a)) by congruence. injection E as -> ->. split; [assumption|congruence].
      + assert (E : (ty, d) = (TAnswer, a)) by congruence. injection E as -> ->. split; [assumption|congruence]. }
  destruct Hd as [Hwf Hrel].
  assert (Hcg : chain_guard (p_st y) (p_gh y) (SetRemote ty (to_remote d))).
  { cbn [chain_guard]. split; [apply wf_rdesc_ok; exact Hwf|]. unfold psig in N. rewrite N.
    split; [apply wf_usable; exact Hwf|]. rewrite (wf_mids d Hwf). unfold top in Hrel. destruct ty; exact Hrel. }
  split; [apply peer_call_pinv; assumption|].
  destruct (accepted_remote y ty (to_remote d) g N) as (Es & Et & Eoy). rewrite (wf_mids d Hwf) in Et.
  assert (Esx : psig (sent x) = psig x) by reflexivity.
  assert (Etx : top (sent x) = top x) by reflexivity.
  assert (Eox : p_out (sent x) = None) by reflexivity.
  destruct (remote_next_cases _ _ _ N) as [(-> & Hs & ->)|[(-> & Hs & ->)|(-> & Hs & ->)]].
  - (* the offer arrives *)
    destruct HJ as [(i1 & i2 & i3 & i4 & i5)|[H|H]]; [congruence| |].
    + destruct H as [O h1 h2 h3 h4 h5 h6 h7|h1 h2 h3 h4 h5|a h1 h2 h3 h4 h5 h6 h7|h1 h2 h3 h4 h5|a h1 h2 h3 h4 h5 h6 h7]; unfold psig in *; try congruence.
      assert (E : (TOffer, d) = (TOffer, O)) by congruence. injection E as ->.
      right. left. eapply Ph2; eauto; congruence.
    + destruct H as [O h1 h2 h3 h4 h5 h6 h7|h1 h2 h3 h4 h5|a h1 h2 h3 h4 h5 h6 h7|h1 h2 h3 h4 h5|a h1 h2 h3 h4 h5 h6 h7]; unfold psig in *; congruence.
  - (* the provisional answer arrives *)
    destruct HJ as [(i1 & i2 & i3 & i4 & i5)|[H|H]]; [congruence| |].
    + destruct H as [O h1 h2 h3 h4 h5 h6 h7|h1 h2 h3 h4 h5|a h1 h2 h3 h4 h5 h6 h7|h1 h2 h3 h4 h5|a h1 h2 h3 h4 h5 h6 h7]; unfold psig in *; congruence.
    + destruct H as [O h1 h2 h3 h4 h5 h6 h7|h1 h2 h3 h4 h5|a h1 h2 h3 h4 h5 h6 h7|h1 h2 h3 h4 h5|a h1 h2 h3 h4 h5 h6 h7]; unfold psig in *; try congruence.
      assert (E : (TPranswer, d) = (TPranswer, a)) by congruence. injection E as ->.
      right. right. eapply Ph4; eauto; congruence.
  - (* the answer arrives: the exchange is complete *)
    destruct HJ as [(i1 & i2 & i3 & i4 & i5)|[H|H]]; [congruence| |].
    + destruct H as [O h1 h2 h3 h4 h5 h6 h7|h1 h2 h3 h4 h5|a h1 h2 h3 h4 h5 h6 h7|h1 h2 h3 h4 h5|a h1 h2 h3 h4 h5 h6 h7]; unfold psig in *; congruence.
    + destruct H as [O h1 h2 h3 h4 h5 h6 h7|h1 h2 h3 h4 h5|a h1 h2 h3 h4 h5 h6 h7|h1 h2 h3 h4 h5|a h1 h2 h3 h4 h5 h6 h7]; unfold psig in *; try congruence.
      assert (E : (TAnswer, d) = (TAnswer, a)) by congruence. injection E as ->.
      left. unfold idle, psig in *. repeat split; congruence.
Qed.

(* ---------- schedules ---------- *)
Definition pairinv (ab : peer * peer) : Prop := pinv (fst ab) /\ pinv (snd ab) /\ joint (fst ab) (snd ab).

Lemma pstep_pairinv ab po : pairinv ab -> pair_guard ab po -> pairinv (pstep ab po).
Proof.
  destruct ab as [A B]. intros (HA & HB & HJ) Hg. cbn [fst snd] in *. unfold pstep, pairinv.
  destruct po as [[|] o|[|]]; cbn [pair_guard] in Hg.
  - destruct (call_step A B o HA HJ Hg) as [H1 H2]. cbn [fst snd]. split; [exact H1|split; [exact HB|exact H2]].
  - destruct (call_step B A o HB (joint_sym _ _ HJ) Hg) as [H1 H2]. cbn [fst snd].
    split; [exact HA|split; [exact H1|apply joint_sym; exact H2]].
  - pose proof (deliver_step A B HA HB HJ Hg) as H. destruct (p_out A) as [[ty d]|]; cbn [fst snd].
    + destruct H as [H1 H2]. split; [exact HA|split; [exact H1|exact H2]].
    + split; [exact HA|split; [exact HB|exact HJ]].
  - pose proof (deliver_step B A HB HA (joint_sym _ _ HJ) Hg) as H. destruct (p_out B) as [[ty d]|]; cbn [fst snd].
    + destruct H as [H1 H2]. split; [exact H1|split; [exact HB|apply joint_sym; exact H2]].
    + split; [exact HA|split; [exact HB|exact HJ]].
Qed.

Lemma prun_pairinv sched : forall ab,
  pairinv ab -> (forall ab' po, In (ab', po) (ptrace_from ab sched) -> pair_guard ab' po) ->
  pairinv (prun_from ab sched).
Proof.
  induction sched as [|po rest IH]; intros ab HI Hg; [exact HI|].
  unfold prun_from. cbn [fold_left]. fold (prun_from (pstep ab po) rest). apply IH.
  - apply pstep_pairinv; [exact HI|]. apply Hg. left. reflexivity.
  - intros ab' po' Hin. apply Hg. right. exact Hin.
Qed.

Lemma pairinv0 : pairinv (peer0, peer0).
Proof. split; [apply pinv0|]. split; [apply pinv0|]. left. repeat split. Qed.

(* the descriptions a peer applied, oldest first *)
Definition papplied (p : peer) : list (list (option string)) := rev (g_applied (p_gh p)).

Lemma pinv_chain p : pinv p ->
  forall i j di dj, (i < j)%nat ->
    nth_error (papplied p) i = Some di -> nth_error (papplied p) j = Some dj ->
    (exists extra, dj = di ++ extra) /\ NoDup dj /\
    (forall m x y, nth_error di x = Some m -> nth_error dj y = Some m -> x = y).
Proof.
  intros [[Hch _ _ _] [_ Hnd _ _]] i j di dj Hij Hi Hj. unfold papplied in *.
  destruct (nth_error_two _ _ _ _ _ Hij Hi Hj) as (l1 & l2 & l3 & El).
  assert (Eg : g_applied (p_gh p) = rev l3 ++ dj :: rev l2 ++ di :: rev l1).
  { rewrite <- (rev_involutive (g_applied (p_gh p))), El.
    rewrite rev_app_distr. cbn [rev]. rewrite rev_app_distr. cbn [rev]. rewrite <- !app_assoc. reflexivity. }
  assert (Hext : extends di dj) by (rewrite Eg in Hch; eapply chain_rev_between; exact Hch).
  assert (Hn : NoDup dj).
  { rewrite Forall_forall in Hnd. apply Hnd. rewrite Eg. apply in_or_app. right. left. reflexivity. }
  split; [exact Hext|]. split; [exact Hn|]. intros m x y Hx Hy. eapply extends_same_index; eauto.
Qed.

(* the pair theorem *)
Lemma pair_chain_lemma sched :
  orderly sched ->
  let '(A, B) := prun sched in
  (forall p, p = A \/ p = B ->
     forall i j di dj, (i < j)%nat ->
       nth_error (papplied p) i = Some di -> nth_error (papplied p) j = Some dj ->
       (exists extra, dj = di ++ extra) /\ NoDup dj /\
       (forall m x y, nth_error di x = Some m -> nth_error dj y = Some m -> x = y)) /\
  (psig A = Stable -> psig B = Stable -> p_out A = None -> p_out B = None -> top A = top B).
Proof.
  intro Ho. pose proof (prun_pairinv sched (peer0, peer0) pairinv0 Ho) as H. unfold prun.
  destruct (prun_from (peer0, peer0) sched) as [A B]. destruct H as (HA & HB & HJ). cbn [fst snd] in *.
  split.
  - intros p [->| ->]; apply pinv_chain; assumption.
  - intros sa sb oa ob. destruct HJ as [(_ & _ & _ & _ & e)|[H|H]]; [exact e| |]; destruct H as [? ? ? ? ? ? ? ?|? ? ? ? ?|? ? ? ? ? ? ? ?|? ? ? ? ?|? [?|?] ? ? ? ? ? ?]; unfold psig in *; congruence.
Qed.

(* ---------- the guard is satisfiable ---------- *)
Definition sig_eqb (a b : sigst) : bool :=
  match a, b with
  | Stable, Stable | HaveLocalOffer, HaveLocalOffer | HaveRemoteOffer, HaveRemoteOffer
  | HaveLocalPranswer, HaveLocalPranswer | HaveRemotePranswer, HaveRemotePranswer => true
  | _, _ => false
  end.
Lemma sig_eqb_eq a b : sig_eqb a b = true -> a = b.
Proof. destruct a, b; cbn; intro H; try discriminate; reflexivity. Qed.

Definition is_none {A} (o : option A) : bool := match o with None => true | Some _ => false end.
Lemma is_none_eq {A} (o : option A) : is_none o = true -> o = None.
Proof. destruct o; cbn; [discriminate|reflexivity]. Qed.

Definition call_guardb (x y : peer) (o : op) : bool :=
  match o with
  | SetRemote _ _ => false
  | SetLocal ty =>
      match local_next (sig (p_st x)) ty with
      | None => true
      | Some _ =>
          match ty with TOffer => g_offer_fresh (p_gh x) | _ => g_answer_fresh (p_gh x) end &&
          is_none (p_out x) &&
          match ty with TOffer => sig_eqb (sig (p_st y)) Stable && is_none (p_out y) | _ => true end
      end
  | _ => chain_guardb (p_st x) (p_gh x) o
  end.
Lemma call_guardb_sound x y o : call_guardb x y o = true -> call_guard x y o.
Proof.
  destruct o; cbn [call_guardb call_guard]; try apply chain_guardb_sound; [|discriminate].
  destruct (local_next (sig (p_st x)) ty); [|auto]. intro H.
  apply andb_true_iff in H. destruct H as [H H3]. apply andb_true_iff in H. destruct H as [H1 H2].
  split; [destruct ty; exact H1|]. split; [apply is_none_eq; exact H2|].
  intros ->. apply andb_true_iff in H3. destruct H3 as [A B]. split; [apply sig_eqb_eq; exact A|apply is_none_eq; exact B].
Qed.

Definition deliver_guardb (x y : peer) : bool :=
  match p_out x with
  | None => true
  | Some (ty, _) => negb (is_none (remote_next (sig (p_st y)) ty))
  end.
Lemma deliver_guardb_sound x y : deliver_guardb x y = true -> deliver_guard x y.
Proof.
  unfold deliver_guardb, deliver_guard. destruct (p_out x) as [[ty d]|]; [|auto].
  destruct (remote_next (sig (p_st y)) ty); cbn; [discriminate|discriminate].
Qed.

Definition pair_guardb (ab : peer * peer) (po : pop) : bool :=
  let '(A, B) := ab in
  match po with
  | PCall true o => call_guardb A B o
  | PCall false o => call_guardb B A o
  | PDeliver true => deliver_guardb A B
  | PDeliver false => deliver_guardb B A
  end.
Lemma pair_guardb_sound ab po : pair_guardb ab po = true -> pair_guard ab po.
Proof.
  destruct ab as [A B]. destruct po as [[|] o|[|]]; cbn [pair_guardb pair_guard];
    auto using call_guardb_sound, deliver_guardb_sound.
Qed.
Definition orderlyb (sched : list pop) : bool :=
  forallb (fun e => pair_guardb (fst e) (snd e)) (ptrace sched).
Lemma orderlyb_sound sched : orderlyb sched = true -> orderly sched.
Proof.
  unfold orderlyb, orderly. rewrite forallb_forall. intros H ab po Hin.
  apply pair_guardb_sound. exact (H (ab, po) Hin).
Qed.

(* two exchanges: A offers (audio track, recvonly video, data channel), B has a
   video track, answers provisionally, adds an audio track, answers finally; then B
   offers one more transceiver after a RemoveTrack on A; A answers *)
Definition ex_pair : list pop :=
  [PCall true (AddTrack MAudio); PCall true (AddTransceiver MVideo Recvonly); PCall true CreateDataChannel;
   PCall false (AddTrack MVideo);
   PCall true CreateOffer; PCall true (SetLocal TOffer); PDeliver true;
   PCall false CreateAnswer; PCall false (SetLocal TPranswer); PDeliver false;
   PCall false (AddTrack MAudio); PCall false CreateAnswer; PCall false (SetLocal TAnswer); PDeliver false;
   PCall true (RemoveTrack 0); PCall false (AddTransceiver MAudio Sendonly);
   PCall false CreateOffer; PCall false (SetLocal TOffer); PDeliver false;
   PCall true (AddTrack MAudio); PCall true CreateAnswer; PCall true (SetLocal TAnswer); PDeliver true].

Lemma ex_pair_ok :
  orderly ex_pair /\
  map (@List.length _) (papplied (fst (prun ex_pair))) = [3; 3; 3; 4; 4]%nat /\
  map (@List.length _) (papplied (snd (prun ex_pair))) = [3; 3; 3; 4; 4]%nat /\
  top (fst (prun ex_pair)) = Some [Some "0"; Some "1"; Some "2"; Some "3"].
Proof. split; [apply orderlyb_sound; vm_compute; reflexivity|]. repeat split; vm_compute; reflexivity. Qed.
