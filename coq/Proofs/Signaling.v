(* Lemmas about the signaling model (C01, C02, C03). *)
From Coq Require Import List Bool NArith String.
Import ListNotations.
From Verif Require Import Common.Base Model.Signaling.

(* ---------- the transition function against the specification table ---------- *)

Lemma check_next_fst cur next op ty s :
  check_next cur next op ty = (s, None) -> s = next.
Proof. destruct cur, next, op, ty; cbn; intro H; inversion H; reflexivity. Qed.

Lemma check_next_edge cur next op ty s :
  check_next cur next op ty = (s, None) ->
  exists sd, op = op_of_side sd /\ w3c_edge cur sd ty = Some next.
Proof.
  destruct cur, next, op, ty; cbn; intro H; try discriminate;
    first [ exists Local; split; reflexivity | exists Remote; split; reflexivity ].
Qed.

Lemma check_next_err cur next op ty s e :
  check_next cur next op ty = (s, Some e) -> s = cur /\ e = EInvalidModification.
Proof. destruct cur, next, op, ty; cbn; intro H; inversion H; split; reflexivity. Qed.

(* the function as it is has no rollback edge at all *)
Lemma check_next_no_rollback cur next op s :
  check_next cur next op Rollback = (s, None) -> False.
Proof. destruct cur, next, op; cbn; intro H; discriminate. Qed.

Lemma check_next_rb_fst cur next op ty s :
  check_next_rb cur next op ty = (s, None) -> s = next.
Proof. destruct cur, next, op, ty; cbn; intro H; inversion H; reflexivity. Qed.

Lemma check_next_rb_edge cur next op ty s :
  check_next_rb cur next op ty = (s, None) ->
  exists sd, op = op_of_side sd /\ w3c_edge cur sd ty = Some next.
Proof.
  destruct cur, next, op, ty; cbn; intro H; try discriminate;
    first [ exists Local; split; reflexivity | exists Remote; split; reflexivity ].
Qed.

Lemma check_next_rb_err cur next op ty s e :
  check_next_rb cur next op ty = (s, Some e) -> s = cur /\ e = EInvalidModification.
Proof. destruct cur, next, op, ty; cbn; intro H; inversion H; split; reflexivity. Qed.

Lemma chk_fst r cur next op ty s : chk r cur next op ty = (s, None) -> s = next.
Proof. unfold chk; destruct (r_edge r); [apply check_next_rb_fst | apply check_next_fst]. Qed.

Lemma chk_edge r cur next op ty s :
  chk r cur next op ty = (s, None) ->
  exists sd, op = op_of_side sd /\ w3c_edge cur sd ty = Some next.
Proof. unfold chk; destruct (r_edge r); [apply check_next_rb_edge | apply check_next_edge]. Qed.

Lemma chk_err r cur next op ty s e :
  chk r cur next op ty = (s, Some e) -> e = EInvalidModification.
Proof.
  unfold chk; destruct (r_edge r); intro H;
    [apply check_next_rb_err in H | apply check_next_err in H]; tauto.
Qed.

Lemma chk_as_is_no_rollback cur next op s :
  chk as_is cur next op Rollback = (s, None) -> False.
Proof. apply check_next_no_rollback. Qed.

(* every accepted tuple of the table with rollback edges is accepted for exactly
   one target, the specification's *)
Lemma w3c_edge_closed_states sd ty :
  w3c_edge SClosed sd ty = None /\ w3c_edge SUnknown sd ty = None /\ w3c_edge SOut sd ty = None.
Proof. destruct sd, ty; repeat split; reflexivity. Qed.

(* ---------- setDescription ---------- *)

(* the slot updates of the accepted branch, before the state is stored *)
Definition apply_slots (r : repair) (n : neg) (sd : side) (d : desc) : neg :=
  match sd, d_ty d with
  | Local, Offer | Local, Pranswer => set_pendL n (Some d)
  | Local, Answer => upd_descs n None (Some d) None (pendR n)
  | Remote, Offer | Remote, Pranswer => set_pendR n (Some d)
  | Remote, Answer => upd_descs n None (pendL n) None (Some d)
  | Local, _ =>
      if r_clear_both r then upd_descs n None (curL n) None (curR n) else set_pendL n None
  | Remote, _ =>
      if r_clear_both r then upd_descs n None (curL n) None (curR n) else set_pendR n None
  end.

Lemma apply_slots_keeps r n sd d :
  events (apply_slots r n sd d) = events n /\ st (apply_slots r n sd d) = st n /\
  lastOffer (apply_slots r n sd d) = lastOffer n /\
  lastAnswer (apply_slots r n sd d) = lastAnswer n /\
  closed (apply_slots r n sd d) = closed n.
Proof. unfold apply_slots; destruct sd, (d_ty d), (r_clear_both r); repeat split; reflexivity. Qed.

Definition local_text_ok (n : neg) (sd : side) (d : desc) : Prop :=
  match sd, d_ty d with
  | Local, Offer => txt_eqb (d_txt d) (lastOffer n) = true
  | Local, Answer | Local, Pranswer => txt_eqb (d_txt d) (lastAnswer n) = true
  | _, _ => True
  end.

Definition real_type (t : sdptype) : Prop :=
  t = Offer \/ t = Pranswer \/ t = Answer \/ t = Rollback.

Lemma set_description_ok r n d op n' :
  set_description r n d op = (n', None) ->
  closed n = false /\
  exists sd next,
    op = op_of_side sd /\
    chk r (st n) next op (d_ty d) = (next, None) /\
    n' = commit (apply_slots r n sd d) next /\
    local_text_ok n sd d /\ real_type (d_ty d).
Proof.
  unfold set_description, local_text_ok, real_type.
  destruct (closed n); [discriminate|].
  intro H; split; [reflexivity|].
  destruct op; try (destruct (d_ty d); discriminate).
  - (* SetLocal *)
    exists Local.
    destruct (d_ty d) eqn:Ety; try discriminate; cbn in H.
    + destruct (txt_eqb (d_txt d) (lastOffer n)) eqn:Et; cbn in H; [|discriminate].
      destruct (chk r (st n) HaveLocalOffer SetLocal Offer) as [s [e|]] eqn:C; cbn in H; [discriminate|].
      pose proof (chk_fst _ _ _ _ _ _ C); subst s. inversion H; subst.
      exists HaveLocalOffer; cbn; rewrite Ety; repeat split; auto.
    + destruct (txt_eqb (d_txt d) (lastAnswer n)) eqn:Et; cbn in H; [|discriminate].
      destruct (chk r (st n) HaveLocalPranswer SetLocal Pranswer) as [s [e|]] eqn:C; cbn in H; [discriminate|].
      pose proof (chk_fst _ _ _ _ _ _ C); subst s. inversion H; subst.
      exists HaveLocalPranswer; cbn; rewrite Ety; repeat split; auto.
    + destruct (txt_eqb (d_txt d) (lastAnswer n)) eqn:Et; cbn in H; [|discriminate].
      destruct (chk r (st n) Stable SetLocal Answer) as [s [e|]] eqn:C; cbn in H; [discriminate|].
      pose proof (chk_fst _ _ _ _ _ _ C); subst s. inversion H; subst.
      exists Stable; cbn; rewrite Ety; repeat split; auto.
    + destruct (chk r (st n) Stable SetLocal Rollback) as [s [e|]] eqn:C; cbn in H; [discriminate|].
      pose proof (chk_fst _ _ _ _ _ _ C); subst s. inversion H; subst.
      exists Stable; cbn; rewrite Ety; repeat split; auto 6.
  - (* SetRemote *)
    exists Remote.
    destruct (d_ty d) eqn:Ety; try discriminate; cbn in H.
    + destruct (chk r (st n) HaveRemoteOffer SetRemote Offer) as [s [e|]] eqn:C; cbn in H; [discriminate|].
      pose proof (chk_fst _ _ _ _ _ _ C); subst s. inversion H; subst.
      exists HaveRemoteOffer; cbn; rewrite Ety; repeat split; auto.
    + destruct (chk r (st n) HaveRemotePranswer SetRemote Pranswer) as [s [e|]] eqn:C; cbn in H; [discriminate|].
      pose proof (chk_fst _ _ _ _ _ _ C); subst s. inversion H; subst.
      exists HaveRemotePranswer; cbn; rewrite Ety; repeat split; auto.
    + destruct (chk r (st n) Stable SetRemote Answer) as [s [e|]] eqn:C; cbn in H; [discriminate|].
      pose proof (chk_fst _ _ _ _ _ _ C); subst s. inversion H; subst.
      exists Stable; cbn; rewrite Ety; repeat split; auto.
    + destruct (chk r (st n) Stable SetRemote Rollback) as [s [e|]] eqn:C; cbn in H; [discriminate|].
      pose proof (chk_fst _ _ _ _ _ _ C); subst s. inversion H; subst.
      exists Stable; cbn; rewrite Ety; repeat split; auto 6.
Qed.

(* raised before setDescription is reached, or by setDescription itself *)
Definition pre_classes : list string :=
  [EInvalidState; EInvalidModification; EParse; EType; EOperation;
   ENoMid; ECandidate; ENoUfrag; ENoPwd; ENoFingerprint; EBadFingerprint].
Definition pre_error (e : string) : Prop := In e pre_classes.
Ltac in_classes := cbn; auto 20.

Definition sd_error (e : string) : Prop :=
  e = EInvalidState \/ e = EInvalidModification \/ e = EParse \/ e = EType \/ e = EOperation.
Lemma sd_error_pre e : sd_error e -> pre_error e.
Proof.
  unfold sd_error, pre_error; intros H.
  repeat match goal with H : _ \/ _ |- _ => destruct H end; subst; in_classes.
Qed.

Lemma set_description_err_sd r n d op n' e :
  set_description r n d op = (n', Some e) -> n' = n /\ sd_error e.
Proof.
  unfold set_description. fold (sd_error e).
  destruct (closed n); [intro H; inversion H; unfold sd_error; auto|].
  assert (Hfin : forall nn res x,
             (match snd res with
              | None => (commit nn (fst res), @None string)
              | Some e0 => (n, Some e0)
              end) = (n', Some e) ->
             res = chk r (st n) x op (d_ty d) -> n' = n /\ sd_error e).
  { intros nn [s [e0|]] x Hm Hr; cbn in Hm; [|discriminate].
    inversion Hm; subst. symmetry in Hr. apply chk_err in Hr. unfold sd_error; auto. }
  unfold sd_error in *.
  destruct op.
  1,4: intro H; destruct (d_ty d); inversion H; auto 6.
  all: destruct (d_ty d) eqn:Ety; cbn; intro H; try (inversion H; auto 6; fail).
  all: try (destruct (txt_eqb (d_txt d) _); cbn in H; [|inversion H; auto 6]).
  all: eapply Hfin; [exact H | first [reflexivity | rewrite Ety; reflexivity]].
Qed.

Lemma set_description_err r n d op n' e :
  set_description r n d op = (n', Some e) -> n' = n /\ pre_error e.
Proof.
  intro H. apply set_description_err_sd in H. destruct H as [A B].
  split; [exact A | exact (sd_error_pre e B)].
Qed.

(* ---------- SetLocalDescription / SetRemoteDescription ---------- *)

(* raised after setDescription has stored the new state *)
Definition post_classes : list string := [ECodec; EStop; EAddCand; ESend; EGather].
Definition post_error (e : string) : Prop := In e post_classes.

Lemma pre_post_disjoint e : pre_error e -> post_error e -> False.
Proof.
  unfold pre_error, post_error; cbn; intros H1 H2.
  repeat match goal with H : _ \/ _ |- _ => destruct H end; subst; try discriminate; auto.
Qed.

Lemma remote_validate_pre i d e : remote_validate i d = Some e -> pre_error e.
Proof.
  unfold remote_validate, pre_error.
  repeat match goal with |- context [if ?c then _ else _] => destruct c end;
    intro H; inversion H; in_classes.
Qed.

Lemma remote_after_post d e : remote_after d = Some e -> post_error e.
Proof.
  unfold remote_after, post_error.
  repeat match goal with |- context [if ?c then _ else _] => destruct c end;
    intro H; inversion H; in_classes.
Qed.

(* what SetLocalDescription hands to setDescription (JSEP 5.4 substitution) *)
Definition subst_local (n : neg) (d : desc) : desc :=
  if txt_is_empty (d_txt d) then
    match d_ty d with
    | Offer => with_txt d (lastOffer n)
    | Answer | Pranswer => with_txt d (lastAnswer n)
    | _ => d
    end
  else d.

Lemma subst_local_ty n d : d_ty (subst_local n d) = d_ty d.
Proof.
  unfold subst_local; destruct (txt_is_empty (d_txt d)); [|reflexivity].
  destruct (d_ty d) eqn:E; cbn; congruence.
Qed.

Lemma set_local_cases r n d n' res :
  set_local r n d = (n', res) ->
  (n' = n /\ exists e, res = Err e /\ pre_error e) \/
  (set_description r n (subst_local n d) SetLocal = (n', None) /\
   (res = Ok tt \/ res = Err ESend \/ res = Err EGather)).
Proof.
  unfold set_local.
  destruct (closed n) eqn:Ec; [intro H; inversion H; left; split; [reflexivity|]; eexists; split; [reflexivity | in_classes]|].
  set (sub := if txt_is_empty (d_txt d) then _ else Ok d).
  assert (Hsub : (exists e, sub = Err e /\ e = EInvalidModification) \/
                 sub = Ok (subst_local n d)).
  { unfold sub, subst_local. destruct (txt_is_empty (d_txt d)) eqn:Ee; [|right; reflexivity].
    destruct (d_ty d) eqn:Ety; try (left; eexists; split; reflexivity);
      try (right; reflexivity).
    destruct (r_empty_rb r); [right; reflexivity | left; eexists; split; reflexivity]. }
  destruct Hsub as [[e [Hs He]] | Hs]; rewrite Hs.
  - intro H; inversion H; subst. left; split; [reflexivity|]; eexists; split; [reflexivity | in_classes].
  - set (d1 := subst_local n d).
    destruct (parses (t_fl (d_txt d1))); cbn.
    2:{ intro H; inversion H; left; split; [reflexivity|]; eexists; split; [reflexivity | in_classes]. }
    destruct (set_description r n d1 SetLocal) as [n1 [e|]] eqn:Esd.
    + intro H; inversion H; subst. apply set_description_err in Esd. left.
      destruct Esd as [_ Hp]. split; [reflexivity|]. exists e; split; [reflexivity | exact Hp].
    + intro H. right.
      destruct (r_empty_rb r && sdptype_eqb (d_ty d1) Rollback).
      { inversion H; subst; auto. }
      repeat match type of H with
             | (if ?c then _ else _) = _ => destruct c
             end; inversion H; subst; auto.
Qed.

Lemma local_post e : e = ESend \/ e = EGather -> post_error e.
Proof. intros [H | H]; subst; unfold post_error; in_classes. Qed.

Lemma set_remote_cases r n d n' res :
  set_remote r n d = (n', res) ->
  (n' = n /\ exists e, res = Err e /\ pre_error e) \/
  (set_description r n d SetRemote = (n', None) /\
   (res = Ok tt \/ exists e, res = Err e /\ post_error e)).
Proof.
  unfold set_remote.
  destruct (closed n) eqn:Ec; [intro H; inversion H; left; split; [reflexivity|]; eexists; split; [reflexivity | in_classes]|].
  destruct (parses (t_fl (d_txt d))); cbn.
  2:{ intro H; inversion H; left; split; [reflexivity|]; eexists; split; [reflexivity | in_classes]. }
  set (skip := r_empty_rb r && sdptype_eqb (d_ty d) Rollback).
  destruct (if skip then None else remote_validate _ d) as [e|] eqn:Ev.
  { intro H; inversion H; subst. left. split; [reflexivity|]. exists e; split; [reflexivity|].
    destruct skip; [discriminate|]. eapply remote_validate_pre; exact Ev. }
  destruct (set_description r n d SetRemote) as [n1 [e|]] eqn:Esd.
  - intro H; inversion H; subst. apply set_description_err in Esd. left.
    destruct Esd as [_ Hp]. split; [reflexivity|]. exists e; split; [reflexivity | exact Hp].
  - intro H. right.
    destruct (if skip then None else remote_after d) as [e|] eqn:Ea; inversion H; subst.
    + split; [reflexivity|]. right. exists e; split; [reflexivity|].
      destruct skip; [discriminate|]. eapply remote_after_post; exact Ea.
    + auto.
Qed.

(* ---------- consequences used by the properties ---------- *)

(* a transition that was applied follows an edge of the specification *)
Lemma set_description_edge r n d op n' :
  set_description r n d op = (n', None) ->
  exists sd, op = op_of_side sd /\ w3c_edge (st n) sd (d_ty d) = Some (st n').
Proof.
  intro H. apply set_description_ok in H.
  destruct H as [_ [sd [next [Hop [Hc [Hn _]]]]]].
  apply chk_edge in Hc. destruct Hc as [sd' [Hop' He]].
  exists sd'. split; [exact Hop'|]. subst n'. exact He.
Qed.

Lemma op_of_side_inj a b : op_of_side a = op_of_side b -> a = b.
Proof. destruct a, b; cbn; intro H; try reflexivity; discriminate. Qed.

(* state after any set call: unchanged, or moved along the edge *)
Lemma set_step_edge r n sd d n' res :
  step_r r n (set_op sd d) = (n', res) ->
  n' = n \/ w3c_edge (st n) sd (d_ty d) = Some (st n').
Proof.
  destruct sd; cbn; intro H.
  - apply set_local_cases in H. destruct H as [[H _] | [H _]]; [left; exact H|].
    right. apply set_description_edge in H. destruct H as [s [Hs He]].
    apply (op_of_side_inj Local) in Hs. subst s. rewrite subst_local_ty in He. exact He.
  - apply set_remote_cases in H. destruct H as [[H _] | [H _]]; [left; exact H|].
    right. apply set_description_edge in H. destruct H as [s [Hs He]].
    apply (op_of_side_inj Remote) in Hs. subst s. exact He.
Qed.

Lemma ok_not_err {A} (a : A) e : Ok a = Err e -> False.
Proof. discriminate. Qed.

Lemma set_step_ok_edge r n sd d n' :
  step_r r n (set_op sd d) = (n', Ok tt) ->
  w3c_edge (st n) sd (d_ty d) = Some (st n') /\ (events n' = events n ++ [st n'])%list.
Proof.
  destruct sd; cbn; intro H.
  - apply set_local_cases in H.
    destruct H as [[_ [e [He _]]] | [H _]]; [discriminate|].
    pose proof (set_description_edge _ _ _ _ _ H) as [s [Hs He]].
    apply (op_of_side_inj Local) in Hs. subst s. rewrite subst_local_ty in He. split; [exact He|].
    apply set_description_ok in H. destruct H as [_ [sd [next [_ [_ [Hn _]]]]]].
    subst n'. cbn. f_equal. apply apply_slots_keeps.
  - apply set_remote_cases in H.
    destruct H as [[_ [e [He _]]] | [H _]]; [discriminate|].
    pose proof (set_description_edge _ _ _ _ _ H) as [s [Hs He]].
    apply (op_of_side_inj Remote) in Hs. subst s. split; [exact He|].
    apply set_description_ok in H. destruct H as [_ [sd [next [_ [_ [Hn _]]]]]].
    subst n'. cbn. f_equal. apply apply_slots_keeps.
Qed.
