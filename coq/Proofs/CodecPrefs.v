(* C10, payload types listed once for a transceiver created from the remote
   description: the preference list setCodecPreferencesFromRemoteDescription
   builds (as repaired: the matched engine codec is removed by its payload type)
   never carries a payload type twice. *)
From Coq Require Import List ZArith NArith String Ascii Bool Lia DecimalString DecimalN DecimalPos Permutation.
Import ListNotations.
From Verif Require Import Common.Base Model.Fmtp Model.Codec Model.HeaderExt Model.Section
     Proofs.Codec Proofs.Section Proofs.Answer.
Open Scope string_scope.
Open Scope list_scope.

(* ---------- remove_first by payload type ---------- *)

Lemma remove_first_pt_nodup : forall p l,
  NoDup (map c_pt l) -> NoDup (map c_pt (remove_first (pt_is p) l)).
Proof.
  induction l as [|a t IH]; intros H; [constructor|]. cbn [remove_first].
  cbn [map] in H. inversion H as [|x xs Hni Hnd]; subst.
  destruct (pt_is p a); [exact Hnd|]. cbn [map]. constructor; [|now apply IH].
  intros Hin. apply Hni. apply in_map_iff in Hin. destruct Hin as [y [Hy Hin]].
  apply in_map_iff. exists y. split; [assumption|]. now apply remove_first_incl in Hin.
Qed.

Lemma remove_first_pt_gone : forall p l,
  NoDup (map c_pt l) -> ~ In p (map c_pt (remove_first (pt_is p) l)).
Proof.
  induction l as [|a t IH]; intros H; [intros []|]. cbn [remove_first].
  cbn [map] in H. inversion H as [|x xs Hni Hnd]; subst.
  destruct (pt_is p a) eqn:Hp.
  - unfold pt_is in Hp. apply N.eqb_eq in Hp. now rewrite <- Hp.
  - cbn [map]. intros [Heq|Hin]; [|now apply IH in Hin].
    unfold pt_is in Hp. apply N.eqb_neq in Hp. congruence.
Qed.

Lemma remove_first_pts_incl : forall (q : codec -> bool) l p,
  In p (map c_pt (remove_first q l)) -> In p (map c_pt l).
Proof.
  intros q l p H. apply in_map_iff in H. destruct H as [y [Hy Hin]].
  apply in_map_iff. exists y. split; [assumption|]. now apply remove_first_incl in Hin.
Qed.

(* ---------- payloadMapping ---------- *)

Lemma pm_set_in : forall k v m k' v',
  In (k', v') (pm_set k v m) -> (k' = k /\ v' = v) \/ In (k', v') m.
Proof.
  induction m as [|[k0 v0] t IH]; intros k' v' H; cbn in H.
  - destruct H as [H|[]]. inversion H. now left.
  - destruct (N.eqb k0 k).
    + destruct H as [H|H]; [inversion H; now left|right; now right].
    + destruct (N.ltb k k0).
      * destruct H as [H|H]; [inversion H; now left|now right].
      * destruct H as [H|H]; [right; now left|].
        destruct (IH _ _ H); [now left|right; now right].
Qed.

Lemma pm_set_values : forall k v m x, In x (map snd (pm_set k v m)) -> x = v \/ In x (map snd m).
Proof.
  intros k v m x H. apply in_map_iff in H. destruct H as [[k' v'] [<- Hin]]. cbn [snd].
  destruct (pm_set_in _ _ _ _ _ Hin) as [[_ ->]|Hm]; [now left|right].
  apply in_map_iff. exists (k', v'). auto.
Qed.

Lemma pm_set_values_nodup : forall k v m,
  NoDup (map snd m) -> ~ In v (map snd m) -> NoDup (map snd (pm_set k v m)).
Proof.
  induction m as [|[k0 v0] t IH]; intros Hnd Hni; cbn.
  - constructor; [intros []|constructor].
  - cbn [map snd] in Hnd, Hni. inversion Hnd as [|x xs Hn0 Hnd']; subst.
    destruct (N.eqb k0 k).
    + cbn [map snd]. constructor; [intros Hin; apply Hni; now right|exact Hnd'].
    + destruct (N.ltb k k0).
      * cbn [map snd]. constructor; [exact Hni|exact Hnd].
      * cbn [map snd]. constructor.
        -- intros Hin. apply pm_set_values in Hin. destruct Hin as [->|Hin]; [apply Hni; now left|contradiction].
        -- apply IH; [exact Hnd'|intros Hin; apply Hni; now right].
Qed.

(* ---------- one round of filterByMatchType ---------- *)

Definition fb_state_ok (D : list N) (left : list codec) (pm : list (N * N)) (acc : list codec) : Prop :=
  NoDup (map c_pt left) /\ NoDup (map c_pt acc ++ D) /\
  (forall p, In p (map c_pt acc ++ D) -> ~ In p (map c_pt left)) /\
  NoDup (map snd pm) /\ (forall v, In v (map snd pm) -> In v (map c_pt acc ++ D)).

Lemma filter_by_match_ok : forall want D rr kept left pm acc kept' left' pm' acc',
  want <> MNone ->
  filter_by_match want rr kept left pm acc = (kept', left', pm', acc') ->
  fb_state_ok D left pm acc ->
  fb_state_ok D left' pm' acc' /\ (forall x, In x left' -> In x left).
Proof.
  intros want D. induction rr as [|rc rp IH]; intros kept left pm acc kept' left' pm' acc' Hw H Hok.
  - cbn in H. inversion H; subst. auto.
  - cbn [filter_by_match] in H. destruct (is_rtx rc); [eapply IH; eauto|].
    destruct (fuzzy_search rc left) as [mc m] eqn:Hf.
    destruct (mt_eqb m want) eqn:Hm; [|eapply IH; eauto].
    assert (Hne : m <> MNone).
    { intros ->. destruct want; try discriminate. now apply Hw. }
    destruct (fuzzy_compatible _ _ _ _ Hf Hne) as [Hin _].
    destruct Hok as [Nl [Na [Hd [Nv Hv]]]].
    assert (Hmc : In (c_pt mc) (map c_pt left)) by now apply in_map.
    assert (Hfresh : ~ In (c_pt mc) (map c_pt acc ++ D)).
    { intros Hx. exact (Hd _ Hx Hmc). }
    assert (Hok' : fb_state_ok D (remove_first (pt_is (c_pt mc)) left)
                     (pm_set (c_pt rc) (c_pt mc) pm) (set_pt rc (c_pt mc) :: acc)).
    { split; [now apply remove_first_pt_nodup|]. cbn [map c_pt set_pt app].
      split; [constructor; assumption|]. split.
      - intros p [<-|Hp]; [now apply remove_first_pt_gone|].
        intros Hx. apply remove_first_pts_incl in Hx. exact (Hd _ Hp Hx).
      - split.
        + apply pm_set_values_nodup; [exact Nv|]. intros Hx. apply Hfresh. now apply Hv.
        + intros v Hx. apply pm_set_values in Hx. destruct Hx as [->|Hx]; [now left|right; now apply Hv]. }
    destruct (IH _ _ _ _ _ _ _ _ Hw H Hok') as [Hr Hsub]. split; [exact Hr|].
    intros x Hx. apply Hsub in Hx. now apply remove_first_incl in Hx.
Qed.

(* ---------- the RTX entries ---------- *)

Lemma N_to_uint_nonnil : forall n, N.to_uint n <> Decimal.Nil.
Proof. intros [|p]; cbn; [discriminate|apply DecimalPos.Unsigned.to_uint_nonnil]. Qed.

Lemma dec_of_N_inj : forall a b, dec_of_N a = dec_of_N b -> a = b.
Proof.
  intros a b H. unfold dec_of_N in H.
  assert (Hu : N.to_uint a = N.to_uint b).
  { pose proof (NilZero.usu (N.to_uint a) (N_to_uint_nonnil a)) as Ha.
    pose proof (NilZero.usu (N.to_uint b) (N_to_uint_nonnil b)) as Hb.
    rewrite H in Ha. rewrite Ha in Hb. now inversion Hb. }
  rewrite <- (DecimalN.Unsigned.of_to a), <- (DecimalN.Unsigned.of_to b). now rewrite Hu.
Qed.

Lemma apt_line_inj : forall a b, ("apt=" ++ dec_of_N a)%string = ("apt=" ++ dec_of_N b)%string -> a = b.
Proof. intros a b H. cbn in H. inversion H. now apply dec_of_N_inj. Qed.

Lemma nodup_pt_same : forall l x y, NoDup (map c_pt l) -> In x l -> In y l -> c_pt x = c_pt y -> x = y.
Proof.
  induction l as [|a t IH]; intros x y H Hx Hy He; [destruct Hx|].
  cbn [map] in H. inversion H as [|p ps Hni Hnd]; subst.
  destruct Hx as [->|Hx]; destruct Hy as [->|Hy]; auto.
  - exfalso. apply Hni. rewrite He. now apply in_map.
  - exfalso. apply Hni. rewrite <- He. now apply in_map.
Qed.

(* what one payloadMapping entry contributes *)
Definition rtx_for (rem left : list codec) (kv : N * N) : list codec :=
  let remoteRTX := find_rtx_pt (fst kv) rem in
  if N.eqb remoteRTX 0 then []
  else
    let engineRTX := find_rtx_pt (snd kv) left in
    if N.eqb engineRTX 0 then []
    else match find (pt_is engineRTX) left with
         | Some c => [c]
         | None => []
         end.

Lemma rtx_for_spec : forall rem left kv c,
  NoDup (map c_pt left) -> In c (rtx_for rem left kv) ->
  In c left /\ c_line c = ("apt=" ++ dec_of_N (snd kv))%string /\ rtx_for rem left kv = [c].
Proof.
  intros rem left kv c Hnd H. unfold rtx_for in *.
  destruct (N.eqb (find_rtx_pt (fst kv) rem) 0); [destruct H|].
  destruct (N.eqb (find_rtx_pt (snd kv) left) 0) eqn:Hz; [destruct H|].
  destruct (find (pt_is (find_rtx_pt (snd kv) left)) left) as [c1|] eqn:Hf; [|destruct H].
  destruct H as [<-|[]]. apply find_some in Hf. destruct Hf as [Hin Hpt].
  split; [assumption|]. split; [|reflexivity].
  unfold find_rtx_pt in Hpt, Hz.
  destruct (find (fun c0 => String.eqb ("apt=" ++ dec_of_N (snd kv))%string (c_line c0)) left) as [c0|] eqn:H0.
  - apply find_some in H0. destruct H0 as [Hin0 Hl0]. apply String.eqb_eq in Hl0.
    unfold pt_is in Hpt. apply N.eqb_eq in Hpt.
    assert (c1 = c0) by (eapply nodup_pt_same; eauto). subst. now symmetry.
  - rewrite N.eqb_refl in Hz. discriminate.
Qed.

Lemma rtx_entries_nodup : forall rem left pm,
  NoDup (map c_pt left) -> NoDup (map snd pm) ->
  NoDup (map c_pt (flat_map (rtx_for rem left) pm)) /\
  (forall c, In c (flat_map (rtx_for rem left) pm) ->
     In c left /\ exists kv, In kv pm /\ c_line c = ("apt=" ++ dec_of_N (snd kv))%string).
Proof.
  intros rem left. induction pm as [|kv t IH]; intros Hl Hv.
  - cbn. split; [constructor|intros c []].
  - cbn [map] in Hv. inversion Hv as [|x xs Hni Hnd]; subst.
    destruct (IH Hl Hnd) as [Hn Hs]. cbn [flat_map]. split.
    + destruct (rtx_for rem left kv) as [|c l0] eqn:Hr; [exact Hn|].
      assert (Hc : In c (rtx_for rem left kv)) by (rewrite Hr; now left).
      destruct (rtx_for_spec _ _ _ _ Hl Hc) as [Hin [Hline Hone]].
      rewrite Hr in Hone. inversion Hone; subst l0. cbn [app map]. constructor; [|exact Hn].
      intros Hx. apply in_map_iff in Hx. destruct Hx as [c' [Hpt Hc']].
      destruct (Hs c' Hc') as [Hin' [kv' [Hkv' Hline']]].
      assert (c' = c) by (apply (nodup_pt_same left c' c Hl Hin' Hin Hpt)). subst c'.
      rewrite Hline in Hline'. apply apt_line_inj in Hline'.
      apply Hni. rewrite Hline'. now apply in_map.
    + intros c Hc. apply in_app_or in Hc. destruct Hc as [Hc|Hc].
      * destruct (rtx_for_spec _ _ _ _ Hl Hc) as [Hin [Hline _]].
        split; [assumption|]. exists kv. split; [now left|assumption].
      * destruct (Hs c Hc) as [Hin [kv' [Hkv' Hline']]].
        split; [assumption|]. exists kv'. split; [now right|assumption].
Qed.

(* ---------- the preference list ---------- *)

Lemma nodup_app_disjoint : forall (A : Type) (l1 l2 : list A),
  NoDup l1 -> NoDup l2 -> (forall x, In x l1 -> ~ In x l2) -> NoDup (l1 ++ l2).
Proof.
  induction l1 as [|a t IH]; intros l2 H1 H2 Hd; [exact H2|].
  inversion H1 as [|x xs Hni Hnd]; subst. cbn [app]. constructor.
  - intros Hin. apply in_app_or in Hin. destruct Hin as [Hin|Hin]; [contradiction|].
    exact (Hd a (or_introl eq_refl) Hin).
  - apply IH; auto. intros x Hx. apply Hd. now right.
Qed.

Lemma nodup_app_comm : forall (A : Type) (l1 l2 : list A), NoDup (l1 ++ l2) -> NoDup (l2 ++ l1).
Proof. intros A l1 l2 H. eapply Permutation_NoDup; [apply Permutation_app_comm|exact H]. Qed.

Lemma prefs_from_remote_nodup : forall engine_codecs remote,
  NoDup (map c_pt engine_codecs) -> NoDup (map c_pt (prefs_from_remote engine_codecs remote)).
Proof.
  intros E R HE. unfold prefs_from_remote.
  destruct (filter_by_match MExact (rev R) [] E [] []) as [[[rem1 left1] pm1] exact] eqn:H1.
  destruct (filter_by_match MPartial (rev rem1) [] left1 pm1 []) as [[[rem2 left2] pm2] partial] eqn:H2.
  assert (Hok0 : fb_state_ok [] E [] []).
  { split; [exact HE|]. split; [constructor|]. split; [intros p []|]. split; [constructor|intros v []]. }
  destruct (filter_by_match_ok MExact [] _ _ _ _ _ _ _ _ _ ltac:(discriminate) H1 Hok0)
    as [[Nl1 [Na1 [Hd1 [Nv1 Hv1]]]] _].
  rewrite app_nil_r in Na1.
  assert (Hok1 : fb_state_ok (map c_pt exact) left1 pm1 []).
  { split; [exact Nl1|]. cbn [map app]. split; [exact Na1|].
    split; [intros p Hp; apply Hd1; now rewrite app_nil_r|].
    split; [exact Nv1|]. intros v Hx. specialize (Hv1 v Hx). now rewrite app_nil_r in Hv1. }
  destruct (filter_by_match_ok MPartial (map c_pt exact) _ _ _ _ _ _ _ _ _ ltac:(discriminate) H2 Hok1)
    as [[Nl2 [Na2 [Hd2 [Nv2 Hv2]]]] _].
  fold (rtx_for rem2 left2).
  destruct (rtx_entries_nodup rem2 left2 pm2 Nl2 Nv2) as [Nr Hr].
  rewrite !map_app.
  (* exact ++ (partial ++ rtx): the accumulated ones are disjoint from left2, where the RTX entries live *)
  assert (Hpe : NoDup (map c_pt exact ++ map c_pt partial)).
  { clear -Na2. revert Na2. generalize (map c_pt partial) (map c_pt exact). intros a b H.
    apply nodup_app_comm. exact H. }
  rewrite app_assoc. apply nodup_app_disjoint; [exact Hpe|exact Nr|].
  intros p Hp Hx. apply in_map_iff in Hx. destruct Hx as [c [Hpt Hc]].
  destruct (Hr c Hc) as [Hin _]. apply (Hd2 p).
  - apply in_app_or in Hp. apply in_or_app. tauto.
  - rewrite <- Hpt. now apply in_map.
Qed.

(* SetCodecPreferences keeps the list or leaves it empty; the filter only removes *)
Lemma set_prefs_from_remote_nodup : forall engine_codecs remote,
  NoDup (map c_pt engine_codecs) -> NoDup (map c_pt (set_prefs_from_remote engine_codecs remote)).
Proof.
  intros E R HE. unfold set_prefs_from_remote, set_codec_preferences.
  destruct (forallb _ (prefs_from_remote E R)); [|constructor].
  apply filter_rtx_nodup. now apply prefs_from_remote_nodup.
Qed.

(* every entry carries the payload type of an engine codec *)
Lemma set_prefs_from_remote_pts : forall engine_codecs remote p,
  In p (set_prefs_from_remote engine_codecs remote) -> In (c_pt p) (map c_pt engine_codecs).
Proof.
  intros E R p H. apply set_prefs_from_remote_elems in H.
  destruct H as [[rc [mc [_ [Hmc [_ ->]]]]]|Hin]; [cbn; now apply in_map|now apply in_map].
Qed.

(* C10, payload types once: a transceiver created from the remote description,
   over an engine list with distinct non-zero payload types *)
Lemma get_codecs_from_remote_nodup : forall engine_codecs remote,
  NoDup (map c_pt engine_codecs) -> (forall c, In c engine_codecs -> c_pt c <> 0%N) ->
  NoDup (map c_pt (get_codecs engine_codecs (set_prefs_from_remote engine_codecs remote))).
Proof.
  intros E R HE Hnz. apply get_codecs_pt_nodup; [exact HE|].
  destruct (set_prefs_from_remote E R) as [|p0 ps] eqn:Hp; [now left|right]. rewrite <- Hp. split.
  - intros p Hin. apply set_prefs_from_remote_pts in Hin. apply in_map_iff in Hin.
    destruct Hin as [c [Hc Hin]]. rewrite <- Hc. now apply Hnz.
  - now apply set_prefs_from_remote_nodup.
Qed.

(* ---------- the engine's negotiated lists over calls ---------- *)

Lemma push_codecs_nodup : forall cs neg,
  NoDup (map c_pt neg) -> NoDup (map c_pt (fst (push_codecs neg cs))).
Proof.
  intros cs neg H. rewrite push_codecs_fold.
  assert (G : forall cs st, NoDup (map c_pt (fst st)) -> NoDup (map c_pt (fst (fold_left push_step cs st)))).
  { induction cs0 as [|c t IH]; intros st Hst; [exact Hst|].
    cbn [fold_left]. apply IH. rewrite push_step_fst. now apply add_codec_nodup. }
  now apply G.
Qed.

Lemma update_section_nodup : forall e s e' x err,
  update_section e s = (e', x, err) ->
  (NoDup (map c_pt (e_nvideo e)) -> NoDup (map c_pt (e_nvideo e'))) /\
  (NoDup (map c_pt (e_naudio e)) -> NoDup (map c_pt (e_naudio e'))).
Proof.
  intros e s e' x err H.
  destruct (update_section_push _ _ _ _ _ H) as [[Hv|[ep [_ [_ Hv]]]] [Ha|[ep' [_ [_ Ha]]]]];
    rewrite Hv, Ha; split; auto; intros Hn; now apply push_codecs_nodup.
Qed.

Lemma update_from_remote_nodup : forall secs e e' res,
  update_from_remote e secs = (e', res) ->
  (NoDup (map c_pt (e_nvideo e)) -> NoDup (map c_pt (e_nvideo e'))) /\
  (NoDup (map c_pt (e_naudio e)) -> NoDup (map c_pt (e_naudio e'))).
Proof.
  induction secs as [|s t IH]; intros e e' res H.
  - cbn in H. inversion H; subst. auto.
  - cbn [update_from_remote] in H. destruct (update_section e s) as [[e1 x] err] eqn:Hs.
    destruct (update_section_nodup _ _ _ _ _ Hs) as [H1 H2].
    destruct err; [inversion H; subst; auto|]. destruct (IH _ _ _ H) as [H3 H4]. auto.
Qed.
