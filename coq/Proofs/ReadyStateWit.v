(* C20: concrete schedules.  The recorded defects on the model of the code
   before the repairs ([pre]), the same schedules after them ([post]), and the
   detached-channel cases that remain. *)
From Coq Require Import List Arith Bool.
Import ListNotations.
From Verif Require Import Model.ReadyState.

Definition cfg1 : config :=
  {| detach := false; prereg := true; closer_kinds := [false]; n_reg_open := 0; n_reg_close := 0 |}.
Definition cfg0 : config :=
  {| detach := false; prereg := true; closer_kinds := []; n_reg_open := 0; n_reg_close := 0 |}.
Definition cfg_reg : config :=
  {| detach := false; prereg := false; closer_kinds := []; n_reg_open := 2; n_reg_close := 0 |}.
Definition cfg_det : config :=
  {| detach := true; prereg := true; closer_kinds := [false]; n_reg_open := 0; n_reg_close := 0 |}.

(* Close passes its "!= closed" check, PeerConnection.Close stores closed,
   Close stores closing: closed -> closing, and it stays closing *)
Definition sch_close_window := [TClose 0; TClose 0; TPc; TClose 0].
Lemma pre_close_window :
  let s := run pre cfg1 (init cfg1) sch_close_window in
  hist s = [Closed; Closing] /\ monotone s = false /\ rs s = Closing /\ pc_done s = true.
Proof. vm_compute. repeat split; reflexivity. Qed.
Lemma post_close_window :
  let s := run post cfg1 (init cfg1) sch_close_window in
  hist s = [Closed] /\ rs s = Closed.
Proof. vm_compute. repeat split; reflexivity. Qed.

(* handleOpen passes its isGracefulClosed check, Close runs completely
   (closing), handleOpen stores open: closing -> open, no read loop *)
Definition sch_open_window := [TOpen; TClose 0; TClose 0; TClose 0; TOpen; TOpen].
Lemma pre_open_window :
  let s := run pre cfg1 (init cfg1) sch_open_window in
  hist s = [Closing; Open] /\ monotone s = false /\ rs s = Open /\ rl_started s = false
  /\ o_pc s = ODone.
Proof. vm_compute. repeat split; reflexivity. Qed.
Lemma post_open_window :
  let s := run post cfg1 (init cfg1) sch_open_window in
  hist s = [Closing; Closed] /\ rs s = Closed /\ pend (evc s) = [0].
Proof. vm_compute. repeat split; reflexivity. Qed.

(* the same window against PeerConnection.Close: closed -> open *)
Definition sch_open_after_pcclose := [TOpen; TPc; TOpen].
Lemma pre_open_after_pcclose :
  let s := run pre cfg0 (init cfg0) sch_open_after_pcclose in
  hist s = [Closed; Open] /\ monotone s = false.
Proof. vm_compute. repeat split; reflexivity. Qed.
Lemma post_open_after_pcclose :
  let s := run post cfg0 (init cfg0) sch_open_after_pcclose in
  hist s = [Closed] /\ rs s = Closed.
Proof. vm_compute. repeat split; reflexivity. Qed.

(* no race: Close while connecting, the channel opens (OnClose fires), the
   transport goes: everything at rest, readyState still closing *)
Definition sch_never_closed := [TClose 0; TClose 0; TClose 0; TOpen; TOpen; TDoC 0; TRem].
Lemma pre_never_closed :
  let s := run pre cfg1 (init cfg1) sch_never_closed in
  at_rest pre s = true /\ gone s = true /\ calls (evc s) 0 = 1 /\ rs s = Closing.
Proof. vm_compute. repeat split; reflexivity. Qed.
Lemma post_never_closed :
  let s := run post cfg1 (init cfg1) sch_never_closed in
  at_rest post s = true /\ gone s = true /\ calls (evc s) 0 = 1 /\ hist s = [Closing; Closed].
Proof. vm_compute. repeat split; reflexivity. Qed.

(* Close between the two halves of handleOpen: open is stored, no read loop is
   started, Close stores closing: at rest in closing *)
Definition sch_closed_while_opening := [TOpen; TClose 0; TOpen; TClose 0; TClose 0; TRem].
Lemma pre_closed_while_opening :
  let s := run pre cfg1 (init cfg1) sch_closed_while_opening in
  at_rest pre s = true /\ gone s = true /\ rs s = Closing /\ rl_started s = false.
Proof. vm_compute. repeat split; reflexivity. Qed.

(* one registration, its handler runs twice: OnOpen(f1) registers; handleOpen
   stores open and reads f1; OnOpen(f1)'s own check sees open and fires f1;
   OnOpen(f2) resets the Once; handleOpen's "go once.Do(f1)" fires f1 again *)
Definition sch_once_twice :=
  [TRegO 0; TOpen; TOpen; TRegO 0; TDoO 0; TRegO 1; TOpen; TDoO 0; TRegO 1; TDoO 0].
Lemma pre_handler_twice :
  let s := run pre cfg_reg (init cfg_reg) sch_once_twice in
  calls (evo s) 1 = 2 /\ calls (evo s) 2 = 0 /\ pend (evo s) = [].
Proof. vm_compute. repeat split; reflexivity. Qed.
Lemma post_handler_once_each :
  let s := run post cfg_reg (init cfg_reg) sch_once_twice in
  calls (evo s) 1 = 1 /\ calls (evo s) 2 = 1 /\ pend (evo s) = [].
Proof. vm_compute. repeat split; reflexivity. Qed.

(* detached channels have no read loop: Close, transport gone, at rest in closing *)
Definition sch_detached := [TOpen; TOpen; TOpen; TClose 0; TClose 0; TClose 0; TRem].
Lemma post_detached_stays_closing :
  let s := run post cfg_det (init cfg_det) sch_detached in
  at_rest post s = true /\ gone s = true /\ rs s = Closing /\ monotone s = true.
Proof. vm_compute. repeat split; reflexivity. Qed.
(* after Detach() not even PeerConnection.Close stores closed *)
Definition sch_detached_pc := [TOpen; TOpen; TOpen; TDetach; TClose 0; TClose 0; TClose 0; TPc].
Lemma post_detached_after_pcclose :
  let s := run post cfg_det (init cfg_det) sch_detached_pc in
  at_rest post s = true /\ pc_done s = true /\ rs s = Closing.
Proof. vm_compute. repeat split; reflexivity. Qed.

(* a full life cycle *)
Definition cfg_life : config :=
  {| detach := false; prereg := true; closer_kinds := [true]; n_reg_open := 0; n_reg_close := 1 |}.
Lemma post_life_cycle :
  let s := run post cfg_life (init cfg_life)
             [TOpen; TOpen; TOpen; TDoO 0; TClose 0; TClose 0; TClose 0; TRem; TRl; TRl; TDoC 0;
              TClose 0; TRegC 0; TRegC 0; TDoC 0] in
  hist s = [Open; Closing; Closed] /\ calls (evo s) 0 = 1 /\ calls (evc s) 0 = 1
  /\ calls (evc s) 1 = 1 /\ nth_error (closers s) 0 = Some (true, CDone) /\ rl_done s = true.
Proof. vm_compute. repeat split; reflexivity. Qed.
