(* Lemmas for C04 over Model/Negotiation.v *)
From Coq Require Import List ZArith NArith String Ascii Bool Lia.
Import ListNotations.
From Verif Require Import Common.Base Common.NegoText Model.OfferShape Model.Negotiation
  Proofs.NegoText Proofs.OfferShape.
Open Scope string_scope.

(* ---------- the op on an empty queue ---------- *)

Definition op1 (s : nn) : nn * list firing := let '(s1, f1, _) := nn_op false s in (s1, f1).

Definition fire_ok (f : firing) : Prop := f_sig f = Stable /\ f_closed f = false.

Lemma nn_op_busy : forall s,
  nn_op true s = if p_closed (n_pc s) then (s, [], false) else (s, [], true).
Proof. intro s. unfold nn_op. destruct (p_closed (n_pc s)); reflexivity. Qed.

Lemma nn_op_false_no_flag : forall s s1 f1 oe, nn_op false s = (s1, f1, oe) -> oe = false.
Proof.
  intros s s1 f1 oe H. unfold nn_op in H.
  destruct (p_closed (n_pc s)); [inversion H; auto|]. cbn in H.
  destruct (negb (sig_eqb (p_sig (n_pc s)) Stable)); [inversion H; auto|].
  destruct (check_negotiation_needed (n_pc s)) as [[|]|e|]; try (inversion H; auto; fail).
  destruct (n_flag s); inversion H; auto.
Qed.

Lemma nn_op_fires_ok : forall b s s1 f1 oe, nn_op b s = (s1, f1, oe) -> Forall fire_ok f1.
Proof.
  intros b s s1 f1 oe H. unfold nn_op in H.
  destruct (p_closed (n_pc s)) eqn:Ec; [inversion H; constructor|].
  destruct b; [inversion H; constructor|].
  destruct (sig_eqb (p_sig (n_pc s)) Stable) eqn:Es; cbn in H; [|inversion H; constructor].
  destruct (check_negotiation_needed (n_pc s)) as [[|]|e|]; try (inversion H; constructor; fail).
  destruct (n_flag s); inversion H; subst; constructor; [|constructor].
  unfold fire_ok. cbn. split; auto. destruct (p_sig (n_pc s)); try discriminate; auto.
Qed.

Lemma nn_op_pc : forall b s s1 f1 oe, nn_op b s = (s1, f1, oe) -> n_pc s1 = n_pc s.
Proof.
  intros b s s1 f1 oe H. unfold nn_op in H.
  destruct (p_closed (n_pc s)); [inversion H; auto|].
  destruct b; [inversion H; auto|].
  destruct (negb (sig_eqb (p_sig (n_pc s)) Stable)); [inversion H; auto|].
  destruct (check_negotiation_needed (n_pc s)) as [[|]|e|]; try (inversion H; auto; fail).
  destruct (n_flag s); inversion H; auto.
Qed.

(* a second run right after the first changes nothing and fires nothing *)
Lemma op1_idem : forall s, op1 (fst (op1 s)) = (fst (op1 s), []).
Proof.
  intros [p fl pk]. unfold op1, nn_op. cbn [n_pc n_flag n_panicked].
  destruct (p_closed p) eqn:Ec; cbn [fst n_pc]. { rewrite Ec. reflexivity. }
  destruct (sig_eqb (p_sig p) Stable) eqn:Es; cbn [negb fst n_pc].
  2:{ rewrite Ec, Es. reflexivity. }
  destruct (check_negotiation_needed p) as [[|]|e|] eqn:Ck; cbn [fst n_pc n_flag n_panicked].
  - destruct fl; cbn [fst n_pc n_flag]; rewrite Ec, Es, Ck; reflexivity.
  - rewrite Ec, Es, Ck. reflexivity.
  - rewrite Ec, Es, Ck. reflexivity.
  - rewrite Ec, Es, Ck. reflexivity.
Qed.

Lemma rerun_spec : forall sched s, rerun sched s = op1 s.
Proof.
  induction sched as [|b r IH]; intro s; cbn [rerun]; [reflexivity|].
  destruct b.
  - rewrite nn_op_busy. unfold op1, nn_op.
    destruct (p_closed (n_pc s)) eqn:Ec; [reflexivity|].
    rewrite IH. unfold op1, nn_op. rewrite Ec. cbn [app].
    destruct (negb (sig_eqb (p_sig (n_pc s)) Stable)); [reflexivity|].
    destruct (check_negotiation_needed (n_pc s)) as [[|]|e|]; try reflexivity.
    destruct (n_flag s); reflexivity.
  - unfold op1. destruct (nn_op false s) as [[s1 f1] oe] eqn:E.
    rewrite (nn_op_false_no_flag _ _ _ _ E). reflexivity.
Qed.

(* the queued ops: either none has really run yet (all found the queue busy),
   or the result is that of one run on an empty queue *)
Lemma run_pending_spec : forall n sched oe s s' f sched' oe',
  run_pending n sched oe s = (s', f, sched', oe') ->
  (n = 0 /\ s' = s /\ f = [] /\ oe' = oe)
  \/ (n <> 0 /\ (s', f) = op1 s)
  \/ (n <> 0 /\ s' = s /\ f = [] /\ oe' = true /\ p_closed (n_pc s) = false).
Proof.
  induction n as [|k IH]; intros sched oe s s' f sched' oe' H; cbn [run_pending] in H.
  - inversion H; subst. left. auto.
  - right.
    destruct (nn_op (match sched with [] => false | b :: _ => b end) s) as [[s1 f1] oe1] eqn:E.
    destruct (run_pending k (tl sched) (oe || oe1) s1) as [[[s2 f2] sc2] oe2] eqn:R.
    inversion H; subst. clear H.
    destruct (match sched with [] => false | b :: _ => b end) eqn:Eb.
    + (* this op found the queue busy *)
      rewrite nn_op_busy in E. destruct (p_closed (n_pc s)) eqn:Ec.
      * (* closed: every run is a no-op *)
        inversion E; subst. left. split; [discriminate|].
        assert (Hc : op1 s1 = (s1, [])) by (unfold op1, nn_op; now rewrite Ec).
        destruct (IH _ _ _ _ _ _ _ R) as [[_ [-> [-> _]]]|[[_ Hd]|[_ [-> [-> _]]]]]; cbn; auto.
      * inversion E; subst. rewrite orb_true_r in R.
        destruct (IH _ _ _ _ _ _ _ R) as [[-> [-> [-> ->]]]|[[_ Hd]|[_ [-> [-> [-> _]]]]]]; cbn.
        -- right. repeat split; auto.
        -- left. split; [discriminate|]. exact Hd.
        -- right. repeat split; auto.
    + left. split; [discriminate|].
      assert (Ho : op1 s = (s1, f1)) by (unfold op1; now rewrite E).
      assert (Hs1 : s1 = fst (op1 s)) by now rewrite Ho.
      destruct (IH _ _ _ _ _ _ _ R) as [[_ [-> [-> _]]]|[[_ Hd]|[_ [-> [-> _]]]]].
      * rewrite app_nil_r. auto.
      * rewrite Hs1, op1_idem in Hd. inversion Hd as [[Ha Hb]].
        rewrite app_nil_r, <- Hs1. auto.
      * rewrite app_nil_r. auto.
Qed.

Lemma drain_spec : forall sched n s,
  drain sched n s = match n with O => (s, []) | S _ => op1 s end.
Proof.
  intros sched n s. unfold drain.
  destruct (run_pending n sched false s) as [[[s1 f1] sc1] oe1] eqn:R.
  destruct (run_pending_spec _ _ _ _ _ _ _ _ R) as [[-> [-> [-> ->]]]|[[Hn Hd]|[Hn [-> [-> [-> Hc]]]]]].
  - reflexivity.
  - destruct n; [congruence|]. rewrite <- Hd.
    destruct oe1; auto. rewrite rerun_spec.
    assert (Hs1 : s1 = fst (op1 s)) by now rewrite <- Hd.
    rewrite Hs1, op1_idem. now rewrite app_nil_r.
  - destruct n; [congruence|]. rewrite rerun_spec. destruct (op1 s). reflexivity.
Qed.

(* the interleaving inside a call does not matter *)
Lemma nstep_sched_irrelevant : forall s o sched, nstep s o sched = nstep s o [].
Proof. intros. unfold nstep. destruct (step (n_pc s) o) as [[p' out] fx]. now rewrite !drain_spec. Qed.

Lemma op1_fires_ok : forall s, Forall fire_ok (snd (op1 s)).
Proof.
  intro s. unfold op1. destruct (nn_op false s) as [[s1 f1] oe] eqn:E. cbn.
  eapply nn_op_fires_ok; eauto.
Qed.

Lemma nstep_fires_ok : forall s o sched s' out fs,
  nstep s o sched = (s', out, fs) -> Forall fire_ok fs.
Proof.
  intros s o sched s' out fs H. unfold nstep in H.
  destruct (step (n_pc s) o) as [[p' out'] fx]. rewrite drain_spec in H.
  destruct (fx_triggers fx).
  - inversion H; constructor.
  - match type of H with (let (_, _) := op1 ?x in _) = _ => pose proof (op1_fires_ok x) as Hf; destruct (op1 x) end.
    inversion H; subst. exact Hf.
Qed.

Lemma nrun_fires_ok : forall h s, Forall (Forall fire_ok) (snd (nrun s h)).
Proof.
  induction h as [|[o sched] r IH]; intro s; cbn [nrun]; [constructor|].
  destruct (nstep s o sched) as [[s1 out] fs] eqn:E.
  specialize (IH s1). destruct (nrun s1 r) as [s2 l]. cbn in *.
  constructor; auto. eapply nstep_fires_ok; eauto.
Qed.

(* ---------- invariants of reachable states ---------- *)

Definition sec_has_mid (s : sec) : Prop := exists m, sc_mid s = Some m /\ m <> "".
Definition desc_wf (d : desc) : Prop := Forall sec_has_mid (d_secs d).
Definition odesc_wf (o : option desc) : Prop := match o with Some d => desc_wf d | None => True end.

Record Inv (p : pc) : Prop := {
  inv_pend : p_sig p = HaveRemoteOffer \/ p_sig p = HaveLocalPranswer -> p_pend_remote p <> None;
  inv_cur : p_cur_local p <> None -> p_cur_remote p <> None;
  inv_wf_cur : odesc_wf (p_cur_local p);
  inv_wf_pend : odesc_wf (p_pend_local p);
  inv_wf_lo : odesc_wf (p_last_offer p);
  inv_wf_la : odesc_wf (p_last_answer p)
}.

Definition descs (p : pc) :=
  (p_sig p, p_cur_local p, p_pend_local p, p_cur_remote p, p_pend_remote p, p_last_offer p, p_last_answer p).

Lemma Inv_ext : forall p p', descs p' = descs p -> Inv p -> Inv p'.
Proof.
  intros p p' H I. unfold descs in H. inversion H as [[H1 H2 H3 H4 H5 H6 H7]].
  destruct I as [a b c d e f].
  constructor; [rewrite H1, H5 | rewrite H2, H4 | rewrite H2 | rewrite H3 | rewrite H6 | rewrite H7]; auto.
Qed.

Lemma Inv_init : forall a, Inv (pc_init a).
Proof. intro a. constructor; cbn; try congruence; auto; try constructor. intros [H|H]; discriminate. Qed.

Definition ms_ne (ms : list msec) : Prop :=
  Forall (fun m => match m with MSData id => id <> "" | MSMedia id _ => id <> "" end) ms.

Lemma render_wf : forall ms, ms_ne ms -> Forall sec_has_mid (map render_msec ms).
Proof.
  intros ms H. induction H as [|m ms Hm Hms IH]; cbn; constructor; auto.
  destruct m; cbn in *; eexists; (split; [reflexivity|exact Hm]).
Qed.

Lemma matched_loop_ne : forall remote locals acc ha acc' locals' ha',
  matched_loop remote locals acc ha = Ok (acc', locals', ha') -> ms_ne acc -> ms_ne acc'.
Proof.
  induction remote as [|m rest IH]; intros locals acc ha acc' locals' ha' H Hne; cbn in H.
  - inversion H; subst; auto.
  - destruct (String.eqb (mid_value m) "") eqn:Emid; try discriminate.
    apply String.eqb_neq in Emid.
    destruct (sc_media m); cbn [kind_of_media] in H.
    + destruct (sc_dir m); [|eapply IH; eauto].
      destruct (find_by_mid (mid_value m) locals) as [[[i t] l1]|]; try discriminate.
      eapply IH; [exact H|]. apply Forall_app. split; auto; constructor; auto.
    + destruct (sc_dir m); [|eapply IH; eauto].
      destruct (find_by_mid (mid_value m) locals) as [[[i t] l1]|]; try discriminate.
      eapply IH; [exact H|]. apply Forall_app. split; auto; constructor; auto.
    + eapply IH; [exact H|]. apply Forall_app. split; auto; constructor; auto.
    + eapply IH; eauto.
Qed.

Lemma subseq_Forall {A} (P : A -> Prop) : forall s l, subseq s l -> Forall P l -> Forall P s.
Proof.
  induction 1; intro F; auto.
  - inversion F; subst. constructor; auto.
  - inversion F; subst. auto.
Qed.

Lemma indexed_Forall {A} (P : A -> Prop) : forall (l : list A) n,
  Forall P l -> Forall (fun x => P (snd x)) (index_from n l).
Proof. induction l; cbn; intros n F; constructor; inversion F; subst; auto. Qed.

Lemma matched_sections_ne : forall p remote l inc ms rest,
  matched_sections p remote l inc = Ok (ms, rest) ->
  Forall (fun t => t_mid t <> "") l -> ms_ne ms.
Proof.
  intros p remote l inc ms rest H Hl. unfold matched_sections in H.
  destruct (matched_loop remote (indexed l) [] false) as [[[acc locals] ha]|e|] eqn:L; try discriminate.
  pose proof (matched_loop_ne _ _ _ _ _ _ _ L (Forall_nil _)) as Hacc.
  apply matched_loop_spec in L. destruct L as [picked [_ [_ [_ [Hsub _]]]]].
  destruct inc; inversion H; subst; auto.
  apply Forall_app. split.
  - apply Forall_app. split; auto.
    apply Forall_forall. intros x Hx. apply in_map_iff in Hx. destruct Hx as [y [<- Hy]].
    assert (F : Forall (fun x => t_mid (snd x) <> "") locals).
    { eapply subseq_Forall; [exact Hsub|]. unfold indexed. apply (indexed_Forall (fun t => t_mid t <> "")). exact Hl. }
    rewrite Forall_forall in F. apply F. exact Hy.
  - destruct (want_data p && negb ha); constructor; auto. apply itoaN_nonempty.
Qed.

Lemma unmatched_ne : forall p l, Forall (fun t => t_mid t <> "") l -> ms_ne (unmatched_sections p l).
Proof.
  intros p l Hl. unfold unmatched_sections. apply Forall_app. split.
  - apply Forall_forall. intros x Hx. apply in_map_iff in Hx. destruct Hx as [t [<- Ht]].
    rewrite Forall_forall in Hl. now apply Hl.
  - destruct (want_data p); constructor; auto. apply itoaN_nonempty.
Qed.

Lemma create_offer_inv : forall p p' out fx, create_offer p = (p', out, fx) -> Inv p -> Inv p'.
Proof.
  intros p p' out fx H I. unfold create_offer in H.
  destruct (p_closed p); [inversion H; subst; auto|].
  destruct (assign_mids _ (p_tcvs p)) as [g l] eqn:A.
  apply assign_mids_spec in A. destruct A as [_ Hne].
  match type of H with (match ?b with _ => _ end) = _ => destruct b as [ms|e|] eqn:B end.
  - assert (Hms : ms_ne ms).
    { destruct (p_cur_remote p).
      - destruct (remote_for_matching p); try discriminate.
        destruct (matched_sections p (d_secs d0) l true) as [[ms' rest]|e|] eqn:M; try discriminate.
        inversion B; subst. eapply matched_sections_ne; eauto.
      - inversion B; subst. now apply unmatched_ne. }
    destruct (local_changed l (map render_msec ms)); inversion H; subst.
    + eapply Inv_ext; [|exact I]. reflexivity.
    + destruct I. constructor; cbn; auto. now apply render_wf.
  - inversion H; subst. eapply Inv_ext; [|exact I]. reflexivity.
  - inversion H; subst. auto.
Qed.

Lemma create_answer_inv : forall p p' out fx, create_answer p = (p', out, fx) -> Inv p -> Inv p'.
Proof.
  intros p p' out fx H I. unfold create_answer in H.
  destruct (remote_for_matching p) as [r|]; [|inversion H; subst; auto].
  destruct (p_closed p); [inversion H; subst; auto|].
  destruct (negb (sig_eqb (p_sig p) HaveRemoteOffer) && negb (sig_eqb (p_sig p) HaveLocalPranswer));
    [inversion H; subst; auto|].
  destruct (matched_sections p (d_secs r) (p_tcvs p) false) as [[ms unused]|e|] eqn:M;
    try (inversion H; subst; auto; fail).
  2:{ inversion H; subst. eapply Inv_ext; [|exact I]. reflexivity. }
  inversion H; subst. destruct I. constructor; cbn; auto.
  apply render_wf. unfold matched_sections in M.
  destruct (matched_loop (d_secs r) (indexed (p_tcvs p)) [] false) as [[[acc locals] ha]|e|] eqn:L; try discriminate.
  inversion M; subst. eapply matched_loop_ne; eauto. constructor.
Qed.

Lemma sig_eqb_eq : forall a b, sig_eqb a b = true -> a = b.
Proof. destruct a, b; cbn; intro H; try discriminate; reflexivity. Qed.

Lemma set_local_inv : forall p ty p' out fx, set_local p ty = (p', out, fx) -> Inv p -> Inv p'.
Proof.
  intros p ty p' out fx H I. unfold set_local in H.
  destruct (p_closed p); [inversion H; subst; auto|].
  destruct ty.
  - destruct (p_last_offer p) as [d|] eqn:Lo; [|inversion H; subst; auto].
    destruct (sig_eqb (p_sig p) Stable); inversion H; subst; auto.
    destruct I. rewrite Lo in inv_wf_lo0. constructor; cbn; auto; try discriminate.
    intros [X|X]; discriminate.
  - destruct (p_last_answer p) as [d|] eqn:La; [|inversion H; subst; auto].
    destruct (sig_eqb (p_sig p) HaveRemoteOffer || sig_eqb (p_sig p) HaveLocalPranswer) eqn:Es;
      [|inversion H; subst; auto].
    assert (Hs : p_sig p = HaveRemoteOffer \/ p_sig p = HaveLocalPranswer).
    { apply orb_true_iff in Es. destruct Es as [Es|Es]; apply sig_eqb_eq in Es; auto. }
    destruct (match p_pend_remote p with Some _ => start_rtp_senders _ | None => _ end) as [l2 ok].
    inversion H; subst. destruct I. rewrite La in inv_wf_la0. constructor; cbn; auto; try discriminate.
    intros [X|X]; discriminate.
  - destruct (p_last_answer p) as [d|] eqn:La; [|inversion H; subst; auto].
    destruct (sig_eqb (p_sig p) HaveRemoteOffer) eqn:Es; [|inversion H; subst; auto].
    apply sig_eqb_eq in Es.
    inversion H; subst. destruct I. rewrite La in inv_wf_la0. constructor; cbn; auto.
Qed.

Lemma set_remote_nonanswer_inv : forall p d from to l0 p' out fx,
  set_remote_nonanswer p d from to l0 = (p', out, fx) ->
  to <> HaveLocalPranswer -> Inv p -> Inv p'.
Proof.
  intros p d from to l0 p' out fx H Hto I. unfold set_remote_nonanswer in H.
  destruct (sig_eqb (p_sig p) from); [|inversion H; subst; auto].
  destruct (remote_offer_loop (d_secs d) _ _ 0) as [[l1 added] ok].
  inversion H; subst. destruct I. constructor; cbn; auto; discriminate.
Qed.

Lemma set_remote_apply_inv : forall p ty secs e p' out fx,
  set_remote_apply p ty secs e = (p', out, fx) -> Inv p -> Inv p'.
Proof.
  intros p ty secs e p' out fx H I. unfold set_remote_apply in H.
  destruct (p_closed p); [inversion H; subst; auto|].
  destruct ty.
  - destruct (sig_eqb (p_sig p) Stable); [|inversion H; subst; auto].
    eapply set_remote_nonanswer_inv; eauto. discriminate.
  - destruct (sig_eqb (p_sig p) HaveLocalOffer || sig_eqb (p_sig p) HaveRemotePranswer); [|inversion H; subst; auto].
    match type of H with context [start_rtp_senders ?x] => destruct (start_rtp_senders x) as [la oka] end.
    destruct secs; cbn in H; inversion H; subst; destruct I; constructor; cbn; auto; try discriminate;
      intros [X|X]; discriminate.
  - destruct (sig_eqb (p_sig p) HaveLocalOffer); [|inversion H; subst; auto].
    eapply set_remote_nonanswer_inv; eauto. discriminate.
Qed.

Lemma set_remote_inv : forall p ty secs e p' out fx,
  set_remote p ty secs e = (p', out, fx) -> Inv p -> Inv p'.
Proof.
  intros p ty secs e p' out fx H I. unfold set_remote in H.
  destruct (p_closed p); [inversion H; subst; auto|].
  destruct (_ && _); [inversion H; subst; auto|].
  destruct secs as [|m rest]; [inversion H; subst; auto|].
  eapply set_remote_apply_inv; eauto.
Qed.

Lemma step_inv : forall p o p' out fx, step p o = (p', out, fx) -> Inv p -> Inv p'.
Proof.
  intros p o p' out fx H I. destruct o; cbn [step] in H.
  - unfold add_track in H. destruct (p_closed p); [inversion H; subst; auto|].
    destruct (add_track_reuse (p_tcvs p) k i); inversion H; subst; (eapply Inv_ext; [|exact I]); reflexivity.
  - unfold add_tcv_kind in H. destruct (p_closed p); [inversion H; subst; auto|].
    destruct d as [[| | |]|]; inversion H; subst; auto; (eapply Inv_ext; [|exact I]); reflexivity.
  - unfold add_tcv_track in H. destruct (p_closed p); [inversion H; subst; auto|].
    destruct d as [[| | |]|]; inversion H; subst; auto; (eapply Inv_ext; [|exact I]); reflexivity.
  - unfold add_encoding in H. destruct (nth_error (p_tcvs p) ti) as [t|]; [|inversion H; subst; auto].
    destruct (t_sender t) as [s|]; [|inversion H; subst; auto].
    repeat match type of H with
           | (if ?c then _ else _) = _ => destruct c; [inversion H; subst; auto; fail|]
           | (match ?c with Some _ => _ | None => _ end) = _ => destruct c; [|inversion H; subst; auto; fail]
           end.
    inversion H; subst. (eapply Inv_ext; [|exact I]); reflexivity.
  - unfold remove_track in H. destruct (nth_error (p_tcvs p) ti) as [t|]; [|inversion H; subst; auto].
    destruct (t_sender t) as [s|]; [|inversion H; subst; auto].
    destruct (p_closed p); [inversion H; subst; auto|].
    destruct (sending_dir false (t_dir t)); inversion H; subst; (eapply Inv_ext; [|exact I]); reflexivity.
  - unfold replace_track in H. destruct (nth_error (p_tcvs p) ti) as [t0|]; [|inversion H; subst; auto].
    destruct (t_sender t0) as [s|]; [|inversion H; subst; auto].
    destruct t as [tr|].
    + destruct (negb (kind_eqb k (t_kind t0))); [inversion H; subst; auto|].
      destruct (Nat.ltb 1 (List.length (sn_encs s))); inversion H; subst; auto.
      (eapply Inv_ext; [|exact I]); reflexivity.
    + inversion H; subst. (eapply Inv_ext; [|exact I]); reflexivity.
  - unfold create_data_channel in H. destruct (p_closed p); inversion H; subst; auto.
    (eapply Inv_ext; [|exact I]); reflexivity.
  - eapply create_offer_inv; eauto.
  - eapply create_answer_inv; eauto.
  - eapply set_local_inv; eauto.
  - eapply set_remote_inv; eauto.
  - unfold close_pc in H. destruct (p_closed p); inversion H; subst; auto.
    destruct I. constructor; cbn; auto; try discriminate. intros [X|X]; discriminate.
Qed.

(* ---------- reachable states ---------- *)

Lemma op1_pc : forall s, n_pc (fst (op1 s)) = n_pc s.
Proof.
  intro s. unfold op1. destruct (nn_op false s) as [[s1 f1] oe] eqn:E. cbn.
  eapply nn_op_pc; eauto.
Qed.

Lemma nstep_pc : forall s o sched,
  n_pc (fst (fst (nstep s o sched))) = fst (fst (step (n_pc s) o)).
Proof.
  intros s o sched. unfold nstep. destruct (step (n_pc s) o) as [[p' out] fx]. rewrite drain_spec.
  destruct (fx_triggers fx); cbn; auto.
  match goal with |- context [op1 ?x] => pose proof (op1_pc x) as Hp; destruct (op1 x) end.
  cbn in *. exact Hp.
Qed.

Lemma nstep_inv : forall s o sched, Inv (n_pc s) -> Inv (n_pc (fst (fst (nstep s o sched)))).
Proof.
  intros s o sched I. rewrite nstep_pc.
  destruct (step (n_pc s) o) as [[p' out] fx] eqn:E. cbn. eapply step_inv; eauto.
Qed.

Lemma nrun_inv : forall h s, Inv (n_pc s) -> Inv (n_pc (fst (nrun s h))).
Proof.
  induction h as [|[o sched] r IH]; intros s I; cbn [nrun]; auto.
  pose proof (nstep_inv s o sched I) as I1.
  destruct (nstep s o sched) as [[s1 out] fs]. cbn in I1.
  specialize (IH s1 I1). destruct (nrun s1 r). cbn in *. exact IH.
Qed.

Lemma reachable_inv : forall a h, Inv (n_pc (fst (nrun (nn_init a) h))).
Proof. intros. apply nrun_inv. apply Inv_init. Qed.

(* ---------- checkNegotiationNeeded on reachable states ---------- *)

Lemma check_tcv_ok : forall ld r t, exists v, check_tcv ld (Some r) t = Ok v.
Proof.
  intros ld r t. unfold check_tcv.
  destruct (get_by_mid (t_mid t) (d_secs ld)) as [m|]; [|eauto].
  destruct (match t_dir t with Sendrecv | Sendonly => true | _ => false end).
  - destruct (t_sender t) as [s|]; [|eauto].
    destruct (sender_track s) as [tr|]; [|eauto].
    destruct (attr_lookup "msid" (sc_attrs m)) as [v|]; [|eauto].
    destruct (String.eqb v _); [|eauto].
    destruct (d_type ld).
    + destruct (get_by_mid (t_mid t) (d_secs r)); [|eauto].
      destruct (_ && _); eauto.
    + destruct (odir_eqb _ _); eauto.
    + eauto.
  - destruct (d_type ld).
    + destruct (get_by_mid (t_mid t) (d_secs r)); [|eauto].
      destruct (_ && _); eauto.
    + destruct (odir_eqb _ _); eauto.
    + eauto.
Qed.

Lemma check_tcvs_ok : forall ld r l, exists b, check_tcvs ld (Some r) l = Ok b.
Proof.
  induction l as [|t l IH]; cbn; eauto.
  destruct (check_tcv_ok ld r t) as [v ->]. destruct v; eauto.
Qed.

Lemma check_never_panics : forall p, Inv p -> exists b, check_negotiation_needed p = Ok b.
Proof.
  intros p I. unfold check_negotiation_needed.
  destruct (p_cur_local p) as [ld|] eqn:E; [|eauto].
  destruct (_ && _); [eauto|].
  destruct (p_cur_remote p) as [r|] eqn:R.
  - apply check_tcvs_ok.
  - exfalso. apply (inv_cur p I); congruence.
Qed.

Lemma check_tcvs_needed : forall ld r l1 t l2,
  check_tcv ld (Some r) t = Ok Needed -> check_tcvs ld (Some r) (l1 ++ t :: l2) = Ok true.
Proof.
  induction l1 as [|x l1 IH]; intros t l2 H; cbn.
  - now rewrite H.
  - destruct (check_tcv_ok ld r x) as [v ->]. destruct v; auto.
Qed.

Lemma get_by_mid_empty : forall l, Forall sec_has_mid l -> get_by_mid "" l = None.
Proof.
  induction 1 as [|s l [m [Hm Hne]] _ IH]; cbn; auto.
  rewrite Hm. destruct (String.eqb m "") eqn:E; auto. apply String.eqb_eq in E. congruence.
Qed.

(* a transceiver that is not in the current local description, or carries a
   track the description does not announce, needs negotiation *)
Lemma check_with_needed_tcv : forall p l1 t l2,
  Inv p -> p_tcvs p = (l1 ++ t :: l2)%list ->
  (forall ld r, p_cur_local p = Some ld -> p_cur_remote p = Some r -> check_tcv ld (Some r) t = Ok Needed) ->
  check_negotiation_needed p = Ok true.
Proof.
  intros p l1 t l2 I Hl Ht. unfold check_negotiation_needed.
  destruct (p_cur_local p) as [ld|] eqn:E; auto.
  destruct (_ && _); auto.
  destruct (p_cur_remote p) as [r|] eqn:R.
  - rewrite Hl. apply check_tcvs_needed. now apply Ht.
  - exfalso. apply (inv_cur p I); congruence.
Qed.

Lemma check_tcv_no_mid : forall ld rd t, desc_wf ld -> t_mid t = "" -> check_tcv ld rd t = Ok Needed.
Proof. intros ld rd t W M. unfold check_tcv. rewrite M, get_by_mid_empty; auto. Qed.

(* ---------- firing after a change ---------- *)

Definition the_firing : firing := {| f_sig := Stable; f_closed := false |}.

Lemma op1_fires : forall s,
  p_closed (n_pc s) = false -> p_sig (n_pc s) = Stable -> n_flag s = false ->
  check_negotiation_needed (n_pc s) = Ok true ->
  snd (op1 s) = [the_firing] /\ n_flag (fst (op1 s)) = true.
Proof.
  intros s Hc Hs Hf Hk. unfold op1, nn_op. rewrite Hc, Hs, Hk, Hf. cbn. rewrite ?Hs, ?Hc. auto.
Qed.

(* the transceiver AddTrack would reuse *)
Fixpoint reused_tcv (l : list tcv) (k : kind) : option tcv :=
  match l with
  | [] => None
  | t :: r => if is_send_allowed t k then Some t else reused_tcv r k
  end.

(* ... and whether the current local description already announces this very
   track on that transceiver's m-section *)
Definition readvertised (p : pc) (k : kind) (i : encin) : bool :=
  match reused_tcv (p_tcvs p) k, p_cur_local p with
  | Some t, Some ld =>
      match get_by_mid (t_mid t) (d_secs ld) with
      | Some m =>
          match attr_lookup "msid" (sc_attrs m) with
          | Some v => String.eqb v (k_stream (i_trk i) ++ " " ++ k_id (i_trk i))
          | None => false
          end
      | None => false
      end
  | _, _ => false
  end.

Lemma add_track_reuse_spec : forall l k i l',
  add_track_reuse l k i = Some l' ->
  exists l1 t l2 d,
    l = (l1 ++ t :: l2)%list /\ reused_tcv l k = Some t
    /\ l' = (l1 ++ tcv_with_dir (tcv_with_sender t (Some (new_sender i))) d :: l2)%list
    /\ (d = Sendrecv \/ d = Sendonly).
Proof.
  induction l as [|t r IH]; intros k i l' H; cbn in H; [discriminate|].
  cbn [reused_tcv]. destruct (is_send_allowed t k) eqn:A.
  - destruct (t_dir t); inversion H; subst;
      [exists [], t, r, Sendrecv|exists [], t, r, Sendonly|exists [], t, r, Sendrecv|exists [], t, r, Sendonly];
      repeat split; auto.
  - destruct (add_track_reuse r k i) as [r'|] eqn:R; [|discriminate].
    inversion H; subst. destruct (IH _ _ _ R) as [l1 [t0 [l2 [d [-> [Hr [-> Hd]]]]]]].
    exists (t :: l1), t0, l2, d. repeat split; auto.
Qed.

(* the calls the property names as changes that require renegotiation, with the
   premise each needs to really require it *)
Definition change_op (p : pc) (o : op) : Prop :=
  match o with
  | OAddTcvKind _ _ _ | OAddTcvTrack _ _ _ => True
  | OAddTrack k i => readvertised p k i = false
  | OCreateDC =>
      p_dcs p = 0%N
      /\ match p_cur_local p with Some ld => have_data_channel (d_secs ld) = false | None => True end
  | _ => False
  end.

Lemma step_change_needed : forall p o p' out fx,
  Inv p -> change_op p o -> step p o = (p', out, fx) -> o_status out = "ok" ->
  fx = fx_one /\ p_sig p' = p_sig p /\ p_closed p' = p_closed p
  /\ check_negotiation_needed p' = Ok true.
Proof.
  intros p o p' out fx I C H Hok.
  assert (Happ : forall t, t_mid t = "" ->
                 check_negotiation_needed (pc_with_tcvs p (p_tcvs p ++ [t])) = Ok true).
  { intros t Hm. eapply (check_with_needed_tcv _ (p_tcvs p) t []).
    - eapply Inv_ext; [|exact I]. reflexivity.
    - reflexivity.
    - cbn. intros ld r Hl _. apply check_tcv_no_mid; auto.
      pose proof (inv_wf_cur p I) as W. rewrite Hl in W. exact W. }
  destruct o; cbn [step change_op] in *; try contradiction.
  - (* AddTrack *)
    unfold add_track in H. destruct (p_closed p) eqn:Ec; [inversion H; subst; discriminate|].
    destruct (add_track_reuse (p_tcvs p) k i) as [l'|] eqn:R; inversion H; subst; clear H.
    + split; [reflexivity|]. split; [reflexivity|]. split; [cbn; congruence|].
      destruct (add_track_reuse_spec _ _ _ _ R) as [l1 [t [l2 [d [Hl [Hr [-> Hd]]]]]]].
      eapply (check_with_needed_tcv _ l1 _ l2).
      * eapply Inv_ext; [|exact I]. reflexivity.
      * reflexivity.
      * cbn. intros ld r Hld _. unfold readvertised in C. rewrite Hr, Hld in C.
        unfold check_tcv. cbn.
        destruct (get_by_mid (t_mid t) (d_secs ld)) as [m|]; auto.
        assert (Hs : match d with Sendrecv | Sendonly => true | _ => false end = true)
          by (destruct Hd; subst; auto).
        rewrite Hs. destruct (attr_lookup "msid" (sc_attrs m)) as [v|]; auto.
        cbn in C. rewrite C. reflexivity.
    + split; [reflexivity|]. split; [reflexivity|]. split; [cbn; congruence|]. apply Happ. reflexivity.
  - (* AddTransceiverFromKind *)
    unfold add_tcv_kind in H. destruct (p_closed p) eqn:Ec; [inversion H; subst; discriminate|].
    destruct d as [[| | |]|]; inversion H; subst; try discriminate;
      (split; [reflexivity|]; split; [reflexivity|]; split; [cbn; congruence|]; apply Happ; reflexivity).
  - (* AddTransceiverFromTrack *)
    unfold add_tcv_track in H. destruct (p_closed p) eqn:Ec; [inversion H; subst; discriminate|].
    destruct d as [[| | |]|]; inversion H; subst; try discriminate;
      (split; [reflexivity|]; split; [reflexivity|]; split; [cbn; congruence|]; apply Happ; reflexivity).
  - (* CreateDataChannel *)
    unfold create_data_channel in H. destruct (p_closed p) eqn:Ec; [inversion H; subst; discriminate|].
    inversion H; subst. split; [reflexivity|]. split; [reflexivity|]. split; [cbn; congruence|].
    unfold check_negotiation_needed. cbn. destruct C as [C0 C1].
    destruct (p_cur_local p) as [ld|]; auto. rewrite C0, C1. reflexivity.
Qed.

Lemma fires_after_change : forall s o sched s' out fs,
  Inv (n_pc s) -> p_sig (n_pc s) = Stable -> p_closed (n_pc s) = false -> n_flag s = false ->
  change_op (n_pc s) o ->
  nstep s o sched = (s', out, fs) -> o_status out = "ok" ->
  fs = [the_firing] /\ n_flag s' = true.
Proof.
  intros s o sched s' out fs I Hs Hc Hf C H Hok. unfold nstep in H.
  destruct (step (n_pc s) o) as [[p' out'] fx] eqn:E.
  rewrite drain_spec in H.
  assert (out' = out).
  { destruct (fx_triggers fx); [inversion H; auto|].
    match type of H with (let (_, _) := op1 ?x in _) = _ => destruct (op1 x) end. inversion H; auto. }
  subst out'.
  destruct (step_change_needed _ _ _ _ _ I C E Hok) as [-> [Hs' [Hc' Hk]]].
  cbn [fx_triggers fx_one fx_to_stable] in H.
  match type of H with (let (_, _) := op1 ?x in _) = _ =>
    destruct (op1_fires x) as [F1 F2]; cbn; try congruence; destruct (op1 x) end.
  cbn in *. inversion H; subst. auto.
Qed.

(* ---------- no second firing while the flag is set ---------- *)

Lemma op1_flag_set : forall s, n_flag s = true -> snd (op1 s) = [].
Proof.
  intros s Hf. unfold op1, nn_op.
  destruct (p_closed (n_pc s)); auto. cbn.
  destruct (negb (sig_eqb (p_sig (n_pc s)) Stable)); auto.
  destruct (check_negotiation_needed (n_pc s)) as [[|]|e|]; auto.
  rewrite Hf. reflexivity.
Qed.

Lemma op1_flag_kept : forall s, n_flag s = true ->
  check_negotiation_needed (n_pc s) = Ok true -> n_flag (fst (op1 s)) = true.
Proof.
  intros s Hf Hk. unfold op1, nn_op.
  destruct (p_closed (n_pc s)); auto. cbn.
  destruct (negb (sig_eqb (p_sig (n_pc s)) Stable)); auto.
  rewrite Hk, Hf. auto.
Qed.

Lemma nstep_flag_set : forall s o sched,
  n_flag s = true -> fx_to_stable (snd (step (n_pc s) o)) = false ->
  snd (nstep s o sched) = []
  /\ (check_negotiation_needed (n_pc (fst (fst (nstep s o sched)))) = Ok true ->
      n_flag (fst (fst (nstep s o sched))) = true).
Proof.
  intros s o sched Hf Hst. pose proof (nstep_pc s o sched) as Hp. unfold nstep in *.
  destruct (step (n_pc s) o) as [[p' out] fx]. cbn in Hst. rewrite Hst in *.
  rewrite drain_spec in *. destruct (fx_triggers fx).
  - cbn. auto.
  - match goal with |- context [op1 ?x] =>
      pose proof (op1_flag_set x Hf) as F1; pose proof (op1_flag_kept x Hf) as F2;
      pose proof (op1_pc x) as F3; destruct (op1 x) as [s2 f2] end.
    cbn in *. split; auto. intro Hk. apply F2. now rewrite <- F3.
Qed.

(* a stretch of calls during which no exchange completes and negotiation stays needed *)
Fixpoint still_needed (s : nn) (h : list (op * list bool)) : Prop :=
  match h with
  | [] => True
  | (o, sched) :: r =>
      fx_to_stable (snd (step (n_pc s) o)) = false
      /\ check_negotiation_needed (n_pc (fst (fst (nstep s o sched)))) = Ok true
      /\ still_needed (fst (fst (nstep s o sched))) r
  end.

Lemma no_refire : forall h s,
  n_flag s = true -> still_needed s h -> Forall (fun fs => fs = []) (snd (nrun s h)).
Proof.
  induction h as [|[o sched] r IH]; intros s Hf Hn; cbn [nrun]; [constructor|].
  destruct Hn as [H1 [H2 H3]].
  destruct (nstep_flag_set s o sched Hf H1) as [F1 F2].
  destruct (nstep s o sched) as [[s1 out] fs]. cbn in *.
  specialize (IH s1 (F2 H2) H3). destruct (nrun s1 r). cbn in *. constructor; auto.
Qed.

Lemma firing_sets_flag : forall s o sched s' out fs,
  nstep s o sched = (s', out, fs) -> fs <> [] -> n_flag s' = true.
Proof.
  intros s o sched s' out fs H Hne. unfold nstep in H.
  destruct (step (n_pc s) o) as [[p' out'] fx]. rewrite drain_spec in H.
  destruct (fx_triggers fx); [inversion H; subst; congruence|].
  unfold op1, nn_op in H. cbn [n_pc n_flag n_panicked] in H.
  destruct (p_closed p'); [inversion H; subst; congruence|]. cbn in H.
  destruct (negb (sig_eqb (p_sig p') Stable)); [inversion H; subst; congruence|].
  destruct (check_negotiation_needed p') as [[|]|e|]; try (inversion H; subst; congruence).
  destruct (if fx_to_stable fx then false else n_flag s); inversion H; subst; auto; congruence.
Qed.

(* ---------- witnesses against the unguarded sentences ---------- *)

Definition w_enc (ssrc : N) : encin :=
  {| i_trk := {| k_id := "ta"; k_stream := "s1"; k_rid := "" |}; i_ssrc := ssrc; i_rtx := 0; i_fec := 0 |}.
Definition w_engine : engine :=
  {| rtx_audio := false; rtx_video := false; fec_audio := false; fec_video := false |}.
Definition w_answer (d : dir) : op :=
  OSetRemote TAnswer [{| sc_mid := Some "0"; sc_media := MVideo; sc_dir := Some d; sc_attrs := [] |}] w_engine.
Definition nosched (l : list op) : list (op * list bool) := map (fun o => (o, [])) l.

Fixpoint stable_marks (s : nn) (h : list (op * list bool)) : list bool :=
  match h with
  | [] => []
  | (o, sched) :: r =>
      fx_to_stable (snd (step (n_pc s) o)) :: stable_marks (fst (fst (nstep s o sched))) r
  end.
Definition fire_counts (s : nn) (h : list (op * list bool)) : list nat :=
  map (@List.length firing) (snd (nrun s h)).

(* the remote answers "inactive": RemoveTrack fires; adding the same track again
   withdraws the need (flag cleared, nothing fires); RemoveTrack fires again --
   two firings and no completed exchange in between *)
Definition refire_history : list (op * list bool) :=
  nosched [OAddTrack Video (w_enc 1); OCreateOffer; OSetLocal TOffer; w_answer Inactive;
           ORemoveTrack 0; OAddTrack Video (w_enc 2); ORemoveTrack 0].

Lemma refire_witness :
  fire_counts (nn_init false) refire_history = [1; 0; 0; 0; 1; 0; 1]
  /\ stable_marks (nn_init false) refire_history = [false; false; false; true; false; false; false].
Proof. split; vm_compute; reflexivity. Qed.

(* the remote answers "sendonly": RemoveTrack does not fire (the effective
   direction was already recvonly) and AddTrack of the same track, reusing the
   transceiver, does not fire either: the local description already says
   sendrecv with this msid *)
Definition nofire_prefix : list (op * list bool) :=
  nosched [OAddTrack Video (w_enc 1); OCreateOffer; OSetLocal TOffer; w_answer Sendonly; ORemoveTrack 0].

Lemma nofire_witness :
  let s := fst (nrun (nn_init false) nofire_prefix) in
  p_sig (n_pc s) = Stable /\ p_closed (n_pc s) = false /\ n_flag s = false
  /\ add_track_reuse (p_tcvs (n_pc s)) Video (w_enc 2) <> None
  /\ o_status (snd (fst (nstep s (OAddTrack Video (w_enc 2)) []))) = "ok"
  /\ snd (nstep s (OAddTrack Video (w_enc 2)) []) = [].
Proof. vm_compute. repeat split; congruence. Qed.

(* ---------- what each call reports to the flag machinery ---------- *)

Lemma create_offer_fx : forall p p' out fx, create_offer p = (p', out, fx) -> fx = fx_none.
Proof.
  intros p p' out fx H. unfold create_offer in H.
  destruct (p_closed p); [inversion H; auto|].
  destruct (assign_mids _ _) as [g l].
  match type of H with (match ?b with _ => _ end) = _ => destruct b as [ms|e|] end.
  - destruct (local_changed l (map render_msec ms)); inversion H; auto.
  - inversion H; auto.
  - inversion H; auto.
Qed.

Lemma create_answer_fx : forall p p' out fx, create_answer p = (p', out, fx) -> fx = fx_none.
Proof.
  intros p p' out fx H. unfold create_answer in H.
  destruct (remote_for_matching p) as [r|]; [|inversion H; auto].
  destruct (p_closed p); [inversion H; auto|].
  destruct (_ && _); [inversion H; auto|].
  destruct (matched_sections p (d_secs r) (p_tcvs p) false) as [[ms unused]|e|]; inversion H; auto.
Qed.

Lemma set_local_fx : forall p ty p' out fx, set_local p ty = (p', out, fx) ->
  fx = fx_none \/ (fx = {| fx_triggers := 1; fx_to_stable := true |} /\ p_sig p' = Stable /\ p_closed p' = false).
Proof.
  intros p ty p' out fx H. unfold set_local in H.
  destruct (p_closed p) eqn:Ec; [inversion H; auto|].
  destruct ty.
  - destruct (p_last_offer p); [|inversion H; auto].
    destruct (sig_eqb (p_sig p) Stable); inversion H; auto.
  - destruct (p_last_answer p); [|inversion H; auto].
    destruct (_ || _); [|inversion H; auto].
    destruct (match p_pend_remote p with Some _ => start_rtp_senders _ | None => _ end).
    inversion H; subst. right. cbn. auto.
  - destruct (p_last_answer p); [|inversion H; auto].
    destruct (sig_eqb (p_sig p) HaveRemoteOffer); inversion H; auto.
Qed.

Lemma set_remote_nonanswer_fx : forall p d from to l0 p' out fx,
  set_remote_nonanswer p d from to l0 = (p', out, fx) ->
  fx_to_stable fx = false /\ (p_sig p' = to \/ (p' = p /\ fx = fx_none)).
Proof.
  intros p d from to l0 p' out fx H. unfold set_remote_nonanswer in H.
  destruct (sig_eqb (p_sig p) from); [|inversion H; auto].
  destruct (remote_offer_loop (d_secs d) _ _ 0) as [[l1 added] ok]. inversion H; subst. cbn. auto.
Qed.

Lemma set_remote_apply_fx : forall p ty secs e p' out fx, set_remote_apply p ty secs e = (p', out, fx) ->
  (fx_to_stable fx = false /\ (p_sig p' <> Stable \/ (p' = p /\ fx = fx_none)))
  \/ (fx = {| fx_triggers := 1; fx_to_stable := true |} /\ p_sig p' = Stable /\ p_closed p' = false).
Proof.
  intros p ty secs e p' out fx H. unfold set_remote_apply in H.
  destruct (p_closed p) eqn:Ec; [inversion H; auto|].
  destruct ty.
  - destruct (sig_eqb (p_sig p) Stable); [|inversion H; auto].
    apply set_remote_nonanswer_fx in H. destruct H as [H1 [H2|H2]]; left; split; auto.
    left. rewrite H2. discriminate.
  - destruct (_ || _); [|inversion H; auto].
    match type of H with context [start_rtp_senders ?x] => destruct (start_rtp_senders x) end.
    right. destruct secs; cbn in H; inversion H; subst; cbn; auto.
  - destruct (sig_eqb (p_sig p) HaveLocalOffer); [|inversion H; auto].
    apply set_remote_nonanswer_fx in H. destruct H as [H1 [H2|H2]]; left; split; auto.
    left. rewrite H2. discriminate.
Qed.

Lemma set_remote_fx : forall p ty secs e p' out fx, set_remote p ty secs e = (p', out, fx) ->
  (fx_to_stable fx = false /\ (p_sig p' <> Stable \/ (p' = p /\ fx = fx_none)))
  \/ (fx = {| fx_triggers := 1; fx_to_stable := true |} /\ p_sig p' = Stable /\ p_closed p' = false).
Proof.
  intros p ty secs e p' out fx H. unfold set_remote in H.
  destruct (p_closed p) eqn:Ec; [inversion H; auto|].
  destruct (_ && _); [inversion H; auto|].
  destruct secs as [|m rest]; [inversion H; auto|].
  eapply set_remote_apply_fx; eauto.
Qed.

(* the local media calls and Close never report a transition into stable *)
Lemma step_other_fx : forall p o p' out fx,
  step p o = (p', out, fx) ->
  match o with OCreateOffer | OCreateAnswer | OSetLocal _ | OSetRemote _ _ _ => True
             | _ => fx = fx_none \/ fx = fx_one end.
Proof.
  intros p o p' out fx H. destruct o; cbn [step] in H; auto.
  - unfold add_track in H. destruct (p_closed p); [inversion H; auto|].
    destruct (add_track_reuse (p_tcvs p) k i); inversion H; auto.
  - unfold add_tcv_kind in H. destruct (p_closed p); [inversion H; auto|].
    destruct d as [[| | |]|]; inversion H; auto.
  - unfold add_tcv_track in H. destruct (p_closed p); [inversion H; auto|].
    destruct d as [[| | |]|]; inversion H; auto.
  - unfold add_encoding in H. destruct (nth_error (p_tcvs p) ti) as [t|]; [|inversion H; auto].
    destruct (t_sender t) as [sn|]; [|inversion H; auto].
    repeat match type of H with
           | (if ?c then _ else _) = _ => destruct c; [inversion H; auto; fail|]
           | (match ?c with Some _ => _ | None => _ end) = _ => destruct c; [|inversion H; auto; fail]
           end.
    inversion H; auto.
  - unfold remove_track in H. destruct (nth_error (p_tcvs p) ti) as [t|]; [|inversion H; auto].
    destruct (t_sender t) as [sn|]; [|inversion H; auto].
    destruct (p_closed p); [inversion H; auto|].
    destruct (sending_dir false (t_dir t)); inversion H; auto.
  - unfold replace_track in H. destruct (nth_error (p_tcvs p) ti) as [t0|]; [|inversion H; auto].
    destruct (t_sender t0) as [sn|]; [|inversion H; auto].
    destruct t as [tr|].
    + destruct (negb (kind_eqb k (t_kind t0))); [inversion H; auto|].
      destruct (Nat.ltb 1 (List.length (sn_encs sn))); inversion H; auto.
    + inversion H; auto.
  - unfold create_data_channel in H. destruct (p_closed p); inversion H; auto.
  - unfold close_pc in H. destruct (p_closed p); inversion H; auto.
Qed.

Lemma step_to_stable_triggers : forall p o p' out fx,
  step p o = (p', out, fx) -> fx_to_stable fx = true -> fx_triggers fx = 1.
Proof.
  intros p o p' out fx H Hst. pose proof (step_other_fx _ _ _ _ _ H) as Ho.
  destruct o; try (destruct Ho as [->| ->]; discriminate); cbn [step] in H.
  - apply create_offer_fx in H. subst. discriminate.
  - apply create_answer_fx in H. subst. discriminate.
  - apply set_local_fx in H. destruct H as [->|[-> _]]; [discriminate|reflexivity].
  - apply set_remote_fx in H. destruct H as [[H _]|[-> _]]; [congruence|reflexivity].
Qed.

(* ---------- a change made during an exchange: the re-check on reaching stable ---------- *)

Lemma stable_transition_rechecks : forall s o sched s' out fs,
  nstep s o sched = (s', out, fs) ->
  fx_to_stable (snd (step (n_pc s) o)) = true ->
  p_closed (n_pc s') = false -> p_sig (n_pc s') = Stable ->
  (check_negotiation_needed (n_pc s') = Ok true -> fs = [the_firing] /\ n_flag s' = true)
  /\ (check_negotiation_needed (n_pc s') = Ok false -> fs = [] /\ n_flag s' = false).
Proof.
  intros s o sched s' out fs H Hst Hc Hs.
  pose proof (nstep_pc s o sched) as Hp. rewrite H in Hp. cbn in Hp.
  unfold nstep in H. destruct (step (n_pc s) o) as [[p' out'] fx] eqn:E. cbn in Hst, Hp. subst p'.
  rewrite Hst, drain_spec in H.
  assert (Htrig : fx_triggers fx <> 0).
  { rewrite (step_to_stable_triggers _ _ _ _ _ E Hst). discriminate. }
  destruct (fx_triggers fx); [congruence|].
  unfold op1, nn_op in H. cbn [n_pc n_flag n_panicked] in H.
  rewrite Hc, Hs in H. cbn in H.
  split; intro Hk; rewrite Hk in H; inversion H; subst; cbn; rewrite ?Hs, ?Hc; auto.
Qed.

(* ---------- the property under the W3C reading ---------- *)

(* the calls the property names as changes *)
Definition is_change (o : op) : bool :=
  match o with
  | OAddTrack _ _ | OAddTcvKind _ _ _ | OAddTcvTrack _ _ _ | OCreateDC => true
  | _ => false
  end.

Lemma step_change_effect : forall p o p' out fx,
  is_change o = true -> step p o = (p', out, fx) -> o_status out = "ok" ->
  fx = fx_one /\ p_sig p' = p_sig p /\ p_closed p' = p_closed p.
Proof.
  intros p o p' out fx C H Hok. destruct o; cbn in C; try discriminate; cbn [step] in H.
  - unfold add_track in H. destruct (p_closed p) eqn:Ec; [inversion H; subst; discriminate|].
    destruct (add_track_reuse (p_tcvs p) k i); inversion H; subst; cbn; auto.
  - unfold add_tcv_kind in H. destruct (p_closed p) eqn:Ec; [inversion H; subst; discriminate|].
    destruct d as [[| | |]|]; inversion H; subst; try discriminate; cbn; auto.
  - unfold add_tcv_track in H. destruct (p_closed p) eqn:Ec; [inversion H; subst; discriminate|].
    destruct d as [[| | |]|]; inversion H; subst; try discriminate; cbn; auto.
  - unfold create_data_channel in H. destruct (p_closed p) eqn:Ec; [inversion H; subst; discriminate|].
    inversion H; subst; cbn; auto.
Qed.

(* after a named change in stable state with the flag clear, the handler fires --
   once -- exactly when the change requires renegotiation (the check is true) *)
Lemma fires_iff_needed : forall s o sched s' out fs,
  p_sig (n_pc s) = Stable -> p_closed (n_pc s) = false -> n_flag s = false ->
  is_change o = true -> nstep s o sched = (s', out, fs) -> o_status out = "ok" ->
  (check_negotiation_needed (n_pc s') = Ok true -> fs = [the_firing] /\ n_flag s' = true)
  /\ (check_negotiation_needed (n_pc s') = Ok false -> fs = [] /\ n_flag s' = false).
Proof.
  intros s o sched s' out fs Hs Hc Hf C H Hok.
  pose proof (nstep_pc s o sched) as Hp. rewrite H in Hp. cbn in Hp.
  unfold nstep in H. destruct (step (n_pc s) o) as [[p' out'] fx] eqn:E. cbn in Hp. subst p'.
  rewrite drain_spec in H.
  assert (out' = out).
  { destruct (fx_triggers fx); [inversion H; auto|].
    match type of H with (let (_, _) := op1 ?x in _) = _ => destruct (op1 x) end. inversion H; auto. }
  subst out'.
  destruct (step_change_effect _ _ _ _ _ C E Hok) as [-> [Hs' Hc']].
  cbn [fx_triggers fx_one fx_to_stable] in H.
  unfold op1, nn_op in H. cbn [n_pc n_flag n_panicked] in H.
  rewrite Hc', Hc, Hs', Hs, Hf in H. cbn in H.
  split; intro Hk; rewrite Hk in H; inversion H; subst; cbn; rewrite ?Hs', ?Hs, ?Hc', ?Hc; auto.
Qed.

Lemma no_refire_after_firing : forall s o sched s' out fs h,
  nstep s o sched = (s', out, fs) -> fs <> [] -> still_needed s' h ->
  Forall (fun x => x = []) (snd (nrun s' h)).
Proof.
  intros s o sched s' out fs h H Hne Hn. apply no_refire; auto.
  eapply firing_sets_flag; eauto.
Qed.

(* ====================================================================== *)
(* the flag and the check at every quiescent point                         *)
(* ====================================================================== *)

(* at rest (queue drained), stable and open: [[NegotiationNeeded]] is set
   exactly when checkNegotiationNeeded is true *)
Definition at_rest_ok (s : nn) : Prop :=
  p_closed (n_pc s) = false -> p_sig (n_pc s) = Stable ->
  (n_flag s = true <-> check_negotiation_needed (n_pc s) = Ok true).

Lemma op1_syncs : forall s,
  (exists b, check_negotiation_needed (n_pc s) = Ok b) -> at_rest_ok (fst (op1 s)).
Proof.
  intros s [b Hb]. unfold at_rest_ok. rewrite op1_pc. intros Hc Hs.
  unfold op1, nn_op. rewrite Hc, Hs, Hb. cbn.
  destruct b; [destruct (n_flag s) eqn:F|]; cbn; rewrite ?Hb, ?F; split; auto; discriminate.
Qed.

(* every call that reaches onNegotiationNeeded (AddTrack, RemoveTrack,
   AddTransceiver*, CreateDataChannel, transceivers created by a remote
   description, setDescription into stable) re-synchronises flag and check *)
Lemma nstep_trigger_syncs : forall s o sched,
  Inv (n_pc s) -> fx_triggers (snd (step (n_pc s) o)) <> 0 ->
  at_rest_ok (fst (fst (nstep s o sched))).
Proof.
  intros s o sched I Ht. unfold nstep.
  destruct (step (n_pc s) o) as [[p' out] fx] eqn:E. cbn in Ht. rewrite drain_spec.
  destruct (fx_triggers fx); [congruence|].
  match goal with |- context [op1 ?x] =>
    pose proof (op1_syncs x) as Hsync; destruct (op1 x) as [s2 f2] eqn:O end.
  cbn in *. apply Hsync. cbn. apply check_never_panics. eapply step_inv; eauto.
Qed.

(* what checkNegotiationNeeded reads *)
Definition tcv_view (t : tcv) :=
  (t_mid t, t_dir t,
   match t_dir t with
   | Sendrecv | Sendonly => Some (option_map sender_track (t_sender t))
   | _ => None
   end).
Definition check_view (p : pc) :=
  (p_cur_local p, p_cur_remote p, p_dcs p, map tcv_view (p_tcvs p)).

Lemma check_tcv_view : forall ld rd t t', tcv_view t = tcv_view t' -> check_tcv ld rd t = check_tcv ld rd t'.
Proof.
  intros ld rd t t' H. unfold tcv_view in H. inversion H as [[Hm Hd Hs]]. unfold check_tcv.
  rewrite Hm, Hd. rewrite Hd in Hs.
  destruct (get_by_mid (t_mid t') (d_secs ld)); auto.
  destruct (t_dir t'); auto; inversion Hs as [Hs'];
    destruct (t_sender t), (t_sender t'); cbn in Hs'; inversion Hs'; auto; now rewrite H1.
Qed.

Lemma check_tcvs_view : forall ld rd l l', map tcv_view l = map tcv_view l' -> check_tcvs ld rd l = check_tcvs ld rd l'.
Proof.
  induction l as [|t l IH]; intros [|t' l'] H; cbn in H; try discriminate; auto.
  assert (Ht : tcv_view t = tcv_view t') by congruence.
  assert (Hl : map tcv_view l = map tcv_view l') by congruence.
  cbn [check_tcvs]. rewrite (check_tcv_view ld rd t t' Ht).
  destruct (check_tcv ld rd t') as [[| |]| |]; auto.
Qed.

Lemma check_view_ext : forall p p', check_view p' = check_view p ->
  check_negotiation_needed p' = check_negotiation_needed p.
Proof.
  intros p p' H. unfold check_view in H.
  assert (H1 : p_cur_local p' = p_cur_local p) by congruence.
  assert (H2 : p_cur_remote p' = p_cur_remote p) by congruence.
  assert (H3 : p_dcs p' = p_dcs p) by congruence.
  assert (H4 : map tcv_view (p_tcvs p') = map tcv_view (p_tcvs p)) by congruence.
  unfold check_negotiation_needed. rewrite H1, H2, H3. destruct (p_cur_local p); auto.
  destruct (_ && _); auto. now apply check_tcvs_view.
Qed.

Lemma map_update_same {A B} (f : A -> B) : forall l i t t',
  nth_error l i = Some t -> f t' = f t -> map f (update_nth i (fun _ => t') l) = map f l.
Proof.
  induction l as [|x l IH]; intros [|i] t t' Hn Hf; cbn in *; try discriminate; auto.
  - inversion Hn; subst. now rewrite Hf.
  - f_equal. eapply IH; eauto.
Qed.

Lemma view_mark : forall t, tcv_view (mark_negotiated t) = tcv_view t.
Proof. intro t. unfold tcv_view, mark_negotiated. cbn. destruct (t_sender t), (t_dir t); reflexivity. Qed.

Lemma view_map_mark : forall l, map tcv_view (map mark_negotiated l) = map tcv_view l.
Proof. intro l. rewrite map_map. apply map_ext. apply view_mark. Qed.

Lemma view_mark_at : forall idx l, map tcv_view (mark_at idx l) = map tcv_view l.
Proof.
  intros idx l. unfold mark_at, indexed. generalize 0. induction l as [|t l IH]; intro n; cbn; auto.
  rewrite IH. f_equal. destruct (existsb _ idx); auto using view_mark.
Qed.

Lemma assign_mids_id : forall l g, Forall (fun t => t_mid t <> "") l -> assign_mids g l = (g, l).
Proof.
  induction l as [|t l IH]; intros g H; cbn; auto. inversion H; subst.
  destruct (String.eqb (t_mid t) "") eqn:E; [apply String.eqb_eq in E; congruence|].
  now rewrite IH.
Qed.

(* the calls after which the check may read differently although
   onNegotiationNeeded was not called: ReplaceTrack (the msid comparison of step
   5.3.1 looks at the sender's present track) and a CreateOffer that gives out
   mids *)
Definition quiet_ok (p : pc) (o : op) : Prop :=
  match o with
  | OReplaceTrack _ _ _ => False
  | OCreateOffer => Forall (fun t => t_mid t <> "") (p_tcvs p)
  | _ => True
  end.

Lemma quiet_step_view : forall p o p' out fx,
  step p o = (p', out, fx) -> fx_triggers fx = 0 -> quiet_ok p o ->
  p_sig p' = Stable -> p_closed p' = false ->
  check_view p' = check_view p /\ p_sig p = Stable /\ p_closed p = false.
Proof.
  intros p o p' out fx H Ht Q Hs Hc.
  assert (Same : p' = p -> check_view p' = check_view p /\ p_sig p = Stable /\ p_closed p = false)
    by (intros ->; auto).
  destruct o; cbn [step quiet_ok] in *; try contradiction.
  - unfold add_track in H. destruct (p_closed p); [inversion H; subst; auto|].
    destruct (add_track_reuse (p_tcvs p) k i); inversion H; subst; discriminate.
  - unfold add_tcv_kind in H. destruct (p_closed p); [inversion H; subst; auto|].
    destruct d as [[| | |]|]; inversion H; subst; auto; discriminate.
  - unfold add_tcv_track in H. destruct (p_closed p); [inversion H; subst; auto|].
    destruct d as [[| | |]|]; inversion H; subst; auto; discriminate.
  - unfold add_encoding in H. destruct (nth_error (p_tcvs p) ti) as [t|] eqn:N; [|inversion H; subst; auto].
    destruct (t_sender t) as [sn|] eqn:Sn; [|inversion H; subst; auto].
    destruct (String.eqb (k_rid (i_trk i)) ""); [inversion H; subst; auto|].
    destruct (sn_stopped sn); [inversion H; subst; auto|].
    destruct (sn_sent sn); [inversion H; subst; auto|].
    destruct (sender_track sn) as [ref|] eqn:Tr; [|inversion H; subst; auto].
    destruct (String.eqb (k_rid ref) ""); [inversion H; subst; auto|].
    destruct (negb _); [inversion H; subst; auto|].
    destruct (existsb _ (sn_encs sn)); [inversion H; subst; auto|].
    inversion H; subst. cbn in *. split; auto. unfold check_view. cbn. f_equal.
    eapply map_update_same; eauto. unfold tcv_view. cbn. rewrite Sn. cbn.
    assert (E : sender_track {| sn_encs := sn_encs sn ++ [enc_of i]; sn_negotiated := sn_negotiated sn;
                                sn_sent := false; sn_stopped := false |} = sender_track sn).
    { unfold sender_track in *. cbn. destruct (sn_encs sn); [discriminate|reflexivity]. }
    rewrite E. reflexivity.
  - unfold remove_track in H. destruct (nth_error (p_tcvs p) ti) as [t|] eqn:N; [|inversion H; subst; auto].
    destruct (t_sender t) as [sn|]; [|inversion H; subst; auto].
    destruct (p_closed p); [inversion H; subst; auto|].
    destruct (sending_dir false (t_dir t)) eqn:D; inversion H; subst; [discriminate|].
    cbn in *. split; auto. unfold check_view. cbn. f_equal.
    eapply map_update_same; eauto. unfold tcv_view. cbn. destruct (t_dir t); cbn in D; try discriminate; reflexivity.
  - unfold create_data_channel in H. destruct (p_closed p); inversion H; subst; auto; discriminate.
  - (* CreateOffer with every mid already given out *)
    unfold create_offer in H. destruct (p_closed p) eqn:Ec; [inversion H; subst; auto|].
    rewrite assign_mids_id in H by exact Q.
    match type of H with (match ?b with _ => _ end) = _ => destruct b as [ms|e|] end.
    + destruct (local_changed (p_tcvs p) (map render_msec ms)); inversion H; subst; cbn in *;
        (split; [|auto]); unfold check_view; cbn; now rewrite view_map_mark.
    + inversion H; subst; cbn in *. split; auto. unfold check_view; cbn. now rewrite view_mark_at.
    + inversion H; subst; auto.
  - unfold create_answer in H.
    destruct (remote_for_matching p) as [r|]; [|inversion H; subst; auto].
    destruct (p_closed p); [inversion H; subst; auto|].
    destruct (negb (sig_eqb (p_sig p) HaveRemoteOffer) && negb (sig_eqb (p_sig p) HaveLocalPranswer)) eqn:Es;
      [inversion H; subst; auto|].
    assert (Hns : p_sig p <> Stable).
    { intro X. rewrite X in Es. discriminate. }
    destruct (matched_sections p (d_secs r) (p_tcvs p) false) as [[ms unused]|e|];
      inversion H; subst; cbn in *; try contradiction; auto.
  - pose proof (set_local_fx _ _ _ _ _ H) as F. destruct F as [->|[-> _]]; [|discriminate].
    unfold set_local in H. destruct (p_closed p); [inversion H; subst; auto|].
    destruct ty.
    + destruct (p_last_offer p); [|inversion H; subst; auto].
      destruct (sig_eqb (p_sig p) Stable); inversion H; subst; auto. discriminate.
    + destruct (p_last_answer p); [|inversion H; subst; auto].
      destruct (_ || _); [|inversion H; subst; auto].
      destruct (match p_pend_remote p with Some _ => start_rtp_senders _ | None => _ end). inversion H.
    + destruct (p_last_answer p); [|inversion H; subst; auto].
      destruct (sig_eqb (p_sig p) HaveRemoteOffer); inversion H; subst; auto. discriminate.
  - destruct (set_remote_fx _ _ _ _ _ _ _ H) as [[_ [F|[F _]]]|[-> _]]; [contradiction|auto|discriminate].
  - unfold close_pc in H. destruct (p_closed p); inversion H; subst; auto. discriminate.
Qed.

Lemma nstep_quiet_preserves : forall s o sched,
  at_rest_ok s -> fx_triggers (snd (step (n_pc s) o)) = 0 -> quiet_ok (n_pc s) o ->
  at_rest_ok (fst (fst (nstep s o sched))).
Proof.
  intros s o sched A Ht Q. unfold nstep.
  destruct (step (n_pc s) o) as [[p' out] fx] eqn:E. cbn in Ht. rewrite drain_spec, Ht. cbn.
  assert (Hst : fx_to_stable fx = false).
  { destruct (fx_to_stable fx) eqn:X; auto. rewrite (step_to_stable_triggers _ _ _ _ _ E X) in Ht. discriminate. }
  rewrite Hst. unfold at_rest_ok. cbn. intros Hc Hs.
  destruct (quiet_step_view _ _ _ _ _ E Ht Q Hs Hc) as [V [Hs0 Hc0]].
  rewrite (check_view_ext _ _ V). apply A; auto.
Qed.

(* a history in which every call either reaches onNegotiationNeeded or is not
   one of the two quiet calls *)
Fixpoint calm (s : nn) (h : list (op * list bool)) : Prop :=
  match h with
  | [] => True
  | (o, sched) :: r =>
      (fx_triggers (snd (step (n_pc s) o)) <> 0 \/ quiet_ok (n_pc s) o)
      /\ calm (fst (fst (nstep s o sched))) r
  end.

Lemma flag_iff_check_at_rest : forall h s,
  Inv (n_pc s) -> at_rest_ok s -> calm s h -> at_rest_ok (fst (nrun s h)).
Proof.
  induction h as [|[o sched] r IH]; intros s I A C; cbn [nrun]; auto.
  destruct C as [C1 C2].
  pose proof (nstep_inv s o sched I) as I1.
  assert (A1 : at_rest_ok (fst (fst (nstep s o sched)))).
  { destruct (Nat.eq_dec (fx_triggers (snd (step (n_pc s) o))) 0) as [Z|NZ].
    - destruct C1 as [C1|C1]; [congruence|]. now apply nstep_quiet_preserves.
    - now apply nstep_trigger_syncs. }
  destruct (nstep s o sched) as [[s1 out] fs]. cbn in *.
  specialize (IH s1 I1 A1 C2). destruct (nrun s1 r). exact IH.
Qed.

(* from a fresh connection: the first call that reaches onNegotiationNeeded
   establishes the equivalence (before it, the check is true -- there is no
   local description -- while nothing has fired) *)
Lemma flag_iff_check_from_first_trigger : forall always h1 o sched h2,
  let s0 := fst (nrun (nn_init always) h1) in
  fx_triggers (snd (step (n_pc s0) o)) <> 0 ->
  calm (fst (fst (nstep s0 o sched))) h2 ->
  at_rest_ok (fst (nrun (fst (fst (nstep s0 o sched))) h2)).
Proof.
  intros always h1 o sched h2 s0 Ht C.
  assert (I0 : Inv (n_pc s0)) by apply reachable_inv.
  apply flag_iff_check_at_rest; auto.
  - now apply nstep_inv.
  - now apply nstep_trigger_syncs.
Qed.

Lemma fresh_not_at_rest_ok : forall a, ~ at_rest_ok (nn_init a).
Proof. intros a H. destruct (H eq_refl eq_refl) as [_ H2]. specialize (H2 eq_refl). discriminate. Qed.

(* ====================================================================== *)
(* step 5.3.3 (local description of type answer): the two readings         *)
(* ====================================================================== *)

(* JSEP 5.3.1: what a side that wants [want] may do when [offered] was offered *)
Definition intersect_dir (want offered : dir) : dir :=
  let send := match want with Sendrecv | Sendonly => true | _ => false end
              && match offered with Sendrecv | Recvonly => true | _ => false end in
  let recv := match want with Sendrecv | Recvonly => true | _ => false end
              && match offered with Sendrecv | Sendonly => true | _ => false end in
  match send, recv with
  | true, true => Sendrecv | true, false => Sendonly | false, true => Recvonly | false, false => Inactive
  end.
(* an answer direction that is a legal response to the offered direction *)
Definition legal_response (a o : dir) : Prop := intersect_dir a o = a.
(* checkNegotiationNeeded compares the answer's direction with the transceiver's *)
Definition plain_clause (a d : dir) : bool := negb (dir_eqb a d).
(* W3C: "... does not match transceiver.[[Direction]] intersected with the offered direction" *)
Definition w3c_clause (a o d : dir) : bool := negb (dir_eqb a (intersect_dir d o)).

Lemma answer_readings_differ_iff : forall a o d,
  plain_clause a d <> w3c_clause a o d <->
  (a = d /\ ~ legal_response a o) \/ (a <> d /\ a = intersect_dir d o).
Proof.
  intros a o d. unfold plain_clause, w3c_clause, legal_response.
  destruct a, o, d; cbn; split; intro H;
    try (exfalso; apply H; reflexivity);
    try (destruct H as [[H1 H2]|[H1 H2]]; try discriminate; try (exfalso; apply H2; reflexivity);
         try (exfalso; apply H1; reflexivity); fail);
    try (left; split; [reflexivity|discriminate]);
    try (right; split; [discriminate|reflexivity]);
    try discriminate.
Qed.

Lemma answer_readings_agree_within_offer : forall a o d,
  intersect_dir d o = d -> plain_clause a d = w3c_clause a o d.
Proof. intros a o d H. unfold plain_clause, w3c_clause. now rewrite H. Qed.

Lemma answer_readings_agree_legal_unchanged : forall a o,
  legal_response a o -> plain_clause a a = false /\ w3c_clause a o a = false.
Proof.
  intros a o H. unfold plain_clause, w3c_clause. unfold legal_response in H. rewrite H.
  destruct a; auto.
Qed.

(* SetRemoteDescription's direction switch leaves the transceiver within the
   offered direction, except for the two cases recorded under C08 (a=sendonly
   offered to a transceiver that is sendrecv or sendonly) *)
Lemma srd_direction_within_offer : forall o d0,
  (o = Inactive -> d0 = Inactive) ->   (* the loop stops the transceiver first *)
  intersect_dir (srd_direction o d0) o = srd_direction o d0
  \/ (o = Sendonly /\ (d0 = Sendrecv \/ d0 = Sendonly)).
Proof.
  intros o d0 H. destruct o, d0; cbn; auto; specialize (H eq_refl); discriminate.
Qed.

(* the model's clause is the plain one *)
Lemma check_tcv_answer_clause : forall ld rd t m a,
  d_type ld = TAnswer -> get_by_mid (t_mid t) (d_secs ld) = Some m -> sc_dir m = Some a ->
  (t_dir t = Recvonly \/ t_dir t = Inactive) ->
  check_tcv ld rd t = Ok (if plain_clause a (t_dir t) then Needed else NotNeeded).
Proof.
  intros ld rd t m a Ht Hm Ha Hd. unfold check_tcv, plain_clause. rewrite Hm, Ht, Ha. cbn.
  destruct Hd as [-> | ->]; destruct a; reflexivity.
Qed.
