(* Lemmas for C04 over Model/Negotiation.v *)
From Coq Require Import List ZArith NArith String Ascii Bool Lia.
Import ListNotations.
From Verif Require Import Common.Base Common.NegoText Model.OfferShape Model.Negotiation
  Proofs.NegoText Proofs.OfferShape.
Open Scope string_scope.

(* ---------- the op on an empty queue ---------- *)

Definition op1 (s : nn) : nn * list firing := let '(s1, f1, _) := nn_op false s in (s1, f1).

Definition fire_ok (f : firing) : Prop := f_sig f = Stable /\ f_closed f = false.

Lemma nn_op_busy : forall s,
  nn_op true s = if p_closed (n_pc s) then (s, [], false) else (s, [], true).
Proof. intro s. unfold nn_op. destruct (p_closed (n_pc s)); reflexivity. Qed.

Lemma nn_op_false_no_flag : forall s s1 f1 oe, nn_op false s = (s1, f1, oe) -> oe = false.
Proof.
  intros s s1 f1 oe H. unfold nn_op in H.
  destruct (p_closed (n_pc s)); [inversion H; auto|]. cbn in H.
  destruct (negb (sig_eqb (p_sig (n_pc s)) Stable)); [inversion H; auto|].
  destruct (check_negotiation_needed (n_pc s)) as [[|]|e|]; try (inversion H; auto; fail).
  destruct (n_flag s); inversion H; auto.
Qed.

Lemma nn_op_fires_ok : forall b s s1 f1 oe, nn_op b s = (s1, f1, oe) -> Forall fire_ok f1.
Proof.
  intros b s s1 f1 oe H. unfold nn_op in H.
  destruct (p_closed (n_pc s)) eqn:Ec; [inversion H; constructor|].
  destruct b; [inversion H; constructor|].
  destruct (sig_eqb (p_sig (n_pc s)) Stable) eqn:Es; cbn in H; [|inversion H; constructor].
  destruct (check_negotiation_needed (n_pc s)) as [[|]|e|]; try (inversion H; constructor; fail).
  destruct (n_flag s); inversion H; subst; constructor; [|constructor].
  unfold fire_ok. cbn. split; auto. destruct (p_sig (n_pc s)); try discriminate; auto.
Qed.

Lemma nn_op_pc : forall b s s1 f1 oe, nn_op b s = (s1, f1, oe) -> n_pc s1 = n_pc s.
Proof.
  intros b s s1 f1 oe H. unfold nn_op in H.
  destruct (p_closed (n_pc s)); [inversion H; auto|].
  destruct b; [inversion H; auto|].
  destruct (negb (sig_eqb (p_sig (n_pc s)) Stable)); [inversion H; auto|].
  destruct (check_negotiation_needed (n_pc s)) as [[|]|e|]; try (inversion H; auto; fail).
  destruct (n_flag s); inversion H; auto.
Qed.

(* a second run right after the first changes nothing and fires nothing *)
Lemma op1_idem : forall s, op1 (fst (op1 s)) = (fst (op1 s), []).
Proof.
  intros [p fl pk]. unfold op1, nn_op. cbn [n_pc n_flag n_panicked].
  destruct (p_closed p) eqn:Ec; cbn [fst n_pc]. { rewrite Ec. reflexivity. }
  destruct (sig_eqb (p_sig p) Stable) eqn:Es; cbn [negb fst n_pc].
  2:{ rewrite Ec, Es. reflexivity. }
  destruct (check_negotiation_needed p) as [[|]|e|] eqn:Ck; cbn [fst n_pc n_flag n_panicked].
  - destruct fl; cbn [fst n_pc n_flag]; rewrite Ec, Es, Ck; reflexivity.
  - rewrite Ec, Es, Ck. reflexivity.
  - rewrite Ec, Es, Ck. reflexivity.
  - rewrite Ec, Es, Ck. reflexivity.
Qed.

Lemma rerun_spec : forall sched s, rerun sched s = op1 s.
Proof.
  induction sched as [|b r IH]; intro s; cbn [rerun]; [reflexivity|].
  destruct b.
  - rewrite nn_op_busy. unfold op1, nn_op.
    destruct (p_closed (n_pc s)) eqn:Ec; [reflexivity|].
    rewrite IH. unfold op1, nn_op. rewrite Ec. cbn [app].
    destruct (negb (sig_eqb (p_sig (n_pc s)) Stable)); [reflexivity|].
    destruct (check_negotiation_needed (n_pc s)) as [[|]|e|]; try reflexivity.
    destruct (n_flag s); reflexivity.
  - unfold op1. destruct (nn_op false s) as [[s1 f1] oe] eqn:E.
    rewrite (nn_op_false_no_flag _ _ _ _ E). reflexivity.
Qed.

(* the queued ops: either none has really run yet (all found the queue busy),
   or the result is that of one run on an empty queue *)
Lemma run_pending_spec : forall n sched oe s s' f sched' oe',
  run_pending n sched oe s = (s', f, sched', oe') ->
  (n = 0 /\ s' = s /\ f = [] /\ oe' = oe)
  \/ (n <> 0 /\ (s', f) = op1 s)
  \/ (n <> 0 /\ s' = s /\ f = [] /\ oe' = true /\ p_closed (n_pc s) = false).
Proof.
  induction n as [|k IH]; intros sched oe s s' f sched' oe' H; cbn [run_pending] in H.
  - inversion H; subst. left. auto.
  - right.
    destruct (nn_op (match sched with [] => false | b :: _ => b end) s) as [[s1 f1] oe1] eqn:E.
    destruct (run_pending k (tl sched) (oe || oe1) s1) as [[[s2 f2] sc2] oe2] eqn:R.
    inversion H; subst. clear H.
    destruct (match sched with [] => false | b :: _ => b end) eqn:Eb.
    + (* this op found the queue busy *)
      rewrite nn_op_busy in E. destruct (p_closed (n_pc s)) eqn:Ec.
      * (* closed: every run is a no-op *)
        inversion E; subst. left. split; [discriminate|].
        assert (Hc : op1 s1 = (s1, [])) by (unfold op1, nn_op; now rewrite Ec).
        destruct (IH _ _ _ _ _ _ _ R) as [[_ [-> [-> _]]]|[[_ Hd]|[_ [-> [-> _]]]]]; cbn; auto.
      * inversion E; subst. rewrite orb_true_r in R.
        destruct (IH _ _ _ _ _ _ _ R) as [[-> [-> [-> ->]]]|[[_ Hd]|[_ [-> [-> [-> _]]]]]]; cbn.
        -- right. repeat split; auto.
        -- left. split; [discriminate|]. exact Hd.
        -- right. repeat split; auto.
    + left. split; [discriminate|].
      assert (Ho : op1 s = (s1, f1)) by (unfold op1; now rewrite E).
      assert (Hs1 : s1 = fst (op1 s)) by now rewrite Ho.
      destruct (IH _ _ _ _ _ _ _ R) as [[_ [-> [-> _]]]|[[_ Hd]|[_ [-> [-> _]]]]].
      * rewrite app_nil_r. auto.
      * rewrite Hs1, op1_idem in Hd. inversion Hd as [[Ha Hb]].
        rewrite app_nil_r, <- Hs1. auto.
      * rewrite app_nil_r. auto.
Qed.

Lemma drain_spec : forall sched n s,
  drain sched n s = match n with O => (s, []) | S _ => op1 s end.
Proof.
  intros sched n s. unfold drain.
  destruct (run_pending n sched false s) as [[[s1 f1] sc1] oe1] eqn:R.
  destruct (run_pending_spec _ _ _ _ _ _ _ _ R) as [[-> [-> [-> ->]]]|[[Hn Hd]|[Hn [-> [-> [-> Hc]]]]]].
  - reflexivity.
  - destruct n; [congruence|]. rewrite <- Hd.
    destruct oe1; auto. rewrite rerun_spec.
    assert (Hs1 : s1 = fst (op1 s)) by now rewrite <- Hd.
    rewrite Hs1, op1_idem. now rewrite app_nil_r.
  - destruct n; [congruence|]. rewrite rerun_spec. destruct (op1 s). reflexivity.
Qed.

(* the interleaving inside a call does not matter *)
Lemma nstep_sched_irrelevant : forall s o sched, nstep s o sched = nstep s o [].
Proof. intros. unfold nstep. destruct (step (n_pc s) o) as [[p' out] fx]. now rewrite !drain_spec. Qed.

Lemma op1_fires_ok : forall s, Forall fire_ok (snd (op1 s)).
Proof.
  intro s. unfold op1. destruct (nn_op false s) as [[s1 f1] oe] eqn:E. cbn.
  eapply nn_op_fires_ok; eauto.
Qed.

Lemma nstep_fires_ok : forall s o sched s' out fs,
  nstep s o sched = (s', out, fs) -> Forall fire_ok fs.
Proof.
  intros s o sched s' out fs H. unfold nstep in H.
  destruct (step (n_pc s) o) as [[p' out'] fx]. rewrite drain_spec in H.
  destruct (fx_triggers fx).
  - inversion H; constructor.
  - match type of H with (let (_, _) := op1 ?x in _) = _ => pose proof (op1_fires_ok x) as Hf; destruct (op1 x) end.
    inversion H; subst. exact Hf.
Qed.

Lemma nrun_fires_ok : forall h s, Forall (Forall fire_ok) (snd (nrun s h)).
Proof.
  induction h as [|[o sched] r IH]; intro s; cbn [nrun]; [constructor|].
  destruct (nstep s o sched) as [[s1 out] fs] eqn:E.
  specialize (IH s1). destruct (nrun s1 r) as [s2 l]. cbn in *.
  constructor; auto. eapply nstep_fires_ok; eauto.
Qed.

(* ---------- invariants of reachable states ---------- *)

Definition sec_has_mid (s : sec) : Prop := exists m, sc_mid s = Some m /\ m <> "".
Definition desc_wf (d : desc) : Prop := Forall sec_has_mid (d_secs d).
Definition odesc_wf (o : option desc) : Prop := match o with Some d => desc_wf d | None => True end.

Record Inv (p : pc) : Prop := {
  inv_pend : p_sig p = HaveRemoteOffer -> p_pend_remote p <> None;
  inv_cur : p_cur_local p <> None -> p_cur_remote p <> None;
  inv_wf_cur : odesc_wf (p_cur_local p);
  inv_wf_pend : odesc_wf (p_pend_local p);
  inv_wf_lo : odesc_wf (p_last_offer p);
  inv_wf_la : odesc_wf (p_last_answer p)
}.

Definition descs (p : pc) :=
  (p_sig p, p_cur_local p, p_pend_local p, p_cur_remote p, p_pend_remote p, p_last_offer p, p_last_answer p).

Lemma Inv_ext : forall p p', descs p' = descs p -> Inv p -> Inv p'.
Proof.
  intros p p' H I. unfold descs in H. inversion H as [[H1 H2 H3 H4 H5 H6 H7]].
  destruct I as [a b c d e f].
  constructor; [rewrite H1, H5 | rewrite H2, H4 | rewrite H2 | rewrite H3 | rewrite H6 | rewrite H7]; auto.
Qed.

Lemma Inv_init : forall a, Inv (pc_init a).
Proof. intro a. constructor; cbn; try congruence; auto; constructor. Qed.

Definition ms_ne (ms : list msec) : Prop :=
  Forall (fun m => match m with MSData id => id <> "" | MSMedia id _ => id <> "" end) ms.

Lemma render_wf : forall ms, ms_ne ms -> Forall sec_has_mid (map render_msec ms).
Proof.
  intros ms H. induction H as [|m ms Hm Hms IH]; cbn; constructor; auto.
  destruct m; cbn in *; eexists; (split; [reflexivity|exact Hm]).
Qed.

Lemma matched_loop_ne : forall remote locals acc ha acc' locals' ha',
  matched_loop remote locals acc ha = Ok (acc', locals', ha') -> ms_ne acc -> ms_ne acc'.
Proof.
  induction remote as [|m rest IH]; intros locals acc ha acc' locals' ha' H Hne; cbn in H.
  - inversion H; subst; auto.
  - destruct (String.eqb (mid_value m) "") eqn:Emid; try discriminate.
    apply String.eqb_neq in Emid.
    destruct (sc_media m); cbn [kind_of_media] in H.
    + destruct (sc_dir m); [|eapply IH; eauto].
      destruct (find_by_mid (mid_value m) locals) as [[[i t] l1]|]; try discriminate.
      eapply IH; [exact H|]. apply Forall_app. split; auto; constructor; auto.
    + destruct (sc_dir m); [|eapply IH; eauto].
      destruct (find_by_mid (mid_value m) locals) as [[[i t] l1]|]; try discriminate.
      eapply IH; [exact H|]. apply Forall_app. split; auto; constructor; auto.
    + eapply IH; [exact H|]. apply Forall_app. split; auto; constructor; auto.
    + eapply IH; eauto.
Qed.

Lemma subseq_Forall {A} (P : A -> Prop) : forall s l, subseq s l -> Forall P l -> Forall P s.
Proof.
  induction 1; intro F; auto.
  - inversion F; subst. constructor; auto.
  - inversion F; subst. auto.
Qed.

Lemma indexed_Forall {A} (P : A -> Prop) : forall (l : list A) n,
  Forall P l -> Forall (fun x => P (snd x)) (index_from n l).
Proof. induction l; cbn; intros n F; constructor; inversion F; subst; auto. Qed.

Lemma matched_sections_ne : forall p remote l inc ms rest,
  matched_sections p remote l inc = Ok (ms, rest) ->
  Forall (fun t => t_mid t <> "") l -> ms_ne ms.
Proof.
  intros p remote l inc ms rest H Hl. unfold matched_sections in H.
  destruct (matched_loop remote (indexed l) [] false) as [[[acc locals] ha]|e|] eqn:L; try discriminate.
  pose proof (matched_loop_ne _ _ _ _ _ _ _ L (Forall_nil _)) as Hacc.
  apply matched_loop_spec in L. destruct L as [picked [_ [_ [_ [Hsub _]]]]].
  destruct inc; inversion H; subst; auto.
  apply Forall_app. split.
  - apply Forall_app. split; auto.
    apply Forall_forall. intros x Hx. apply in_map_iff in Hx. destruct Hx as [y [<- Hy]].
    assert (F : Forall (fun x => t_mid (snd x) <> "") locals).
    { eapply subseq_Forall; [exact Hsub|]. unfold indexed. apply (indexed_Forall (fun t => t_mid t <> "")). exact Hl. }
    rewrite Forall_forall in F. apply F. exact Hy.
  - destruct (want_data p && negb ha); constructor; auto. apply itoaN_nonempty.
Qed.

Lemma unmatched_ne : forall p l, Forall (fun t => t_mid t <> "") l -> ms_ne (unmatched_sections p l).
Proof.
  intros p l Hl. unfold unmatched_sections. apply Forall_app. split.
  - apply Forall_forall. intros x Hx. apply in_map_iff in Hx. destruct Hx as [t [<- Ht]].
    rewrite Forall_forall in Hl. now apply Hl.
  - destruct (want_data p); constructor; auto. apply itoaN_nonempty.
Qed.

Lemma create_offer_inv : forall p p' out fx, create_offer p = (p', out, fx) -> Inv p -> Inv p'.
Proof.
  intros p p' out fx H I. unfold create_offer in H.
  destruct (p_closed p); [inversion H; subst; auto|].
  destruct (assign_mids _ (p_tcvs p)) as [g l] eqn:A.
  apply assign_mids_spec in A. destruct A as [_ Hne].
  match type of H with (match ?b with _ => _ end) = _ => destruct b as [ms|e|] eqn:B end.
  - assert (Hms : ms_ne ms).
    { destruct (p_cur_remote p).
      - destruct (remote_for_matching p); try discriminate.
        destruct (matched_sections p (d_secs d0) l true) as [[ms' rest]|e|] eqn:M; try discriminate.
        inversion B; subst. eapply matched_sections_ne; eauto.
      - inversion B; subst. now apply unmatched_ne. }
    destruct (local_changed l (map render_msec ms)); inversion H; subst.
    + eapply Inv_ext; [|exact I]. reflexivity.
    + destruct I. constructor; cbn; auto. now apply render_wf.
  - inversion H; subst. eapply Inv_ext; [|exact I]. reflexivity.
  - inversion H; subst. auto.
Qed.

Lemma create_answer_inv : forall p p' out fx, create_answer p = (p', out, fx) -> Inv p -> Inv p'.
Proof.
  intros p p' out fx H I. unfold create_answer in H.
  destruct (remote_for_matching p) as [r|]; [|inversion H; subst; auto].
  destruct (p_closed p); [inversion H; subst; auto|].
  destruct (negb (sig_eqb (p_sig p) HaveRemoteOffer)); [inversion H; subst; auto|].
  destruct (matched_sections p (d_secs r) (p_tcvs p) false) as [[ms unused]|e|] eqn:M;
    try (inversion H; subst; auto; fail).
  inversion H; subst. destruct I. constructor; cbn; auto.
  apply render_wf. unfold matched_sections in M.
  destruct (matched_loop (d_secs r) (indexed (p_tcvs p)) [] false) as [[[acc locals] ha]|e|] eqn:L; try discriminate.
  inversion M; subst. eapply matched_loop_ne; eauto. constructor.
Qed.

Lemma set_local_inv : forall p ty p' out fx, set_local p ty = (p', out, fx) -> Inv p -> Inv p'.
Proof.
  intros p ty p' out fx H I. unfold set_local in H.
  destruct (p_closed p); [inversion H; subst; auto|].
  destruct ty.
  - destruct (p_last_offer p) as [d|] eqn:Lo; [|inversion H; subst; auto].
    destruct (sig_eqb (p_sig p) Stable); inversion H; subst; auto.
    destruct I. rewrite Lo in inv_wf_lo0. constructor; cbn; auto; try discriminate.
  - destruct (p_last_answer p) as [d|] eqn:La; [|inversion H; subst; auto].
    destruct (sig_eqb (p_sig p) HaveRemoteOffer) eqn:Es; [|inversion H; subst; auto].
    assert (Hs : p_sig p = HaveRemoteOffer) by (destruct (p_sig p); try discriminate; auto).
    destruct (match p_pend_remote p with Some _ => start_rtp_senders _ | None => _ end) as [l2 ok].
    inversion H; subst. destruct I. rewrite La in inv_wf_la0. constructor; cbn; auto; try discriminate.
Qed.

Lemma set_remote_inv : forall p ty secs e p' out fx,
  set_remote p ty secs e = (p', out, fx) -> Inv p -> Inv p'.
Proof.
  intros p ty secs e p' out fx H I. unfold set_remote in H.
  destruct (p_closed p); [inversion H; subst; auto|].
  destruct ty.
  - destruct (sig_eqb (p_sig p) Stable); [|inversion H; subst; auto].
    destruct (remote_offer_loop secs _ _ 0) as [[l1 added] ok].
    inversion H; subst. destruct I. constructor; cbn; auto; discriminate.
  - destruct (sig_eqb (p_sig p) HaveLocalOffer); [|inversion H; subst; auto].
    match type of H with context [start_rtp_senders ?x] => destruct (start_rtp_senders x) as [la oka] end.
    destruct secs; cbn in H; inversion H; subst; destruct I; constructor; cbn; auto; discriminate.
Qed.

Lemma step_inv : forall p o p' out fx, step p o = (p', out, fx) -> Inv p -> Inv p'.
Proof.
  intros p o p' out fx H I. destruct o; cbn [step] in H.
  - unfold add_track in H. destruct (p_closed p); [inversion H; subst; auto|].
    destruct (add_track_reuse (p_tcvs p) k i); inversion H; subst; (eapply Inv_ext; [|exact I]); reflexivity.
  - unfold add_tcv_kind in H. destruct (p_closed p); [inversion H; subst; auto|].
    destruct d as [[| | |]|]; inversion H; subst; auto; (eapply Inv_ext; [|exact I]); reflexivity.
  - unfold add_tcv_track in H. destruct (p_closed p); [inversion H; subst; auto|].
    destruct d as [[| | |]|]; inversion H; subst; auto; (eapply Inv_ext; [|exact I]); reflexivity.
  - unfold add_encoding in H. destruct (nth_error (p_tcvs p) ti) as [t|]; [|inversion H; subst; auto].
    destruct (t_sender t) as [s|]; [|inversion H; subst; auto].
    repeat match type of H with
           | (if ?c then _ else _) = _ => destruct c; [inversion H; subst; auto; fail|]
           | (match ?c with Some _ => _ | None => _ end) = _ => destruct c; [|inversion H; subst; auto; fail]
           end.
    inversion H; subst. (eapply Inv_ext; [|exact I]); reflexivity.
  - unfold remove_track in H. destruct (nth_error (p_tcvs p) ti) as [t|]; [|inversion H; subst; auto].
    destruct (t_sender t) as [s|]; [|inversion H; subst; auto].
    destruct (p_closed p); [inversion H; subst; auto|].
    destruct (sending_dir false (t_dir t)); inversion H; subst; (eapply Inv_ext; [|exact I]); reflexivity.
  - unfold replace_track in H. destruct (nth_error (p_tcvs p) ti) as [t0|]; [|inversion H; subst; auto].
    destruct (t_sender t0) as [s|]; [|inversion H; subst; auto].
    destruct t as [tr|].
    + destruct (negb (kind_eqb k (t_kind t0))); [inversion H; subst; auto|].
      destruct (Nat.ltb 1 (List.length (sn_encs s))); inversion H; subst; auto.
      (eapply Inv_ext; [|exact I]); reflexivity.
    + inversion H; subst. (eapply Inv_ext; [|exact I]); reflexivity.
  - unfold create_data_channel in H. destruct (p_closed p); inversion H; subst; auto.
    (eapply Inv_ext; [|exact I]); reflexivity.
  - eapply create_offer_inv; eauto.
  - eapply create_answer_inv; eauto.
  - eapply set_local_inv; eauto.
  - eapply set_remote_inv; eauto.
  - unfold close_pc in H. destruct (p_closed p); inversion H; subst; auto.
    destruct I. constructor; cbn; auto; discriminate.
Qed.
