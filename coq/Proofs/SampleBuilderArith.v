(* C31: uint16 / uint32 arithmetic of sampleSequenceLocation.go and
   seqnumDistance / timestampDistance, for all values. *)
From Coq Require Import List ZArith NArith Bool Lia ZifyBool ZifyNat ZifyN.
Import ListNotations.
From Verif Require Import Common.Base Model.SampleBuilder.
Open Scope N_scope.
Ltac Zify.zify_post_hook ::= Z.div_mod_to_equations.

Lemma wmod_spec : forall m x, 0 < m -> wmod m x = x mod m.
Proof.
  intros m x Hm. unfold wmod.
  destruct (x <? m) eqn:E1.
  - symmetry. apply N.mod_small. lia.
  - destruct (x <? m + m) eqn:E2; [|reflexivity].
    apply N.mod_unique with (q := 1); lia.
Qed.

Lemma w16_spec : forall x, w16 x = x mod 65536.
Proof. intro x. unfold w16. apply wmod_spec. lia. Qed.
Lemma w32_spec : forall x, w32 x = x mod 4294967296.
Proof. intro x. unfold w32. apply wmod_spec. lia. Qed.

Lemma w16_u16 : forall x, w16 x = u16 x.
Proof. intro. rewrite w16_spec. reflexivity. Qed.
Lemma w32_u32 : forall x, w32 x = u32 x.
Proof. intro. rewrite w32_spec. reflexivity. Qed.

Lemma sub16_spec : forall a b, sub16 a b = (a + 65536 - b mod 65536) mod 65536.
Proof. intros. unfold sub16. rewrite !w16_spec. reflexivity. Qed.
Lemma sub16_subw : forall a b, sub16 a b = subw 65536 a b.
Proof. intros. rewrite sub16_spec. reflexivity. Qed.
Lemma sub32_spec : forall a b, sub32 a b = (a + 4294967296 - b mod 4294967296) mod 4294967296.
Proof. intros. unfold sub32. rewrite !w32_spec. reflexivity. Qed.
Lemma inc16_spec : forall a, inc16 a = (a + 1) mod 65536.
Proof. intros. unfold inc16. apply w16_spec. Qed.

Lemma sub16_lt : forall a b, sub16 a b < 65536.
Proof. intros. rewrite sub16_spec. apply N.mod_lt. lia. Qed.
Lemma inc16_lt : forall a, inc16 a < 65536.
Proof. intros. rewrite inc16_spec. apply N.mod_lt. lia. Qed.
Lemma w16_lt : forall a, w16 a < 65536.
Proof. intros. rewrite w16_spec. apply N.mod_lt. lia. Qed.

(* in-range values: the wrap as a case split *)
Lemma sub16_cases : forall a b, a < 65536 -> b < 65536 ->
  sub16 a b = if b <=? a then a - b else a + 65536 - b.
Proof.
  intros a b Ha Hb. rewrite sub16_spec.
  destruct (b <=? a) eqn:E; lia.
Qed.
Lemma inc16_cases : forall a, a < 65536 -> inc16 a = if a =? 65535 then 0 else a + 1.
Proof. intros a Ha. rewrite inc16_spec. destruct (a =? 65535) eqn:E; lia. Qed.
Lemma sub32_cases : forall a b, a < 4294967296 -> b < 4294967296 ->
  sub32 a b = if b <=? a then a - b else a + 4294967296 - b.
Proof.
  intros a b Ha Hb. rewrite sub32_spec.
  destruct (b <=? a) eqn:E; lia.
Qed.

Lemma sub16_self : forall a, a < 65536 -> sub16 a a = 0.
Proof. intros. rewrite sub16_cases by assumption. rewrite N.leb_refl. lia. Qed.
Lemma sub16_zero_iff : forall a b, a < 65536 -> b < 65536 -> (sub16 a b = 0 <-> a = b).
Proof. intros a b Ha Hb. rewrite sub16_cases by assumption. destruct (b <=? a) eqn:E; lia. Qed.
Lemma sub16_inc : forall a b, a < 65536 -> b < 65536 -> sub16 (inc16 a) b = w16 (sub16 a b + 1).
Proof.
  intros a b Ha Hb. rewrite w16_spec, inc16_spec, !sub16_spec. lia.
Qed.
(* the three arcs head -> pos -> tail -> head make up the ring *)
Lemma sub16_antisym : forall a b, a < 65536 -> b < 65536 -> a <> b -> sub16 a b + sub16 b a = 65536.
Proof.
  intros a b Ha Hb Hn. rewrite !sub16_cases by assumption.
  destruct (b <=? a) eqn:E1; destruct (a <=? b) eqn:E2; lia.
Qed.

(* ---------- seqnumDistance / timestampDistance ---------- *)
(* the distance is the shorter way round the ring *)
Theorem seqnumDistance_spec : forall x y, x < 65536 -> y < 65536 ->
  seqnumDistance x y = N.min (sub16 x y) (sub16 y x) /\
  seqnumDistance x y = seqnumDistance y x /\
  seqnumDistance x y <= 32768 /\
  (seqnumDistance x y = 0 <-> x = y).
Proof.
  intros x y Hx Hy. unfold seqnumDistance. rewrite !w16_spec.
  rewrite (sub16_cases x y), (sub16_cases y x) by assumption.
  destruct (y <=? x) eqn:E1; destruct (x <=? y) eqn:E2;
    repeat match goal with |- context [?a <=? ?b] => destruct (a <=? b) eqn:? end; lia.
Qed.

Theorem timestampDistance_spec : forall x y, x < 4294967296 -> y < 4294967296 ->
  timestampDistance x y = N.min (sub32 x y) (sub32 y x) /\
  timestampDistance x y = timestampDistance y x /\
  timestampDistance x y <= 2147483648 /\
  (timestampDistance x y = 0 <-> x = y).
Proof.
  intros x y Hx Hy. unfold timestampDistance. rewrite !w32_spec.
  rewrite (sub32_cases x y), (sub32_cases y x) by assumption.
  destruct (y <=? x) eqn:E1; destruct (x <=? y) eqn:E2;
    repeat match goal with |- context [?a <=? ?b] => destruct (a <=? b) eqn:? end; lia.
Qed.

(* ---------- compare ---------- *)
(* forward offset of pos from head, and the span of the location *)
Definition off (l : loc) (pos : N) : N := sub16 pos (l_head l).
Definition span (l : loc) : N := sub16 (l_tail l) (l_head l).
Definition loc_ok (l : loc) : Prop := l_head l < 65536 /\ l_tail l < 65536.

Theorem compare_spec : forall l pos, loc_ok l -> pos < 65536 ->
  (compare l pos = CVoid <-> l_head l = l_tail l) /\
  (compare l pos = CInside <-> l_head l <> l_tail l /\ off l pos < span l) /\
  (compare l pos = CBefore <-> l_head l <> l_tail l /\ span l <= off l pos /\
                               sub16 (l_head l) pos <= sub16 pos (l_tail l)) /\
  (compare l pos = CAfter <-> l_head l <> l_tail l /\ span l <= off l pos /\
                              sub16 pos (l_tail l) < sub16 (l_head l) pos).
Proof.
  intros [h t] pos [Hh Ht] Hp. unfold compare, off, span. cbn [l_head l_tail] in *.
  rewrite (sub16_cases pos h), (sub16_cases t h), (sub16_cases h pos), (sub16_cases pos t) by assumption.
  destruct (h =? t) eqn:E0.
  - repeat split; intros; try discriminate; try lia.
  - destruct (h <? t) eqn:E1; destruct (h <=? pos) eqn:E2; destruct (pos <? t) eqn:E3;
      cbn [andb orb];
      repeat match goal with |- context [?a <=? ?b] => destruct (a <=? b) eqn:? end;
      repeat split; intros; try discriminate; try lia;
      repeat match goal with H : _ /\ _ |- _ => destruct H end; try lia.
Qed.

Lemma compare_head : forall l, loc_ok l -> l_head l <> l_tail l -> compare l (l_head l) = CInside.
Proof.
  intros l Hl Hn. destruct (compare_spec l (l_head l) Hl (proj1 Hl)) as (_ & H & _).
  apply H. split; [assumption|]. unfold off, span.
  rewrite sub16_self by apply Hl.
  destruct Hl as [Hh Ht]. pose proof (sub16_zero_iff (l_tail l) (l_head l) Ht Hh). lia.
Qed.

Lemma compare_tail : forall l, loc_ok l -> l_head l <> l_tail l -> compare l (l_tail l) = CAfter.
Proof.
  intros l Hl Hn. destruct Hl as [Hh Ht].
  destruct (compare_spec l (l_tail l) (conj Hh Ht) Ht) as (_ & _ & _ & H).
  apply H. split; [assumption|]. unfold off, span.
  rewrite (sub16_self (l_tail l)) by assumption.
  pose proof (sub16_zero_iff (l_head l) (l_tail l) Hh Ht). lia.
Qed.

(* compare is total on the four outcomes and Void only for the empty location *)
Lemma compare_inside_iff : forall l pos, loc_ok l -> pos < 65536 ->
  (compare l pos = CInside <-> off l pos < span l).
Proof.
  intros l pos Hl Hp. destruct (compare_spec l pos Hl Hp) as (_ & H & _).
  rewrite H. split; [tauto|]. intro Hlt. split; [|assumption].
  intro E. unfold span in Hlt. rewrite E in Hlt. rewrite sub16_self in Hlt by apply Hl. lia.
Qed.

(* walking forward from head: offsets below the span are inside, the tail is after *)
Lemma off_inc : forall l pos, loc_ok l -> pos < 65536 -> off l (inc16 pos) = w16 (off l pos + 1).
Proof. intros l pos Hl Hp. unfold off. apply sub16_inc; [assumption|apply Hl]. Qed.
