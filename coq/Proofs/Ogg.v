(* C33: lemmas and proofs about Model/Ogg.v *)
From Coq Require Import String List Arith NArith Bool Lia ZifyBool ZifyNat ZifyN.
Import ListNotations.
From Verif Require Import Common.V Common.Base Model.Ivf Model.Ogg Proofs.Ivf.
Open Scope N_scope.

(* ---------- CRC tables ---------- *)

Lemma tables_equal : writer_table = reader_table.
Proof. vm_compute. reflexivity. Qed.

Lemma writer_table_length : length writer_table = 256%nat.
Proof. vm_compute. reflexivity. Qed.
