(* C33: lemmas and proofs about Model/Ogg.v *)
From Coq Require Import String List Arith NArith Bool Lia ZifyBool ZifyNat ZifyN.
Import ListNotations.
From Verif Require Import Common.V Common.Base Model.Ivf Model.Ogg Proofs.Ivf.
Open Scope N_scope.

(* ---------- CRC tables ---------- *)

Lemma tables_equal : writer_table = reader_table.
Proof. vm_compute. reflexivity. Qed.

Lemma writer_table_length : length writer_table = 256%nat.
Proof. vm_compute. reflexivity. Qed.

Lemma m8_u8 : forall x, m8 x = u8 x.
Proof. intros x. unfold m8, u8. change 255 with (N.ones 8). rewrite N.land_ones. reflexivity. Qed.
Lemma m32_u32 : forall x, m32 x = u32 x.
Proof. intros x. unfold m32, u32. change 4294967295 with (N.ones 32). rewrite N.land_ones. reflexivity. Qed.

(* ---------- lacing ---------- *)

(* RFC 3533 lacing of a packet of n bytes *)
Definition lace (n : N) : list N := repeat 255 (N.to_nat (n / 255)) ++ [n mod 255].

Lemma sumN_acc : forall l a, fold_left N.add l a = a + sumN l.
Proof.
  induction l as [|x l IH]; intros a; unfold sumN; cbn [fold_left].
  - lia.
  - rewrite IH, (IH (0 + x)). lia.
Qed.
Lemma sumN_cons : forall x l, sumN (x :: l) = x + sumN l.
Proof. intros x l. unfold sumN at 1. cbn [fold_left]. rewrite sumN_acc. lia. Qed.
Lemma sumN_app : forall a b, sumN (a ++ b) = sumN a + sumN b.
Proof.
  induction a as [|x a IH]; intros b; cbn [app].
  - unfold sumN at 2. cbn. lia.
  - rewrite !sumN_cons, IH. lia.
Qed.
Lemma sumN_repeat : forall k x, sumN (repeat x k) = N.of_nat k * x.
Proof.
  induction k as [|k IH]; intros x; cbn [repeat].
  - reflexivity.
  - rewrite sumN_cons, IH. lia.
Qed.

Lemma lace_sum_all : forall n,
  sumN (lace n) = n /\ Forall (fun s => s <= 255) (lace n) /\ last (lace n) 0 < 255 /\
  N.of_nat (length (lace n)) = n / 255 + 1.
Proof.
  intros n. unfold lace. repeat split.
  - rewrite sumN_app, sumN_repeat, sumN_cons. unfold sumN. cbn [fold_left].
    rewrite Nnat.N2Nat.id. pose proof (N.div_mod n 255). lia.
  - apply Forall_app. split.
    + apply Forall_forall. intros x Hx. apply repeat_spec in Hx. lia.
    + constructor; [| constructor]. pose proof (N.mod_lt n 255). lia.
  - rewrite last_last. apply N.mod_lt. discriminate.
  - rewrite app_length, repeat_length. cbn [length]. lia.
Qed.

(* ---------- Opus TOC table ---------- *)

(* RFC 6716 section 3.1, table 2: frame duration per configuration number, in
   samples at 48 kHz *)
Definition rfc6716_frame_samples (config : N) : N :=
  if config <? 12 then nth (N.to_nat (config mod 4)) [480; 960; 1920; 2880] 0
  else if config <? 16 then nth (N.to_nat (config mod 2)) [480; 960] 0
  else nth (N.to_nat (config mod 4)) [120; 240; 480; 960] 0.

Definition rfc6716_frames (toc : N) (b1 : option N) : option N :=
  match toc mod 4 with
  | 0 => Some 1
  | 1 | 2 => Some 2
  | _ => match b1 with
         | None => None
         | Some b => if b mod 64 =? 0 then None else Some (b mod 64)
         end
  end.

(* samples of a packet, None when malformed or longer than 120 ms *)
Definition rfc6716_samples (toc : N) (b1 : option N) : option N :=
  match rfc6716_frames toc b1 with
  | None => None
  | Some f => let n := rfc6716_frame_samples (toc / 8) * f in
              if 5760 <? n then None else Some n
  end.

Definition result_to_option {A} (r : result A) : option A :=
  match r with Ok a => Some a | _ => None end.

Definition toc_row_ok (toc : N) : bool :=
  (match result_to_option (opus_sample_count [toc]), rfc6716_samples toc None with
   | Some a, Some b => a =? b | None, None => true | _, _ => false end) &&
  forallb (fun b1 =>
    match result_to_option (opus_sample_count [toc; b1]), rfc6716_samples toc (Some b1) with
    | Some a, Some b => a =? b | None, None => true | _, _ => false end)
    (map N.of_nat (seq 0 256)).

Lemma toc_table_ok : forallb toc_row_ok (map N.of_nat (seq 0 256)) = true.
Proof. vm_compute. reflexivity. Qed.

Lemma in_range256 : forall n, n < 256 -> In n (map N.of_nat (seq 0 256)).
Proof.
  intros n H. apply in_map_iff. exists (N.to_nat n). split; [apply Nnat.N2Nat.id|].
  apply in_seq. lia.
Qed.

Lemma opus_sample_count_prefix : forall toc b1 rest,
  opus_sample_count (toc :: b1 :: rest) = opus_sample_count [toc; b1].
Proof. intros. reflexivity. Qed.

Definition opt_eq (a b : option N) : Prop := a = b.

Lemma opus_samples_table_all : forall toc, toc < 256 ->
  result_to_option (opus_sample_count [toc]) = rfc6716_samples toc None /\
  forall b1 rest, b1 < 256 ->
    result_to_option (opus_sample_count (toc :: b1 :: rest)) = rfc6716_samples toc (Some b1).
Proof.
  intros toc Ht.
  pose proof toc_table_ok as H. rewrite forallb_forall in H.
  specialize (H toc (in_range256 toc Ht)). unfold toc_row_ok in H.
  apply andb_prop in H. destruct H as [H1 H2]. split.
  - destruct (result_to_option (opus_sample_count [toc])), (rfc6716_samples toc None);
      try discriminate; try reflexivity.
    apply N.eqb_eq in H1. now subst.
  - intros b1 rest Hb. rewrite opus_sample_count_prefix.
    rewrite forallb_forall in H2. specialize (H2 b1 (in_range256 b1 Hb)).
    destruct (result_to_option (opus_sample_count [toc; b1])), (rfc6716_samples toc (Some b1));
      try discriminate; try reflexivity.
    apply N.eqb_eq in H2. now subst.
Qed.

(* ---------- CRC never leaves the table; its value fits 32 bits ---------- *)

Lemma log2_lt_of_lt : forall n a, 0 < n -> a < 2 ^ n -> N.log2 a < n.
Proof.
  intros n a Hn Ha. destruct (N.eq_dec a 0) as [-> | Hz].
  - cbn. exact Hn.
  - apply N.log2_lt_pow2; [lia | exact Ha].
Qed.

Lemma lxor_lt_pow2 : forall n a b, a < 2 ^ n -> b < 2 ^ n -> N.lxor a b < 2 ^ n.
Proof.
  intros n a b Ha Hb.
  destruct (N.eq_dec (N.lxor a b) 0) as [E | Hz].
  - rewrite E. apply N.neq_0_lt_0. apply N.pow_nonzero. discriminate.
  - destruct (N.eq_dec n 0) as [-> | Hn].
    + cbn in Ha, Hb. assert (a = 0) by lia. assert (b = 0) by lia. subst. cbn in Hz. congruence.
    + apply N.log2_lt_pow2; [lia|].
      eapply N.le_lt_trans; [apply N.log2_lxor|].
      apply N.max_lub_lt; apply log2_lt_of_lt; lia.
Qed.

Lemma m8_lt : forall x, m8 x < 256.
Proof. intros x. rewrite m8_u8. unfold u8. apply N.mod_lt. discriminate. Qed.
Lemma m32_lt : forall x, m32 x < 4294967296.
Proof. intros x. rewrite m32_u32. apply u32_lt. Qed.

Lemma writer_table_entries : Forall (fun e => e < 4294967296) writer_table.
Proof.
  apply Forall_forall. intros e He.
  assert (H : forallb (fun e => e <? 4294967296) writer_table = true) by (vm_compute; reflexivity).
  rewrite forallb_forall in H. apply N.ltb_lt. exact (H e He).
Qed.

Lemma crc_update_some : forall crc v,
  exists c, crc_update writer_table crc v = Some c /\ c < 4294967296.
Proof.
  intros crc v. unfold crc_update.
  set (i := N.lxor (m8 (N.shiftr crc 24)) (m8 v)).
  assert (Hi : i < 256).
  { apply (lxor_lt_pow2 8); apply m8_lt. }
  destruct (nth_error writer_table (N.to_nat i)) as [e|] eqn:He.
  - exists (N.lxor (m32 (N.shiftl crc 8)) e). split; [reflexivity|].
    apply (lxor_lt_pow2 32); [apply m32_lt|].
    pose proof writer_table_entries as Hall. rewrite Forall_forall in Hall.
    apply Hall. eapply nth_error_In. exact He.
  - exfalso. apply nth_error_None in He. rewrite writer_table_length in He. lia.
Qed.

Lemma crc_fold_some : forall l crc, crc < 4294967296 ->
  exists c, crc_fold writer_table crc l = Some c /\ c < 4294967296.
Proof.
  induction l as [|v l IH]; intros crc Hc; cbn [crc_fold].
  - exists crc. auto.
  - destruct (crc_update_some crc v) as (c1 & -> & Hc1). apply IH. exact Hc1.
Qed.

(* ---------- one page: what is written, and reading it back ---------- *)

Lemma firstn_app_len : forall (A : Type) (a b : list A) n, length a = n -> firstn n (a ++ b) = a.
Proof. intros A a b n <-. apply firstn_app_exact. Qed.
Lemma skipn_app_len : forall (A : Type) (a b : list A) n, length a = n -> skipn n (a ++ b) = b.
Proof. intros A a b n <-. apply skipn_app_exact. Qed.

Definition page_head (htype granule serial index : N) : list N :=
  sig_oggs ++ [0] ++ [u8 htype] ++ le_bytes 8 granule ++ le_bytes 4 serial ++ le_bytes 4 index.

Lemma page_head_length : forall h g s i, length (page_head h g s i) = 22%nat.
Proof. intros. unfold page_head. repeat rewrite app_length. rewrite !le_bytes_length. reflexivity. Qed.

Definition page_raw (payload segs : list N) (htype granule serial index : N) : list N :=
  page_head htype granule serial index ++ [0; 0; 0; 0] ++ [u8 (N.of_nat (length segs))] ++ segs ++ payload.

Lemma page_bytes_shape : forall payload segs htype granule serial index,
  exists c, c < 4294967296 /\
    crc_fold writer_table 0 (page_raw payload segs htype granule serial index) = Some c /\
    page_bytes writer_table payload segs htype granule serial index
    = Some (page_head htype granule serial index ++ le_bytes 4 c
            ++ [u8 (N.of_nat (length segs))] ++ segs ++ payload).
Proof.
  intros payload segs htype granule serial index.
  destruct (crc_fold_some (page_raw payload segs htype granule serial index) 0 ltac:(reflexivity))
    as (c & Hc & Hlt).
  exists c. split; [exact Hlt|]. split; [exact Hc|].
  unfold page_bytes.
  replace (sig_oggs ++ [0] ++ [u8 htype] ++ le_bytes 8 granule ++ le_bytes 4 serial ++
           le_bytes 4 index ++ [0; 0; 0; 0] ++ [u8 (N.of_nat (length segs))] ++ segs ++ payload)
    with (page_raw payload segs htype granule serial index)
    by (unfold page_raw, page_head; repeat rewrite <- app_assoc; reflexivity).
  rewrite Hc. reflexivity.
Qed.

Lemma le_bytes_8 : forall x,
  le_bytes 8 x = [x mod 256; (x / 256) mod 256; (x / 256 / 256) mod 256; (x / 256 / 256 / 256) mod 256;
                  (x / 256 / 256 / 256 / 256) mod 256; (x / 256 / 256 / 256 / 256 / 256) mod 256;
                  (x / 256 / 256 / 256 / 256 / 256 / 256) mod 256;
                  (x / 256 / 256 / 256 / 256 / 256 / 256 / 256) mod 256].
Proof. reflexivity. Qed.
Lemma le_val_8 : forall x, x < 18446744073709551616 ->
  le_val [x mod 256; (x / 256) mod 256; (x / 256 / 256) mod 256; (x / 256 / 256 / 256) mod 256;
          (x / 256 / 256 / 256 / 256) mod 256; (x / 256 / 256 / 256 / 256 / 256) mod 256;
          (x / 256 / 256 / 256 / 256 / 256 / 256) mod 256;
          (x / 256 / 256 / 256 / 256 / 256 / 256 / 256) mod 256] = x.
Proof. intros x H. rewrite <- le_bytes_8. apply le_roundtrip. exact H. Qed.

Definition page_ok (payload segs : list N) (granule serial index : N) : Prop :=
  granule < 18446744073709551616 /\ serial < 4294967296 /\ index < 4294967296 /\
  (length segs <= 255)%nat /\ sumN segs = N.of_nat (length payload).


Lemma parse_written_page : forall payload segs htype granule serial index data rest,
  page_ok payload segs granule serial index ->
  page_bytes writer_table payload segs htype granule serial index = Some data ->
  parse_next_page true (data ++ rest)
  = Ok (mkRpage (mkPhdr sig_oggs 0 (u8 htype) granule serial index (N.of_nat (length segs)))
                segs payload, rest).
Proof.
  intros payload segs htype granule serial index data rest (Hg & Hs & Hi & Hn & Hsum) Hdata.
  destruct (page_bytes_shape payload segs htype granule serial index) as (c & Hc & Hfold & Hshape).
  assert (Hd : data = page_head htype granule serial index ++ le_bytes 4 c
                      ++ [u8 (N.of_nat (length segs))] ++ segs ++ payload) by congruence.
  clear Hshape Hdata. subst data.
  assert (Hu : u8 (N.of_nat (length segs)) = N.of_nat (length segs))
    by (unfold u8; apply N.mod_small; lia).
  unfold page_raw in Hfold. rewrite Hu in *.
  set (n := N.of_nat (length segs)) in *.
  set (h := page_head htype granule serial index ++ le_bytes 4 c ++ [n]).
  assert (Hh : length h = 27%nat)
    by (unfold h; rewrite !app_length, page_head_length, le_bytes_length; reflexivity).
  replace ((page_head htype granule serial index ++ le_bytes 4 c ++ [n] ++ segs ++ payload) ++ rest)
    with (h ++ segs ++ payload ++ rest)
    by (unfold h; repeat rewrite <- app_assoc; reflexivity).
  unfold parse_next_page.
  replace 27 with (N.of_nat (length h)) by (rewrite Hh; reflexivity).
  rewrite read_full_app.
  change (sub h 0 4) with sig_oggs.
  change (sub h 4 5) with [0].
  change (sub h 5 6) with [u8 htype].
  change (sub h 6 14) with (le_bytes 8 granule).
  change (sub h 14 18) with (le_bytes 4 serial).
  change (sub h 18 22) with (le_bytes 4 index).
  change (sub h 22 26) with (le_bytes 4 c).
  change (sub h 26 27) with [n].
  change (zero_crc_field h) with (page_head htype granule serial index ++ [0; 0; 0; 0] ++ [n]).
  rewrite (le_roundtrip 8) by exact Hg.
  rewrite !(le_roundtrip 4) by assumption.
  replace (le_val [0]) with 0 by reflexivity.
  replace (le_val [u8 htype]) with (u8 htype) by (cbn [le_val]; lia).
  replace (le_val [n]) with n by (cbn [le_val]; lia).
  cbn [ph_nsegs].
  unfold n in *. clear n. rewrite read_full_app.
  rewrite Hsum. rewrite read_full_app.
  replace ((page_head htype granule serial index ++ [0; 0; 0; 0] ++ [N.of_nat (length segs)]) ++ segs ++ payload)
    with (page_head htype granule serial index ++ [0; 0; 0; 0] ++ [N.of_nat (length segs)] ++ segs ++ payload)
    by (repeat rewrite <- app_assoc; reflexivity).
  rewrite <- tables_equal, Hfold, N.eqb_refl. reflexivity.
Qed.

(* ---------- createPagesForSerial ---------- *)

Lemma lace_small : forall n, n < 255 -> lace n = [n].
Proof.
  intros n H. unfold lace. rewrite N.div_small, N.mod_small by exact H. reflexivity.
Qed.

Lemma lace_step : forall n, 255 <= n -> lace n = 255 :: lace (n - 255).
Proof.
  intros n H. unfold lace.
  replace n with ((n - 255) + 1 * 255) at 1 2 by lia.
  rewrite N.div_add, N.mod_add by discriminate.
  replace (N.to_nat ((n - 255) / 255 + 1)) with (S (N.to_nat ((n - 255) / 255))) by lia.
  reflexivity.
Qed.

Lemma build_segs_spec : forall room rem,
  build_segs room rem =
  if rem <? 255 * N.of_nat room then (lace rem, 0, true)
  else (repeat 255 room, rem - 255 * N.of_nat room, false).
Proof.
  induction room as [|room IH]; intros rem.
  - cbn [build_segs repeat]. replace (rem <? 255 * N.of_nat 0) with false
      by (symmetry; apply N.ltb_ge; lia).
    f_equal. f_equal. lia.
  - cbn [build_segs]. destruct (255 <=? rem) eqn:E.
    + apply N.leb_le in E. rewrite IH.
      destruct (rem - 255 <? 255 * N.of_nat room) eqn:E2.
      * apply N.ltb_lt in E2.
        replace (rem <? 255 * N.of_nat (S room)) with true by (symmetry; apply N.ltb_lt; lia).
        rewrite (lace_step rem E). reflexivity.
      * apply N.ltb_ge in E2.
        replace (rem <? 255 * N.of_nat (S room)) with false by (symmetry; apply N.ltb_ge; lia).
        cbn [repeat]. f_equal. f_equal. lia.
    + apply N.leb_gt in E.
      replace (rem <? 255 * N.of_nat (S room)) with true by (symmetry; apply N.ltb_lt; lia).
      rewrite lace_small by exact E. reflexivity.
Qed.

Definition full_page : N := 65025.   (* 255 segments of 255 bytes *)

(* the pages of one packet, as createPagesForSerial builds them *)
Inductive chain (htype granule serial : N) : N -> bool -> N -> list opage -> Prop :=
| chain_last : forall index first remaining pg,
    remaining < full_page ->
    pg_segs pg = lace remaining ->
    N.of_nat (length (pg_payload pg)) = remaining ->
    pg_htype pg = packet_page_htype htype first true ->
    pg_granule pg = granule ->
    pg_index pg = index ->
    page_bytes writer_table (pg_payload pg) (pg_segs pg) (pg_htype pg) (pg_granule pg) serial index
      = Some (pg_data pg) ->
    chain htype granule serial index first remaining [pg]
| chain_more : forall index first remaining pg more,
    full_page <= remaining ->
    pg_segs pg = repeat 255 255 ->
    N.of_nat (length (pg_payload pg)) = full_page ->
    pg_htype pg = packet_page_htype htype first false ->
    pg_granule pg = no_granule ->
    pg_index pg = index ->
    page_bytes writer_table (pg_payload pg) (pg_segs pg) (pg_htype pg) (pg_granule pg) serial index
      = Some (pg_data pg) ->
    chain htype granule serial (u32 (index + 1)) false (remaining - full_page) more ->
    chain htype granule serial index first remaining (pg :: more).

Lemma sumN_lace : forall n, sumN (lace n) = n.
Proof. intros n. apply lace_sum_all. Qed.

Lemma create_pages_chain : forall fuel rest remaining htype granule serial index first,
  remaining = N.of_nat (length rest) ->
  remaining / full_page < N.of_nat fuel ->
  exists pages,
    create_pages fuel writer_table rest remaining htype granule serial index first = Ok pages /\
    flat_map pg_payload pages = rest /\
    chain htype granule serial index first remaining pages.
Proof.
  induction fuel as [|fuel IH]; intros rest remaining htype granule serial index first Hrem Hfuel.
  - exfalso. exact (N.nlt_0_r _ Hfuel).
  - cbn [create_pages]. unfold max_segments. rewrite build_segs_spec.
    change (255 * N.of_nat 255) with full_page.
    destruct (remaining <? full_page) eqn:E.
    + apply N.ltb_lt in E. rewrite sumN_lace.
      destruct (page_bytes_shape (firstn (N.to_nat remaining) rest) (lace remaining)
                  (packet_page_htype htype first true) granule serial index) as (c & _ & _ & Hpb).
      rewrite Hpb.
      assert (Hall : firstn (N.to_nat remaining) rest = rest)
        by (apply firstn_all2; lia).
      eexists. split; [reflexivity|]. split.
      * cbn [flat_map pg_payload]. rewrite app_nil_r. exact Hall.
      * apply chain_last; cbn [pg_segs pg_payload pg_htype pg_granule pg_index pg_data]; auto.
        rewrite Hall. lia.
    + apply N.ltb_ge in E.
      assert (Hs : sumN (repeat 255 255) = full_page) by (rewrite sumN_repeat; reflexivity).
      rewrite Hs.
      destruct (page_bytes_shape (firstn (N.to_nat full_page) rest) (repeat 255 255)
                  (packet_page_htype htype first false) no_granule serial index) as (c & _ & _ & Hpb).
      rewrite Hpb.
      assert (Hlen : length (firstn (N.to_nat full_page) rest) = N.to_nat full_page)
        by (apply firstn_length_le; lia).
      destruct (IH (skipn (N.to_nat full_page) rest) (remaining - full_page) htype granule serial
                   (u32 (index + 1)) false) as (more & Hmore & Hpay & Hchain).
      * rewrite skipn_length. lia.
      * assert (remaining / full_page = (remaining - full_page) / full_page + 1).
        { replace remaining with ((remaining - full_page) + 1 * full_page) at 1 by lia.
          apply N.div_add. discriminate. }
        lia.
      * rewrite Hmore. eexists. split; [reflexivity|]. split.
        -- cbn [flat_map pg_payload]. rewrite Hpay. apply firstn_skipn.
        -- apply chain_more; cbn [pg_segs pg_payload pg_htype pg_granule pg_index pg_data]; auto.
           rewrite Hlen. lia.
Qed.

Lemma create_pages_for_chain : forall payload htype granule serial index,
  exists pages,
    create_pages_for writer_table payload htype granule serial index = Ok pages /\
    flat_map pg_payload pages = payload /\
    chain htype granule serial index true (N.of_nat (length payload)) pages.
Proof.
  intros. unfold create_pages_for. apply create_pages_chain; [reflexivity|].
  eapply N.le_lt_trans; [apply N.div_le_upper_bound with (q := N.of_nat (length payload))|];
    unfold full_page; lia.
Qed.

(* ---------- reading the pages of a packet back ---------- *)

Fixpoint parse_pages (k : nat) (l : list N) : result (list rpage * list N) :=
  match k with
  | O => Ok ([], l)
  | S k' =>
      match parse_next_page true l with
      | Ok (pg, rest) =>
          match parse_pages k' rest with
          | Ok (pgs, rest') => Ok (pg :: pgs, rest')
          | e => e
          end
      | Err e => Err e
      | Panic => Panic
      end
  end.

(* what the reader returns for a written page *)
Definition rpage_of (serial : N) (pg : opage) : rpage :=
  mkRpage (mkPhdr sig_oggs 0 (u8 (pg_htype pg)) (pg_granule pg) serial (pg_index pg)
                  (N.of_nat (length (pg_segs pg))))
          (pg_segs pg) (pg_payload pg).

Lemma lace_length_le : forall n, n < full_page -> (length (lace n) <= 255)%nat.
Proof.
  intros n H. destruct (lace_sum_all n) as (_ & _ & _ & Hl).
  assert (n / 255 < 255) by (apply N.div_lt_upper_bound; [discriminate | exact H]).
  lia.
Qed.

Lemma no_granule_lt : no_granule < 18446744073709551616.
Proof. reflexivity. Qed.

Lemma parse_chain : forall htype granule serial index first remaining pages rest,
  chain htype granule serial index first remaining pages ->
  granule < 18446744073709551616 -> serial < 4294967296 -> index < 4294967296 ->
  parse_pages (length pages) (flat_map pg_data pages ++ rest)
  = Ok (map (rpage_of serial) pages, rest).
Proof.
  intros htype granule serial index first remaining pages rest Hch.
  revert rest. induction Hch as [index first remaining pg Hr Hsegs Hlen Hht Hgr Hidx Hpb
                                | index first remaining pg more Hr Hsegs Hlen Hht Hgr Hidx Hpb Hmore IH];
    intros rest Hg Hs Hi.
  - cbn [length parse_pages flat_map map]. rewrite app_nil_r.
    erewrite parse_written_page; [| | exact Hpb].
    + unfold rpage_of. rewrite Hidx. reflexivity.
    + unfold page_ok. rewrite Hgr, Hsegs, sumN_lace. repeat split; try assumption.
      * now apply lace_length_le.
      * lia.
  - cbn [length parse_pages flat_map map]. rewrite <- app_assoc.
    erewrite parse_written_page; [| | exact Hpb].
    + rewrite IH; [| exact Hg | exact Hs | apply u32_lt].
      unfold rpage_of at 2. rewrite Hidx. reflexivity.
    + unfold page_ok. rewrite Hgr, Hsegs, sumN_repeat, repeat_length.
      repeat split; try assumption; try apply no_granule_lt; try lia.
      rewrite Hlen. reflexivity.
Qed.

(* RFC 3533: cut a page-spanning byte string into packets along the lacing
   values (a value below 255 ends a packet) *)
Fixpoint split_lacing (segs : list N) (data cur : list N) : list (list N) * list N :=
  match segs with
  | [] => ([], cur)
  | s :: t =>
      let cur' := cur ++ firstn (N.to_nat s) data in
      if s <? 255 then
        let (ps, left) := split_lacing t (skipn (N.to_nat s) data) [] in (cur' :: ps, left)
      else split_lacing t (skipn (N.to_nat s) data) cur'
  end.

Lemma split_lacing_lace : forall k n data cur,
  n / 255 = N.of_nat k -> N.of_nat (length data) = n ->
  split_lacing (lace n) data cur = ([cur ++ data], []).
Proof.
  induction k as [|k IH]; intros n data cur Hk Hlen.
  - assert (Hn : n < 255).
    { destruct (N.lt_ge_cases n 255) as [H|H]; [exact H|].
      assert (1 <= n / 255) by (apply N.div_le_lower_bound; lia). lia. }
    rewrite lace_small by exact Hn. cbn [split_lacing].
    replace (n <? 255) with true by (symmetry; apply N.ltb_lt; exact Hn).
    rewrite firstn_all2 by lia. reflexivity.
  - assert (Hn : 255 <= n).
    { destruct (N.lt_ge_cases n 255) as [H|H]; [|exact H].
      rewrite N.div_small in Hk by exact H. lia. }
    rewrite lace_step by exact Hn. cbn [split_lacing].
    replace (255 <? 255) with false by reflexivity.
    rewrite IH.
    + rewrite <- app_assoc, firstn_skipn. reflexivity.
    + replace n with ((n - 255) + 1 * 255) in Hk by lia.
      rewrite N.div_add in Hk by discriminate. lia.
    + rewrite skipn_length. lia.
Qed.

Lemma chain_segs : forall htype granule serial index first remaining pages,
  chain htype granule serial index first remaining pages ->
  flat_map pg_segs pages = lace remaining.
Proof.
  intros htype granule serial index first remaining pages Hch.
  induction Hch as [index first remaining pg Hr Hsegs _ _ _ _ _
                   | index first remaining pg more Hr Hsegs _ _ _ _ _ _ IH].
  - cbn [flat_map]. rewrite app_nil_r. exact Hsegs.
  - cbn [flat_map]. rewrite Hsegs, IH.
    clear - Hr. unfold lace.
    replace remaining with ((remaining - full_page) + 255 * 255) at 3 4 by (unfold full_page in *; lia).
    rewrite N.div_add, N.mod_add by discriminate.
    rewrite app_assoc, <- repeat_app. f_equal. f_equal. lia.
Qed.

Lemma payload_roundtrip : forall payload htype granule serial index rest,
  granule < 18446744073709551616 -> serial < 4294967296 -> index < 4294967296 ->
  exists pages rps,
    create_pages_for writer_table payload htype granule serial index = Ok pages /\
    parse_pages (length pages) (flat_map pg_data pages ++ rest) = Ok (rps, rest) /\
    flat_map rp_payload rps = payload /\
    flat_map rp_segs rps = lace (N.of_nat (length payload)) /\
    split_lacing (flat_map rp_segs rps) (flat_map rp_payload rps) [] = ([payload], []).
Proof.
  intros payload htype granule serial index rest Hg Hs Hi.
  destruct (create_pages_for_chain payload htype granule serial index) as (pages & Hcp & Hpay & Hch).
  exists pages, (map (rpage_of serial) pages).
  assert (Hp : flat_map rp_payload (map (rpage_of serial) pages) = payload).
  { rewrite <- Hpay. clear. induction pages as [|pg pages IH]; [reflexivity|].
    cbn [map flat_map rpage_of rp_payload]. now rewrite IH. }
  assert (Hsg : flat_map rp_segs (map (rpage_of serial) pages) = lace (N.of_nat (length payload))).
  { rewrite <- (chain_segs _ _ _ _ _ _ _ Hch). clear. induction pages as [|pg pages IH]; [reflexivity|].
    cbn [map flat_map rpage_of rp_segs]. now rewrite IH. }
  split; [exact Hcp|]. split; [now apply (parse_chain _ _ _ _ _ _ _ rest Hch)|].
  split; [exact Hp|]. split; [exact Hsg|].
  rewrite Hsg, Hp.
  apply (split_lacing_lace (N.to_nat (N.of_nat (length payload) / 255))); lia.
Qed.

(* ---------- OpusHead / OpusTags round trip ---------- *)

Lemma slice_mid : forall (a b c : list N),
  slice (a ++ b ++ c) (length a) (length a + length b) = Some b.
Proof.
  intros a b c. unfold slice.
  replace (Nat.leb (length a) (length a + length b)) with true by (symmetry; apply Nat.leb_le; lia).
  replace (Nat.leb (length a + length b) (length (a ++ b ++ c))) with true
    by (symmetry; apply Nat.leb_le; rewrite !app_length; lia).
  cbn [andb]. rewrite skipn_app_exact.
  replace (length a + length b - length a)%nat with (length b) by lia.
  rewrite firstn_app_exact. reflexivity.
Qed.

Lemma slice_mid' : forall (a b c : list N) i j,
  i = length a -> j = (i + length b)%nat -> slice (a ++ b ++ c) i j = Some b.
Proof. intros a b c i j -> ->. apply slice_mid. Qed.

Lemma slice_cons : forall (x : N) l i j, slice (x :: l) (S i) (S j) = slice l i j.
Proof. intros. unfold slice. cbn [length Nat.leb skipn Nat.sub]. reflexivity. Qed.
Lemma slice_all : forall (l : list N), slice l 0 (length l) = Some l.
Proof.
  intros l. unfold slice. cbn [Nat.leb skipn]. rewrite Nat.leb_refl, Nat.sub_0_r, firstn_all. reflexivity.
Qed.

Lemma fit_exact : forall l, fit (length l) l = l.
Proof. intros l. unfold fit. rewrite firstn_all, Nat.sub_diag. cbn. apply app_nil_r. Qed.

Definition chmap_ok (cm : chmap) : Prop :=
  (cm_family cm = 0 \/ cm_family cm = 1 \/ cm_family cm = 2 \/ cm_family cm = 255) /\
  cm_channels cm < 256 /\ cm_streams cm < 256 /\ cm_coupled cm < 256 /\
  (cm_family cm <> 0 -> N.of_nat (length (cm_mapping cm)) = cm_channels cm).

(* what ParseOpusHead must return for a header built from cm *)
Definition head_of (cm : chmap) (preskip rate : N) : ohead :=
  if cm_family cm =? 0 then mkOhead 1 (cm_channels cm) preskip rate 0 0 0 0 []
  else mkOhead 1 (cm_channels cm) preskip rate 0 (cm_family cm) (cm_streams cm) (cm_coupled cm)
               (cm_mapping cm).

Lemma u8_small : forall x, x < 256 -> u8 x = x.
Proof. intros x H. unfold u8. apply N.mod_small. exact H. Qed.

Lemma head_roundtrip : forall cm preskip rate,
  chmap_ok cm -> preskip < 65536 -> rate < 4294967296 ->
  parse_opus_head (build_id_header cm preskip rate) = Ok (head_of cm preskip rate).
Proof.
  intros cm preskip rate (Hfam & Hch & Hst & Hcp & Hmap) Hps Hrt.
  unfold build_id_header, head_of.
  rewrite !u8_small by (try assumption; destruct Hfam as [-> | [-> | [-> | ->]]]; reflexivity).
  pose proof (le_roundtrip 2 preskip Hps) as Rps. pose proof (le_roundtrip 4 rate Hrt) as Rrt.
  pose proof (le_bytes_length 2 preskip) as Lps. pose proof (le_bytes_length 4 rate) as Lrt.
  remember (le_bytes 2 preskip) as ps eqn:Eps. remember (le_bytes 4 rate) as rt eqn:Ert.
  destruct ps as [|p0 [|p1 [|]]]; try discriminate Lps.
  destruct rt as [|r0 [|r1 [|r2 [|r3 [|]]]]]; try discriminate Lrt.
  change (le_bytes 2 0) with [0; 0].
  destruct (cm_family cm =? 0) eqn:Ef.
  - apply N.eqb_eq in Ef. rewrite Ef.
    unfold parse_opus_head, parse_head_fields, sig_opushead. cbn.
    cbn in Rps, Rrt. rewrite Rps, Rrt. reflexivity.
  - apply N.eqb_neq in Ef. specialize (Hmap Ef).
    rewrite <- Hmap, Nnat.Nat2N.id, fit_exact.
    set (m := cm_mapping cm) in *.
    assert (Hfb : ((cm_family cm =? 1) || (cm_family cm =? 2) || (cm_family cm =? 255)) = true).
    { destruct Hfam as [E | [-> | [-> | ->]]]; [congruence | reflexivity..]. }
    unfold parse_opus_head, parse_head_fields, sig_opushead.
    cbn [app length Nat.ltb Nat.leb byte_at nth_error rbind].
    replace (cm_family cm =? 0) with false by (symmetry; now apply N.eqb_neq).
    rewrite Hfb. rewrite Nnat.Nat2N.id.
    cbn [length Nat.add]. rewrite Nat.eqb_refl. cbn [negb].
    rewrite !slice_cons, slice_all.
    cbn [slice Nat.leb length andb firstn skipn Nat.sub].
    rewrite Rps, Rrt. reflexivity.
Qed.

Definition comment_ok (c : list N * list N) : Prop :=
  ~ In 61 (fst c) /\ N.of_nat (length (fst c) + 1 + length (snd c)) < 4294967296.

Definition tags_ok (t : tags) : Prop :=
  N.of_nat (length (t_vendor t)) < 4294967296 /\
  N.of_nat (length (t_comments t)) < 4294967296 /\
  Forall comment_ok (t_comments t).

Lemma split_eq_built : forall name value,
  ~ In 61 name -> split_eq (name ++ 61 :: value) = Some (name, value).
Proof.
  induction name as [|b name IH]; intros value Hn; cbn [app split_eq].
  - reflexivity.
  - replace (b =? 61) with false
      by (symmetry; apply N.eqb_neq; intros ->; apply Hn; left; reflexivity).
    rewrite IH; [reflexivity|]. intros Hin. apply Hn. right. exact Hin.
Qed.

Lemma u32_small : forall x, x < 4294967296 -> u32 x = x.
Proof. intros x H. unfold u32. apply N.mod_small. exact H. Qed.

Lemma comment_field_length : forall c,
  length (comment_field c) = (4 + (length (fst c) + 1 + length (snd c)))%nat.
Proof.
  intros c. unfold comment_field. rewrite !app_length, le_bytes_length. cbn [length]. lia.
Qed.

Lemma parse_comments_built : forall cs pre tail,
  Forall comment_ok cs ->
  parse_comments (length cs) (pre ++ flat_map comment_field cs ++ tail) (length pre) = Ok cs.
Proof.
  induction cs as [|c cs IH]; intros pre tail Hok; cbn [length parse_comments flat_map].
  - reflexivity.
  - inversion Hok as [|? ? (Hne & Hlen) Hrest]; subst.
    set (L := (length (fst c) + 1 + length (snd c))%nat) in *.
    set (body := fst c ++ [61] ++ snd c).
    assert (Hbody : length body = L) by (unfold body, L; rewrite !app_length; cbn [length]; lia).
    assert (Hfield : comment_field c = le_bytes 4 (N.of_nat L) ++ body).
    { unfold comment_field, body. fold L. rewrite u32_small by exact Hlen. reflexivity. }
    rewrite Hfield. set (rest := flat_map comment_field cs ++ tail).
    replace (pre ++ ((le_bytes 4 (N.of_nat L) ++ body) ++ flat_map comment_field cs) ++ tail)
      with (pre ++ le_bytes 4 (N.of_nat L) ++ (body ++ rest))
      by (unfold rest; repeat rewrite <- app_assoc; reflexivity).
    replace (Nat.ltb (length (pre ++ le_bytes 4 (N.of_nat L) ++ body ++ rest)) (length pre + 4)) with false
      by (symmetry; apply Nat.ltb_ge; rewrite !app_length, le_bytes_length; lia).
    rewrite (slice_mid' pre (le_bytes 4 (N.of_nat L)) (body ++ rest))
      by (try reflexivity; rewrite le_bytes_length; reflexivity).
    rewrite (le_roundtrip 4) by exact Hlen.
    replace (N.of_nat (length (pre ++ le_bytes 4 (N.of_nat L) ++ body ++ rest))
             <? N.of_nat (length pre + 4) + N.of_nat L) with false
      by (symmetry; apply N.ltb_ge; rewrite !app_length, le_bytes_length; lia).
    rewrite Nnat.Nat2N.id.
    replace (pre ++ le_bytes 4 (N.of_nat L) ++ body ++ rest)
      with ((pre ++ le_bytes 4 (N.of_nat L)) ++ body ++ rest) by (rewrite <- app_assoc; reflexivity).
    rewrite (slice_mid' (pre ++ le_bytes 4 (N.of_nat L)) body rest)
      by (rewrite ?app_length, ?le_bytes_length; lia).
    unfold body at 1. change (fst c ++ [61] ++ snd c) with (fst c ++ 61 :: snd c).
    rewrite split_eq_built by exact Hne.
    replace ((pre ++ le_bytes 4 (N.of_nat L)) ++ body ++ rest)
      with ((pre ++ le_bytes 4 (N.of_nat L) ++ body) ++ flat_map comment_field cs ++ tail)
      by (unfold rest; repeat rewrite <- app_assoc; reflexivity).
    replace (length pre + 4 + L)%nat with (length (pre ++ le_bytes 4 (N.of_nat L) ++ body))
      by (rewrite !app_length, le_bytes_length; lia).
    rewrite IH by exact Hrest. destruct c; reflexivity.
Qed.

Lemma comments_length : forall cs, (4 * length cs <= length (flat_map comment_field cs))%nat.
Proof.
  induction cs as [|c cs IH]; cbn [flat_map length]; [lia|].
  rewrite app_length, comment_field_length. lia.
Qed.

Lemma tags_roundtrip : forall t,
  tags_ok t -> parse_opus_tags (build_comment_header t) = Ok t.
Proof.
  intros [vendor cs] (Hv & Hc & Hok). cbn [t_vendor t_comments] in *.
  unfold build_comment_header. cbn [t_vendor t_comments].
  rewrite !u32_small by assumption.
  set (V := N.of_nat (length vendor)) in *. set (C := N.of_nat (length cs)) in *.
  set (F := flat_map comment_field cs).
  set (payload := sig_opustags ++ le_bytes 4 V ++ vendor ++ le_bytes 4 C ++ F).
  assert (Hlen : length payload = (16 + length vendor + length F)%nat).
  { unfold payload. rewrite !app_length, !le_bytes_length. cbn [length sig_opustags]. lia. }
  unfold parse_opus_tags. fold payload. rewrite Hlen.
  replace (Nat.ltb (16 + length vendor + length F) 16) with false by (symmetry; apply Nat.ltb_ge; lia).
  replace (firstn 8 payload) with sig_opustags by reflexivity.
  replace (list_N_eqb sig_opustags sig_opustags) with true by reflexivity. cbn [negb].
  unfold payload at 1.
  rewrite (slice_mid' sig_opustags (le_bytes 4 V) (vendor ++ le_bytes 4 C ++ F))
    by (try reflexivity; rewrite le_bytes_length; reflexivity).
  rewrite (le_roundtrip 4) by exact Hv.
  replace (N.of_nat (16 + length vendor + length F - 16) <? V) with false
    by (symmetry; apply N.ltb_ge; unfold V; lia).
  assert (HV : N.to_nat V = length vendor) by (unfold V; apply Nnat.Nat2N.id).
  rewrite !HV.
  replace (Nat.ltb (16 + length vendor + length F) (12 + length vendor + 4)) with false
    by (symmetry; apply Nat.ltb_ge; lia).
  replace payload with ((sig_opustags ++ le_bytes 4 V) ++ vendor ++ (le_bytes 4 C ++ F)) at 1
    by (unfold payload; repeat rewrite <- app_assoc; reflexivity).
  rewrite (slice_mid' (sig_opustags ++ le_bytes 4 V) vendor (le_bytes 4 C ++ F))
    by (rewrite ?app_length, ?le_bytes_length; cbn [length sig_opustags]; lia).
  replace payload with ((sig_opustags ++ le_bytes 4 V ++ vendor) ++ le_bytes 4 C ++ F) at 1
    by (unfold payload; repeat rewrite <- app_assoc; reflexivity).
  rewrite (slice_mid' (sig_opustags ++ le_bytes 4 V ++ vendor) (le_bytes 4 C) F)
    by (rewrite ?app_length, ?le_bytes_length; cbn [length sig_opustags]; lia).
  rewrite (le_roundtrip 4) by exact Hc.
  pose proof (comments_length cs) as Hcl. fold F in Hcl.
  replace (N.of_nat (Nat.div (16 + length vendor + length F - (12 + length vendor)) 4) <? C) with false.
  2:{ symmetry. apply N.ltb_ge. unfold C.
      assert (length cs <= Nat.div (16 + length vendor + length F - (12 + length vendor)) 4)%nat.
      { apply Nat.div_le_lower_bound; lia. }
      lia. }
  unfold C. rewrite Nnat.Nat2N.id.
  replace payload with ((sig_opustags ++ le_bytes 4 V ++ vendor ++ le_bytes 4 (N.of_nat (length cs)))
                        ++ flat_map comment_field cs ++ [])
    by (unfold payload, F, C; rewrite app_nil_r; repeat rewrite <- app_assoc; reflexivity).
  replace (12 + length vendor + 4)%nat
    with (length (sig_opustags ++ le_bytes 4 V ++ vendor ++ le_bytes 4 (N.of_nat (length cs))))
    by (rewrite !app_length, !le_bytes_length; cbn [length sig_opustags]; lia).
  rewrite parse_comments_built by exact Hok. reflexivity.
Qed.

Lemma example_tags_ok :
  tags_ok (mkTags [112; 105; 111; 110] [([84], [120; 61; 121])]) /\
  chmap_ok (mkChmap 255 3 1 1 [0; 1; 255]).
Proof.
  split.
  - unfold tags_ok. cbn [t_vendor t_comments length].
    split; [reflexivity|]. split; [reflexivity|].
    constructor; [| constructor]. unfold comment_ok. cbn [fst snd length].
    split; [| reflexivity]. intros [H | []]. discriminate H.
  - unfold chmap_ok. cbn [cm_family cm_channels cm_streams cm_coupled cm_mapping length].
    split; [right; right; right; reflexivity|].
    split; [reflexivity|]. split; [reflexivity|]. split; [reflexivity|].
    intros _. reflexivity.
Qed.
