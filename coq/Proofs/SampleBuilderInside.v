(* C31: every buffered key lies inside `filled`, and what follows from it:
   no operation raises a model fault (out of fuel, nil dereference, sample
   over an emptied window) when max-time-delay is off and maxLate is 0 or
   2..21844.  Outside that range the statement is false (witnesses in
   Proofs/SampleBuilderTop2.v). *)
From Coq Require Import List ZArith NArith PArith Bool Lia ZifyBool ZifyNat ZifyN.
Import ListNotations.
From Verif Require Import Common.Base Model.SampleBuilder Model.SampleBuilderSpec
  Proofs.SampleBuilderArith Proofs.SampleBuilderIter Proofs.SampleBuilderMap Proofs.SampleBuilder
  Proofs.SampleBuilderScan Proofs.SampleBuilderBuild Proofs.SampleBuilderFuel
  Proofs.SampleBuilderNoPanic Proofs.SampleBuilderCases.
Open Scope N_scope.
Ltac Zify.zify_post_hook ::= Z.div_mod_to_equations.

(* case split on every boolean comparison in the goal or a hypothesis (a hypothesis that
   mentions one is moved into the goal first) *)
Ltac split_leb :=
  repeat match goal with
         | H : context [_ <=? _] |- _ => revert H
         | H : context [_ =? _] |- _ => revert H
         end;
  repeat match goal with
         | |- context [?a <=? ?b] => destruct (a <=? b) eqn:?
         | |- context [?a =? ?b] => destruct (a =? b) eqn:?
         end; intros.

(* ---------- the pair (buffer, filled) and the release of filled.head ---------- *)
Definition bfp : Type := (list (N * packet) * loc)%type.
Definition bf (s : st) : bfp := (buf s, filled s).
(* s.releasePacket(s.filled.head); s.filled.head++ *)
Definition rfh (x : bfp) : bfp :=
  (bdel (l_head (snd x)) (fst x), mkLoc (inc16 (l_head (snd x))) (l_tail (snd x))).
(* the same, done only if filled.hasData() *)
Definition grf (x : bfp) : bfp := if l_hasData (snd x) then rfh x else x.

Definition ipair (x : bfp) : Prop :=
  loc_ok (snd x) /\ forall k p, In (k, p) (fst x) -> k < 65536 /\ off (snd x) k < span (snd x).
Definition sp (x : bfp) : N := span (snd x).

Lemma bdel_absent : forall {A} k (m : list (N * A)), bget k m = None -> bdel k m = m.
Proof.
  intros A k m. unfold bget, bdel. induction m as [|[a v] m IH]; cbn [find filter fst]; intro H; [reflexivity|].
  destruct (a =? k) eqn:E; [discriminate H|]. cbn [negb]. f_equal. apply IH. exact H.
Qed.

Lemma In_bget : forall {A} k (v : A) m, In (k, v) m -> bget k m <> None.
Proof.
  intros A k v m Hin H. unfold bget in H.
  destruct (find (fun e => fst e =? k) m) eqn:E; [discriminate H|].
  apply (find_none _ _ E) in Hin. cbn in Hin. rewrite N.eqb_refl in Hin. discriminate Hin.
Qed.

Lemma bf_releasePacket : forall s i, bf (releasePacket s i) = (bdel i (buf s), filled s).
Proof.
  intros s i. unfold releasePacket, bf. destruct (bget i (buf s)) eqn:E; cbn [buf filled]; [reflexivity|].
  rewrite bdel_absent by exact E. reflexivity.
Qed.

Lemma bf_release_filled_head : forall s, bf (release_filled_head s) = rfh (bf s).
Proof.
  intro s. unfold release_filled_head.
  pose proof (bf_releasePacket s (l_head (filled s))) as H. unfold bf in *.
  injection H as H1 H2. cbn [set_filled buf filled]. rewrite H1, H2. reflexivity.
Qed.

Lemma bf_pcl : forall s l f,
  bf (purgeConsumedLocation s l f) = bf s \/ bf (purgeConsumedLocation s l f) = grf (bf s).
Proof.
  intros s l f. unfold purgeConsumedLocation.
  destruct (l_hasData (filled s)) eqn:E; cbn [negb]; [|left; reflexivity].
  assert (R : bf (release_filled_head s) = grf (bf s)).
  { rewrite bf_release_filled_head. unfold grf. cbn [bf snd]. rewrite E. reflexivity. }
  destruct (compare l (l_head (filled s))); try (left; reflexivity); try (right; exact R).
  destruct f; [right; exact R|left; reflexivity].
Qed.

Lemma bf_raise : forall s f, bf (raise s f) = bf s.
Proof. intros. unfold raise. destruct (fault s =? 0); reflexivity. Qed.

(* at most n guarded releases *)
Fixpoint giter (k : nat) (x : bfp) : bfp := match k with O => x | S k => grf (giter k x) end.
Lemma giter_add : forall a b x, giter (a + b) x = giter a (giter b x).
Proof. induction a as [|a IH]; intros; cbn [giter plus]; [reflexivity|]. rewrite IH. reflexivity. Qed.
Definition upto (n : nat) (x y : bfp) : Prop := exists k, (k <= n)%nat /\ y = giter k x.

Lemma upto_refl : forall n x, upto n x x.
Proof. intros. exists 0%nat. split; [lia|reflexivity]. Qed.
Lemma upto_trans : forall a b x y z, upto a x y -> upto b y z -> upto (a + b) x z.
Proof.
  intros a b x y z (k1 & H1 & ->) (k2 & H2 & ->). exists (k2 + k1)%nat. split; [lia|].
  rewrite giter_add. reflexivity.
Qed.
Lemma upto_pcl : forall s l f, upto 1 (bf s) (bf (purgeConsumedLocation s l f)).
Proof.
  intros. destruct (bf_pcl s l f) as [H|H]; rewrite H; [exists 0%nat|exists 1%nat]; split; try lia; reflexivity.
Qed.

(* ---------- ipair under releases ---------- *)
Lemma In_bdel_iff : forall {A} k (m : list (N * A)) e, In e (bdel k m) <-> In e m /\ fst e <> k.
Proof.
  intros A k m e. unfold bdel. rewrite filter_In. split; intros [H1 H2]; (split; [exact H1|]).
  - intro E. rewrite E, N.eqb_refl in H2. discriminate.
  - apply negb_true_iff. apply N.eqb_neq. exact H2.
Qed.

Lemma hasData_span : forall l, loc_ok l -> (l_hasData l = true <-> 0 < span l).
Proof.
  intros l [Hh Ht]. unfold l_hasData, span. rewrite sub16_cases by assumption.
  destruct (l_head l =? l_tail l) eqn:E; cbn [negb]; split_leb; split; intro; try lia; try discriminate.
Qed.

Lemma ipair_grf : forall x, ipair x -> ipair (grf x) /\ sp (grf x) = sp x - 1.
Proof.
  intros [b f] [Hok Hin]. unfold grf, sp in *. cbn [fst snd] in *.
  pose proof (hasData_span f Hok) as Hd. destruct (l_hasData f).
  - assert (H0 : 0 < span f) by (apply Hd; reflexivity).
    destruct Hok as [Hh Ht]. unfold rfh. cbn [fst snd]. unfold ipair. cbn [fst snd].
    assert (Hs : span (mkLoc (inc16 (l_head f)) (l_tail f)) = span f - 1).
    { unfold span in *. cbn [l_head l_tail]. rewrite inc16_cases by assumption.
      destruct (l_head f =? 65535) eqn:E; rewrite !sub16_cases in * by lia; split_leb; lia. }
    split; [|exact Hs]. split; [split; cbn [l_head l_tail]; [apply inc16_lt|exact Ht]|].
    intros k p Hk. apply In_bdel_iff in Hk. destruct Hk as [Hk Hne]. cbn [fst] in Hne.
    destruct (Hin k p Hk) as [Hk16 Hoff]. split; [exact Hk16|].
    rewrite Hs. unfold off, span in *. cbn [l_head l_tail]. rewrite inc16_cases by assumption.
    destruct (l_head f =? 65535) eqn:E; rewrite !sub16_cases in * by lia; split_leb; lia.
  - split; [split; assumption|]. cbn [snd]. destruct (N.eq_dec (span f) 0) as [E|E]; [lia|].
    assert (false = true) by (apply Hd; lia). discriminate.
Qed.

Lemma ipair_iter : forall k x, ipair x -> ipair (giter k x) /\ sp (giter k x) = sp x - N.of_nat k.
Proof.
  induction k as [|k IH]; intros x Hx; cbn [giter].
  - split; [exact Hx|lia].
  - destruct (IH x Hx) as [H1 H2]. destruct (ipair_grf _ H1) as [G1 G2].
    split; [exact G1|]. rewrite G2, H2. lia.
Qed.

Lemma ipair_upto : forall n x y, upto n x y -> ipair x ->
  ipair y /\ sp y <= sp x /\ sp x <= sp y + N.of_nat n.
Proof.
  intros n x y (k & Hk & ->) Hx. destruct (ipair_iter k x Hx) as [H1 H2].
  split; [exact H1|]. lia.
Qed.

Lemma ipair_empty : forall x, ipair x -> sp x = 0 -> fst x = [].
Proof.
  intros [b f] [_ Hin] Hs. unfold sp in Hs. cbn [fst snd] in *.
  destruct b as [|[k p] b]; [reflexivity|]. destruct (Hin k p (or_introl eq_refl)) as [_ H]. lia.
Qed.

Lemma ipair_nil : forall x, loc_ok (snd x) -> fst x = [] -> ipair x.
Proof. intros x H E. split; [exact H|]. rewrite E. intros k p []. Qed.

Lemma upto_nil : forall n x y, upto n x y -> fst x = [] -> fst y = [].
Proof.
  intros n x y (k & _ & ->) H. induction k as [|k IH]; cbn [giter]; [exact H|].
  unfold grf at 1. destruct (l_hasData _); [|exact IH].
  unfold rfh. cbn [fst]. rewrite IH. reflexivity.
Qed.

Lemma upto_loc_ok : forall n x y, upto n x y -> loc_ok (snd x) -> loc_ok (snd y).
Proof.
  intros n x y (k & _ & ->) H. induction k as [|k IH]; cbn [giter]; [exact H|].
  unfold grf at 1. destruct (l_hasData _); [|exact IH].
  unfold rfh. cbn [snd]. split; cbn [l_head l_tail]; [apply inc16_lt|apply IH].
Qed.

(* a slot at filled.tail (or anywhere outside filled) is empty *)
Lemma ipair_tail_absent : forall s, ipair (bf s) -> bget (l_tail (filled s)) (buf s) = None.
Proof.
  intros s [_ Hin]. destruct (bget (l_tail (filled s)) (buf s)) as [p|] eqn:E; [exfalso|reflexivity].
  apply bget_In in E. destruct (Hin _ _ E) as [_ H]. unfold off, span in H. cbn [bf snd] in H. lia.
Qed.

Section Inside.
  Variable is_head : list N -> bool.
  Variable is_tail : bool -> list N -> bool.
  Variable unmarshal : list N -> option (list N).
  Variable c : cfg.
  Notation buildSample := (buildSample is_head is_tail unmarshal c).
  Notation purge_body := (purge_body is_head is_tail unmarshal c).
  Notation purge_step := (purge_step is_head is_tail unmarshal c).
  Notation purgeBuffers := (purgeBuffers is_head is_tail unmarshal c).
  Notation push := (push is_head is_tail unmarshal c).
  Notation flush := (flush is_head is_tail unmarshal c).
  Notation pop := (pop is_head is_tail unmarshal c).
  Notation step := (step is_head is_tail unmarshal c).
  Notation run := (run is_head is_tail unmarshal c).
  Notation rel := (rel is_head is_tail unmarshal).
  Notation scan := (scan is_tail).
  Notation brun := (brun is_head unmarshal c).
  Notation bcase := (bcase is_head is_tail unmarshal c).
  Notation pcase := (pcase is_head is_tail unmarshal c).
  Notation dropped_state := (dropped_state).
  Notation handled := (handled c).
  Notation sampled_state := (sampled_state c).

  (* ---------- frames: what the helper states leave alone ---------- *)
  Lemma bf_anchor : forall s, bf (anchor s) = bf s.
  Proof. intro s. unfold anchor. destruct (l_empty (active s)); reflexivity. Qed.
  Lemma bf_extend : forall s, bf (extend s) = bf s.
  Proof. intro s. unfold extend. destruct (cmp_eqb _ _); reflexivity. Qed.
  Lemma bf_mark3 : forall s, bf (mark3 s) = bf s.
  Proof. intro s. unfold mark3. destruct (snd _); [reflexivity|apply bf_raise]. Qed.
  Lemma bf_moved : forall s l, bf (moved s l) = bf s.
  Proof. intros. unfold moved. change (bf (set_active (mark3 s) _)) with (bf (mark3 s)). apply bf_mark3. Qed.
  Lemma bf_handled : forall s, bf (handled s) = bf s.
  Proof. intro s. unfold SampleBuilderCases.handled. destruct (c_headHandler c); reflexivity. Qed.
  Lemma bf_dropped_state : forall s l pk, bf (dropped_state s l pk) = bf s.
  Proof.
    intros. unfold SampleBuilderCases.dropped_state. cbv zeta. destruct (existsb _ _);
      cbn [bf set_padding set_dropped log_ev buf filled]; apply bf_moved.
  Qed.
  Lemma bf_sampled_state : forall s l x, bf (sampled_state s l x) = bf s.
  Proof.
    intros. unfold SampleBuilderCases.sampled_state. cbv zeta. cbn [bf buf filled].
    change (bf (handled (moved s l)) = bf s). rewrite bf_handled. apply bf_moved.
  Qed.
  Lemma upto_purge2 : forall s l, upto 2 (bf s) (bf (purge2 s l)).
  Proof.
    intros. unfold purge2, purgeConsumedBuffers. change 2%nat with (1 + 1)%nat.
    eapply upto_trans; apply upto_pcl.
  Qed.

  Lemma fault_anchor : forall s, fault (anchor s) = fault s.
  Proof. intro s. unfold anchor. destruct (l_empty (active s)); reflexivity. Qed.
  Lemma fault_extend : forall s, fault (extend s) = fault s.
  Proof. intro s. unfold extend. destruct (cmp_eqb _ _); reflexivity. Qed.
  Lemma fault_handled : forall s, fault (handled s) = fault s.
  Proof. intro s. unfold SampleBuilderCases.handled. destruct (c_headHandler c); reflexivity. Qed.
  Lemma fault_purge2 : forall s l, fault (purge2 s l) = fault s.
  Proof. intros. unfold purge2. rewrite fault_pcb, fault_pcl. reflexivity. Qed.
  Lemma fault_dropped_state : forall s l pk, fault (dropped_state s l pk) = fault (mark3 s).
  Proof. intros. unfold SampleBuilderCases.dropped_state. cbv zeta. destruct (existsb _ _); reflexivity. Qed.

  Lemma active_anchor_ok : forall s, locs_ok s -> locs_ok (anchor s).
  Proof.
    intros s [Hf Ha]. unfold anchor. destruct (l_empty (active s)); [|split; assumption].
    split; cbn; assumption.
  Qed.
  Lemma active_extend_ok : forall s, locs_ok s -> locs_ok (extend s).
  Proof.
    intros s [Hf Ha]. unfold extend. destruct (cmp_eqb _ _); [|split; assumption].
    split; cbn [filled active set_active]; [exact Hf|]. split; cbn; [apply Ha|apply Hf].
  Qed.

  (* ---------- buildSample touches (buffer, filled) by at most two guarded releases ---------- *)
  Lemma upto_buildSample : forall purging s0, upto 2 (bf s0) (bf (fst (buildSample purging s0))).
  Proof.
    intros purging s0.
    assert (E2 : bf (extend (anchor s0)) = bf s0) by (rewrite bf_extend; apply bf_anchor).
    destruct (buildSample_bcase is_head is_tail unmarshal c purging s0) as [E1|consume E1 Esc|consume E1 Esc Hw|consume r E1 Esc Ece Hw Hr];
      cbn [fst].
    - rewrite bf_anchor. apply upto_refl.
    - rewrite bf_raise, E2. apply upto_refl.
    - rewrite E2. apply upto_refl.
    - rewrite <- E2.
      destruct Hr; cbn [fst]; rewrite ?bf_raise;
        try (change (bf (log_ev ?s _)) with (bf s)); rewrite ?bf_handled, ?bf_moved; try apply upto_refl.
      + rewrite <- (bf_dropped_state (extend (anchor s0)) consume (hp :: rest)). apply upto_purge2.
      + match goal with |- upto _ _ (bf (purge2 (SampleBuilderCases.sampled_state c ?s ?l ?x) _)) =>
          rewrite <- (bf_sampled_state s l x) end. apply upto_purge2.
  Qed.

  (* ---------- the scan over a window whose first slot is empty ---------- *)
  Lemma scan_absent : forall s, bget (l_head (active s)) (buf s) = None -> scan s = (mkLoc 0 0, false).
  Proof.
    intros s H. unfold SampleBuilder.scan. rewrite iter_pos_nat.
    destruct (Pos2Nat.is_succ 65537) as [n ->]. cbn [iter_nat].
    assert (Es : scan_step is_tail s (l_head (active s), mkLoc 0 0) = ((l_head (active s), mkLoc 0 0), false)).
    { unfold SampleBuilder.scan_step. cbn [fst snd]. rewrite H. reflexivity. }
    rewrite Es. reflexivity.
  Qed.

  (* a non-empty consumed run starts at a buffered active.head and is in range *)
  Lemma run_facts : forall s consume, loc_ok (active s) ->
    scan s = (consume, false) -> l_empty consume = false ->
    exists k, pass is_tail s (l_head (active s)) k /\ ended is_tail s (l_head (active s)) k consume /\
              loc_ok consume /\ l_head consume = l_head (active s) /\
              exists p, bget (l_head (active s)) (buf s) = Some p.
  Proof.
    intros s consume [Hh Ht] Esc Ece. unfold SampleBuilder.scan in Esc.
    destruct (iter_pos 65537 (scan_step is_tail s) (l_head (active s), mkLoc 0 0)) as [r b] eqn:Eit.
    rewrite iter_pos_nat in Eit. cbn [fst snd] in Esc. injection Esc as Er Eb. subst b.
    apply scan_iter in Eit; [|exact Hh]. rewrite Er in Eit.
    destruct Eit as [Eit|(k & _ & Hp & Hen)]; [cbn in Eit; subst consume; cbn in Ece; discriminate|].
    exists k. split; [exact Hp|]. split; [exact Hen|].
    assert (Hb : exists p, bget (l_head (active s)) (buf s) = Some p).
    { destruct k as [|k].
      - destruct Hen as (p & Hb & _). rewrite w16_small in Hb by lia.
        replace (l_head (active s) + N.of_nat 0) with (l_head (active s)) in Hb by lia. exists p. exact Hb.
      - destruct (Hp 0%nat ltac:(lia)) as (p & Hb & _). rewrite w16_small in Hb by lia.
        replace (l_head (active s) + N.of_nat 0) with (l_head (active s)) in Hb by lia. exists p. exact Hb. }
    destruct Hen as (q & _ & _ & [[_ ->]|(_ & _ & _ & ->)]); cbn [l_head l_tail];
      (split; [split; cbn [l_head l_tail]; [exact Hh|try apply inc16_lt; try apply w16_lt]|split; [reflexivity|exact Hb]]).
  Qed.

  (* when the tail extension empties the window, its first slot is filled.tail: empty *)
  Lemma extend_head_absent : forall s, ipair (bf s) -> loc_ok (active s) ->
    l_empty (active s) = false -> l_empty (active (extend s)) = true ->
    bget (l_head (active (extend s))) (buf (extend s)) = None.
  Proof.
    intros s Hi Ha E1 E2. unfold extend in *.
    destruct (cmp_eqb (compare (filled s) (l_tail (active s))) CInside); [|congruence].
    cbn [active set_active buf l_head l_tail l_empty] in *. apply N.eqb_eq in E2. cbn [l_head l_tail] in E2. rewrite E2.
    apply ipair_tail_absent. exact Hi.
  Qed.

  (* ---------- no fault in buildSample ---------- *)
  Lemma fault_buildSample : forall purging s0, locs_ok s0 -> ipair (bf s0) ->
    fault (fst (buildSample purging s0)) = fault s0.
  Proof.
    intros purging s0 Hok Hi.
    pose proof (active_anchor_ok s0 Hok) as Hok1.
    pose proof (active_extend_ok _ Hok1) as Hok2.
    assert (Hi1 : ipair (bf (anchor s0))) by (rewrite bf_anchor; exact Hi).
    assert (F2 : fault (extend (anchor s0)) = fault s0) by (rewrite fault_extend; apply fault_anchor).
    (* a window emptied by the extension starts at an empty slot *)
    assert (Habs : l_empty (active (anchor s0)) = false -> l_empty (active (extend (anchor s0))) = true ->
                   scan (extend (anchor s0)) = (mkLoc 0 0, false)).
    { intros E1 E2. apply scan_absent. apply extend_head_absent; try assumption. apply Hok1. }
    destruct (buildSample_bcase is_head is_tail unmarshal c purging s0) as [E1|consume E1 Esc|consume E1 Esc Hw|consume r E1 Esc Ece Hw Hr];
      cbn [fst].
    - apply fault_anchor.
    - exfalso. destruct (l_empty (active (extend (anchor s0)))) eqn:E2.
      + rewrite (Habs E1 eq_refl) in Esc. discriminate Esc.
      + pose proof (scan_fuel is_tail (extend (anchor s0)) (proj2 Hok2)) as Hf.
        rewrite Esc in Hf. cbn [snd] in Hf. apply N.eqb_neq in E2. specialize (Hf E2). discriminate Hf.
    - exact F2.
    - set (s2 := extend (anchor s0)) in *.
      destruct (run_facts s2 consume (proj2 Hok2) Esc Ece) as (k & Hp & Hen & Hcok & Hch & (p & Hb)).
      assert (E2 : l_empty (active s2) = false).
      { destruct (l_empty (active s2)) eqn:E2; [|reflexivity].
        rewrite (Habs E1 eq_refl) in Esc. injection Esc as <-. cbn in Ece. discriminate Ece. }
      assert (Hm : mark3 s2 = s2).
      { unfold mark3. rewrite (fetchTimestamp_head s2 p E2 Hb). reflexivity. }
      assert (Fm : forall l, fault (moved s2 l) = fault s0).
      { intro l. unfold moved. rewrite Hm. exact F2. }
      destruct Hr; cbn [fst].
      + exfalso. pose proof (collect_fuel s2 consume (proj1 Hcok) (proj2 Hcok)) as Hf.
        rewrite H in Hf. discriminate Hf.
      + exfalso. destruct (collect_all_some is_tail s2 consume col k (proj1 (proj2 Hok2)) Hp Hen Ece H) as (hp & rest & Has).
        rewrite Has in H0. destruct H0 as [H0|H0]; discriminate H0.
      + rewrite fault_purge2, fault_dropped_state, Hm. exact F2.
      + apply Fm.
      + change (fault (handled (moved s2 consume)) = fault s0). rewrite fault_handled. apply Fm.
      + rewrite fault_purge2. change (fault (handled (moved s2 consume)) = fault s0).
        rewrite fault_handled. apply Fm.
  Qed.

  (* ---------- the body of the purge loop ---------- *)
  Definition skipped := SampleBuilderCases.skipped.
  Lemma bf_skipped : forall s, bf (skipped s) = bf s.
  Proof. reflexivity. Qed.
  Lemma fault_skipped : forall s, fault (skipped s) = fault s.
  Proof. reflexivity. Qed.

  (* (buffer, filled) after one iteration: up to two guarded releases, then possibly
     the unguarded one at the end of the loop body *)
  Lemma bf_purge_body : forall s,
    upto 2 (bf s) (bf (purge_body s)) \/
    exists y, upto 2 (bf s) y /\ bf (purge_body s) = rfh y.
  Proof.
    intro s. destruct (purge_body_pcase is_head is_tail unmarshal c s) as [x Hc Hs|Hc Hs|Hc].
    - left. rewrite <- (bf_anchor s). apply upto_buildSample.
    - right. exists (bf (fst (buildSample true (anchor s)))). split.
      + rewrite <- (bf_anchor s). apply upto_buildSample.
      + rewrite bf_release_filled_head. reflexivity.
    - right. exists (bf s). split; [apply upto_refl|].
      rewrite bf_release_filled_head, bf_anchor. reflexivity.
  Qed.

  Lemma fault_purge_body : forall s, locs_ok s -> ipair (bf s) -> fault (purge_body s) = fault s.
  Proof.
    intros s Hok Hi.
    assert (Hi1 : ipair (bf (anchor s))) by (rewrite bf_anchor; exact Hi).
    pose proof (fault_buildSample true (anchor s) (active_anchor_ok s Hok) Hi1) as Hb.
    rewrite fault_anchor in Hb.
    destruct (purge_body_pcase is_head is_tail unmarshal c s) as [x Hc Hs|Hc Hs|Hc].
    - exact Hb.
    - rewrite fault_release_filled_head. exact Hb.
    - rewrite fault_release_filled_head. apply fault_anchor.
  Qed.

  (* ---------- the loop invariant ---------- *)
  Hypothesis no_delay : c_maxLateTs c = 0.
  Hypothesis late_not_1 : c_maxLate c <> 1.
  Hypothesis late_bound : c_maxLate c <= 21844.

  (* between operations *)
  Definition ginv (s : st) : Prop :=
    locs_ok s /\ fault s = 0 /\ ipair (bf s) /\ sp (bf s) <= c_maxLate c.
  (* inside the purge loop: either the window is still short, or the buffer is empty and
     the loop will run until filled is empty too (Flush, or maxLate 0) *)
  Definition linv (fl : bool) (s : st) : Prop :=
    locs_ok s /\ fault s = 0 /\ ipair (bf s) /\
    (sp (bf s) <= 65535 - c_maxLate c \/ (buf s = [] /\ (fl = true \/ c_maxLate c = 0))).

  Lemma count_span : forall l, loc_ok l ->
    l_count l = N.min (span l) (if span l =? 0 then 0 else 65536 - span l).
  Proof.
    intros l [Hh Ht]. unfold l_count. destruct (seqnumDistance_spec (l_head l) (l_tail l) Hh Ht) as (H & _).
    rewrite H. unfold span. rewrite !sub16_cases by assumption. split_leb; lia.
  Qed.

  Lemma tooOld_off : forall s l, tooOld c s l = false.
  Proof. intros. unfold tooOld. rewrite no_delay. reflexivity. Qed.

  Lemma rfh_loc_ok : forall x, loc_ok (snd x) -> loc_ok (snd (rfh x)).
  Proof. intros x [_ H]. split; cbn [rfh snd l_head l_tail]; [apply inc16_lt|exact H]. Qed.

  Lemma linv_body : forall fl s, linv fl s -> purge_cond c fl s = true -> linv fl (purge_body s).
  Proof.
    intros fl s (Hok & Hf & Hi & Hsp) Hc.
    assert (Hok' : locs_ok (purge_body s)).
    { apply (r_ok _ _ _ _ _ (rel_purge_body is_head is_tail unmarshal c s)). exact Hok. }
    split; [exact Hok'|]. split; [rewrite fault_purge_body by assumption; exact Hf|].
    unfold purge_cond in Hc. rewrite tooOld_off in Hc. cbn [orb] in Hc.
    apply andb_true_iff in Hc. destruct Hc as [Hc Hd].
    apply (hasData_span _ (proj1 Hok)) in Hd.
    destruct Hsp as [Hsp|[Hnil Hfl]].
    - (* short window *)
      destruct (bf_purge_body s) as [Hu|(y & Hu & Ey)].
      + destruct (ipair_upto _ _ _ Hu Hi) as (H1 & H2 & _). split; [exact H1|left; lia].
      + destruct (ipair_upto _ _ _ Hu Hi) as (H1 & H2 & H3). rewrite Ey.
        destruct (N.eq_dec (sp y) 0) as [E0|E0].
        * (* the unguarded release found filled empty: only under Flush or maxLate 0 *)
          pose proof (ipair_empty y H1 E0) as Hy.
          assert (Hn : fst (rfh y) = []) by (unfold rfh; cbn [fst]; rewrite Hy; reflexivity).
          split.
          { apply ipair_nil; [apply rfh_loc_ok; apply H1|exact Hn]. }
          right. split; [rewrite <- Ey in Hn; exact Hn|].
          destruct fl; [left; reflexivity|right]. rewrite orb_false_r in Hc.
          rewrite (count_span _ (proj1 Hok)) in Hc. unfold sp in *. cbn [bf snd] in *.
          change (N.of_nat 2) with 2 in H3.
          destruct (span (filled s) =? 0) eqn:Ez; lia.
        * (* filled still had data: the release is the guarded one *)
          assert (Eg : rfh y = grf y).
          { unfold grf. assert (Hd' : l_hasData (snd y) = true) by (apply (hasData_span _ (proj1 H1)); unfold sp in E0; lia).
            rewrite Hd'. reflexivity. }
          rewrite Eg. destruct (ipair_grf y H1) as [G1 G2]. split; [exact G1|left; lia].
    - (* empty buffer: stays empty *)
      assert (Hb : fst (bf (purge_body s)) = []).
      { destruct (bf_purge_body s) as [Hu|(y & Hu & Ey)].
        - apply (upto_nil _ _ _ Hu). exact Hnil.
        - rewrite Ey. unfold rfh. cbn [fst]. rewrite (upto_nil _ _ _ Hu Hnil). reflexivity. }
      split.
      + apply ipair_nil; [apply Hok'|exact Hb].
      + right. split; [exact Hb|exact Hfl].
  Qed.

  Lemma linv_step : forall fl s, linv fl s -> linv fl (fst (purge_step fl s)).
  Proof.
    intros fl s H. unfold SampleBuilder.purge_step. destruct (purge_cond c fl s) eqn:E; cbn [fst]; [|exact H].
    apply linv_body; assumption.
  Qed.

  (* the state the loop stops in *)
  Lemma iter_nat_stop : forall {S} (P : S -> Prop) (f : S -> S * bool),
    (forall s, P s -> P (fst (f s))) ->
    forall n s, P s -> snd (iter_nat n f s) = false ->
    exists s', P s' /\ f s' = (fst (iter_nat n f s), false).
  Proof.
    intros S P f Hinv n. induction n as [|n IH]; intros s Hs H; cbn [iter_nat] in *; [discriminate H|].
    destruct (f s) as [s1 c1] eqn:E. cbn [fst snd] in *. destruct c1.
    - apply IH; [|exact H]. specialize (Hinv s Hs). rewrite E in Hinv. exact Hinv.
    - exists s. split; [exact Hs|]. rewrite E. reflexivity.
  Qed.

  Lemma linv_exit : forall fl s, linv fl s -> purge_cond c fl s = false -> ginv s.
  Proof.
    intros fl s (Hok & Hf & Hi & Hsp) Hc. split; [exact Hok|]. split; [exact Hf|]. split; [exact Hi|].
    unfold purge_cond in Hc. rewrite tooOld_off in Hc. cbn [orb] in Hc.
    pose proof (hasData_span _ (proj1 Hok)) as Hd. unfold sp in *. cbn [bf snd] in *.
    pose proof (sub16_lt (l_tail (filled s)) (l_head (filled s))) as Hlt. fold (span (filled s)) in Hlt.
    destruct (l_hasData (filled s)).
    - assert (H0 : 0 < span (filled s)) by (apply Hd; reflexivity).
      rewrite andb_true_r in Hc. apply orb_false_iff in Hc. destruct Hc as [Hc ->].
      rewrite (count_span _ (proj1 Hok)) in Hc.
      destruct Hsp as [Hsp|[_ [Hfl|Hm]]]; [|discriminate Hfl|];
        destruct (span (filled s) =? 0) eqn:Ez; lia.
    - destruct (N.eq_dec (span (filled s)) 0) as [E|E]; [lia|].
      assert (false = true) by (apply Hd; lia). discriminate.
  Qed.

  Lemma ginv_purgeBuffers : forall fl s, linv fl (purgeConsumedBuffers s) -> ginv (purgeBuffers fl s).
  Proof.
    intros fl s H. unfold SampleBuilder.purgeBuffers.
    set (s1 := purgeConsumedBuffers s) in *.
    pose proof (purge_fuel is_head is_tail unmarshal c fl s1 (proj1 H)) as Hfuel.
    rewrite Hfuel. rewrite iter_pos_nat in *.
    destruct (iter_nat_stop (linv fl) (purge_step fl) (linv_step fl) _ s1 H Hfuel) as (s' & Hs' & Es').
    unfold SampleBuilder.purge_step in Es' at 1. destruct (purge_cond c fl s') eqn:Ec; [discriminate Es'|].
    injection Es' as Es'. rewrite <- Es'. eapply linv_exit; eassumption.
  Qed.

  Lemma linv_pcb : forall fl s, linv fl s -> linv fl (purgeConsumedBuffers s).
  Proof.
    intros fl s (Hok & Hf & Hi & Hsp). split; [|split; [|split]].
    - apply (r_ok _ _ _ _ _ (rel_purgeConsumedBuffers is_head is_tail unmarshal s)). exact Hok.
    - rewrite fault_pcb. exact Hf.
    - apply (ipair_upto _ _ _ (upto_pcl s (active s) false) Hi).
    - pose proof (upto_pcl s (active s) false) as Hu. fold (purgeConsumedBuffers s) in Hu.
      destruct (ipair_upto _ _ _ Hu Hi) as (_ & H2 & _).
      destruct Hsp as [Hsp|[Hn Hfl]]; [left; lia|right]. split; [|exact Hfl].
      apply (upto_nil _ _ _ Hu). exact Hn.
  Qed.

  (* ---------- Push ---------- *)
  Lemma ipair_push : forall s pk, ipair (bf s) -> sp (bf s) <= c_maxLate c -> p_seq pk < 65536 ->
    let s1 := set_buf s (bset (p_seq pk) pk (buf s)) in
    let f := filled s1 in
    let s2 := match compare f (p_seq pk) with
              | CVoid => set_filled s1 (mkLoc (p_seq pk) (inc16 (p_seq pk)))
              | CBefore => set_filled s1 (mkLoc (p_seq pk) (l_tail f))
              | CAfter => set_filled s1 (mkLoc (l_head f) (inc16 (p_seq pk)))
              | CInside => s1
              end in
    ipair (bf s2) /\ sp (bf s2) <= 65535 - c_maxLate c.
  Proof.
    intros s pk [Hok Hin] Hsp Hq. cbv zeta. cbn [set_buf filled].
    set (q := p_seq pk) in *. set (f := filled s) in *. unfold sp in *. cbn [bf fst snd] in *. fold f in Hok, Hin, Hsp.
    destruct Hok as [Hh Ht].
    destruct (compare_spec f q (conj Hh Ht) Hq) as (HV & HI & HB & HA).
    assert (Hnew : forall g, loc_ok g -> off g q < span g ->
              (forall k, k < 65536 -> off f k < span f -> off g k < span g) ->
              ipair (bset q pk (buf s), g)).
    { intros g Hg Hgq Hmono. split; [exact Hg|]. cbn [fst snd]. intros k p [E|Hk].
      - injection E as <- <-. split; assumption.
      - apply In_bdel in Hk. destruct Hk as [Hk _]. destruct (Hin k p Hk) as [Hk16 Hoff].
        split; [exact Hk16|apply Hmono; assumption]. }
    destruct (compare f q) eqn:Ec; unfold bf; cbn [set_filled set_buf buf filled fst snd]; fold f.
    - (* Void: the buffer was empty *)
      assert (E : l_head f = l_tail f) by (apply HV; reflexivity).
      assert (Hs0 : span f = 0) by (unfold span; rewrite E; apply sub16_self; exact Ht).
      assert (Hg : loc_ok (mkLoc q (inc16 q))) by (split; cbn; [exact Hq|apply inc16_lt]).
      assert (Hsg : span (mkLoc q (inc16 q)) = 1).
      { unfold span. cbn [l_head l_tail]. rewrite inc16_cases by exact Hq.
        destruct (q =? 65535) eqn:E6; rewrite sub16_cases by lia; split_leb; lia. }
      split; [|rewrite Hsg; lia]. apply Hnew; [exact Hg| |].
      + rewrite Hsg. unfold off. cbn [l_head]. rewrite sub16_self by exact Hq. lia.
      + intros k _ Hk. lia.
    - (* Before: the head moves back to q *)
      destruct (proj1 HB eq_refl) as (Hne & Hout & Hcl).
      assert (Hg : loc_ok (mkLoc q (l_tail f))) by (split; cbn; assumption).
      unfold off, span in *. cbn [l_head l_tail] in *.
      rewrite !sub16_cases in * by assumption.
      split.
      + apply Hnew; [exact Hg| |]; unfold off, span; cbn [l_head l_tail].
        * rewrite !sub16_cases by assumption. split_leb; lia.
        * intros k Hk. rewrite !sub16_cases by assumption. split_leb; lia.
      + split_leb; lia.
    - (* Inside *)
      destruct (proj1 HI eq_refl) as (Hne & Hoff).
      split; [|lia]. apply Hnew; [split; assumption|exact Hoff|auto].
    - (* After: the tail moves to q + 1 *)
      destruct (proj1 HA eq_refl) as (Hne & Hout & Hcl).
      pose proof (inc16_cases q Hq) as Hinc. pose proof (inc16_lt q) as Hilt.
      set (t' := inc16 q) in *.
      assert (Hg : loc_ok (mkLoc (l_head f) t')) by (split; cbn; assumption).
      unfold off, span in *. cbn [l_head l_tail] in *.
      rewrite !sub16_cases in * by assumption.
      split.
      + apply Hnew; [exact Hg| |]; unfold off, span; cbn [l_head l_tail].
        * rewrite !sub16_cases by assumption. split_leb; lia.
        * intros k Hk. rewrite !sub16_cases by assumption. split_leb; lia.
      + split_leb; lia.
  Qed.

  Lemma ginv_push : forall s pk, ginv s -> p_seq pk < 65536 -> ginv (push pk s).
  Proof.
    intros s pk (Hok & Hf & Hi & Hsp) Hq. unfold SampleBuilder.push.
    pose proof (ipair_push s pk Hi Hsp Hq) as Hp. cbv zeta in Hp.
    set (s1 := set_buf s _) in *.
    set (s2 := match compare (filled s1) (p_seq pk) with CVoid => _ | CBefore => _ | CInside => _ | CAfter => _ end) in *.
    apply ginv_purgeBuffers. apply linv_pcb.
    assert (H2 : locs_ok s2 /\ fault s2 = fault s).
    { subst s2 s1. destruct Hok as [[Hfh Hft] Ha].
      destruct (compare _ _); cbn; (split; [split; [split; cbn; try apply inc16_lt; assumption|exact Ha]|reflexivity]). }
    destruct H2 as [Hok2 F2]. destruct Hp as [Hp1 Hp2].
    split; [exact Hok2|]. split; [rewrite F2; exact Hf|]. split; [exact Hp1|left; exact Hp2].
  Qed.

  Lemma ginv_flush : forall s, ginv s -> ginv (flush s).
  Proof.
    intros s (Hok & Hf & Hi & Hsp). unfold SampleBuilder.flush. apply ginv_purgeBuffers. apply linv_pcb.
    split; [exact Hok|]. split; [exact Hf|]. split; [exact Hi|left; lia].
  Qed.

  Lemma ginv_pop : forall s, ginv s -> ginv (fst (pop s)).
  Proof.
    intros s (Hok & Hf & Hi & Hsp). unfold SampleBuilder.pop.
    set (s1 := fst (buildSample false s)).
    assert (G1 : ginv s1).
    { subst s1. split; [|split; [|split]].
      - apply (r_ok _ _ _ _ _ (proj1 (buildSample_rel is_head is_tail unmarshal c false s))). exact Hok.
      - rewrite fault_buildSample by assumption. exact Hf.
      - apply (ipair_upto _ _ _ (upto_buildSample false s) Hi).
      - destruct (ipair_upto _ _ _ (upto_buildSample false s) Hi) as (_ & H2 & _). lia. }
    destruct (l_empty (prepared s1)); cbn [fst]; [exact G1|].
    destruct G1 as (H1 & H2 & H3 & H4). split; [exact H1|]. split; [exact H2|]. split; [exact H3|exact H4].
  Qed.

  Lemma ginv_st0 : ginv st0.
  Proof.
    split; [split; split; cbn; lia|]. split; [reflexivity|]. split.
    - split; [split; cbn; lia|]. intros k p [].
    - unfold sp, span. cbn. lia.
  Qed.

  Theorem no_fault_run : forall ops, history_ok ops -> fault (fst (run ops)) = 0.
  Proof.
    intros ops [Hseq _]. unfold SampleBuilder.run, SampleBuilder.run_from.
    assert (G : forall ops s outs, ginv s ->
              (forall pk, In pk (pushed_of ops) -> p_seq pk < 65536) ->
              ginv (fst (fold_left (fun acc o =>
                 let r := step (fst acc) o in
                 (fst r, match snd r with Some x => snd acc ++ [x] | None => snd acc end)) ops (s, outs)))).
    { clear ops Hseq. induction ops as [|o ops IH]; intros s outs Hg Hseq; cbn [fold_left]; [exact Hg|].
      destruct o as [pk| |]; cbn [SampleBuilder.step fst snd].
      - apply IH; [apply ginv_push; [exact Hg|apply Hseq; left; reflexivity]|].
        intros q Hq. apply Hseq. right. exact Hq.
      - apply IH; [apply ginv_pop; exact Hg|exact Hseq].
      - apply IH; [apply ginv_flush; exact Hg|exact Hseq]. }
    apply (G ops st0 [] ginv_st0 Hseq).
  Qed.
End Inside.
