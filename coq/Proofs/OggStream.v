(* C33, stream level: what the single- and multi-track writers have put into
   the output, page by page, over whole runs (Model/Ogg.v). *)
From Coq Require Import String List Arith NArith Bool Lia ZifyBool ZifyNat ZifyN.
Import ListNotations.
From Verif Require Import Common.V Common.Base Model.Ivf Model.Ogg Proofs.Ivf Proofs.Ogg.
Open Scope N_scope.

(* a written page with the serial of its stream *)
Notation wpage := (N * opage)%type (only parsing).
Definition bytes_of (log : list wpage) : list N := flat_map (fun sp => pg_data (snd sp)) log.
Definition mine (serial : N) (log : list wpage) : list opage :=
  map snd (filter (fun sp => fst sp =? serial) log).
Definition tag (serial : N) (pgs : list opage) : list wpage := map (pair serial) pgs.

Lemma bytes_of_app : forall a b, bytes_of (a ++ b) = bytes_of a ++ bytes_of b.
Proof. intros. unfold bytes_of. apply flat_map_app. Qed.

Lemma bytes_of_tag : forall serial pgs, bytes_of (tag serial pgs) = flat_map pg_data pgs.
Proof.
  intros serial pgs. unfold bytes_of, tag. induction pgs as [|p pgs IH]; [reflexivity|].
  cbn [map flat_map snd]. now rewrite IH.
Qed.

Lemma mine_app : forall s a b, mine s (a ++ b) = mine s a ++ mine s b.
Proof. intros. unfold mine. rewrite filter_app, map_app. reflexivity. Qed.

Lemma mine_tag_same : forall s pgs, mine s (tag s pgs) = pgs.
Proof.
  intros s pgs. unfold mine, tag. induction pgs as [|p pgs IH]; [reflexivity|].
  cbn [map filter fst]. rewrite N.eqb_refl. cbn [map snd]. now rewrite IH.
Qed.

Lemma mine_tag_other : forall s s' pgs, s' <> s -> mine s (tag s' pgs) = [].
Proof.
  intros s s' pgs Hne. unfold mine, tag. induction pgs as [|p pgs IH]; [reflexivity|].
  cbn [map filter fst]. replace (s' =? s) with false by (symmetry; now apply N.eqb_neq). exact IH.
Qed.

(* the serials of the pages in file order *)
Lemma map_fst_tag : forall s pgs, map fst (tag s pgs) = repeat s (length pgs).
Proof.
  intros s pgs. unfold tag. induction pgs as [|p pgs IH]; [reflexivity|].
  cbn [map fst length repeat]. now rewrite IH.
Qed.

(* ---------- the pages of a sequence of packets of one stream ---------- *)

(* packet = (header type argument, payload, granule argument) *)
Notation pkt3 := (N * list N * N)%type (only parsing).

Inductive packets_pages (serial : N) : N -> list pkt3 -> list opage -> Prop :=
| pp_nil : forall idx, packets_pages serial idx [] []
| pp_cons : forall idx ht payload gr more pgs rest,
    chain ht gr serial idx true (N.of_nat (length payload)) pgs ->
    flat_map pg_payload pgs = payload ->
    packets_pages serial (u32 (idx + N.of_nat (length pgs))) more rest ->
    packets_pages serial idx ((ht, payload, gr) :: more) (pgs ++ rest).

Lemma packets_pages_snoc : forall serial idx pkts pages ht payload gr pgs,
  packets_pages serial idx pkts pages ->
  chain ht gr serial (u32 (idx + N.of_nat (length pages))) true (N.of_nat (length payload)) pgs ->
  flat_map pg_payload pgs = payload ->
  idx < 4294967296 ->
  packets_pages serial idx (pkts ++ [(ht, payload, gr)]) (pages ++ pgs).
Proof.
  intros serial idx pkts pages ht payload gr pgs Hpp. revert ht payload gr pgs.
  induction Hpp as [idx | idx ht0 payload0 gr0 more pgs0 rest Hch Hpay Hmore IH];
    intros ht payload gr pgs Hc Hp Hidx.
  - cbn [app length] in *. rewrite N.add_0_r, u32_small in Hc by exact Hidx.
    rewrite <- (app_nil_r pgs). apply pp_cons; [exact Hc | exact Hp | constructor].
  - cbn [app]. rewrite <- app_assoc. apply pp_cons; [exact Hch | exact Hpay |].
    apply IH; [| exact Hp | apply u32_lt].
    rewrite app_length in Hc.
    replace (u32 (u32 (idx + N.of_nat (length pgs0)) + N.of_nat (length rest)))
      with (u32 (idx + N.of_nat (length pgs0 + length rest))); [exact Hc|].
    unfold u32. rewrite N.add_mod_idemp_l by discriminate. f_equal. lia.
Qed.

(* ---------- writePage ---------- *)

Lemma emit_pages_out : forall rw pgs out last,
  fst (emit_pages rw out pgs last) = out ++ flat_map pg_data pgs.
Proof.
  intros rw pgs. induction pgs as [|pg more IH]; intros out last; cbn [emit_pages flat_map fst].
  - now rewrite app_nil_r.
  - rewrite IH, <- app_assoc. reflexivity.
Qed.

Lemma emit_pages_last_off : forall pgs out last,
  snd (emit_pages false out pgs last) = last.
Proof.
  induction pgs as [|pg more IH]; intros out last; cbn [emit_pages snd]; [reflexivity|].
  apply IH.
Qed.

Lemma emit_pages_last_on : forall pgs pg out last,
  snd (emit_pages true out (pgs ++ [pg]) last)
  = Some (mkLast (N.of_nat (length (out ++ flat_map pg_data pgs)))
                 (pg_payload pg) (pg_granule pg) (pg_index pg) (pg_htype pg)).
Proof.
  induction pgs as [|p more IH]; intros pg out last.
  - cbn [app emit_pages snd flat_map]. rewrite app_nil_r. reflexivity.
  - cbn [app emit_pages flat_map].
    rewrite IH. rewrite <- app_assoc. reflexivity.
Qed.

Lemma chain_nonempty : forall ht gr serial idx first rem pgs,
  chain ht gr serial idx first rem pgs -> exists front lastpg, pgs = front ++ [lastpg] /\
    pg_segs lastpg = lace (N.of_nat (length (pg_payload lastpg))) /\
    N.of_nat (length (pg_payload lastpg)) < full_page /\
    pg_granule lastpg = gr /\
    page_bytes writer_table (pg_payload lastpg) (pg_segs lastpg) (pg_htype lastpg)
               (pg_granule lastpg) serial (pg_index lastpg) = Some (pg_data lastpg).
Proof.
  intros ht gr serial idx first rem pgs Hch.
  induction Hch as [idx first rem pg Hr Hsegs Hlen Hht Hgr Hidx Hpb
                   | idx first rem pg more Hr Hsegs Hlen Hht Hgr Hidx Hpb Hmore IH].
  - exists [], pg. rewrite Hlen. rewrite Hidx. repeat split; auto.
  - destruct IH as (front & lastpg & -> & H). exists (pg :: front), lastpg. split; [reflexivity | exact H].
Qed.

(* ---------- one track against the log ---------- *)

Definition final_page (serial : N) (P : opage) : Prop :=
  pg_segs P = lace (N.of_nat (length (pg_payload P))) /\
  N.of_nat (length (pg_payload P)) < full_page /\
  page_bytes writer_table (pg_payload P) (pg_segs P) (pg_htype P) (pg_granule P) serial (pg_index P)
  = Some (pg_data P).

Definition pos_of (log : list wpage) (k : nat) : nat := length (bytes_of (firstn k log)).

(* with a rewriter, the memo of the track describes its last page in the log:
   where it starts in the output and what it contains *)
Definition last_ok (rw : bool) (log : list wpage) (tr : track) : Prop :=
  if rw then
    match mine (tr_serial tr) log with
    | [] => tr_last tr = None
    | _ => exists k P,
        nth_error log k = Some (tr_serial tr, P) /\ mine (tr_serial tr) (skipn (S k) log) = [] /\
        final_page (tr_serial tr) P /\
        tr_last tr = Some (mkLast (N.of_nat (pos_of log k)) (pg_payload P) (pg_granule P)
                                  (pg_index P) (pg_htype P))
    end
  else tr_last tr = None.

Definition R (rw : bool) (log : list wpage) (tr : track) (pkts : list pkt3) : Prop :=
  packets_pages (tr_serial tr) 0 pkts (mine (tr_serial tr) log) /\
  tr_page_index tr = u32 (N.of_nat (length (mine (tr_serial tr) log))) /\
  last_ok rw log tr.

Lemma u32_add_len : forall a b, u32 (u32 (N.of_nat a) + N.of_nat b) = u32 (N.of_nat (a + b)).
Proof.
  intros a b. unfold u32. rewrite N.add_mod_idemp_l by discriminate. f_equal. lia.
Qed.

Lemma write_page_own : forall rw log tr pkts payload ht gr,
  R rw log tr pkts ->
  exists pgs tr',
    write_page writer_table rw (bytes_of log) tr payload ht gr
      = Ok (bytes_of (log ++ tag (tr_serial tr) pgs), tr') /\
    chain ht gr (tr_serial tr) (tr_page_index tr) true (N.of_nat (length payload)) pgs /\
    flat_map pg_payload pgs = payload /\
    tr_serial tr' = tr_serial tr /\ tr_prev_granule tr' = tr_prev_granule tr /\
    tr_rate tr' = tr_rate tr /\ tr_map tr' = tr_map tr /\ tr_preskip tr' = tr_preskip tr /\
    tr_tags tr' = tr_tags tr /\
    R rw (log ++ tag (tr_serial tr) pgs) tr' (pkts ++ [(ht, payload, gr)]).
Proof.
  intros rw log tr pkts payload ht gr (Hpp & Hidx & Hlast).
  destruct (create_pages_for_chain payload ht gr (tr_serial tr) (tr_page_index tr))
    as (pgs & Hcp & Hpay & Hch).
  unfold write_page. rewrite Hcp.
  destruct (emit_pages rw (bytes_of log) pgs (tr_last tr)) as [out' last'] eqn:He.
  exists pgs, (set_pages tr (u32 (tr_page_index tr + N.of_nat (length pgs))) last').
  assert (Hout : out' = bytes_of (log ++ tag (tr_serial tr) pgs)).
  { pose proof (emit_pages_out rw pgs (bytes_of log) (tr_last tr)) as H. rewrite He in H. cbn [fst] in H.
    rewrite H, bytes_of_app, bytes_of_tag. reflexivity. }
  subst out'. split; [reflexivity|]. split; [exact Hch|]. split; [exact Hpay|].
  cbn [set_pages tr_serial tr_prev_granule tr_rate tr_map tr_preskip tr_tags].
  repeat (split; [reflexivity|]).
  unfold R. cbn [set_pages tr_serial tr_page_index].
  rewrite mine_app, mine_tag_same.
  split; [| split].
  - apply packets_pages_snoc; [exact Hpp | | exact Hpay | reflexivity].
    rewrite N.add_0_l, <- Hidx. exact Hch.
  - rewrite Hidx, app_length. apply u32_add_len.
  - unfold last_ok. cbn [set_pages tr_serial tr_last].
    destruct rw.
    + destruct (chain_nonempty _ _ _ _ _ _ _ Hch) as (front & lastpg & -> & Hs & Hl & _ & Hpb).
      pose proof (emit_pages_last_on front lastpg (bytes_of log) (tr_last tr)) as Hl2.
      rewrite He in Hl2. cbn [snd] in Hl2. subst last'.
      rewrite mine_app, mine_tag_same.
      destruct (mine (tr_serial tr) log ++ front ++ [lastpg]) eqn:Em.
      { exfalso. destruct (mine (tr_serial tr) log); destruct front; discriminate. }
      exists (length (log ++ tag (tr_serial tr) front)), lastpg.
      assert (Hlog : log ++ tag (tr_serial tr) (front ++ [lastpg])
                     = (log ++ tag (tr_serial tr) front) ++ [(tr_serial tr, lastpg)])
        by (unfold tag; rewrite map_app, <- app_assoc; reflexivity).
      rewrite Hlog.
      split; [| split; [| split]].
      * rewrite nth_error_app2 by lia. rewrite Nat.sub_diag. reflexivity.
      * rewrite skipn_all2; [reflexivity|]. rewrite app_length. cbn [length]. lia.
      * split; [exact Hs | split; [exact Hl | exact Hpb]].
      * unfold pos_of. rewrite firstn_app_exact, bytes_of_app, bytes_of_tag. reflexivity.
    + pose proof (emit_pages_last_off pgs (bytes_of log) (tr_last tr)) as Hl2.
      rewrite He in Hl2. cbn [snd] in Hl2. subst last'. exact Hlast.
Qed.

Lemma R_other : forall rw log tr pkts s pgs,
  R rw log tr pkts -> s <> tr_serial tr -> R rw (log ++ tag s pgs) tr pkts.
Proof.
  intros rw log tr pkts s pgs (Hpp & Hidx & Hlast) Hne.
  unfold R. rewrite mine_app, mine_tag_other, app_nil_r by exact Hne.
  split; [exact Hpp | split; [exact Hidx|]].
  unfold last_ok in *. destruct rw; [| exact Hlast].
  rewrite mine_app, mine_tag_other, app_nil_r by exact Hne.
  destruct (mine (tr_serial tr) log); [exact Hlast|].
  destruct Hlast as (k & P & Hnth & Hpost & Hfin & Hl).
  assert (Hk : (k < length log)%nat) by (apply nth_error_Some; congruence).
  exists k, P. split; [| split; [| split]].
  - rewrite nth_error_app1 by exact Hk. exact Hnth.
  - rewrite skipn_app, mine_app, Hpost.
    replace (S k - length log)%nat with 0%nat by lia. cbn [skipn app].
    apply mine_tag_other. exact Hne.
  - exact Hfin.
  - rewrite Hl. unfold pos_of. rewrite firstn_app.
    replace (k - length log)%nat with 0%nat by lia. cbn [firstn]. rewrite app_nil_r. reflexivity.
Qed.

(* ---------- replacing one page by another of the same size ---------- *)

Lemma patch_app_skip : forall (a l d : list N) off,
  patch (a ++ l) (length a + off) d = a ++ patch l off d.
Proof.
  intros a l d off. unfold patch.
  rewrite firstn_app. rewrite firstn_all2 by lia.
  replace (length a + off - length a)%nat with off by lia.
  rewrite <- app_assoc. f_equal. f_equal. f_equal.
  rewrite skipn_app. rewrite skipn_all2 by lia.
  replace (length a + off + length d - length a)%nat with (off + length d)%nat by lia.
  reflexivity.
Qed.

Lemma patch_head : forall (b d c : list N), length d = length b -> patch (b ++ c) 0 d = d ++ c.
Proof.
  intros b d c H. unfold patch. cbn [firstn app Nat.add]. rewrite H, skipn_app_exact. reflexivity.
Qed.

Lemma bytes_replace : forall log k s P P',
  nth_error log k = Some (s, P) -> length (pg_data P') = length (pg_data P) ->
  patch (bytes_of log) (pos_of log k) (pg_data P') = bytes_of (replace_nth log k (s, P')).
Proof.
  induction log as [|x log IH]; intros k s P P' Hn Hlen.
  - destruct k; discriminate.
  - destruct k as [|k].
    + cbn [nth_error] in Hn. injection Hn as ->.
      unfold pos_of. cbn [firstn bytes_of flat_map length replace_nth snd].
      apply patch_head. exact Hlen.
    + cbn [nth_error] in Hn. cbn [replace_nth].
      unfold pos_of. cbn [firstn]. unfold bytes_of at 1 2. cbn [flat_map]. fold (bytes_of log).
      rewrite app_length.
      rewrite patch_app_skip.
      change (length (flat_map (fun sp : N * opage => pg_data (snd sp)) (firstn k log))) with (pos_of log k).
      rewrite (IH k s P P' Hn Hlen).
      reflexivity.
Qed.

Lemma replace_keeps_mine : forall s2 log k s1 x y k2,
  nth_error log k = Some (s1, y) -> s1 <> s2 ->
  mine s2 (skipn k2 (replace_nth log k (s1, x))) = mine s2 (skipn k2 log).
Proof.
  intros s2 log. induction log as [|e log IH]; intros k s1 x y k2 Hn Hne.
  - destruct k; discriminate.
  - destruct k as [|k]; cbn [nth_error] in Hn.
    + injection Hn as ->. cbn [replace_nth]. destruct k2; cbn [skipn]; [| reflexivity].
      unfold mine. cbn [filter fst].
      replace (s1 =? s2) with false by (symmetry; now apply N.eqb_neq). reflexivity.
    + cbn [replace_nth]. destruct k2; cbn [skipn].
      * unfold mine. cbn [filter]. destruct (fst e =? s2); cbn [map];
          [f_equal|]; apply (IH k s1 x y 0%nat Hn Hne).
      * apply (IH k s1 x y k2 Hn Hne).
Qed.

Lemma replace_keeps_pos : forall log k s1 x y k2,
  nth_error log k = Some (s1, y) -> length (pg_data x) = length (pg_data y) ->
  pos_of (replace_nth log k (s1, x)) k2 = pos_of log k2.
Proof.
  induction log as [|e log IH]; intros k s1 x y k2 Hn Hlen.
  - destruct k; discriminate.
  - destruct k as [|k]; cbn [nth_error] in Hn.
    + injection Hn as ->. cbn [replace_nth]. destruct k2; [reflexivity|].
      unfold pos_of. cbn [firstn]. unfold bytes_of. cbn [flat_map snd]. rewrite !app_length, Hlen. reflexivity.
    + cbn [replace_nth]. destruct k2; [reflexivity|].
      unfold pos_of. cbn [firstn]. unfold bytes_of. cbn [flat_map]. rewrite !app_length.
      f_equal. apply (IH k s1 x y k2 Hn Hlen).
Qed.

Lemma replace_keeps_nth : forall (log : list wpage) k x k2,
  k2 <> k -> nth_error (replace_nth log k x) k2 = nth_error log k2.
Proof.
  induction log as [|e log IH]; intros k x k2 Hne; [destruct k; reflexivity|].
  destruct k as [|k], k2 as [|k2]; cbn [replace_nth nth_error]; try reflexivity; try congruence.
  apply IH. congruence.
Qed.

Lemma replace_nth_same : forall (log : list wpage) k x y,
  nth_error log k = Some y -> nth_error (replace_nth log k x) k = Some x.
Proof.
  induction log as [|e log IH]; intros k x y Hn; [destruct k; discriminate|].
  destruct k as [|k]; cbn [replace_nth nth_error]; [reflexivity|]. apply (IH k x y Hn).
Qed.

Lemma mine_split_at : forall s log k P,
  nth_error log k = Some (s, P) ->
  mine s log = mine s (firstn k log) ++ P :: mine s (skipn (S k) log).
Proof.
  intros s log k P Hn.
  rewrite <- (firstn_skipn k log) at 1. rewrite mine_app. f_equal.
  assert (H : skipn k log = (s, P) :: skipn (S k) log).
  { clear - Hn. revert k Hn. induction log as [|e log IH]; intros k Hn; [destruct k; discriminate|].
    destruct k as [|k]; cbn [nth_error] in Hn; [injection Hn as ->; reflexivity|].
    cbn [skipn]. apply IH. exact Hn. }
  rewrite H. unfold mine. cbn [filter fst]. rewrite N.eqb_refl. reflexivity.
Qed.

Lemma firstn_replace : forall (log : list wpage) k x, firstn k (replace_nth log k x) = firstn k log.
Proof.
  induction log as [|e log IH]; intros k x; [destruct k; reflexivity|].
  destruct k as [|k]; cbn [replace_nth firstn]; [reflexivity|]. now rewrite IH.
Qed.

Lemma skipn_replace : forall (log : list wpage) k x, skipn (S k) (replace_nth log k x) = skipn (S k) log.
Proof.
  induction log as [|e log IH]; intros k x; [destruct k; reflexivity|].
  destruct k as [|k]; cbn [replace_nth skipn]; [reflexivity|]. apply IH.
Qed.

(* ---------- end of stream ---------- *)

Definition eos_of (serial : N) (P P' : opage) : Prop :=
  pg_payload P' = pg_payload P /\ pg_segs P' = pg_segs P /\ pg_granule P' = pg_granule P /\
  pg_index P' = pg_index P /\ pg_htype P' = N.lor (pg_htype P) ht_eos /\
  page_bytes writer_table (pg_payload P') (pg_segs P') (pg_htype P') (pg_granule P') serial (pg_index P')
  = Some (pg_data P').

Lemma page_data_length : forall payload segs ht gr serial idx data,
  page_bytes writer_table payload segs ht gr serial idx = Some data ->
  length data = (27 + length segs + length payload)%nat.
Proof.
  intros payload segs ht gr serial idx data H.
  destruct (page_bytes_shape payload segs ht gr serial idx) as (c & _ & _ & Hs).
  rewrite Hs in H.
  assert (Hd : data = page_head ht gr serial idx ++ le_bytes 4 c ++ [u8 (N.of_nat (length segs))] ++ segs ++ payload)
    by congruence.
  rewrite Hd.
  rewrite !app_length, page_head_length, le_bytes_length. cbn [length]. lia.
Qed.

Lemma mark_eos_spec : forall log tr,
  last_ok true log tr -> mine (tr_serial tr) log <> [] ->
  exists k P P',
    nth_error log k = Some (tr_serial tr, P) /\ mine (tr_serial tr) (skipn (S k) log) = [] /\
    eos_of (tr_serial tr) P P' /\ length (pg_data P') = length (pg_data P) /\
    mark_eos writer_table (bytes_of log) tr = Ok (bytes_of (replace_nth log k (tr_serial tr, P'))).
Proof.
  intros log tr Hlast Hne. unfold last_ok in Hlast.
  destruct (mine (tr_serial tr) log) eqn:Em; [congruence|]. clear Hne.
  destruct Hlast as (k & P & Hnth & Hpost & (Hsegs & Hsmall & Hpb) & Hl).
  destruct (create_pages_for_chain (pg_payload P) (N.lor (pg_htype P) ht_eos) (pg_granule P)
              (tr_serial tr) (pg_index P)) as (pgs & Hcp & Hpay & Hch).
  inversion Hch as [idx first rem pg Hr Hs Hlen Hht Hgr Hidx Hpb' |
                    idx first rem pg more Hr]; subst; [| unfold full_page in *; lia].
  cbn [flat_map] in Hpay. rewrite app_nil_r in Hpay.
  exists k, P, pg.
  assert (Heos : eos_of (tr_serial tr) P pg).
  { unfold eos_of. rewrite Hpay, Hs, Hsegs, Hgr, Hidx, Hht. cbn [packet_page_htype].
    repeat split.
    rewrite Hpay, Hs, Hht, Hgr in Hpb'. cbn [packet_page_htype] in Hpb'. exact Hpb'. }
  assert (Hdl : length (pg_data pg) = length (pg_data P)).
  { rewrite (page_data_length _ _ _ _ _ _ _ Hpb'), (page_data_length _ _ _ _ _ _ _ Hpb).
    rewrite Hpay, Hs, Hsegs. reflexivity. }
  split; [exact Hnth|]. split; [exact Hpost|]. split; [exact Heos|]. split; [exact Hdl|].
  unfold mark_eos. rewrite Hl. cbn [lp_payload lp_htype lp_granule lp_index lp_offset].
  rewrite Hcp. cbn [flat_map]. rewrite app_nil_r, Nnat.Nat2N.id.
  f_equal. apply (bytes_replace log k (tr_serial tr) P pg Hnth Hdl).
Qed.

(* the nil end-of-stream page *)
Definition nil_eos_page (serial granule index : N) (P : opage) : Prop :=
  pg_payload P = [] /\ pg_segs P = [] /\ pg_htype P = ht_eos /\ pg_granule P = granule /\
  pg_index P = index /\
  page_bytes writer_table [] [] ht_eos granule serial index = Some (pg_data P).

Lemma write_nil_eos_spec : forall log tr,
  tr_page_index tr <> 0 ->
  exists P tr',
    nil_eos_page (tr_serial tr) (tr_prev_granule tr) (tr_page_index tr) P /\
    write_nil_eos writer_table (bytes_of log) tr = Ok (bytes_of (log ++ [(tr_serial tr, P)]), tr').
Proof.
  intros log tr Hne. unfold write_nil_eos.
  apply N.eqb_neq in Hne. rewrite Hne.
  destruct (page_bytes_shape [] [] ht_eos (tr_prev_granule tr) (tr_serial tr) (tr_page_index tr))
    as (c & _ & _ & Hs).
  rewrite Hs.
  eexists (mkOpage _ [] [] ht_eos (tr_prev_granule tr) (tr_page_index tr)), _.
  split.
  - unfold nil_eos_page. cbn [pg_payload pg_segs pg_htype pg_granule pg_index pg_data].
    repeat split. exact Hs.
  - rewrite bytes_of_app. unfold bytes_of at 2. cbn [flat_map snd pg_data]. rewrite app_nil_r. reflexivity.
Qed.

(* ---------- what a track has been asked to write ---------- *)

Definition hdr_id (tr : track) : pkt3 :=
  (ht_bos, build_id_header (tr_map tr) (tr_preskip tr) (tr_rate tr), 0).
Definition hdr_tags (tr : track) : pkt3 := (0, build_comment_header (tr_tags tr), 0).

(* accepted Opus packets with their sample counts; granule = running sum mod 2^64 *)
Fixpoint data_pkts (g : N) (ps : list (list N * N)) : list pkt3 :=
  match ps with
  | [] => []
  | (p, n) :: t => (0, p, u64 (g + n)) :: data_pkts (u64 (g + n)) t
  end.
Fixpoint gsum (g : N) (ps : list (list N * N)) : N :=
  match ps with [] => g | (p, n) :: t => gsum (u64 (g + n)) t end.

Lemma data_pkts_snoc : forall ps g p n,
  data_pkts g (ps ++ [(p, n)]) = data_pkts g ps ++ [(0, p, u64 (gsum g ps + n))] /\
  gsum g (ps ++ [(p, n)]) = u64 (gsum g ps + n).
Proof.
  induction ps as [|[q m] ps IH]; intros g p n; cbn [app data_pkts gsum].
  - split; reflexivity.
  - destruct (IH (u64 (g + m)) p n) as [H1 H2]. rewrite H1, H2. split; reflexivity.
Qed.

Definition same_static (a b : track) : Prop :=
  tr_serial a = tr_serial b /\ tr_rate a = tr_rate b /\ tr_map a = tr_map b /\
  tr_preskip a = tr_preskip b /\ tr_tags a = tr_tags b.

Lemma same_static_refl : forall a, same_static a a.
Proof. intros a. repeat split. Qed.
Lemma same_static_trans : forall a b c, same_static a b -> same_static b c -> same_static a c.
Proof.
  intros a b c (H1 & H2 & H3 & H4 & H5) (G1 & G2 & G3 & G4 & G5).
  repeat split; congruence.
Qed.
Lemma same_static_hdrs : forall a b, same_static a b -> hdr_id a = hdr_id b /\ hdr_tags a = hdr_tags b.
Proof.
  intros a b (H1 & H2 & H3 & H4 & H5). unfold hdr_id, hdr_tags. rewrite H2, H3, H4, H5. split; reflexivity.
Qed.

Lemma R_set_granule : forall rw log tr pkts g, R rw log tr pkts -> R rw log (set_granule tr g) pkts.
Proof. intros rw log tr pkts g H. exact H. Qed.

Lemma write_opus_own : forall rw log tr pkts payload n,
  R rw log tr pkts -> opus_sample_count payload = Ok n ->
  exists pgs tr',
    write_opus_payload writer_table rw (bytes_of log) tr payload
      = Ok (bytes_of (log ++ tag (tr_serial tr) pgs), tr') /\
    same_static tr' tr /\ tr_prev_granule tr' = u64 (tr_prev_granule tr + n) /\
    R rw (log ++ tag (tr_serial tr) pgs) tr' (pkts ++ [(0, payload, u64 (tr_prev_granule tr + n))]).
Proof.
  intros rw log tr pkts payload n HR Hn. unfold write_opus_payload. rewrite Hn.
  set (tr1 := set_granule tr (u64 (tr_prev_granule tr + n))).
  destruct (write_page_own rw log tr1 pkts payload 0 (tr_prev_granule tr1) (R_set_granule _ _ _ _ _ HR))
    as (pgs & tr' & Hw & _ & _ & Hs & Hg & Hr & Hm & Hp & Ht & HR').
  exists pgs, tr'. split; [exact Hw|]. split; [| split; [exact Hg | exact HR']].
  repeat split; assumption.
Qed.

Lemma write_opus_err : forall rw out tr payload e,
  opus_sample_count payload = Err e ->
  write_opus_payload writer_table rw out tr payload = Err e.
Proof. intros. unfold write_opus_payload. rewrite H. reflexivity. Qed.

Lemma opus_frame_count_no_panic : forall toc tl, opus_frame_count (toc :: tl) <> Panic.
Proof.
  intros toc tl. unfold opus_frame_count.
  destruct (N.land toc 3) as [|p]; [discriminate|].
  destruct p as [q|q|]; [| destruct q |]; try discriminate.
  all: destruct tl; try discriminate; destruct (_ =? 0); discriminate.
Qed.

Lemma opus_sample_count_no_panic : forall payload, opus_sample_count payload <> Panic.
Proof.
  intros payload. unfold opus_sample_count.
  destruct payload as [|toc tl]; [discriminate|].
  pose proof (opus_frame_count_no_panic toc tl) as H.
  destruct (opus_frame_count (toc :: tl)); [| discriminate | congruence].
  destruct (_ <? _); discriminate.
Qed.

(* the packets a writer accepts from a list of RTP payloads *)
Fixpoint accepted (ops : list (list N)) : list (list N * N) :=
  match ops with
  | [] => []
  | p :: t =>
      match p with
      | [] => accepted t
      | _ => match opus_sample_count p with
             | Ok n => (p, n) :: accepted t
             | _ => accepted t
             end
      end
  end.

(* ---------- single-track writer ---------- *)

Definition sinv (w : swriter) (cfg : track) (ps : list (list N * N)) (log : list wpage) : Prop :=
  sw_out w = bytes_of log /\ same_static (sw_track w) cfg /\
  R (sw_fd w) log (sw_track w) ([hdr_id cfg; hdr_tags cfg] ++ data_pkts 0 ps) /\
  tr_prev_granule (sw_track w) = gsum 0 ps /\
  Forall (fun sp => fst sp = tr_serial cfg) log.

Lemma R_fresh : forall rw tr, tr_page_index tr = 0 -> tr_last tr = None -> R rw [] tr [].
Proof.
  intros rw tr Hi Hl. unfold R, mine. cbn [filter map length].
  split; [constructor|]. split; [exact Hi|]. unfold last_ok, mine. cbn [filter map]. destruct rw; exact Hl.
Qed.

Lemma Forall_tag : forall s pgs, Forall (fun sp : wpage => fst sp = s) (tag s pgs).
Proof. intros s pgs. unfold tag. apply Forall_forall. intros x Hx. apply in_map_iff in Hx. destruct Hx as (p & <- & _). reflexivity. Qed.

Lemma new_single_inv : forall fd rate cm serial t,
  exists w log, new_single fd rate cm serial t = Ok w /\ sw_fd w = fd /\
                sinv w (new_track rate cm serial t) [] log.
Proof.
  intros fd rate cm serial t. unfold new_single.
  set (tr := new_track rate cm serial t).
  pose proof (R_fresh fd tr eq_refl eq_refl) as H0.
  destruct (write_page_own fd [] tr [] (build_id_header (tr_map tr) (tr_preskip tr) (tr_rate tr)) ht_bos 0 H0)
    as (pgs1 & tr1 & Hw1 & _ & _ & Hs1 & Hg1 & Hr1 & Hm1 & Hp1 & Ht1 & HR1).
  change (bytes_of []) with (@nil N) in Hw1.
  unfold write_id_header. rewrite Hw1.
  destruct (write_page_own fd _ tr1 _ (build_comment_header (tr_tags tr1)) 0 0 HR1)
    as (pgs2 & tr2 & Hw2 & _ & _ & Hs2 & Hg2 & Hr2 & Hm2 & Hp2 & Ht2 & HR2).
  unfold write_comment_header. rewrite Hw2.
  eexists. eexists. split; [reflexivity|]. cbn [sw_fd]. split; [reflexivity|].
  unfold sinv. cbn [sw_out sw_track sw_fd].
  assert (Hst : same_static tr2 tr) by (repeat split; congruence).
  split; [reflexivity|]. split; [exact Hst|]. split; [| split].
  - cbn [app] in HR2. unfold hdr_id, hdr_tags. cbn [data_pkts app].
    rewrite Ht1 in HR2. exact HR2.
  - rewrite Hg2, Hg1. reflexivity.
  - cbn [app]. apply Forall_app. split; [| rewrite Hs1]; apply Forall_tag.
Qed.

Definition single_run (w : swriter) (ops : list (list N)) : swriter :=
  fold_left (fun w p => fst (single_write w p)) ops w.

Lemma accepted_app : forall a b, accepted (a ++ b) = accepted a ++ accepted b.
Proof.
  induction a as [|p a IH]; intros b; [reflexivity|]. cbn [app accepted].
  destruct p; [apply IH|]. destruct (opus_sample_count _); [cbn [app]; f_equal|..]; apply IH.
Qed.

Lemma single_write_inv : forall w cfg ps log p,
  sinv w cfg ps log ->
  exists log', sinv (fst (single_write w p)) cfg (ps ++ accepted [p]) log' /\
               sw_fd (fst (single_write w p)) = sw_fd w.
Proof.
  intros w cfg ps log p Hinv.
  destruct p as [|b p'].
  - cbn [single_write fst accepted]. rewrite app_nil_r. exists log. split; [exact Hinv | reflexivity].
  - unfold single_write. cbn [accepted].
    destruct Hinv as (Hout & Hst & HR & Hg & Hall).
    destruct (opus_sample_count (b :: p')) as [n | e |] eqn:Hn.
    + destruct (write_opus_own (sw_fd w) log (sw_track w) _ (b :: p') n HR Hn)
        as (pgs & tr' & Hw & Hst' & Hg' & HR').
      rewrite Hout, Hw. cbn [fst sw_fd].
      exists (log ++ tag (tr_serial (sw_track w)) pgs). split; [| reflexivity].
      unfold sinv. cbn [sw_out sw_track sw_fd].
      destruct (data_pkts_snoc ps 0 (b :: p') n) as [Hd Hs].
      split; [reflexivity|]. split; [eapply same_static_trans; eauto|]. split; [| split].
      * cbn [app]. rewrite Hd. rewrite <- Hg.
        replace ([hdr_id cfg; hdr_tags cfg] ++ data_pkts 0 ps ++ [(0, b :: p', u64 (tr_prev_granule (sw_track w) + n))])
          with (([hdr_id cfg; hdr_tags cfg] ++ data_pkts 0 ps) ++ [(0, b :: p', u64 (tr_prev_granule (sw_track w) + n))])
          by (rewrite <- app_assoc; reflexivity).
        exact HR'.
      * rewrite Hg', Hs, Hg. reflexivity.
      * apply Forall_app. split; [exact Hall|].
        destruct Hst as (-> & _). apply Forall_tag.
    + rewrite (write_opus_err _ _ _ _ e Hn). cbn [fst]. rewrite app_nil_r.
      exists log. split; [| reflexivity]. unfold sinv. auto.
    + exfalso. exact (opus_sample_count_no_panic _ Hn).
Qed.

Lemma single_run_inv : forall ops w cfg ps log,
  sinv w cfg ps log ->
  exists log', sinv (single_run w ops) cfg (ps ++ accepted ops) log' /\
               sw_fd (single_run w ops) = sw_fd w.
Proof.
  induction ops as [|p ops IH]; intros w cfg ps log Hinv.
  - cbn [single_run fold_left accepted]. rewrite app_nil_r. exists log. auto.
  - unfold single_run. cbn [fold_left]. fold (single_run (fst (single_write w p)) ops).
    destruct (single_write_inv w cfg ps log p Hinv) as (log1 & H1 & Hfd1).
    destruct (IH _ cfg _ log1 H1) as (log2 & H2 & Hfd2).
    exists log2. split; [| congruence].
    replace (ps ++ accepted (p :: ops)) with ((ps ++ accepted [p]) ++ accepted ops); [exact H2|].
    rewrite <- app_assoc. f_equal. change (p :: ops) with ([p] ++ ops). symmetry. apply accepted_app.
Qed.

(* the final shape of one stream: its packets' pages, ended either by a nil
   EOS page or by the EOS flag set on its last page *)
Inductive stream_shape (serial : N) (pkts : list pkt3) (granule : N) (final : list opage) : Prop :=
| shape_nil : forall pages nilP,
    packets_pages serial 0 pkts pages ->
    nil_eos_page serial granule (u32 (N.of_nat (length pages))) nilP ->
    final = pages ++ [nilP] -> stream_shape serial pkts granule final
| shape_mark : forall front P P',
    packets_pages serial 0 pkts (front ++ [P]) -> eos_of serial P P' ->
    final = front ++ [P'] -> stream_shape serial pkts granule final.

Lemma all_mine : forall s log, Forall (fun sp : wpage => fst sp = s) log -> mine s log = map snd log.
Proof.
  intros s log H. unfold mine. induction H as [|x l Hx _ IH]; [reflexivity|].
  cbn [filter]. rewrite Hx, N.eqb_refl. cbn [map]. now rewrite IH.
Qed.

Lemma bytes_of_map : forall log, bytes_of log = flat_map pg_data (map snd log).
Proof. induction log as [|x l IH]; [reflexivity|]. unfold bytes_of in *. cbn [flat_map map]. now rewrite IH. Qed.

Lemma packets_pages_nonempty : forall serial idx p more pages,
  packets_pages serial idx (p :: more) pages -> pages <> [].
Proof.
  intros serial idx p more pages H. inversion H as [| ? ht payload gr ? pgs rest Hch]; subst.
  destruct (chain_nonempty _ _ _ _ _ _ _ Hch) as (front & l & -> & _).
  destruct front; discriminate.
Qed.

Lemma single_stream : forall fd rate cm serial t ops,
  exists w0, new_single fd rate cm serial t = Ok w0 /\
    let cfg := new_track rate cm serial t in
    let pkts := [hdr_id cfg; hdr_tags cfg] ++ data_pkts 0 (accepted ops) in
    exists pages,
      packets_pages serial 0 pkts pages /\
      sw_out (single_run w0 ops) = flat_map pg_data pages /\
      (N.of_nat (length pages) < 4294967296 ->
       exists final, close_single (single_run w0 ops) = Ok (flat_map pg_data final) /\
                     stream_shape serial pkts (gsum 0 (accepted ops)) final).
Proof.
  intros fd rate cm serial t ops.
  destruct (new_single_inv fd rate cm serial t) as (w0 & log0 & Hnew & Hfd0 & Hinv0).
  exists w0. split; [exact Hnew|]. cbv zeta.
  destruct (single_run_inv ops w0 _ [] log0 Hinv0) as (log & Hinv & Hfd).
  cbn [app] in Hinv. set (w := single_run w0 ops) in *.
  destruct Hinv as (Hout & Hst & (Hpp & Hidx & Hlast) & Hg & Hall).
  assert (Hser : tr_serial (sw_track w) = serial) by (destruct Hst as (-> & _); reflexivity).
  rewrite Hser in *. cbn [tr_serial new_track] in Hall.
  rewrite (all_mine serial log Hall) in *.
  exists (map snd log). split; [exact Hpp|]. split; [rewrite Hout; apply bytes_of_map|].
  intros Hbound.
  assert (Hne : map snd log <> []).
  { cbn [app] in Hpp. exact (packets_pages_nonempty _ _ _ _ _ Hpp). }
  unfold close_single. rewrite Hfd, Hfd0.
  destruct fd.
  - (* rewrite the last page *)
    assert (Hl : last_ok true log (sw_track w)) by (rewrite <- Hfd0, <- Hfd; exact Hlast).
    assert (Hne' : mine (tr_serial (sw_track w)) log <> [])
      by (rewrite Hser, (all_mine serial log Hall); exact Hne).
    destruct (mark_eos_spec log (sw_track w) Hl Hne') as (k & P & P' & Hnth & Hpost & Heos & Hdl & Hm).
    rewrite Hser in *. rewrite Hout, Hm.
    assert (Hk : skipn (S k) log = []).
    { assert (Hall' : Forall (fun sp : wpage => fst sp = serial) (skipn (S k) log)).
      { apply Forall_forall. intros x Hx. rewrite Forall_forall in Hall. apply Hall.
        rewrite <- (firstn_skipn (S k) log). apply in_or_app. right. exact Hx. }
      rewrite (all_mine _ _ Hall') in Hpost. destruct (skipn (S k) log); [reflexivity | discriminate]. }
    pose proof (mine_split_at serial log k P Hnth) as Hsplit.
    assert (Hfk : mine serial (firstn k log) = map snd (firstn k log)).
    { apply all_mine. apply Forall_forall. intros x Hx. rewrite Forall_forall in Hall. apply Hall.
      rewrite <- (firstn_skipn k log). apply in_or_app. left. exact Hx. }
    rewrite Hk, Hfk, (all_mine serial log Hall) in Hsplit. change (mine serial []) with (@nil opage) in Hsplit.
    exists (map snd (firstn k log) ++ [P']). split.
    + f_equal. rewrite bytes_of_map. f_equal.
      rewrite <- (firstn_skipn (S k) (replace_nth log k (serial, P'))).
      rewrite skipn_replace, Hk, app_nil_r.
      assert (HS : firstn (S k) (replace_nth log k (serial, P')) = firstn k log ++ [(serial, P')]).
      { clear - Hnth. revert k Hnth. induction log as [|e log IH]; intros k Hn; [destruct k; discriminate|].
        destruct k as [|k]; cbn [nth_error] in Hn; cbn [replace_nth firstn app]; [reflexivity|].
        f_equal. apply IH. exact Hn. }
      rewrite HS, map_app. reflexivity.
    + eapply shape_mark; [| exact Heos | reflexivity]. rewrite <- Hsplit. exact Hpp.
  - (* nil EOS page *)
    assert (Hpi : tr_page_index (sw_track w) = N.of_nat (length (map snd log))).
    { rewrite Hidx. apply u32_small. exact Hbound. }
    assert (Hnz : tr_page_index (sw_track w) <> 0).
    { rewrite Hpi. destruct (map snd log); [congruence | cbn [length]; lia]. }
    destruct (write_nil_eos_spec log (sw_track w) Hnz) as (nilP & tr' & Hnil & Hw).
    rewrite Hout, Hw. exists (map snd log ++ [nilP]). split.
    + f_equal. rewrite bytes_of_map, map_app. reflexivity.
    + eapply shape_nil; [exact Hpp | | reflexivity].
      rewrite Hser, Hidx, Hg in Hnil. exact Hnil.
Qed.

(* ---------- header types, granules and sequence numbers of a packet's pages ---------- *)

Definition npages (payload : list N) : nat := S (N.to_nat (N.of_nat (length payload) / full_page)).

Lemma pph_plain : forall ht first c, ht = 0 \/ ht = ht_bos ->
  packet_page_htype ht first c = if first then ht else 1.
Proof. intros ht first c [-> | ->]; destruct first, c; reflexivity. Qed.

Lemma div_full_step : forall r, full_page <= r -> r / full_page = (r - full_page) / full_page + 1.
Proof.
  intros r H. replace r with ((r - full_page) + 1 * full_page) at 1 by lia.
  apply N.div_add. discriminate.
Qed.

Lemma chain_fields : forall ht gr serial idx first rem pgs,
  chain ht gr serial idx first rem pgs -> (ht = 0 \/ ht = ht_bos) -> idx < 4294967296 ->
  map pg_htype pgs = (if first then ht else 1) :: repeat 1 (N.to_nat (rem / full_page)) /\
  map pg_granule pgs = repeat no_granule (N.to_nat (rem / full_page)) ++ [gr] /\
  map pg_index pgs = map (fun j => u32 (idx + N.of_nat j)) (seq 0 (S (N.to_nat (rem / full_page)))).
Proof.
  intros ht gr serial idx first rem pgs Hch Hht.
  induction Hch as [idx first rem pg Hr Hsegs Hlen Hh Hg Hi Hpb
                   | idx first rem pg more Hr Hsegs Hlen Hh Hg Hi Hpb Hmore IH]; intros Hidx.
  - rewrite N.div_small by exact Hr. cbn [N.to_nat repeat map app seq].
    rewrite Hh, Hg, Hi, pph_plain by exact Hht.
    change (N.of_nat 0) with 0. rewrite N.add_0_r, (u32_small idx Hidx). auto.
  - destruct (IH (u32_lt _)) as (H1 & H2 & H3).
    rewrite (div_full_step rem Hr).
    replace (N.to_nat ((rem - full_page) / full_page + 1)) with (S (N.to_nat ((rem - full_page) / full_page))) by lia.
    cbn [map repeat app]. rewrite Hh, Hg, Hi, H1, H2, H3, pph_plain by exact Hht.
    split; [reflexivity|]. split; [reflexivity|].
    set (n := S (N.to_nat ((rem - full_page) / full_page))).
    replace (seq 0 (S n)) with (0%nat :: map S (seq 0 n)) by (rewrite seq_shift; reflexivity).
    cbn [map].
    replace (u32 (idx + N.of_nat 0)) with idx
      by (change (N.of_nat 0) with 0; rewrite N.add_0_r; symmetry; apply u32_small; exact Hidx).
    f_equal. rewrite map_map. apply map_ext. intros j.
    unfold u32. rewrite N.add_mod_idemp_l by discriminate. f_equal. lia.
Qed.

Lemma chain_length : forall ht gr serial idx first rem pgs,
  chain ht gr serial idx first rem pgs -> length pgs = S (N.to_nat (rem / full_page)).
Proof.
  intros ht gr serial idx first rem pgs Hch.
  induction Hch as [idx first rem pg Hr | idx first rem pg more Hr _ _ _ _ _ _ _ IH].
  - rewrite N.div_small by exact Hr. reflexivity.
  - cbn [length]. rewrite IH, (div_full_step rem Hr). lia.
Qed.

Lemma seq_add : forall a n s, map (fun j => (a + j)%nat) (seq s n) = seq (a + s) n.
Proof.
  intros a n. induction n as [|n IH]; intros s; [reflexivity|].
  cbn [seq map]. f_equal. rewrite IH. f_equal. lia.
Qed.

Definition plain_pkts (pkts : list pkt3) : Prop :=
  Forall (fun pk => fst (fst pk) = 0 \/ fst (fst pk) = ht_bos) pkts.

(* closed forms for the pages of a packet sequence *)
Lemma pp_fields : forall serial idx pkts pages,
  packets_pages serial idx pkts pages -> plain_pkts pkts -> idx < 4294967296 ->
  map pg_htype pages
    = flat_map (fun pk => fst (fst pk) :: repeat 1 (npages (snd (fst pk)) - 1)) pkts /\
  map pg_granule pages
    = flat_map (fun pk => repeat no_granule (npages (snd (fst pk)) - 1) ++ [snd pk]) pkts /\
  map pg_index pages = map (fun j => u32 (idx + N.of_nat j)) (seq 0 (length pages)) /\
  flat_map pg_payload pages = flat_map (fun pk => snd (fst pk)) pkts.
Proof.
  intros serial idx pkts pages Hpp.
  induction Hpp as [idx | idx ht payload gr more pgs rest Hch Hpay Hmore IH]; intros Hplain Hidx.
  - cbn. auto.
  - inversion Hplain as [|? ? Hht Hrest]; subst. cbn [fst snd] in Hht.
    destruct (chain_fields _ _ _ _ _ _ _ Hch Hht Hidx) as (H1 & H2 & H3).
    destruct (IH Hrest (u32_lt _)) as (G1 & G2 & G3 & G4).
    pose proof (chain_length _ _ _ _ _ _ _ Hch) as Hlen.
    cbn [flat_map fst snd]. unfold npages at 1 3. cbn [Nat.sub]. rewrite Nat.sub_0_r.
    rewrite !map_app, H1, H2, G1, G2, flat_map_app, G4.
    split; [reflexivity|]. split; [reflexivity|]. split; [| reflexivity].
    rewrite H3, G3, app_length, seq_app, map_app, <- Hlen. f_equal.
    replace (seq (0 + length pgs) (length rest))
      with (map (fun j => (length pgs + j)%nat) (seq 0 (length rest))).
    2:{ rewrite seq_add. f_equal. lia. }
    rewrite map_map. apply map_ext. intros j.
    unfold u32. rewrite N.add_mod_idemp_l by discriminate. f_equal. lia.
Qed.

(* ---------- properties of a finished stream ---------- *)

Definition has_bos (P : opage) : bool := N.testbit (pg_htype P) 1.
Definition has_eos (P : opage) : bool := N.testbit (pg_htype P) 2.

Lemma plain_htypes : forall pkts,
  plain_pkts pkts ->
  Forall (fun h => h = 0 \/ h = 1 \/ h = 2)
         (flat_map (fun pk : pkt3 => fst (fst pk) :: repeat 1 (npages (snd (fst pk)) - 1)) pkts).
Proof.
  intros pkts H. induction H as [|pk pkts Hpk _ IH]; cbn [flat_map]; [constructor|].
  constructor.
  - destruct Hpk as [-> | ->]; auto.
  - apply Forall_app. split; [| exact IH].
    apply Forall_forall. intros x Hx. apply repeat_spec in Hx. auto.
Qed.

Lemma pages_no_eos : forall serial idx pkts pages,
  packets_pages serial idx pkts pages -> plain_pkts pkts -> idx < 4294967296 ->
  Forall (fun P => has_eos P = false) pages.
Proof.
  intros serial idx pkts pages Hpp Hplain Hidx.
  destruct (pp_fields _ _ _ _ Hpp Hplain Hidx) as (H1 & _).
  pose proof (plain_htypes pkts Hplain) as Hh. rewrite <- H1 in Hh.
  apply Forall_forall. intros P HP. rewrite Forall_forall in Hh.
  specialize (Hh (pg_htype P) (in_map pg_htype _ _ HP)). unfold has_eos.
  destruct Hh as [-> | [-> | ->]]; reflexivity.
Qed.

Lemma eos_of_has_eos : forall serial P P', eos_of serial P P' -> has_eos P' = true.
Proof.
  intros serial P P' (_ & _ & _ & _ & Hh & _). unfold has_eos. rewrite Hh, N.lor_spec.
  apply orb_true_r.
Qed.

Lemma eos_of_bos : forall serial P P', eos_of serial P P' -> has_bos P' = has_bos P.
Proof.
  intros serial P P' (_ & _ & _ & _ & Hh & _). unfold has_bos. rewrite Hh, N.lor_spec.
  apply orb_false_r.
Qed.

(* c33_eos: the last page, and only the last page, carries end-of-stream *)
Lemma shape_eos : forall serial pkts g final,
  stream_shape serial pkts g final -> plain_pkts pkts ->
  exists front L, final = front ++ [L] /\ has_eos L = true /\
                  Forall (fun P => has_eos P = false) front.
Proof.
  intros serial pkts g final Hs Hplain.
  destruct Hs as [pages nilP Hpp Hnil -> | front P P' Hpp Heos ->].
  - exists pages, nilP. split; [reflexivity|]. split.
    + destruct Hnil as (_ & _ & Hh & _). unfold has_eos. rewrite Hh. reflexivity.
    + apply (pages_no_eos _ _ _ _ Hpp Hplain). reflexivity.
  - exists front, P'. split; [reflexivity|]. split; [exact (eos_of_has_eos _ _ _ Heos)|].
    pose proof (pages_no_eos _ _ _ _ Hpp Hplain ltac:(reflexivity)) as H.
    apply Forall_app in H. apply H.
Qed.

(* c33_seq: page sequence numbers are 0, 1, 2, ... (mod 2^32) *)
Lemma shape_seq : forall serial pkts g final,
  stream_shape serial pkts g final -> plain_pkts pkts ->
  map pg_index final = map (fun j => u32 (N.of_nat j)) (seq 0 (length final)).
Proof.
  intros serial pkts g final Hs Hplain.
  destruct Hs as [pages nilP Hpp Hnil -> | front P P' Hpp Heos ->].
  - destruct (pp_fields _ _ _ _ Hpp Hplain ltac:(reflexivity)) as (_ & _ & H3 & _).
    rewrite map_app, app_length, seq_app, map_app, H3. cbn [length seq map Nat.add].
    destruct Hnil as (_ & _ & _ & _ & Hi & _). rewrite Hi. reflexivity.
  - destruct (pp_fields _ _ _ _ Hpp Hplain ltac:(reflexivity)) as (_ & _ & H3 & _).
    rewrite map_app in *. rewrite app_length in *. cbn [map length] in *.
    destruct Heos as (_ & _ & _ & Hi & _). rewrite Hi. exact H3.
Qed.

(* c33_granule: the granule position is set exactly on the page where a packet
   ends and equals the granule argument of that packet; the nil EOS page
   repeats the last one *)
Definition granules_of (pkts : list pkt3) : list N :=
  flat_map (fun pk : pkt3 => repeat no_granule (npages (snd (fst pk)) - 1) ++ [snd pk]) pkts.

Lemma shape_granule : forall serial pkts g final,
  stream_shape serial pkts g final -> plain_pkts pkts ->
  map pg_granule final = granules_of pkts \/ map pg_granule final = granules_of pkts ++ [g].
Proof.
  intros serial pkts g final Hs Hplain.
  destruct Hs as [pages nilP Hpp Hnil -> | front P P' Hpp Heos ->].
  - right. destruct (pp_fields _ _ _ _ Hpp Hplain ltac:(reflexivity)) as (_ & H2 & _).
    rewrite map_app, H2. cbn [map]. destruct Hnil as (_ & _ & _ & Hg & _). rewrite Hg. reflexivity.
  - left. destruct (pp_fields _ _ _ _ Hpp Hplain ltac:(reflexivity)) as (_ & H2 & _).
    rewrite map_app in *. cbn [map] in *. destruct Heos as (_ & _ & Hg & _). rewrite Hg. exact H2.
Qed.

(* granules of the packet list a writer builds: headers 0, then running sums *)
Lemma granules_data : forall ps g,
  map (fun pk : pkt3 => snd pk) (data_pkts g ps)
  = map (fun k => gsum g (firstn (S k) ps)) (seq 0 (length ps)).
Proof.
  induction ps as [|[p n] ps IH]; intros g; [reflexivity|].
  cbn [data_pkts map length seq firstn gsum]. f_equal.
  rewrite IH, <- seq_shift, map_map. reflexivity.
Qed.

(* c33_bos_order, per stream: the first page carries BOS and the ID header,
   no other page carries BOS *)
Lemma shape_bos : forall serial idp more g final,
  stream_shape serial ((ht_bos, idp, 0) :: more) g final ->
  Forall (fun pk : pkt3 => fst (fst pk) = 0) more -> more <> [] ->
  exists P0 rest, final = P0 :: rest /\ has_bos P0 = true /\
                  Forall (fun P => has_bos P = false) rest /\
                  (N.of_nat (length idp) < full_page -> pg_payload P0 = idp /\ pg_granule P0 = 0).
Proof.
  intros serial idp more g final Hs Hmore Hne.
  assert (Hplain : plain_pkts ((ht_bos, idp, 0) :: more)).
  { constructor; [right; reflexivity|]. eapply Forall_impl; [| exact Hmore]. intros pk H. left. exact H. }
  assert (Hgen : forall pages, packets_pages serial 0 ((ht_bos, idp, 0) :: more) pages ->
            exists P0 rest, pages = P0 :: rest /\ has_bos P0 = true /\ rest <> [] /\
              Forall (fun P => has_bos P = false) rest /\
              (N.of_nat (length idp) < full_page -> pg_payload P0 = idp /\ pg_granule P0 = 0)).
  { intros pages Hpp.
    destruct (pp_fields _ _ _ _ Hpp Hplain ltac:(reflexivity)) as (H1 & _).
    inversion Hpp as [| ? ht payload gr more' pgs rest Hch Hpay Hrest]; subst.
    destruct (chain_fields _ _ _ _ _ _ _ Hch ltac:(right; reflexivity) ltac:(reflexivity)) as (C1 & C2 & _).
    destruct pgs as [|P0 pgs']; [discriminate C1|].
    exists P0, (pgs' ++ rest). split; [reflexivity|].
    cbn [map] in C1. injection C1 as Ch0 Chrest.
    split; [unfold has_bos; rewrite Ch0; reflexivity|].
    split.
    { destruct more as [|pk more2]; [congruence|].
      pose proof (packets_pages_nonempty _ _ _ _ _ Hrest) as Hn. destruct pgs'; destruct rest; try discriminate; congruence. }
    split.
    - apply Forall_app. split.
      + apply Forall_forall. intros P HP. unfold has_bos.
        assert (Hin : In (pg_htype P) (map pg_htype pgs')) by (apply in_map; exact HP).
        rewrite Chrest in Hin. apply repeat_spec in Hin. rewrite Hin. reflexivity.
      + assert (Hp2 : plain_pkts more) by (eapply Forall_impl; [| exact Hmore]; intros pk H; left; exact H).
        destruct (pp_fields _ _ _ _ Hrest Hp2 (u32_lt _)) as (R1 & _).
        apply Forall_forall. intros P HP. unfold has_bos.
        assert (Hin : In (pg_htype P) (map pg_htype rest)) by (apply in_map; exact HP).
        rewrite R1 in Hin. apply in_flat_map in Hin. destruct Hin as (pk & Hpk & Hin).
        rewrite Forall_forall in Hmore. rewrite (Hmore pk Hpk) in Hin.
        destruct Hin as [<- | Hin]; [reflexivity|]. apply repeat_spec in Hin. rewrite Hin. reflexivity.
    - intros Hsmall. inversion Hch as [? ? ? pg Hr Hs' Hlen Hht Hgr Hidx Hpb | ? ? ? pg mr Hr]; subst;
        [| unfold full_page in *; lia].
      cbn [flat_map] in *. rewrite app_nil_r. split; [reflexivity | exact Hgr]. }
  destruct Hs as [pages nilP Hpp Hnil -> | front P P' Hpp Heos ->].
  - destruct (Hgen pages Hpp) as (P0 & rest & -> & Hb & _ & Hr & Hid).
    exists P0, (rest ++ [nilP]). split; [reflexivity|]. split; [exact Hb|]. split; [| exact Hid].
    apply Forall_app. split; [exact Hr|]. constructor; [| constructor].
    destruct Hnil as (_ & _ & Hh & _). unfold has_bos. rewrite Hh. reflexivity.
  - destruct (Hgen _ Hpp) as (P0 & rest & Heq & Hb & Hrne & Hr & Hid).
    destruct (@exists_last _ rest Hrne) as (rfront & rl & ->).
    rewrite app_comm_cons in Heq. apply app_inj_tail in Heq. destruct Heq as [-> ->].
    exists P0, (rfront ++ [P']). split; [reflexivity|]. split; [exact Hb|]. split; [| exact Hid].
    apply Forall_app in Hr. destruct Hr as [Hr1 Hr2]. apply Forall_app. split; [exact Hr1|].
    constructor; [| constructor]. rewrite (eos_of_bos _ _ _ Heos). inversion Hr2; assumption.
Qed.

(* ---------- multi-track writer ---------- *)

Inductive all3 {A B C : Type} (P : A -> B -> C -> Prop) : list A -> list B -> list C -> Prop :=
| all3_nil : all3 P [] [] []
| all3_cons : forall a b c la lb lc, P a b c -> all3 P la lb lc -> all3 P (a :: la) (b :: lb) (c :: lc).

Lemma all3_impl : forall {A B C} (P Q : A -> B -> C -> Prop) la lb lc,
  (forall a b c, P a b c -> Q a b c) -> all3 P la lb lc -> all3 Q la lb lc.
Proof. intros A B C P Q la lb lc H Ha. induction Ha; constructor; auto. Qed.

(* track, its configuration, the packets it has been asked to write *)
Definition T3 (rw : bool) (log : list wpage) (tr cfg : track) (pkts : list pkt3) : Prop :=
  same_static tr cfg /\ R rw log tr pkts.

Definition others_ok (rw : bool) (log : list wpage) (others : list (track * list pkt3)) : Prop :=
  Forall (fun o => R rw log (fst o) (snd o)) others.

Fixpoint add_each (pktss : list (list pkt3)) (cfgs : list track) (mk : track -> pkt3) : list (list pkt3) :=
  match pktss, cfgs with
  | pk :: pt, c :: ct => (pk ++ [mk c]) :: add_each pt ct mk
  | _, _ => []
  end.

(* the serials of the pages one loop of startLocked writes: per track, one per
   page of its header packet *)
Definition hdr_trace (mk : track -> pkt3) (trs : list track) : list N :=
  flat_map (fun tr => repeat (tr_serial tr) (npages (snd (fst (mk tr))))) trs.

Definition page_step (rw : bool) (mk : track -> pkt3) (out : list N) (tr : track) :=
  write_page writer_table rw out tr (snd (fst (mk tr))) (fst (fst (mk tr))) (snd (mk tr)).

Lemma all3_impl_in : forall {A B C} (P Q : A -> B -> C -> Prop) la lb lc,
  (forall a b c, In a la -> P a b c -> Q a b c) -> all3 P la lb lc -> all3 Q la lb lc.
Proof.
  intros A B C P Q la lb lc H Ha. induction Ha as [| a b c la lb lc Hp Ha IH]; constructor.
  - apply H; [left; reflexivity | exact Hp].
  - apply IH. intros a' b' c' Hin. apply H. right. exact Hin.
Qed.

Lemma each_track_pages : forall rw (mk : track -> pkt3),
  (forall a b, same_static a b -> mk a = mk b) ->
  forall trs cfgs pktss log others,
    all3 (T3 rw log) trs cfgs pktss -> others_ok rw log others ->
    NoDup (map tr_serial trs) ->
    (forall t o, In t trs -> In o others -> tr_serial (fst o) <> tr_serial t) ->
    exists log' trs',
      each_track (page_step rw mk) (bytes_of log) trs = Ok (bytes_of log', trs') /\
      all3 (T3 rw log') trs' cfgs (add_each pktss cfgs mk) /\ others_ok rw log' others /\
      map tr_prev_granule trs' = map tr_prev_granule trs /\
      (forall s, ~ In s (map tr_serial trs) -> mine s log' = mine s log) /\
      map fst log' = map fst log ++ hdr_trace mk trs.
Proof.
  intros rw mk Hmk trs. induction trs as [|tr trs IH]; intros cfgs pktss log others Hall Hoth Hnd Hdis.
  - inversion Hall; subst. exists log, []. cbn [each_track add_each map].
    split; [reflexivity|]. split; [constructor|]. split; [exact Hoth|]. split; [reflexivity|].
    split; [reflexivity|]. unfold hdr_trace. cbn [flat_map]. rewrite app_nil_r. reflexivity.
  - inversion Hall as [| ? cfg pkts ? cfgs' pktss' (Hst & HR) Hrest]; subst.
    cbn [each_track]. unfold page_step at 1.
    destruct (write_page_own rw log tr pkts (snd (fst (mk tr))) (fst (fst (mk tr))) (snd (mk tr)) HR)
      as (pgs & tr' & Hw & Hch & _ & Hs & Hg & Hr & Hm & Hp & Ht & HR').
    rewrite Hw.
    set (log1 := log ++ tag (tr_serial tr) pgs) in *.
    cbn [map] in Hnd. inversion Hnd as [| ? ? Hnotin Hnd']; subst.
    assert (Hrest1 : all3 (T3 rw log1) trs cfgs' pktss').
    { eapply all3_impl_in; [| exact Hrest]. intros a b c Hin (Hs1 & HR1). split; [exact Hs1|].
      apply R_other; [exact HR1|]. intros E. apply Hnotin. rewrite E. apply in_map. exact Hin. }
    assert (Hst' : same_static tr' cfg).
    { eapply same_static_trans; [| exact Hst]. repeat split; assumption. }
    assert (Hoth1 : others_ok rw log1 ((tr', pkts ++ [mk cfg]) :: others)).
    { constructor.
      - cbn [fst snd]. rewrite <- (Hmk tr cfg Hst).
        replace (mk tr) with (fst (fst (mk tr)), snd (fst (mk tr)), snd (mk tr)) at 1
          by (destruct (mk tr) as [[? ?] ?]; reflexivity).
        exact HR'.
      - apply Forall_forall. intros o Ho. unfold others_ok in Hoth. rewrite Forall_forall in Hoth.
        apply R_other; [exact (Hoth o Ho)|]. intros E.
        apply (Hdis tr o (or_introl eq_refl) Ho). symmetry. exact E. }
    destruct (IH cfgs' pktss' log1 _ Hrest1 Hoth1 Hnd') as (log' & trs' & He & Hall' & Hoth' & Hgr & Hmine & Htrace).
    { intros t o Ht' [<- | Ho]; cbn [fst].
      - rewrite Hs. intros E. apply Hnotin. rewrite E. apply in_map. exact Ht'.
      - apply Hdis; [right; exact Ht' | exact Ho]. }
    rewrite He. exists log', (tr' :: trs').
    inversion Hoth' as [| ? ? Hhead Htail]; subst. cbn [fst snd] in Hhead.
    split; [reflexivity|]. split; [| split; [exact Htail | split; [| split]]].
    + cbn [add_each]. constructor; [split; [exact Hst' | exact Hhead] | exact Hall'].
    + cbn [map]. rewrite Hg, Hgr. reflexivity.
    + intros s Hns. cbn [map] in Hns. rewrite Hmine by (intros Hin; apply Hns; right; exact Hin).
      unfold log1. rewrite mine_app, mine_tag_other, app_nil_r; [reflexivity|].
      intros E. apply Hns. left. exact E.
    + rewrite Htrace. unfold log1, hdr_trace. cbn [flat_map].
      rewrite map_app, map_fst_tag, <- app_assoc. do 2 f_equal.
      unfold npages. rewrite (chain_length _ _ _ _ _ _ _ Hch). reflexivity.
Qed.

Lemma all3_nth : forall {A B C} (P : A -> B -> C -> Prop) la lb lc i a,
  all3 P la lb lc -> nth_error la i = Some a ->
  exists b c, nth_error lb i = Some b /\ nth_error lc i = Some c /\ P a b c.
Proof.
  intros A B C P la lb lc i a H. revert i. induction H as [| a0 b0 c0 la lb lc Hp H IH]; intros i Hn.
  - destruct i; discriminate.
  - destruct i as [|i]; cbn [nth_error] in *.
    + injection Hn as <-. eauto.
    + apply IH. exact Hn.
Qed.

Lemma all3_impl_idx : forall {A B C} (P Q : A -> B -> C -> Prop) la lb lc,
  (forall j a b c, nth_error la j = Some a -> nth_error lb j = Some b -> nth_error lc j = Some c ->
                   P a b c -> Q a b c) ->
  all3 P la lb lc -> all3 Q la lb lc.
Proof.
  intros A B C P Q la lb lc H Ha. induction Ha as [| a b c la lb lc Hp Ha IH]; constructor.
  - apply (H 0%nat a b c); try reflexivity. exact Hp.
  - apply IH. intros j a' b' c' H1 H2 H3. apply (H (S j)); assumption.
Qed.

Lemma all3_update : forall {A B C} (P Q : A -> B -> C -> Prop) la lb lc i a' c',
  all3 P la lb lc ->
  (forall j a b c, j <> i -> nth_error la j = Some a -> nth_error lb j = Some b ->
                   nth_error lc j = Some c -> P a b c -> Q a b c) ->
  (forall b, nth_error lb i = Some b -> Q a' b c') ->
  all3 Q (replace_nth la i a') lb (replace_nth lc i c').
Proof.
  intros A B C P Q la lb lc i a' c' H. revert i.
  induction H as [| a0 b0 c0 la lb lc Hp H IH]; intros i Hoth Hnew.
  - destruct i; constructor.
  - destruct i as [|i]; cbn [replace_nth].
    + constructor; [apply Hnew; reflexivity|].
      eapply all3_impl_idx; [| exact H]. intros j a b c H1 H2 H3.
      apply (Hoth (S j)); [discriminate | assumption..].
    + constructor.
      * apply (Hoth 0%nat a0 b0 c0); [discriminate | reflexivity..| exact Hp].
      * apply IH.
        -- intros j a b c Hne. apply (Hoth (S j)). congruence.
        -- intros b Hb. apply Hnew. exact Hb.
Qed.

Lemma all3_serials : forall rw log trs cfgs pktss,
  all3 (T3 rw log) trs cfgs pktss -> map tr_serial trs = map tr_serial cfgs.
Proof.
  intros rw log trs cfgs pktss H. induction H as [| a b c la lb lc ((Hs & _) & _) H IH]; [reflexivity|].
  cbn [map]. now rewrite Hs, IH.
Qed.

(* packets per track: headers, then the accepted packets *)
Fixpoint pkts_of (cfgs : list track) (pss : list (list (list N * N))) : list (list pkt3) :=
  match cfgs, pss with
  | c :: ct, ps :: pt => ([hdr_id c; hdr_tags c] ++ data_pkts 0 ps) :: pkts_of ct pt
  | _, _ => []
  end.

Definition minv (w : mwriter) (cfgs : list track) (pss : list (list (list N * N)))
           (log : list wpage) : Prop :=
  mw_out w = bytes_of log /\ NoDup (map tr_serial cfgs) /\ length pss = length cfgs /\
  map tr_prev_granule (mw_tracks w) = map (gsum 0) pss /\
  if mw_started w then all3 (T3 (mw_rewriter w) log) (mw_tracks w) cfgs (pkts_of cfgs pss)
  else log = [] /\ pss = map (fun _ => []) cfgs /\
       all3 (T3 (mw_rewriter w) []) (mw_tracks w) cfgs (map (fun _ => []) cfgs).

Lemma add_each_hdrs : forall cfgs,
  add_each (add_each (map (fun _ => []) cfgs) cfgs hdr_id) cfgs hdr_tags
  = pkts_of cfgs (map (fun _ => []) cfgs).
Proof. induction cfgs as [|c cfgs IH]; [reflexivity|]. cbn. now rewrite IH. Qed.

Lemma hdr_static : (forall a b, same_static a b -> hdr_id a = hdr_id b) /\
                   (forall a b, same_static a b -> hdr_tags a = hdr_tags b).
Proof. split; intros a b H; apply (same_static_hdrs a b H). Qed.

Lemma hdr_trace_static : forall (mk : track -> pkt3) rw log trs cfgs pktss,
  (forall a b, same_static a b -> mk a = mk b) ->
  all3 (T3 rw log) trs cfgs pktss -> hdr_trace mk trs = hdr_trace mk cfgs.
Proof.
  intros mk rw log trs cfgs pktss Hmk H. unfold hdr_trace.
  induction H as [| a b c la lb lc (Hst & _) H IH]; [reflexivity|].
  cbn [flat_map]. rewrite IH, (Hmk a b Hst). destruct Hst as (-> & _). reflexivity.
Qed.

(* the serials of the pages in file order: once writing has started the file
   begins with one loop of ID-header pages and one loop of comment-header pages,
   both in track order; every later page belongs to one of the tracks *)
Definition known (cfgs : list track) (s : N) : Prop := In s (map tr_serial cfgs).
Definition J (cfgs : list track) (started : bool) (log : list wpage) : Prop :=
  started = true ->
  exists rest, map fst log = hdr_trace hdr_id cfgs ++ hdr_trace hdr_tags cfgs ++ rest /\
               Forall (known cfgs) rest.

Lemma start_locked_inv : forall w cfgs pss log,
  minv w cfgs pss log ->
  exists w' log',
    start_locked w = Ok w' /\ mw_started w' = true /\ mw_rewriter w' = mw_rewriter w /\
    minv w' cfgs pss log' /\
    (mw_started w = true -> w' = w /\ log' = log) /\
    (J cfgs (mw_started w) log -> J cfgs true log').
Proof.
  intros w cfgs pss log (Hout & Hnd & Hlen & Hgr & Hst). unfold start_locked.
  destruct (mw_started w) eqn:Es.
  - exists w, log. split; [reflexivity|]. split; [exact Es|]. split; [reflexivity|]. split; [| auto].
    unfold minv. rewrite Es. auto.
  - destruct Hst as (-> & -> & Hall).
    pose proof (all3_serials _ _ _ _ _ Hall) as Hser.
    change (write_id_header writer_table (mw_rewriter w)) with (page_step (mw_rewriter w) hdr_id).
    change (write_comment_header writer_table (mw_rewriter w)) with (page_step (mw_rewriter w) hdr_tags).
    rewrite Hout.
    destruct (each_track_pages (mw_rewriter w) hdr_id (proj1 hdr_static) _ _ _ [] [] Hall
                (Forall_nil _) ltac:(rewrite Hser; exact Hnd) ltac:(intros t o _ [])) 
      as (log1 & trs1 & He1 & Hall1 & _ & Hg1 & _ & Htr1).
    rewrite He1.
    pose proof (all3_serials _ _ _ _ _ Hall1) as Hser1.
    destruct (each_track_pages (mw_rewriter w) hdr_tags (proj2 hdr_static) _ _ _ log1 [] Hall1
                (Forall_nil _) ltac:(rewrite Hser1; exact Hnd) ltac:(intros t o _ []))
      as (log2 & trs2 & He2 & Hall2 & _ & Hg2 & _ & Htr2).
    rewrite He2.
    eexists. exists log2. split; [reflexivity|]. cbn [mw_started mw_rewriter].
    split; [reflexivity|]. split; [reflexivity|]. split; [| split; [discriminate|]].
    + unfold minv. cbn [mw_out mw_tracks mw_started mw_rewriter].
      split; [reflexivity|]. split; [exact Hnd|]. split; [exact Hlen|].
      split; [rewrite Hg2, Hg1; exact Hgr|].
      rewrite add_each_hdrs in Hall2. exact Hall2.
    + intros _ _. exists []. split; [| constructor].
      rewrite Htr2, Htr1. cbn [map app]. rewrite app_nil_r.
      rewrite (hdr_trace_static hdr_id _ _ _ _ _ (proj1 hdr_static) Hall).
      rewrite (hdr_trace_static hdr_tags _ _ _ _ _ (proj2 hdr_static) Hall1). reflexivity.
Qed.

Lemma map_replace_nth : forall {A B} (f : A -> B) l i x,
  map f (replace_nth l i x) = replace_nth (map f l) i (f x).
Proof.
  intros A B f l. induction l as [|a l IH]; intros i x; [destruct i; reflexivity|].
  destruct i; cbn [replace_nth map]; [reflexivity|]. now rewrite IH.
Qed.

Lemma replace_nth_length : forall {A} (l : list A) i x, length (replace_nth l i x) = length l.
Proof.
  intros A l. induction l as [|a l IH]; intros i x; [destruct i; reflexivity|].
  destruct i; cbn [replace_nth length]; [reflexivity|]. now rewrite IH.
Qed.

Lemma pkts_of_nth : forall cfgs pss i c ps,
  nth_error cfgs i = Some c -> nth_error pss i = Some ps ->
  nth_error (pkts_of cfgs pss) i = Some ([hdr_id c; hdr_tags c] ++ data_pkts 0 ps).
Proof.
  induction cfgs as [|c0 cfgs IH]; intros pss i c ps Hc Hp; [destruct i; discriminate|].
  destruct pss as [|ps0 pss]; [destruct i; discriminate|].
  destruct i as [|i]; cbn [nth_error pkts_of] in *.
  - injection Hc as ->. injection Hp as ->. reflexivity.
  - apply IH; assumption.
Qed.

Lemma pkts_of_replace : forall cfgs pss i c ps',
  nth_error cfgs i = Some c ->
  pkts_of cfgs (replace_nth pss i ps')
  = replace_nth (pkts_of cfgs pss) i ([hdr_id c; hdr_tags c] ++ data_pkts 0 ps').
Proof.
  induction cfgs as [|c0 cfgs IH]; intros pss i c ps' Hc; [destruct i; discriminate|].
  destruct pss as [|ps0 pss]; [destruct i; reflexivity|].
  destruct i as [|i]; cbn [nth_error pkts_of replace_nth] in *.
  - injection Hc as ->. reflexivity.
  - f_equal. apply IH. exact Hc.
Qed.

Lemma all3_lengths : forall {A B C} (P : A -> B -> C -> Prop) la lb lc,
  all3 P la lb lc -> length la = length lb /\ length lb = length lc.
Proof. intros. induction H as [| ? ? ? ? ? ? _ _ [IH1 IH2]]; cbn [length]; split; congruence. Qed.

(* the accepted packets per track after one more WriteRTP on track i *)
Definition upd_pss (pss : list (list (list N * N))) (i : nat) (p : list N) :=
  match p with
  | [] => pss
  | _ => match opus_sample_count p, nth_error pss i with
         | Ok n, Some ps => replace_nth pss i (ps ++ [(p, n)])
         | _, _ => pss
         end
  end.

Lemma multi_write_inv : forall w cfgs pss log i p,
  minv w cfgs pss log -> J cfgs (mw_started w) log ->
  exists log',
    minv (fst (multi_write w i p)) cfgs (upd_pss pss i p) log' /\
    mw_rewriter (fst (multi_write w i p)) = mw_rewriter w /\
    J cfgs (mw_started (fst (multi_write w i p))) log'.
Proof.
  intros w cfgs pss log i p Hinv HJ.
  destruct p as [|b p'].
  - exists log. split; [exact Hinv | split; [reflexivity | exact HJ]].
  - unfold multi_write, upd_pss.
    destruct (start_locked_inv w cfgs pss log Hinv) as (w1 & log1 & Hs & Hst1 & Hrw1 & Hinv1 & _ & HJ1).
    specialize (HJ1 HJ).
    rewrite Hs.
    destruct Hinv1 as (Hout & Hnd & Hlen & Hgr & Hall). rewrite Hst1 in Hall.
    destruct (all3_lengths _ _ _ _ Hall) as (Hl1 & Hl2).
    destruct (nth_error (mw_tracks w1) i) as [tr|] eqn:Etr.
    + destruct (all3_nth _ _ _ _ i tr Hall Etr) as (cfg & pkts & Hcfg & Hpk & (Hstat & HR)).
      assert (Hps : exists ps, nth_error pss i = Some ps).
      { destruct (nth_error pss i) eqn:E; [eauto|]. apply nth_error_None in E.
        assert (i < length cfgs)%nat by (apply nth_error_Some; congruence). lia. }
      destruct Hps as (ps & Hps). rewrite Hps.
      rewrite (pkts_of_nth cfgs pss i cfg ps Hcfg Hps) in Hpk. injection Hpk as <-.
      assert (Hprev : tr_prev_granule tr = gsum 0 ps).
      { assert (H1 : nth_error (map tr_prev_granule (mw_tracks w1)) i = Some (tr_prev_granule tr))
          by (rewrite nth_error_map, Etr; reflexivity).
        rewrite Hgr, nth_error_map, Hps in H1. cbn in H1. congruence. }
      destruct (opus_sample_count (b :: p')) as [n | e |] eqn:Hn.
      * destruct (write_opus_own (mw_rewriter w1) log1 tr _ (b :: p') n HR Hn)
          as (pgs & tr' & Hw & Hst' & Hg' & HR').
        rewrite Hout, Hw. cbn [fst mw_rewriter mw_started].
        exists (log1 ++ tag (tr_serial tr) pgs). split; [| split; [exact Hrw1|]].
        2:{ intros _. destruct (HJ1 eq_refl) as (rest & Hr1 & Hr2).
            exists (rest ++ repeat (tr_serial tr) (length pgs)). split.
            - rewrite map_app, map_fst_tag, Hr1, <- !app_assoc. reflexivity.
            - apply Forall_app. split; [exact Hr2|]. apply Forall_forall. intros x Hx.
              apply repeat_spec in Hx. subst x. unfold known.
              destruct Hstat as (-> & _). apply in_map. exact (nth_error_In _ _ Hcfg). }
        unfold minv. cbn [mw_out mw_tracks mw_started mw_rewriter].
        split; [reflexivity|]. split; [exact Hnd|].
        split; [rewrite replace_nth_length; exact Hlen|].
        split.
        -- rewrite !map_replace_nth, Hgr. f_equal.
           destruct (data_pkts_snoc ps 0 (b :: p') n) as [_ Hsum]. rewrite Hsum, Hg', Hprev. reflexivity.
        -- rewrite (pkts_of_replace cfgs pss i cfg _ Hcfg).
           eapply all3_update; [exact Hall | |].
           ++ intros j a bb c Hne Ha Hb Hc (Hs2 & HR2). split; [exact Hs2|].
              apply R_other; [exact HR2|]. intros E.
              pose proof (all3_serials _ _ _ _ _ Hall) as Hser.
              assert (Hnd' : NoDup (map tr_serial (mw_tracks w1))) by (rewrite Hser; exact Hnd).
              rewrite NoDup_nth_error in Hnd'.
              apply Hne. symmetry. apply Hnd'.
              ** rewrite map_length. apply nth_error_Some. congruence.
              ** rewrite !nth_error_map, Etr, Ha. cbn. congruence.
           ++ intros bb Hbb. rewrite Hcfg in Hbb. injection Hbb as <-.
              split; [eapply same_static_trans; eauto|].
              destruct (data_pkts_snoc ps 0 (b :: p') n) as [Hd _]. rewrite Hd, app_assoc, <- Hprev.
              exact HR'.
      * rewrite (write_opus_err _ _ _ _ e Hn). cbn [fst]. exists log1.
        split; [| split; [exact Hrw1 | rewrite Hst1; exact HJ1]].
        unfold minv. rewrite Hst1. auto.
      * exfalso. exact (opus_sample_count_no_panic _ Hn).
    + cbn [fst].
      assert (Hnone : nth_error pss i = None).
      { apply nth_error_None. apply nth_error_None in Etr. lia. }
      rewrite Hnone. exists log1. split; [| split; [exact Hrw1 | rewrite Hst1; exact HJ1]].
      replace (match opus_sample_count (b :: p') with Ok _ => pss | _ => pss end) with pss
        by (destruct (opus_sample_count (b :: p')); reflexivity).
      unfold minv. rewrite Hst1. auto.
Qed.

Definition multi_run (w : mwriter) (ops : list (nat * list N)) : mwriter :=
  fold_left (fun w op => fst (multi_write w (fst op) (snd op))) ops w.
Definition run_pss (pss : list (list (list N * N))) (ops : list (nat * list N)) :=
  fold_left (fun pss op => upd_pss pss (fst op) (snd op)) ops pss.

Lemma multi_run_inv : forall ops w cfgs pss log,
  minv w cfgs pss log -> J cfgs (mw_started w) log ->
  exists log', minv (multi_run w ops) cfgs (run_pss pss ops) log' /\
               mw_rewriter (multi_run w ops) = mw_rewriter w /\
               J cfgs (mw_started (multi_run w ops)) log'.
Proof.
  induction ops as [|[i p] ops IH]; intros w cfgs pss log Hinv HJ.
  - exists log. split; [exact Hinv | split; [reflexivity | exact HJ]].
  - unfold multi_run, run_pss. cbn [fold_left fst snd].
    destruct (multi_write_inv w cfgs pss log i p Hinv HJ) as (log1 & H1 & Hrw1 & HJ1).
    destruct (IH _ cfgs _ log1 H1 HJ1) as (log2 & H2 & Hrw2 & HJ2).
    exists log2. split; [exact H2 |]. split; [| exact HJ2]. unfold multi_run in Hrw2. rewrite Hrw2. exact Hrw1.
Qed.

(* ---------- Close of the multi-track writer ---------- *)

Lemma last_ok_replace_other : forall log tr k s1 P1 P1',
  last_ok true log tr -> nth_error log k = Some (s1, P1) -> s1 <> tr_serial tr ->
  length (pg_data P1') = length (pg_data P1) ->
  last_ok true (replace_nth log k (s1, P1')) tr.
Proof.
  intros log tr k s1 P1 P1' Hl Hn Hne Hlen. unfold last_ok in *.
  pose proof (replace_keeps_mine (tr_serial tr) log k s1 P1' P1 0%nat Hn Hne) as Hm. cbn [skipn] in Hm.
  rewrite Hm. destruct (mine (tr_serial tr) log); [exact Hl|].
  destruct Hl as (k2 & P2 & Hn2 & Hpost & Hfin & Hlast).
  assert (Hk : k2 <> k) by (intros ->; rewrite Hn in Hn2; injection Hn2 as E _; congruence).
  exists k2, P2. split; [| split; [| split]].
  - rewrite replace_keeps_nth by exact Hk. exact Hn2.
  - rewrite (replace_keeps_mine (tr_serial tr) log k s1 P1' P1 (S k2) Hn Hne). exact Hpost.
  - exact Hfin.
  - rewrite (replace_keeps_pos log k s1 P1' P1 k2 Hn Hlen). exact Hlast.
Qed.

Lemma map_fst_replace : forall (log : list wpage) k s P P',
  nth_error log k = Some (s, P) -> map fst (replace_nth log k (s, P')) = map fst log.
Proof.
  induction log as [|x l IH]; intros k s P P' H; [destruct k; discriminate|].
  destruct k as [|k]; cbn [nth_error replace_nth map] in *.
  - injection H as ->. reflexivity.
  - rewrite (IH k s P P' H). reflexivity.
Qed.

Lemma mark_all_spec : forall trs log,
  (forall tr, In tr trs -> last_ok true log tr /\ mine (tr_serial tr) log <> []) ->
  NoDup (map tr_serial trs) ->
  exists log',
    mark_all (bytes_of log) trs = Ok (bytes_of log') /\
    (forall tr, In tr trs -> exists front P P',
        mine (tr_serial tr) log = front ++ [P] /\ mine (tr_serial tr) log' = front ++ [P'] /\
        eos_of (tr_serial tr) P P') /\
    (forall s, ~ In s (map tr_serial trs) -> mine s log' = mine s log) /\
    map fst log' = map fst log.
Proof.
  induction trs as [|tr trs IH]; intros log Hall Hnd.
  - exists log. split; [reflexivity|]. split; [intros tr []| split; reflexivity].
  - cbn [mark_all]. cbn [map] in Hnd. inversion Hnd as [| ? ? Hnotin Hnd']; subst.
    destruct (Hall tr (or_introl eq_refl)) as (Hl & Hne).
    destruct (mark_eos_spec log tr Hl Hne) as (k & P & P' & Hnth & Hpost & Heos & Hdl & Hm).
    rewrite Hm. set (log1 := replace_nth log k (tr_serial tr, P')).
    assert (Hother : forall s, s <> tr_serial tr -> mine s log1 = mine s log).
    { intros s Hs. pose proof (replace_keeps_mine s log k (tr_serial tr) P' P 0%nat Hnth) as H.
      cbn [skipn] in H. apply H. congruence. }
    destruct (IH log1) as (log' & Hma & Htrs & Hrest & Hfst).
    { intros tr2 Hin.
      assert (Hs2 : tr_serial tr <> tr_serial tr2)
        by (intros E; apply Hnotin; rewrite E; apply in_map; exact Hin).
      destruct (Hall tr2 (or_intror Hin)) as (Hl2 & Hne2). split.
      - apply (last_ok_replace_other log tr2 k (tr_serial tr) P P' Hl2 Hnth Hs2 Hdl).
      - rewrite Hother by congruence. exact Hne2. }
    { exact Hnd'. }
    exists log'. split; [exact Hma|]. split.
    + intros tr2 [<- | Hin].
      * exists (mine (tr_serial tr) (firstn k log)), P, P'.
        split; [| split; [| exact Heos]].
        -- rewrite (mine_split_at _ _ _ _ Hnth), Hpost. reflexivity.
        -- rewrite (Hrest _ Hnotin).
           assert (Hn1 : nth_error log1 k = Some (tr_serial tr, P'))
             by (apply (replace_nth_same log k _ _ Hnth)).
           rewrite (mine_split_at _ _ _ _ Hn1). unfold log1.
           rewrite firstn_replace, skipn_replace, Hpost. reflexivity.
      * destruct (Htrs tr2 Hin) as (front & P2 & P2' & H1 & H2 & H3).
        exists front, P2, P2'. split; [| split; assumption].
        rewrite <- Hother; [exact H1|]. intros E. apply Hnotin. rewrite <- E. apply in_map. exact Hin.
    + split.
      * intros s Hs. cbn [map] in Hs. rewrite Hrest by (intros Hin; apply Hs; right; exact Hin).
        apply Hother. intros E. apply Hs. left. symmetry. exact E.
      * rewrite Hfst. unfold log1. apply (map_fst_replace log k (tr_serial tr) P P' Hnth).
Qed.

Lemma each_nil : forall trs log,
  Forall (fun tr => tr_page_index tr <> 0) trs ->
  exists nils trs',
    each_track (write_nil_eos writer_table) (bytes_of log) trs = Ok (bytes_of (log ++ nils), trs') /\
    Forall2 (fun tr sp => fst sp = tr_serial tr /\
                          nil_eos_page (tr_serial tr) (tr_prev_granule tr) (tr_page_index tr) (snd sp))
            trs nils.
Proof.
  induction trs as [|tr trs IH]; intros log Hnz.
  - exists [], []. cbn [each_track]. rewrite app_nil_r. split; [reflexivity | constructor].
  - inversion Hnz as [| ? ? Hz Hnz']; subst. cbn [each_track].
    destruct (write_nil_eos_spec log tr Hz) as (P & tr' & Hnil & Hw). rewrite Hw.
    destruct (IH (log ++ [(tr_serial tr, P)]) Hnz') as (nils & trs' & He & Hf). rewrite He.
    exists ((tr_serial tr, P) :: nils), (tr' :: trs'). split.
    + rewrite <- app_assoc. reflexivity.
    + constructor; [split; [reflexivity | exact Hnil] | exact Hf].
Qed.

Lemma mine_nils : forall trs nils,
  Forall2 (fun tr sp => fst sp = tr_serial tr /\
                        nil_eos_page (tr_serial tr) (tr_prev_granule tr) (tr_page_index tr) (snd sp))
          trs nils ->
  NoDup (map tr_serial trs) ->
  forall tr, In tr trs -> exists nilP,
    mine (tr_serial tr) nils = [nilP] /\
    nil_eos_page (tr_serial tr) (tr_prev_granule tr) (tr_page_index tr) nilP.
Proof.
  intros trs nils H. induction H as [| tr0 sp trs nils (Hs & Hnil) H IH]; intros Hnd tr Hin; [destruct Hin|].
  cbn [map] in Hnd. inversion Hnd as [| ? ? Hnotin Hnd']; subst.
  assert (Hno : forall t, In t trs -> mine (tr_serial t) [sp] = []).
  { intros t Ht. unfold mine. cbn [filter]. rewrite Hs.
    replace (tr_serial tr0 =? tr_serial t) with false; [reflexivity|].
    symmetry. apply N.eqb_neq. intros E. apply Hnotin. rewrite E. apply in_map. exact Ht. }
  assert (Hrest0 : mine (tr_serial tr0) nils = []).
  { clear - H Hnotin. induction H as [| t sp2 trs nils (Hs2 & _) H IH]; [reflexivity|].
    unfold mine in *. cbn [filter]. rewrite Hs2.
    replace (tr_serial t =? tr_serial tr0) with false.
    - apply IH. intros Hin. apply Hnotin. right. exact Hin.
    - symmetry. apply N.eqb_neq. intros E. apply Hnotin. left. exact E. }
  destruct Hin as [<- | Hin].
  - exists (snd sp). split; [| exact Hnil].
    change (sp :: nils) with ([sp] ++ nils). rewrite mine_app, Hrest0, app_nil_r.
    unfold mine. cbn [filter]. rewrite Hs, N.eqb_refl. reflexivity.
  - destruct (IH Hnd' tr Hin) as (nilP & Hm & Hn). exists nilP. split; [| exact Hn].
    change (sp :: nils) with ([sp] ++ nils). rewrite mine_app, (Hno tr Hin). exact Hm.
Qed.

Lemma all3_nth_b : forall {A B C} (P : A -> B -> C -> Prop) la lb lc i b,
  all3 P la lb lc -> nth_error lb i = Some b ->
  exists a c, nth_error la i = Some a /\ nth_error lc i = Some c /\ P a b c.
Proof.
  intros A B C P la lb lc i b H. revert i. induction H as [| a0 b0 c0 la lb lc Hp H IH]; intros i Hn.
  - destruct i; discriminate.
  - destruct i as [|i]; cbn [nth_error] in *.
    + injection Hn as <-. eauto.
    + apply IH. exact Hn.
Qed.

Lemma mine_length : forall s log, (length (mine s log) <= length log)%nat.
Proof.
  intros s log. unfold mine. rewrite map_length. induction log as [|x l IH]; [apply Nat.le_refl|].
  cbn [filter length]. destruct (fst x =? s); cbn [length]; lia.
Qed.

Definition fresh (c : track) : Prop :=
  tr_page_index c = 0 /\ tr_prev_granule c = 0 /\ tr_last c = None.

Lemma minv_new : forall rw cfgs,
  NoDup (map tr_serial cfgs) -> Forall fresh cfgs ->
  minv (new_multi rw cfgs) cfgs (map (fun _ => []) cfgs) [].
Proof.
  intros rw cfgs Hnd Hf. unfold minv, new_multi. cbn [mw_out mw_tracks mw_started mw_rewriter].
  split; [reflexivity|]. split; [exact Hnd|]. split; [apply map_length|]. clear Hnd. split.
  - induction Hf as [| c l (_ & Hp & _) _ IH]; [reflexivity|]. cbn [map gsum]. now rewrite Hp, IH.
  - split; [reflexivity|]. split; [reflexivity|].
    induction Hf as [| c l (Hi & _ & Hl) _ IH]; cbn [map]; constructor; [| exact IH].
    split; [apply same_static_refl | apply R_fresh; assumption].
Qed.

(* multi_stream_close with the serials of the final pages in file order *)
Lemma multi_stream_close_full : forall rw cfgs ops,
  NoDup (map tr_serial cfgs) -> Forall fresh cfgs ->
  exists log : list (N * opage),
    (exists w1, start_locked (multi_run (new_multi rw cfgs) ops) = Ok w1 /\ mw_out w1 = bytes_of log) /\
    (N.of_nat (length log) < 4294967296 ->
     exists final,
       close_multi (multi_run (new_multi rw cfgs) ops) = Ok (bytes_of final) /\
       (forall i cfg ps,
         nth_error cfgs i = Some cfg ->
         nth_error (run_pss (map (fun _ => []) cfgs) ops) i = Some ps ->
         stream_shape (tr_serial cfg) ([hdr_id cfg; hdr_tags cfg] ++ data_pkts 0 ps) (gsum 0 ps)
                      (mine (tr_serial cfg) final)) /\
       exists rest, map fst final = hdr_trace hdr_id cfgs ++ hdr_trace hdr_tags cfgs ++ rest /\
                    Forall (known cfgs) rest).
Proof.
  intros rw cfgs ops Hnd Hfresh.
  destruct (multi_run_inv ops _ cfgs _ [] (minv_new rw cfgs Hnd Hfresh) ltac:(intros E; discriminate))
    as (log0 & Hinv0 & Hrw0 & HJ0).
  set (w := multi_run (new_multi rw cfgs) ops) in *.
  set (pss := run_pss (map (fun _ => []) cfgs) ops) in *.
  destruct (start_locked_inv w cfgs pss log0 Hinv0) as (w1 & log & Hs & Hst1 & Hrw1 & Hinv1 & _ & HJ1).
  destruct (HJ1 HJ0 eq_refl) as (rest & Hrest1 & Hrest2).
  exists log. split; [exists w1; split; [exact Hs | apply Hinv1]|]. intros Hbound.
  destruct Hinv1 as (Hout & _ & Hlen & Hgr & Hall). rewrite Hst1 in Hall.
  assert (Hrw : mw_rewriter w1 = rw) by (rewrite Hrw1, Hrw0; reflexivity).
  rewrite Hrw in Hall.
  pose proof (all3_serials _ _ _ _ _ Hall) as Hser.
  assert (Hndt : NoDup (map tr_serial (mw_tracks w1))) by (rewrite Hser; exact Hnd).
  (* facts about each track *)
  assert (Htr : forall i cfg ps, nth_error cfgs i = Some cfg -> nth_error pss i = Some ps ->
            exists tr, nth_error (mw_tracks w1) i = Some tr /\ tr_serial tr = tr_serial cfg /\
              R rw log tr ([hdr_id cfg; hdr_tags cfg] ++ data_pkts 0 ps) /\
              tr_prev_granule tr = gsum 0 ps).
  { intros i cfg ps Hc Hp.
    destruct (all3_nth_b _ _ _ _ i cfg Hall Hc) as (tr & pkts & Ht & Hpk & (Hstat & HR)).
    rewrite (pkts_of_nth cfgs pss i cfg ps Hc Hp) in Hpk. injection Hpk as <-.
    exists tr. split; [exact Ht|]. split; [apply Hstat|]. split; [exact HR|].
    assert (H1 : nth_error (map tr_prev_granule (mw_tracks w1)) i = Some (tr_prev_granule tr))
      by (rewrite nth_error_map, Ht; reflexivity).
    rewrite Hgr, nth_error_map, Hp in H1. cbn in H1. congruence. }
  assert (Hevery : forall tr, In tr (mw_tracks w1) ->
            exists i cfg ps, nth_error cfgs i = Some cfg /\ nth_error pss i = Some ps /\
                             nth_error (mw_tracks w1) i = Some tr).
  { intros tr Hin. apply In_nth_error in Hin. destruct Hin as (i & Hi).
    destruct (all3_nth _ _ _ _ i tr Hall Hi) as (cfg & pkts & Hc & Hpk & _).
    assert (Hps : exists ps, nth_error pss i = Some ps).
    { destruct (nth_error pss i) eqn:E; [eauto|]. apply nth_error_None in E.
      assert (i < length cfgs)%nat by (apply nth_error_Some; congruence). lia. }
    destruct Hps as (ps & Hps). exists i, cfg, ps. auto. }
  assert (Hmine_ne : forall tr, In tr (mw_tracks w1) -> mine (tr_serial tr) log <> [] /\ last_ok rw log tr).
  { intros tr Hin. destruct (Hevery tr Hin) as (i & cfg & ps & Hc & Hp & Ht).
    destruct (Htr i cfg ps Hc Hp) as (tr2 & Ht2 & _ & (Hpp & _ & Hl) & _).
    rewrite Ht in Ht2. injection Ht2 as <-. split; [| exact Hl].
    cbn [app] in Hpp. exact (packets_pages_nonempty _ _ _ _ _ Hpp). }
  unfold close_multi. rewrite Hs, Hrw.
  destruct rw.
  - destruct (mark_all_spec (mw_tracks w1) log) as (log' & Hma & Hper & _ & Hfst).
    { intros tr Hin. destruct (Hmine_ne tr Hin). auto. }
    { exact Hndt. }
    rewrite Hout, Hma. exists log'. split; [reflexivity|]. split.
    2:{ exists rest. rewrite Hfst. split; assumption. }
    intros i cfg ps Hc Hp. destruct (Htr i cfg ps Hc Hp) as (tr & Ht & Hsr & (Hpp & _) & _).
    destruct (Hper tr (nth_error_In _ _ Ht)) as (front & P & P' & H1 & H2 & H3).
    rewrite Hsr in *. eapply shape_mark; [| exact H3 | exact H2]. rewrite <- H1. exact Hpp.
  - assert (Hnz : Forall (fun tr => tr_page_index tr <> 0) (mw_tracks w1)).
    { apply Forall_forall. intros tr Hin. destruct (Hevery tr Hin) as (i & cfg & ps & Hc & Hp & Ht).
      destruct (Htr i cfg ps Hc Hp) as (tr2 & Ht2 & _ & (_ & Hidx & _) & _).
      rewrite Ht in Ht2. injection Ht2 as <-. rewrite Hidx.
      destruct (Hmine_ne tr Hin) as (Hne & _). pose proof (mine_length (tr_serial tr) log).
      rewrite u32_small by lia. destruct (mine (tr_serial tr) log); [congruence | cbn [length]; lia]. }
    destruct (each_nil (mw_tracks w1) log Hnz) as (nils & trs' & He & Hf).
    rewrite Hout, He. exists (log ++ nils). split; [reflexivity|]. split.
    2:{ exists (rest ++ map fst nils). split.
        - rewrite map_app, Hrest1, <- !app_assoc. reflexivity.
        - apply Forall_app. split; [exact Hrest2|].
          assert (Hn : Forall (fun s => In s (map tr_serial (mw_tracks w1))) (map fst nils)).
          { clear - Hf.
            induction Hf as [| tr sp trs nils (Hs & _) Hf IH]; [constructor|].
            cbn [map]. constructor; [left; symmetry; exact Hs|].
            eapply Forall_impl; [| exact IH]. intros a Ha. right. exact Ha. }
          unfold known. rewrite <- Hser. exact Hn. }
    intros i cfg ps Hc Hp. destruct (Htr i cfg ps Hc Hp) as (tr & Ht & Hsr & (Hpp & Hidx & _) & Hg).
    destruct (mine_nils _ _ Hf Hndt tr (nth_error_In _ _ Ht)) as (nilP & Hm & Hn).
    rewrite Hsr in *. rewrite mine_app, Hm.
    eapply shape_nil; [exact Hpp | | reflexivity]. rewrite <- Hg, <- Hidx. exact Hn.
Qed.

Lemma multi_stream_close : forall rw cfgs ops,
  NoDup (map tr_serial cfgs) -> Forall fresh cfgs ->
  exists log : list (N * opage),
    (exists w1, start_locked (multi_run (new_multi rw cfgs) ops) = Ok w1 /\ mw_out w1 = bytes_of log) /\
    (N.of_nat (length log) < 4294967296 ->
     exists final,
       close_multi (multi_run (new_multi rw cfgs) ops) = Ok (bytes_of final) /\
       forall i cfg ps,
         nth_error cfgs i = Some cfg ->
         nth_error (run_pss (map (fun _ => []) cfgs) ops) i = Some ps ->
         stream_shape (tr_serial cfg) ([hdr_id cfg; hdr_tags cfg] ++ data_pkts 0 ps) (gsum 0 ps)
                      (mine (tr_serial cfg) final)).
Proof.
  intros rw cfgs ops Hnd Hfresh.
  destruct (multi_stream_close_full rw cfgs ops Hnd Hfresh) as (log & H1 & H2).
  exists log. split; [exact H1|]. intros Hb. destruct (H2 Hb) as (final & Hc & Hs & _).
  exists final. split; assumption.
Qed.

(* ---------- end-of-stream, all four writer variants ---------- *)

Lemma data_pkts_zero : forall ps g, Forall (fun pk : N * list N * N => fst (fst pk) = 0) (data_pkts g ps).
Proof.
  induction ps as [|[p n] ps IH]; intros g; cbn [data_pkts]; constructor; [reflexivity | apply IH].
Qed.

Lemma plain_track_pkts : forall cfg ps, plain_pkts ([hdr_id cfg; hdr_tags cfg] ++ data_pkts 0 ps).
Proof.
  intros cfg ps. unfold plain_pkts. cbn [app]. constructor; [right; reflexivity|].
  constructor; [left; reflexivity|].
  eapply Forall_impl; [| apply data_pkts_zero]. intros pk H. left. exact H.
Qed.

Lemma eos_single : forall fd rate cm serial t ops,
  exists w0, new_single fd rate cm serial t = Ok w0 /\
    exists pages, sw_out (single_run w0 ops) = flat_map pg_data pages /\
      (N.of_nat (length pages) < 4294967296 ->
       exists front L,
         close_single (single_run w0 ops) = Ok (flat_map pg_data (front ++ [L])) /\
         has_eos L = true /\ Forall (fun P => has_eos P = false) front).
Proof.
  intros fd rate cm serial t ops.
  destruct (single_stream fd rate cm serial t ops) as (w0 & Hnew & pages & Hpp & Hout & Hclose).
  exists w0. split; [exact Hnew|]. exists pages. split; [exact Hout|]. intros Hb.
  destruct (Hclose Hb) as (final & Hc & Hshape).
  destruct (shape_eos _ _ _ _ Hshape (plain_track_pkts _ _)) as (front & L & -> & HL & Hf).
  exists front, L. auto.
Qed.

Lemma eos_multi : forall rw cfgs ops,
  NoDup (map tr_serial cfgs) -> Forall fresh cfgs ->
  exists log : list (N * opage),
    (exists w1, start_locked (multi_run (new_multi rw cfgs) ops) = Ok w1 /\ mw_out w1 = bytes_of log) /\
    (N.of_nat (length log) < 4294967296 ->
     exists final,
       close_multi (multi_run (new_multi rw cfgs) ops) = Ok (bytes_of final) /\
       forall cfg, In cfg cfgs ->
         exists front L, mine (tr_serial cfg) final = front ++ [L] /\
                         has_eos L = true /\ Forall (fun P => has_eos P = false) front).
Proof.
  intros rw cfgs ops Hnd Hf.
  destruct (multi_stream_close rw cfgs ops Hnd Hf) as (log & Hlog & Hclose).
  exists log. split; [exact Hlog|]. intros Hb.
  destruct (Hclose Hb) as (final & Hc & Hshape). exists final. split; [exact Hc|].
  intros cfg Hin. apply In_nth_error in Hin. destruct Hin as (i & Hi).
  assert (Hps : exists ps, nth_error (run_pss (map (fun _ => []) cfgs) ops) i = Some ps).
  { assert (Hlen : length (run_pss (map (fun _ : track => []) cfgs) ops) = length cfgs).
    { generalize (map_length (fun _ : track => @nil (list N * N)) cfgs).
      generalize (map (fun _ : track => @nil (list N * N)) cfgs). clear.
      induction ops as [|[j p] ops IH]; intros pss Hl; [exact Hl|].
      unfold run_pss. cbn [fold_left fst snd]. apply IH.
      unfold upd_pss. destruct p; [exact Hl|].
      destruct (opus_sample_count _); try exact Hl. destruct (nth_error pss j); [| exact Hl].
      rewrite replace_nth_length. exact Hl. }
    destruct (nth_error (run_pss (map (fun _ : track => []) cfgs) ops) i) eqn:E; [eauto|].
    apply nth_error_None in E. assert (i < length cfgs)%nat by (apply nth_error_Some; congruence). lia. }
  destruct Hps as (ps & Hps).
  exact (shape_eos _ _ _ _ (Hshape i cfg ps Hi Hps) (plain_track_pkts _ _)).
Qed.
