(* The generated match functions (coq/Gen/GoMux.v, regenerated from
   internal/mux/muxfunc.go by tools/go2coq on every C27 check) equal the
   hand-written ones of Model.Mux, for ALL byte strings (any length, any
   element values, any range bounds).  Property neutral. *)
From Coq Require Import List ZArith NArith String Bool Lia.
Import ListNotations.
From Verif Require Import Common.Base Common.Go2CoqPrelude Model.Mux Proofs.GenTactics.
From Verif Require Gen.GoMux.

(* The generated functions live in the result monad because they index buf
   (a Go panic when out of range).  The model wrote MatchRange / MatchDTLS /
   MatchSRTPOrSRTCP as total functions by pattern matching; the adapter for
   those three is [Ok]: "never panics, and returns the model's value". *)

Lemma gen_match_range_agrees : forall lo hi buf,
  GoMux.MatchRange lo hi buf = Ok (match_range lo hi buf).
Proof.
  intros lo hi buf.
  first [ solve [ bytes_tree buf ]
        | fail 1 "c27_generated_model_agrees_MatchRange: GoMux.MatchRange (regenerated from internal/mux/muxfunc.go) no longer equals Model.Mux.match_range" ].
Qed.

Lemma gen_match_dtls_agrees : forall buf, GoMux.MatchDTLS buf = Ok (match_dtls buf).
Proof.
  intros buf.
  first [ solve [ bytes_tree buf ]
        | fail 1 "c27_generated_model_agrees_MatchDTLS: GoMux.MatchDTLS (regenerated from internal/mux/muxfunc.go) no longer equals Model.Mux.match_dtls" ].
Qed.

Lemma gen_match_srtp_or_srtcp_agrees : forall buf,
  GoMux.MatchSRTPOrSRTCP buf = Ok (match_srtp_or_srtcp buf).
Proof.
  intros buf.
  first [ solve [ bytes_tree buf ]
        | fail 1 "c27_generated_model_agrees_MatchSRTPOrSRTCP: GoMux.MatchSRTPOrSRTCP (regenerated from internal/mux/muxfunc.go) no longer equals Model.Mux.match_srtp_or_srtcp" ].
Qed.

Lemma gen_is_rtcp_agrees : forall buf, GoMux.isRTCP buf = is_rtcp buf.
Proof.
  intros buf.
  first [ solve [ bytes_tree buf ]
        | fail 1 "c27_generated_model_agrees_isRTCP: GoMux.isRTCP (regenerated from internal/mux/muxfunc.go) no longer equals Model.Mux.is_rtcp" ].
Qed.

Lemma gen_match_srtp_agrees : forall buf, GoMux.MatchSRTP buf = match_srtp buf.
Proof.
  intros buf.
  first [ solve [ bytes_tree buf ]
        | fail 1 "c27_generated_model_agrees_MatchSRTP: GoMux.MatchSRTP (regenerated from internal/mux/muxfunc.go) no longer equals Model.Mux.match_srtp" ].
Qed.

Lemma gen_match_srtcp_agrees : forall buf, GoMux.MatchSRTCP buf = match_srtcp buf.
Proof.
  intros buf.
  first [ solve [ bytes_tree buf ]
        | fail 1 "c27_generated_model_agrees_MatchSRTCP: GoMux.MatchSRTCP (regenerated from internal/mux/muxfunc.go) no longer equals Model.Mux.match_srtcp" ].
Qed.
