(* C31: completeness for in-order delivery.  A loss-free stream of well-formed
   frames, none longer than maxLate, pushed in sequence order with Pops
   anywhere in between: after Flush every frame has been built, and one Pop per
   frame returns them all.

   The state after k pushes is described against the ground truth: the buffer
   holds exactly the packets lo .. k-1 of the stream at their sequence numbers,
   filled = [seq lo, seq k), the frames before position a (lo <= a <= k, a frame
   boundary) have been built, in order, and the active window is empty (then
   nothing was consumed yet) or [seq a, seq x) with a < x <= k. *)
From Coq Require Import List ZArith NArith PArith Bool Lia ZifyBool ZifyNat ZifyN Permutation.
Import ListNotations.
From Verif Require Import Common.Base Model.SampleBuilder Model.SampleBuilderSpec
  Proofs.SampleBuilderArith Proofs.SampleBuilderIter Proofs.SampleBuilderMap Proofs.SampleBuilder
  Proofs.SampleBuilderScan Proofs.SampleBuilderBuild Proofs.SampleBuilderFuel Proofs.SampleBuilderFifo
  Proofs.SampleBuilderNoPanic Proofs.SampleBuilderTop Proofs.SampleBuilderCases Proofs.SampleBuilderInside
  Proofs.SampleBuilderOrder Proofs.SampleBuilderOnce.
Open Scope N_scope.
Ltac Zify.zify_post_hook ::= Z.div_mod_to_equations.

(* ---------- sequence numbers of stream positions ---------- *)
Definition sqn (h : N) (i : nat) : N := w16 (h + N.of_nat i).

Lemma sqn_lt : forall h i, sqn h i < 65536.
Proof. intros. apply w16_lt. Qed.
Lemma sqn_inc : forall h i, inc16 (sqn h i) = sqn h (S i).
Proof. intros. unfold sqn. rewrite inc16_spec, !w16_spec. lia. Qed.
Lemma sqn_add : forall h a i, w16 (sqn h a + N.of_nat i) = sqn h (a + i).
Proof. intros. unfold sqn. rewrite !w16_spec. lia. Qed.
Lemma sqn_sub : forall h i j, (i <= j)%nat -> N.of_nat (j - i) < 65536 ->
  sub16 (sqn h j) (sqn h i) = N.of_nat (j - i).
Proof. intros h i j H1 H2. unfold sqn. rewrite sub16_spec, !w16_spec. lia. Qed.
Lemma sqn_inj : forall h i j, N.of_nat i < 65536 -> N.of_nat j < 65536 -> sqn h i = sqn h j -> i = j.
Proof. intros h i j Hi Hj E. unfold sqn in E. rewrite !w16_spec in E. lia. Qed.
Lemma sqn_0 : forall h, h < 65536 -> sqn h 0 = h.
Proof. intros h Hh. unfold sqn. rewrite w16_small by lia. lia. Qed.

(* compare of a window [seq a, seq x) with seq i, all positions below 2^15 *)
Lemma compare_sqn : forall h a x i, (a < x)%nat -> N.of_nat x < 32768 -> N.of_nat i < 32768 ->
  compare (mkLoc (sqn h a) (sqn h x)) (sqn h i) =
  if (i <? a)%nat then CBefore else if (i <? x)%nat then CInside else CAfter.
Proof.
  intros h a x i Hax Hx Hi.
  pose proof (compare_spec (mkLoc (sqn h a) (sqn h x)) (sqn h i) (conj (sqn_lt h a) (sqn_lt h x)) (sqn_lt h i))
    as (HV & HI & HB & HA).
  unfold off, span in *. cbn [l_head l_tail] in *.
  assert (Hne : sqn h a <> sqn h x) by (intro E; apply sqn_inj in E; lia).
  destruct (i <? a)%nat eqn:E1; [|destruct (i <? x)%nat eqn:E2].
  - apply HB. split; [exact Hne|].
    rewrite (sqn_sub h a x) by lia. rewrite (sqn_sub h i a) by lia.
    unfold sqn. rewrite !sub16_spec, !w16_spec. lia.
  - apply HI. split; [exact Hne|]. rewrite (sqn_sub h a x), (sqn_sub h a i) by lia. lia.
  - apply HA. split; [exact Hne|]. rewrite (sqn_sub h a x), (sqn_sub h a i), (sqn_sub h x i) by lia.
    unfold sqn. rewrite !sub16_spec, !w16_spec. lia.
Qed.

Lemma compare_sqn_void : forall h a i, compare (mkLoc (sqn h a) (sqn h a)) i = CVoid.
Proof. intros. unfold compare. cbn [l_head l_tail]. rewrite N.eqb_refl. reflexivity. Qed.

Lemma nth_error_In_firstn : forall {A} (l : list A) i m x, nth_error l i = Some x -> (i < m)%nat -> In x (firstn m l).
Proof.
  intros A l. induction l as [|a l IH]; intros i m x H Hm; [destruct i; discriminate H|].
  destruct m; [lia|]. destruct i; cbn in *; [injection H as <-; left; reflexivity|].
  right. apply (IH i); [exact H|lia].
Qed.

Lemma list_eq_nth_error : forall {A} (l l' : list A), (forall i, nth_error l i = nth_error l' i) -> l = l'.
Proof.
  intros A l. induction l as [|a l IH]; intros [|b l'] H.
  - reflexivity.
  - specialize (H 0%nat). discriminate H.
  - specialize (H 0%nat). discriminate H.
  - pose proof (H 0%nat) as H0. cbn in H0. injection H0 as <-. f_equal. apply IH. intro i. apply (H (Datatypes.S i)).
Qed.

(* ---------- a stream of frames ---------- *)
Section Stream.
  Variable is_head : list N -> bool.
  Variable is_tail : bool -> list N -> bool.
  Notation ptail p := (is_tail (p_marker p) (p_payload p)).
  Variable fs : list (list packet).
  Variable h : N.
  Hypothesis Hh : h < 65536.
  Hypothesis Hframes : Forall (frame_ok is_head is_tail) fs.
  Hypothesis Hseq : map p_seq (concat fs) = keys_from h (List.length (concat fs)).
  Hypothesis Hshort : N.of_nat (List.length (concat fs)) < 32768.

  Definition dummy_packet : packet := mkPacket 0 0 0 false [].
  Notation dummy := dummy_packet.
  Definition stream_pkts := concat fs.
  Notation S := stream_pkts.
  Definition stream_len := List.length S.
  Notation n := stream_len.
  Definition stream_pk (i : nat) : packet := nth i S dummy.
  Notation pk := stream_pk.
  Notation sq := (sqn h).
  (* position where frame j starts *)
  Definition frame_start (j : nat) : nat := List.length (concat (firstn j fs)).
  Notation blen := frame_start.
  Definition frame_at (j : nat) : list packet := nth j fs [].
  Notation frame := frame_at.

  Lemma pk_seq : forall i, (i < n)%nat -> p_seq (pk i) = sq i.
  Proof.
    intros i Hi. unfold pk, sqn.
    assert (E : nth_error (map p_seq S) i = nth_error (keys_from h n) i) by (unfold S, n; rewrite Hseq; reflexivity).
    rewrite nth_error_map, (nth_error_nth' S dummy Hi), keys_from_nth in E by assumption.
    cbn in E. injection E as E. exact E.
  Qed.

  Lemma blen_S : forall j, (j < List.length fs)%nat -> blen (Datatypes.S j) = (blen j + List.length (frame j))%nat.
  Proof.
    intros j Hj. unfold blen, frame.
    assert (E : firstn (Datatypes.S j) fs = firstn j fs ++ [nth j fs []]).
    { clear - Hj. revert j Hj. induction fs as [|f l IH]; intros j Hj; [cbn in Hj; lia|].
      destruct j; [reflexivity|]. cbn [firstn nth app]. f_equal. apply IH. cbn in Hj. lia. }
    rewrite E, concat_app, app_length. cbn [concat]. rewrite app_nil_r. reflexivity.
  Qed.

  Lemma blen_le_n : forall j, (blen j <= n)%nat.
  Proof.
    intro j. unfold blen, n, S. rewrite <- (firstn_skipn j fs) at 2. rewrite concat_app, app_length. lia.
  Qed.

  Lemma blen_all : blen (List.length fs) = n.
  Proof. unfold blen, n, S. rewrite firstn_all. reflexivity. Qed.

  (* the packets of frame j are the stream positions blen j .. *)
  Lemma frame_pk : forall j i, (j < List.length fs)%nat -> (i < List.length (frame j))%nat ->
    nth_error (frame j) i = Some (pk (blen j + i)) /\ (blen j + i < n)%nat.
  Proof.
    intros j i Hj Hi. unfold pk, S, blen, frame in *.
    assert (E : fs = firstn j fs ++ nth j fs [] :: skipn (Datatypes.S j) fs).
    { clear - Hj. revert j Hj. induction fs as [|f l IH]; intros j Hj; [cbn in Hj; lia|].
      destruct j; [reflexivity|]. cbn [firstn nth skipn app]. f_equal. apply IH. cbn in Hj. lia. }
    split.
    - rewrite E at 3. rewrite concat_app. cbn [concat].
      rewrite app_nth2 by lia. replace (List.length (concat (firstn j fs)) + i - List.length (concat (firstn j fs)))%nat with i by lia.
      rewrite app_nth1 by exact Hi. apply nth_error_nth'. exact Hi.
    - unfold n, S. rewrite E at 2. rewrite concat_app, app_length. cbn [concat]. rewrite app_length. lia.
  Qed.

  Lemma frame_nonempty : forall j, (j < List.length fs)%nat -> (0 < List.length (frame j))%nat.
  Proof.
    intros j Hj. unfold frame. pose proof (proj1 (Forall_forall _ _) Hframes (nth j fs [])) as H.
    specialize (H (nth_In _ _ Hj)). destruct (nth j fs []); [contradiction|cbn; lia].
  Qed.

  (* flags and timestamps inside a frame *)
  Lemma frame_flags : forall j i, (j < List.length fs)%nat -> (i < List.length (frame j))%nat ->
    (is_head (p_payload (pk (blen j + i))) = (i =? 0)%nat) /\
    (ptail (pk (blen j + i)) = (Datatypes.S i =? List.length (frame j))%nat) /\
    p_ts (pk (blen j + i)) = p_ts (pk (blen j)).
  Proof.
    intros j i Hj Hi.
    pose proof (proj1 (Forall_forall _ _) Hframes (frame j) (nth_In _ _ Hj)) as Hok.
    assert (Hnth : forall i, (i < List.length (frame j))%nat -> nth_error (frame j) i = Some (pk (blen j + i)))
      by (intros; apply frame_pk; assumption).
    destruct (frame j) as [|hp rest] eqn:Ef; [cbn in Hi; lia|].
    cbn [frame_ok] in Hok. destruct Hok as (Hhd & Hrest & Htl & Hnt).
    assert (E0 : pk (blen j) = hp).
    { specialize (Hnth 0%nat ltac:(cbn; lia)). cbn in Hnth. rewrite Nat.add_0_r in Hnth. congruence. }
    destruct i as [|i].
    - rewrite Nat.add_0_r, E0. split; [exact Hhd|]. split; [|reflexivity].
      cbn [List.length]. destruct rest as [|r rest'].
      + cbn in Htl |- *. exact Htl.
      + cbn [Nat.eqb List.length]. apply (Hnt hp). cbn. left. reflexivity.
    - assert (Hr : nth_error rest i = Some (pk (blen j + Datatypes.S i))).
      { specialize (Hnth (Datatypes.S i) Hi). cbn in Hnth. exact Hnth. }
      destruct (Hrest _ (nth_error_In _ _ Hr)) as [G1 G2].
      split; [exact G1|]. split; [|rewrite E0; exact G2].
      cbn [List.length] in *.
      destruct (Nat.eq_dec (Datatypes.S i) (List.length rest)) as [El|Nl].
      + (* the last packet *)
        assert (Elast : last rest hp = pk (blen j + Datatypes.S i)).
        { pose proof (nth_error_last rest hp) as Hl. cbn [nth_error] in Hl.
          destruct rest as [|r rest']; [cbn in El; lia|].
          cbn [List.length] in El. assert (i = List.length rest') by lia. subst i.
          cbn [nth_error] in Hl. rewrite last_cons in *.
          assert (Hr' : nth_error (r :: rest') (List.length rest') = Some (last rest' r)) by (apply nth_error_last).
          rewrite Hr in Hr'. injection Hr' as <-. reflexivity. }
        rewrite <- Elast, Htl. symmetry. apply Nat.eqb_eq. lia.
      + replace (Datatypes.S (Datatypes.S i) =? Datatypes.S (List.length rest))%nat with false
          by (symmetry; apply Nat.eqb_neq; lia).
        apply (Hnt (pk (blen j + Datatypes.S i))).
        rewrite removelast_firstn_len. cbn [List.length].
        assert (Hin : nth_error (hp :: rest) (Datatypes.S i) = Some (pk (blen j + Datatypes.S i))) by exact Hr.
        assert (Hlt : (Datatypes.S i < List.length rest)%nat) by lia.
        clear - Hin Hlt. replace (Init.Nat.pred (Datatypes.S (List.length rest))) with (List.length rest) by lia.
        apply (nth_error_In_firstn _ (Datatypes.S i)); [exact Hin|lia].
  Qed.
End Stream.

(* ---------- the scan, forwards: from the buffer's content to the run found ---------- *)
Section ScanForward.
  Variable is_tail : bool -> list N -> bool.
  Notation ptail p := (is_tail (p_marker p) (p_payload p)).

  Lemma pass_tail : forall s i k, pass is_tail s i (Datatypes.S k) -> pass is_tail s (inc16 i) k.
  Proof.
    intros s i k Hp j Hj. specialize (Hp (Datatypes.S j) ltac:(lia)).
    rewrite w16_add_inc. replace (N.of_nat j + 1) with (N.of_nat (Datatypes.S j)) by lia. exact Hp.
  Qed.

  Lemma ended_tail : forall s i k res, ended is_tail s i (Datatypes.S k) res -> ended is_tail s (inc16 i) k res.
  Proof.
    intros s i k res (p & H). exists p. rewrite w16_add_inc.
    replace (N.of_nat k + 1) with (N.of_nat (Datatypes.S k)) by lia. exact H.
  Qed.

  Lemma scan_step_pass : forall s i c0 p, i < 65536 ->
    bget i (buf s) = Some p -> compare (active s) i <> CAfter -> ptail p = false ->
    (snd (fetchTimestamp s (active s)) = true -> p_ts p = fst (fetchTimestamp s (active s))) ->
    scan_step is_tail s (i, c0) = ((inc16 i, c0), true).
  Proof.
    intros s i c0 p Hi Hb Hc Ht Hts. unfold scan_step. cbn [fst snd]. rewrite Hb.
    destruct (compare (active s) i) eqn:Ec; try contradiction; cbn [cmp_eqb]; rewrite Ht;
      (destruct (snd (fetchTimestamp s (active s))) eqn:Es; cbn [andb]; [|reflexivity]);
      rewrite (Hts eq_refl), N.eqb_refl; reflexivity.
  Qed.

  Lemma scan_forward : forall s k i c0 res fuel, i < 65536 -> (k < fuel)%nat ->
    pass is_tail s i k -> ended is_tail s i k res ->
    exists y, iter_nat fuel (scan_step is_tail s) (i, c0) = ((y, res), false).
  Proof.
    intros s k. induction k as [|k IH]; intros i c0 res fuel Hi Hf Hp He.
    - destruct fuel as [|fuel]; [lia|]. cbn [iter_nat].
      destruct He as (p & Hb & Hc & Hcase). rewrite w16_small in Hb, Hc, Hcase by lia.
      replace (i + N.of_nat 0) with i in * by lia.
      exists i. unfold scan_step. cbn [fst snd]. rewrite Hb.
      assert (Ecmp : cmp_eqb (compare (active s) i) CAfter = false) by (destruct (compare (active s) i); try reflexivity; contradiction).
      rewrite Ecmp. destruct Hcase as [[Ht ->]|(Ht & Hs & Hn & ->)]; rewrite Ht; cbn [fst snd].
      + reflexivity.
      + rewrite Hs. apply N.eqb_neq in Hn. rewrite Hn. cbn. reflexivity.
    - destruct fuel as [|fuel]; [lia|]. cbn [iter_nat].
      destruct (Hp 0%nat ltac:(lia)) as (p & Hb & Hc & Ht & Hts).
      rewrite w16_small in Hb, Hc by lia. replace (i + N.of_nat 0) with i in * by lia.
      rewrite (scan_step_pass s i c0 p Hi Hb Hc Ht Hts). cbn [fst snd].
      apply IH; [apply inc16_lt|lia|apply pass_tail; exact Hp|apply ended_tail; exact He].
  Qed.

  Lemma scan_forward_none : forall s r i c0 fuel, i < 65536 -> (r < fuel)%nat ->
    pass is_tail s i r -> bget (w16 (i + N.of_nat r)) (buf s) = None ->
    exists y, iter_nat fuel (scan_step is_tail s) (i, c0) = ((y, c0), false).
  Proof.
    intros s r. induction r as [|r IH]; intros i c0 fuel Hi Hf Hp Hb.
    - destruct fuel as [|fuel]; [lia|]. cbn [iter_nat].
      rewrite w16_small in Hb by lia. replace (i + N.of_nat 0) with i in * by lia.
      exists i. unfold scan_step. cbn [fst snd]. rewrite Hb. reflexivity.
    - destruct fuel as [|fuel]; [lia|]. cbn [iter_nat].
      destruct (Hp 0%nat ltac:(lia)) as (p & Hb0 & Hc & Ht & Hts).
      rewrite w16_small in Hb0, Hc by lia. replace (i + N.of_nat 0) with i in * by lia.
      rewrite (scan_step_pass s i c0 p Hi Hb0 Hc Ht Hts). cbn [fst snd].
      apply IH; [apply inc16_lt|lia|apply pass_tail; exact Hp|].
      rewrite w16_add_inc. replace (N.of_nat r + 1) with (N.of_nat (Datatypes.S r)) by lia. exact Hb.
  Qed.

  Lemma fuel_gt : forall k, N.of_nat k < 65536 -> (k < Pos.to_nat 65537)%nat.
  Proof. intros k Hk. pose proof fuel_65537. lia. Qed.

  Lemma scan_found : forall s k res, l_head (active s) < 65536 -> N.of_nat k < 65536 ->
    pass is_tail s (l_head (active s)) k -> ended is_tail s (l_head (active s)) k res ->
    scan is_tail s = (res, false).
  Proof.
    intros s k res Hh Hk Hp He. unfold scan. rewrite iter_pos_nat.
    destruct (scan_forward s k (l_head (active s)) (mkLoc 0 0) res _ Hh (fuel_gt k Hk) Hp He) as (y & E).
    rewrite E. reflexivity.
  Qed.

  Lemma scan_nothing : forall s r, l_head (active s) < 65536 -> N.of_nat r < 65536 ->
    pass is_tail s (l_head (active s)) r ->
    bget (w16 (l_head (active s) + N.of_nat r)) (buf s) = None ->
    scan is_tail s = (mkLoc 0 0, false).
  Proof.
    intros s r Hh Hr Hp Hb. unfold scan. rewrite iter_pos_nat.
    destruct (scan_forward_none s r (l_head (active s)) (mkLoc 0 0) _ Hh (fuel_gt r Hr) Hp Hb) as (y & E).
    rewrite E. reflexivity.
  Qed.
End ScanForward.

(* ---------- the builder's state against the ground-truth stream ---------- *)
Section Inorder.
  Variable is_head : list N -> bool.
  Variable is_tail : bool -> list N -> bool.
  Variable unmarshal : list N -> option (list N).
  Variable c : cfg.
  Notation ptail p := (is_tail (p_marker p) (p_payload p)).
  Variable fs : list (list packet).
  Variable h : N.
  Hypothesis Hh : h < 65536.
  Hypothesis Hframes : Forall (frame_ok is_head is_tail) fs.
  Hypothesis Hseq : map p_seq (concat fs) = keys_from h (List.length (concat fs)).
  Hypothesis Hshort : N.of_nat (List.length (concat fs)) < 32768.
  Hypothesis Hunm : forall p, In p (concat fs) -> unmarshal (p_payload p) <> None.

  Notation buildSample := (buildSample is_head is_tail unmarshal c).
  Notation purge_body := (purge_body is_head is_tail unmarshal c).
  Notation purge_step := (purge_step is_head is_tail unmarshal c).
  Notation purgeBuffers := (purgeBuffers is_head is_tail unmarshal c).
  Notation push := (push is_head is_tail unmarshal c).
  Notation flush := (flush is_head is_tail unmarshal c).
  Notation pop := (pop is_head is_tail unmarshal c).
  Notation step := (step is_head is_tail unmarshal c).
  Notation run := (run is_head is_tail unmarshal c).
  Notation rel := (rel is_head is_tail unmarshal).
  Notation scan := (scan is_tail).
  Local Strategy opaque [SampleBuilder.buildSample SampleBuilder.purge_body].

  Notation sq := (sqn h).
  Notation n := (stream_len fs).
  Notation pk := (stream_pk fs).
  Notation blen := (frame_start fs).
  Notation frame := (frame_at fs).
  Notation dummy := dummy_packet.
  Notation m := (List.length fs).

  Lemma n_short : N.of_nat n < 32768.
  Proof. exact Hshort. Qed.

  Lemma pk_seq' : forall i, (i < n)%nat -> p_seq (pk i) = sq i.
  Proof. intros. eapply pk_seq; eassumption. Qed.
  Lemma frame_flags' : forall j i, (j < m)%nat -> (i < List.length (frame j))%nat ->
    (is_head (p_payload (pk (blen j + i))) = (i =? 0)%nat) /\
    (ptail (pk (blen j + i)) = (Datatypes.S i =? List.length (frame j))%nat) /\
    p_ts (pk (blen j + i)) = p_ts (pk (blen j)).
  Proof. intros. eapply frame_flags; eassumption. Qed.
  Lemma frame_pk' : forall j i, (j < m)%nat -> (i < List.length (frame j))%nat ->
    nth_error (frame j) i = Some (pk (blen j + i)) /\ (blen j + i < n)%nat.
  Proof. intros. eapply frame_pk; eassumption. Qed.
  Lemma frame_nonempty' : forall j, (j < m)%nat -> (0 < List.length (frame j))%nat.
  Proof. intros. eapply frame_nonempty; eassumption. Qed.
  Lemma blen_le_n' : forall j, (blen j <= n)%nat.
  Proof. intros. eapply blen_le_n; eassumption. Qed.
  Lemma pk_in : forall i, (i < n)%nat -> In (pk i) (concat fs).
  Proof. intros i Hi. change (In (nth i (concat fs) dummy) (concat fs)). apply nth_In. exact Hi. Qed.

  Lemma sq_inj : forall i j, (i <= n)%nat -> (j <= n)%nat -> sq i = sq j -> i = j.
  Proof. intros i j Hi Hj E. pose proof n_short. apply (sqn_inj h); [lia|lia|exact E]. Qed.

  (* the buffer holds the packets lo .. k-1, filled = [seq lo, seq k) *)
  Record agree (k lo : nat) (s : st) : Prop := mkAgree {
    ag_le : (lo <= k <= n)%nat;
    ag_get : forall i, (lo <= i < k)%nat -> bget (sq i) (buf s) = Some (pk i);
    ag_dom : forall key p, In (key, p) (buf s) -> exists i, (lo <= i < k)%nat /\ key = sq i /\ p = pk i;
    ag_fill : (lo < k)%nat -> filled s = mkLoc (sq lo) (sq k);
    ag_empty : lo = k -> l_empty (filled s) = true }.

  Lemma agree_absent : forall k lo s i, agree k lo s -> (i <= n)%nat -> (i < lo \/ k <= i)%nat ->
    bget (sq i) (buf s) = None.
  Proof.
    intros k lo s i A Hi Hout. destruct (bget (sq i) (buf s)) as [p|] eqn:E; [exfalso|reflexivity].
    apply bget_In in E. destruct (ag_dom _ _ _ A _ _ E) as (i' & Hi' & Ek & _).
    pose proof (ag_le _ _ _ A). apply sq_inj in Ek; lia.
  Qed.

  Lemma agree_bf : forall k lo s s', bf s' = bf s -> agree k lo s -> agree k lo s'.
  Proof.
    intros k lo s s' E [a1 a2 a3 a4 a5]. unfold bf in E. injection E as E1 E2.
    constructor; rewrite ?E1, ?E2; assumption.
  Qed.

  Lemma agree_release : forall k lo s, agree k lo s -> (lo < k)%nat ->
    agree k (Datatypes.S lo) (release_filled_head s).
  Proof.
    intros k lo s [a1 a2 a3 a4 a5] Hlt.
    pose proof (bf_release_filled_head s) as E.
    assert (E1 : buf (release_filled_head s) = bdel (sq lo) (buf s)).
    { apply (f_equal fst) in E. unfold bf, rfh in E. cbn [fst snd] in E. rewrite (a4 Hlt) in E. exact E. }
    assert (E2 : filled (release_filled_head s) = mkLoc (sq (Datatypes.S lo)) (sq k)).
    { apply (f_equal snd) in E. unfold bf, rfh in E. cbn [fst snd] in E. rewrite (a4 Hlt) in E.
      cbn [l_head l_tail] in E. rewrite sqn_inc in E. exact E. }
    clear E.
    constructor; rewrite ?E1, ?E2.
    - lia.
    - intros i Hi. rewrite bget_bdel_other; [apply a2; lia|].
      intro E. apply sq_inj in E; lia.
    - intros key p Hin. apply In_bdel in Hin. destruct Hin as [Hin Hne]. cbn [fst] in Hne.
      destruct (a3 key p Hin) as (i & Hi & -> & ->). exists i. split; [|split; reflexivity].
      destruct (Nat.eq_dec i lo) as [->|]; [contradiction|lia].
    - reflexivity.
    - intros ->. unfold l_empty. cbn [l_head l_tail]. apply N.eqb_refl.
  Qed.

  Lemma agree_hasData : forall k lo s, agree k lo s -> (lo < k)%nat -> l_hasData (filled s) = true.
  Proof.
    intros k lo s A Hlt. rewrite (ag_fill _ _ _ A Hlt). unfold l_hasData. cbn [l_head l_tail].
    apply negb_true_iff. apply N.eqb_neq. intro E. pose proof (ag_le _ _ _ A). apply sq_inj in E; lia.
  Qed.

  (* purgeConsumedLocation on such a state, for a window [seq a, seq t) *)
  Lemma pcl_agree : forall k lo s a t force, agree k lo s -> (lo < k)%nat -> (a <= t <= n)%nat ->
    purgeConsumedLocation s (mkLoc (sq a) (sq t)) force =
    if ((lo <? a)%nat || ((lo <? t)%nat && force)) && (a <? t)%nat then release_filled_head s else s.
  Proof.
    intros k lo s a t force A Hlt Hat. unfold purgeConsumedLocation.
    rewrite (agree_hasData k lo s A Hlt). cbn [negb]. rewrite (ag_fill _ _ _ A Hlt). cbn [l_head].
    pose proof n_short. pose proof (ag_le _ _ _ A).
    destruct (a <? t)%nat eqn:Eat.
    - apply Nat.ltb_lt in Eat. rewrite (compare_sqn h a t lo) by lia.
      destruct (lo <? a)%nat eqn:E1; cbn [orb andb]; [reflexivity|].
      destruct (lo <? t)%nat eqn:E2; cbn [andb]; [destruct force; reflexivity|reflexivity].
    - apply Nat.ltb_ge in Eat. assert (a = t) by lia. subst t. rewrite compare_sqn_void.
      rewrite andb_false_r. reflexivity.
  Qed.

  (* the packets at positions a .. a+len-1 *)
  Definition runp (a len : nat) : list packet := map pk (seq a len).

  Lemma frame_runp : forall j, (j < m)%nat -> frame j = runp (blen j) (List.length (frame j)).
  Proof.
    intros j Hj. apply list_eq_nth_error. intro i. unfold runp.
    destruct (Nat.lt_ge_cases i (List.length (frame j))) as [Hi|Hi].
    - destruct (frame_pk' j i Hj Hi) as [E _]. rewrite E.
      rewrite nth_error_map, (nth_error_nth' _ 0%nat) by (rewrite seq_length; exact Hi).
      rewrite seq_nth by exact Hi. reflexivity.
    - rewrite (proj2 (nth_error_None _ _)) by exact Hi.
      symmetry. apply nth_error_None. rewrite map_length, seq_length. exact Hi.
  Qed.

  (* collecting such a run *)
  Lemma collect_agree : forall k lo s a len, agree k lo s -> (lo <= a)%nat -> (a + len <= k)%nat -> (0 < len)%nat ->
    exists col, collect s (mkLoc (sq a) (sq (a + len))) = (col, false) /\ all_some col = Some (runp a len).
  Proof.
    intros k lo s a len A Hlo Hk Hl. pose proof n_short. pose proof (ag_le _ _ _ A).
    destruct (collect s (mkLoc (sq a) (sq (a + len)))) as [col b] eqn:Ec.
    pose proof (collect_fuel s (mkLoc (sq a) (sq (a + len))) (sqn_lt _ _) (sqn_lt _ _)) as Hf.
    rewrite Ec in Hf. cbn [snd] in Hf. subst b. exists col. split; [reflexivity|].
    apply collect_spec in Ec; [|apply sqn_lt]. cbn [l_head l_tail] in Ec.
    destruct Ec as (len' & Hc & Ht & Hmin).
    assert (len' = len).
    { destruct (Nat.lt_ge_cases len len') as [Hlt|Hge].
      - exfalso. apply (Hmin len Hlt). apply sqn_add.
      - rewrite sqn_add in Ht. apply sq_inj in Ht; lia. }
    subst len'. rewrite Hc. unfold runp. clear Hc Ht Hmin.
    assert (G : forall l a0, (lo <= a0)%nat -> (a0 + l <= k)%nat ->
              all_some (map (fun key => bget key (buf s)) (keys_from (sq a0) l)) = Some (map pk (seq a0 l))).
    { induction l as [|l IH]; intros a0 H1 H2; [reflexivity|].
      cbn [keys_from map seq all_some]. rewrite (ag_get _ _ _ A a0) by lia.
      rewrite sqn_inc, IH by lia. reflexivity. }
    apply G; lia.
  Qed.

  (* the scan over a complete frame in the window [seq a, seq x) *)
  Lemma scan_frame : forall k lo s j x, agree k lo s ->
    (j < m)%nat -> (lo <= blen j)%nat -> (blen j + List.length (frame j) <= x)%nat -> (x <= k)%nat ->
    active s = mkLoc (sq (blen j)) (sq x) ->
    scan s = (mkLoc (sq (blen j)) (sq (blen j + List.length (frame j))), false).
  Proof.
    intros k lo s j x A Hj Hlo Hx Hxk Hact. set (a := blen j) in *. set (len := List.length (frame j)) in *.
    pose proof n_short. pose proof (ag_le _ _ _ A).
    pose proof (frame_nonempty' j Hj) as Hlen. fold len in Hlen.
    assert (Hht : fetchTimestamp s (active s) = (p_ts (pk a), true)).
    { unfold fetchTimestamp. rewrite Hact. unfold l_empty. cbn [l_head l_tail].
      assert (E : (sq a =? sq x) = false) by (apply N.eqb_neq; intro E; apply sq_inj in E; lia).
      rewrite E, (ag_get _ _ _ A a) by lia. reflexivity. }
    assert (Hin : forall i, (i < len)%nat -> exists p, p = pk (a + i) /\
              bget (w16 (l_head (active s) + N.of_nat i)) (buf s) = Some p /\
              compare (active s) (w16 (l_head (active s) + N.of_nat i)) <> CAfter).
    { intros i Hi. exists (pk (a + i)). split; [reflexivity|]. rewrite Hact. cbn [l_head]. rewrite sqn_add.
      split; [apply (ag_get _ _ _ A); lia|].
      rewrite (compare_sqn h a x (a + i)) by lia.
      replace (a + i <? a)%nat with false by (symmetry; apply Nat.ltb_ge; lia).
      replace (a + i <? x)%nat with true by (symmetry; apply Nat.ltb_lt; lia). discriminate. }
    apply (scan_found is_tail s (len - 1)).
    - rewrite Hact. apply sqn_lt.
    - lia.
    - intros i Hi. destruct (Hin i ltac:(lia)) as (p & -> & Hb & Hc). exists (pk (a + i)).
      destruct (frame_flags' j i Hj ltac:(fold len; lia)) as (_ & Ht & Hts). fold a len in Ht, Hts.
      split; [exact Hb|]. split; [exact Hc|]. split.
      + rewrite Ht. apply Nat.eqb_neq. lia.
      + intros _. rewrite Hht. exact Hts.
    - destruct (Hin (len - 1)%nat ltac:(lia)) as (p & -> & Hb & Hc). exists (pk (a + (len - 1))).
      destruct (frame_flags' j (len - 1)%nat Hj ltac:(fold len; lia)) as (_ & Ht & _). fold a len in Ht.
      split; [exact Hb|]. split; [exact Hc|]. left. split.
      + rewrite Ht. apply Nat.eqb_eq. lia.
      + rewrite Hact. cbn [l_head]. rewrite sqn_add, sqn_inc. f_equal. f_equal. lia.
  Qed.

  (* the scan over a frame whose end has not arrived: nothing found *)
  Lemma scan_partial : forall k lo s j, agree k lo s ->
    (j < m)%nat -> (lo <= blen j)%nat -> (blen j < k)%nat -> (k < blen j + List.length (frame j))%nat ->
    active s = mkLoc (sq (blen j)) (sq k) ->
    scan s = (mkLoc 0 0, false).
  Proof.
    intros k lo s j A Hj Hlo Hak Hk Hact. set (a := blen j) in *. set (len := List.length (frame j)) in *.
    pose proof n_short. pose proof (ag_le _ _ _ A).
    assert (Hht : fetchTimestamp s (active s) = (p_ts (pk a), true)).
    { unfold fetchTimestamp. rewrite Hact. unfold l_empty. cbn [l_head l_tail].
      assert (E : (sq a =? sq k) = false) by (apply N.eqb_neq; intro E; apply sq_inj in E; lia).
      rewrite E, (ag_get _ _ _ A a) by lia. reflexivity. }
    apply (scan_nothing is_tail s (k - a)).
    - rewrite Hact. apply sqn_lt.
    - lia.
    - intros i Hi. exists (pk (a + i)). rewrite Hact. cbn [l_head]. rewrite sqn_add.
      destruct (frame_flags' j i Hj ltac:(fold len; lia)) as (_ & Ht & Hts). fold a len in Ht, Hts.
      split; [apply (ag_get _ _ _ A); lia|]. split.
      + rewrite (compare_sqn h a k (a + i)) by lia.
        replace (a + i <? a)%nat with false by (symmetry; apply Nat.ltb_ge; lia).
        replace (a + i <? k)%nat with true by (symmetry; apply Nat.ltb_lt; lia). discriminate.
      + split; [rewrite Ht; apply Nat.eqb_neq; lia|]. intros _. rewrite <- Hact, Hht. exact Hts.
    - rewrite Hact. cbn [l_head]. rewrite sqn_add. replace (a + (k - a))%nat with k by lia.
      apply (agree_absent k lo s k A); lia.
  Qed.

  (* ---------- small facts about the helper states ---------- *)
  Lemma built_anchor : forall s, built (anchor s) = built s.
  Proof. intro s. unfold anchor. destruct (l_empty (active s)); reflexivity. Qed.
  Lemma built_extend : forall s, built (extend s) = built s.
  Proof. intro s. unfold extend. destruct (cmp_eqb _ _); reflexivity. Qed.
  Lemma active_pcl : forall s l f, active (purgeConsumedLocation s l f) = active s.
  Proof.
    intros. unfold purgeConsumedLocation. destruct (negb _); [reflexivity|].
    assert (R : active (release_filled_head s) = active s).
    { unfold release_filled_head, releasePacket. destruct (bget _ _); reflexivity. }
    destruct (compare _ _); try reflexivity; try exact R. destruct f; [exact R|reflexivity].
  Qed.
  Lemma active_purge2 : forall s l, active (purge2 s l) = active s.
  Proof. intros. unfold purge2, purgeConsumedBuffers. rewrite !active_pcl. reflexivity. Qed.
  Lemma built_purge2 : forall s l, built (purge2 s l) = built s.
  Proof. intros. apply (same3_purge2 s l). Qed.
  Lemma active_sampled : forall s l x, active (sampled_state c s l x) = mkLoc (l_tail l) (l_tail (active s)).
  Proof.
    intros. unfold sampled_state. cbv zeta. cbn [active]. unfold handled.
    destruct (c_headHandler c); cbn [active set_headCalls moved set_active]; reflexivity.
  Qed.
  Lemma built_sampled : forall s l x, built (sampled_state c s l x) = x :: built s.
  Proof.
    intros. unfold sampled_state. cbv zeta. cbn [built]. f_equal. destruct (same3_mark3 s) as (_ & _ & M3).
    unfold handled. destruct (c_headHandler c); cbn [built set_headCalls moved set_active]; exact M3.
  Qed.

  Lemma pcl_empty_filled : forall s l f, l_empty (filled s) = true -> purgeConsumedLocation s l f = s.
  Proof.
    intros s l f H. unfold purgeConsumedLocation, l_hasData. unfold l_empty in H. rewrite H. reflexivity.
  Qed.
  Lemma pcl_void : forall s l f, l_empty l = true -> purgeConsumedLocation s l f = s.
  Proof.
    intros s l f H. unfold purgeConsumedLocation. destruct (negb _); [reflexivity|].
    unfold compare. unfold l_empty in H. rewrite H. reflexivity.
  Qed.

  Lemma all_some_map_total : forall {A B} (f : A -> option B) (l : list A),
    (forall a, In a l -> f a <> None) -> all_some (map f l) <> None.
  Proof.
    intros A B f l. induction l as [|a l IH]; intro H; cbn [map all_some]; [discriminate|].
    destruct (f a) eqn:E; [|exfalso; apply (H a); [left; reflexivity|exact E]].
    assert (IH' : all_some (map f l) <> None) by (apply IH; intros b0 Hb; apply H; right; exact Hb).
    destruct (all_some (map f l)); [discriminate|contradiction].
  Qed.

  Lemma runp_in : forall a len p, (a + len <= n)%nat -> In p (runp a len) -> In p (concat fs).
  Proof.
    intros a len p Hn Hin. unfold runp in Hin. apply in_map_iff in Hin. destruct Hin as (i & <- & Hi).
    apply in_seq in Hi. apply pk_in. lia.
  Qed.

  Lemma blen_lt_m : forall j, (blen j < n)%nat -> (j < m)%nat.
  Proof.
    intros j H. destruct (Nat.lt_ge_cases j m) as [Hj|Hj]; [exact Hj|exfalso].
    assert (E : blen j = n). { change (List.length (concat (firstn j fs)) = List.length (concat fs)). rewrite firstn_all2 by exact Hj. reflexivity. }
    lia.
  Qed.

  Lemma blen_S' : forall j, (j < m)%nat -> blen (Datatypes.S j) = (blen j + List.length (frame j))%nat.
  Proof. intros. apply blen_S. assumption. Qed.

  Lemma firstn_S_frame : forall j, (j < m)%nat -> firstn (Datatypes.S j) fs = firstn j fs ++ [frame j].
  Proof.
    intros j Hj. change (frame j) with (nth j fs []). clear - Hj. revert j Hj.
    induction fs as [|f l IH]; intros j Hj; [cbn in Hj; lia|].
    destruct j; [reflexivity|]. cbn [firstn nth app]. f_equal. apply IH. cbn in Hj. lia.
  Qed.

  (* ---------- the state handed to buildSample ---------- *)
  Definition ready (k lo a : nat) (s0 : st) : Prop :=
    agree k lo s0 /\ (lo <= a < k)%nat /\
    ((exists x, (a < x <= k)%nat /\ active s0 = mkLoc (sq a) (sq x)) \/ (l_empty (active s0) = true /\ a = lo)).

  Lemma ready_s2 : forall k lo a s0, ready k lo a s0 ->
    l_empty (active (anchor s0)) = false /\
    bf (extend (anchor s0)) = bf s0 /\ built (extend (anchor s0)) = built s0 /\
    active (extend (anchor s0)) = mkLoc (sq a) (sq k).
  Proof.
    intros k lo a s0 (A & Hlak & Hact). pose proof n_short. pose proof (ag_le _ _ _ A).
    assert (Hf : filled s0 = mkLoc (sq lo) (sq k)) by (apply (ag_fill _ _ _ A); lia).
    assert (Hne : forall u v, (u < v <= n)%nat -> (sq u =? sq v) = false).
    { intros u v Huv. apply N.eqb_neq. intro E. apply sq_inj in E; lia. }
    assert (H1 : exists x, (a < x <= k)%nat /\ active (anchor s0) = mkLoc (sq a) (sq x) /\ filled (anchor s0) = filled s0).
    { unfold anchor. destruct Hact as [(x & Hx & Ha)|[He ->]].
      - exists x. rewrite Ha. unfold l_empty. cbn [l_head l_tail]. rewrite (Hne a x) by lia.
        split; [exact Hx|]. split; [exact Ha|reflexivity].
      - rewrite He. exists k. cbn [log_ev set_active active filled]. split; [lia|]. split; [exact Hf|reflexivity]. }
    destruct H1 as (x & Hx & Ha1 & Hf1).
    split; [rewrite Ha1; unfold l_empty; cbn [l_head l_tail]; apply Hne; lia|].
    split; [rewrite bf_extend; apply bf_anchor|]. split; [rewrite built_extend; apply built_anchor|].
    unfold extend. rewrite Hf1, Hf, Ha1. cbn [l_head l_tail].
    rewrite (compare_sqn h lo k x) by lia.
    replace (x <? lo)%nat with false by (symmetry; apply Nat.ltb_ge; lia).
    destruct (x <? k)%nat eqn:E; cbn [cmp_eqb].
    - reflexivity.
    - apply Nat.ltb_ge in E. assert (x = k) by lia. subst x. exact Ha1.
  Qed.

  (* ---------- buildSample builds the frame at the head of the window ---------- *)
  Lemma build_frame : forall purging k lo a j s0, ready k lo a s0 ->
    a = blen j -> (j < m)%nat -> (a + List.length (frame j) <= k)%nat ->
    (purging = true \/ (a + List.length (frame j) < k)%nat) ->
    exists x lo', snd (buildSample purging s0) = Some x /\ s_pkts x = frame j /\
      built (fst (buildSample purging s0)) = x :: built s0 /\
      active (fst (buildSample purging s0)) = mkLoc (sq (a + List.length (frame j))) (sq k) /\
      agree k lo' (fst (buildSample purging s0)) /\ (lo < lo' <= a + List.length (frame j))%nat.
  Proof.
    intros purging k lo a j s0 Hr Ea Hj Hk Hp. set (len := List.length (frame j)) in *.
    pose proof Hr as (A & Hlak & _). pose proof n_short. pose proof (ag_le _ _ _ A).
    pose proof (frame_nonempty' j Hj) as Hlen. fold len in Hlen.
    destruct (ready_s2 k lo a s0 Hr) as (E1 & Ebf & Ebuilt & Eact).
    set (s2 := extend (anchor s0)) in *.
    assert (A2 : agree k lo s2) by (apply (agree_bf k lo s0); assumption).
    set (cons := mkLoc (sq a) (sq (a + len))).
    assert (Esc : scan s2 = (cons, false)).
    { subst cons a len. apply (scan_frame k lo s2 j k A2 Hj); try lia. exact Eact. }
    assert (Ece : l_empty cons = false).
    { unfold l_empty, cons. cbn [l_head l_tail]. apply N.eqb_neq. intro E. apply sq_inj in E; lia. }
    assert (Ew : waiting purging s2 cons = false).
    { unfold waiting, cons. cbn [l_tail]. destruct Hp as [->|Hlt]; [reflexivity|].
      rewrite (ag_get _ _ _ A2 (a + len)%nat) by lia. apply andb_false_r. }
    destruct (collect_agree k lo s2 a len A2 ltac:(lia) Hk Hlen) as (col & Ecol & Eas).
    change (mkLoc (sq a) (sq (a + len))) with cons in Ecol.
    assert (Erun : runp a len = pk a :: runp (Datatypes.S a) (len - 1)).
    { unfold runp. destruct len; [lia|]. cbn [seq map]. replace (Datatypes.S len - 1)%nat with len by lia. reflexivity. }
    assert (Ehd : is_head (p_payload (pk a)) = true).
    { destruct (frame_flags' j 0%nat Hj Hlen) as (G & _). rewrite Nat.add_0_r in G. subst a. exact G. }
    destruct (buildSample_bcase is_head is_tail unmarshal c purging s0) as [E1'|consume E1' Esc'|consume E1' Esc' Hw|consume r E1' Esc' Ece' Hw' Hrun].
    - congruence.
    - fold s2 in Esc'. rewrite Esc in Esc'. discriminate Esc'.
    - fold s2 in Esc', Hw. rewrite Esc in Esc'. injection Esc' as <-. destruct Hw as [Hw|Hw]; congruence.
    - fold s2 in Esc', Hw', Hrun. rewrite Esc in Esc'. injection Esc' as <-.
      destruct Hrun as [col0 Hc0|col0 Hc0 Hn0|col0 hp rest Hc0 Ha0 Hh0|col0 hp rest Hc0 Ha0 Hh0 Hu0|col0 hp rest d0 Hc0 Ha0 Hh0 Hu0 Hr0|col0 hp rest d0 ds Hc0 Ha0 Hh0 Hu0 Hr0];
        rewrite Ecol in Hc0; try discriminate Hc0; injection Hc0 as <-.
      + rewrite Eas in Hn0. destruct Hn0 as [Hn0|Hn0]; [discriminate Hn0|]. rewrite Erun in Hn0. discriminate Hn0.
      + rewrite Eas, Erun in Ha0. injection Ha0 as <- <-. congruence.
      + rewrite Eas, Erun in Ha0. injection Ha0 as <- <-. exfalso. apply (Hunm (pk a)); [apply pk_in; lia|exact Hu0].
      + rewrite Eas, Erun in Ha0. injection Ha0 as <- <-. exfalso.
        apply (all_some_map_total (fun q => unmarshal (p_payload q)) (runp (Datatypes.S a) (len - 1))); [|exact Hr0].
        intros q Hq. apply Hunm. apply (runp_in (Datatypes.S a) (len - 1)); [lia|exact Hq].
      + (* the sample *)
        set (x := new_sample c s2 cons d0 ds (hp :: rest)) in *.
        exists x. cbn [fst snd].
        assert (Epk : s_pkts x = frame j).
        { change (s_pkts x) with (hp :: rest). rewrite (frame_runp j Hj). fold len. rewrite <- Ea. congruence. }
        set (s4 := sampled_state c s2 cons x) in *.
        assert (A4 : agree k lo s4).
        { apply (agree_bf k lo s2); [|exact A2]. apply bf_sampled_state. }
        assert (Eact4 : active s4 = mkLoc (sq (a + len)) (sq k)).
        { subst s4. rewrite active_sampled, Eact. reflexivity. }
        (* the forced purge of the consumed run releases filled.head *)
        set (s5 := purgeConsumedLocation s4 cons true) in *.
        assert (E5 : s5 = release_filled_head s4).
        { subst s5 cons. rewrite (pcl_agree k lo s4 a (a + len) true A4) by lia.
          replace (lo <? a + len)%nat with true by (symmetry; apply Nat.ltb_lt; lia).
          replace (a <? a + len)%nat with true by (symmetry; apply Nat.ltb_lt; lia).
          rewrite andb_true_r, orb_true_r. reflexivity. }
        assert (A5 : agree k (Datatypes.S lo) s5) by (rewrite E5; apply agree_release; [exact A4|lia]).
        assert (Eact5 : active s5 = mkLoc (sq (a + len)) (sq k)).
        { subst s5. rewrite active_pcl. exact Eact4. }
        change (purge2 s4 cons) with (purgeConsumedBuffers s5).
        unfold purgeConsumedBuffers. rewrite Eact5.
        assert (Ebuilt5 : built (purgeConsumedLocation s5 (mkLoc (sq (a + len)) (sq k)) false) = x :: built s0).
        { destruct (same3_pcl s5 (mkLoc (sq (a + len)) (sq k)) false) as (_ & _ & ->).
          subst s5. destruct (same3_pcl s4 cons true) as (_ & _ & ->). subst s4. rewrite built_sampled, Ebuilt. reflexivity. }
        destruct (Nat.eq_dec (Datatypes.S lo) k) as [Elk|Nlk].
        * exists (Datatypes.S lo). rewrite pcl_empty_filled by (apply (ag_empty _ _ _ A5); exact Elk).
          split; [reflexivity|]. split; [exact Epk|]. split.
          { rewrite pcl_empty_filled in Ebuilt5 by (apply (ag_empty _ _ _ A5); exact Elk). exact Ebuilt5. }
          split; [exact Eact5|]. split; [exact A5|lia].
        * rewrite (pcl_agree k (Datatypes.S lo) s5 (a + len) k false A5) in * by lia.
          rewrite andb_false_r, orb_false_r in *.
          destruct ((Datatypes.S lo <? a + len)%nat && (a + len <? k)%nat) eqn:Eb.
          -- exists (Datatypes.S (Datatypes.S lo)). apply andb_true_iff in Eb. destruct Eb as [Eb1 Eb2]. apply Nat.ltb_lt in Eb1.
             split; [reflexivity|]. split; [exact Epk|]. split; [exact Ebuilt5|]. split.
             { unfold release_filled_head, releasePacket. destruct (bget _ _); exact Eact5. }
             split; [apply agree_release; [exact A5|lia]|lia].
          -- exists (Datatypes.S lo). split; [reflexivity|]. split; [exact Epk|]. split; [exact Ebuilt5|].
             split; [exact Eact5|]. split; [exact A5|lia].
  Qed.

  (* ---------- Pop when the frame at the head is not complete (or its successor absent) ---------- *)
  Lemma build_idle : forall k lo a j s0, ready k lo a s0 ->
    a = blen j -> (j < m)%nat -> (k <= a + List.length (frame j))%nat ->
    buildSample false s0 = (extend (anchor s0), None).
  Proof.
    intros k lo a j s0 Hr Ea Hj Hk. set (len := List.length (frame j)) in *.
    pose proof Hr as (A & Hlak & _). pose proof n_short. pose proof (ag_le _ _ _ A).
    destruct (ready_s2 k lo a s0 Hr) as (E1 & Ebf & Ebuilt & Eact).
    set (s2 := extend (anchor s0)) in *.
    assert (A2 : agree k lo s2) by (apply (agree_bf k lo s0); assumption).
    assert (Hsc : (scan s2 = (mkLoc 0 0, false)) \/
                  (scan s2 = (mkLoc (sq a) (sq k), false) /\ k = (a + len)%nat)).
    { destruct (Nat.eq_dec k (a + len)) as [Ek|Nk].
      - right. split; [|exact Ek]. rewrite Ek. subst a len. apply (scan_frame k lo s2 j k A2 Hj); try lia. exact Eact.
      - left. subst a len. apply (scan_partial k lo s2 j A2 Hj); try lia. exact Eact. }
    destruct (buildSample_bcase is_head is_tail unmarshal c false s0) as [E1'|consume E1' Esc'|consume E1' Esc' Hw|consume r E1' Esc' Ece' Hw' Hrun].
    - congruence.
    - fold s2 in Esc'. destruct Hsc as [Hsc|[Hsc _]]; rewrite Hsc in Esc'; discriminate Esc'.
    - reflexivity.
    - exfalso. fold s2 in Esc', Hw'. destruct Hsc as [Hsc|[Hsc Ek]]; rewrite Hsc in Esc'; injection Esc' as <-.
      + cbn in Ece'. discriminate Ece'.
      + unfold waiting in Hw'. cbn [l_tail negb andb] in Hw'.
        rewrite (agree_absent k lo s2 k A2) in Hw' by lia. discriminate Hw'.
  Qed.

  (* ---------- the invariant between operations ---------- *)
  Definition sig (k : nat) (s : st) : Prop :=
    exists lo a j, agree k lo s /\ locs_ok s /\ (lo <= a <= k)%nat /\ a = blen j /\ (j <= m)%nat /\
      map s_pkts (rev (built s)) = firstn j fs /\
      ((exists x, (a < x <= k)%nat /\ active s = mkLoc (sq a) (sq x)) \/ (l_empty (active s) = true /\ a = lo)).

  Lemma built_snoc : forall s s' x j, (j < m)%nat ->
    map s_pkts (rev (built s)) = firstn j fs -> built s' = x :: built s -> s_pkts x = frame j ->
    map s_pkts (rev (built s')) = firstn (Datatypes.S j) fs.
  Proof.
    intros s s' x j Hj Hb E Hx. rewrite E. cbn [rev]. rewrite map_app, Hb. cbn [map]. rewrite Hx.
    symmetry. apply firstn_S_frame. exact Hj.
  Qed.

  Lemma locs_build : forall purging s, locs_ok s -> locs_ok (fst (buildSample purging s)).
  Proof. intros purging s H. apply (r_ok _ _ _ _ _ (proj1 (buildSample_rel is_head is_tail unmarshal c purging s))). exact H. Qed.

  (* a built frame: the invariant with one more frame *)
  Lemma sig_built : forall purging k lo a j s0, ready k lo a s0 -> locs_ok s0 ->
    a = blen j -> (j < m)%nat -> (a + List.length (frame j) < k)%nat ->
    map s_pkts (rev (built s0)) = firstn j fs ->
    sig k (fst (buildSample purging s0)) /\ snd (buildSample purging s0) <> None.
  Proof.
    intros purging k lo a j s0 Hr Hok Ea Hj Hk Hb.
    destruct (build_frame purging k lo a j s0 Hr Ea Hj ltac:(lia) (or_intror Hk)) as (x & lo' & Hs & Hx & Hbu & Hact & A' & Hlo').
    split; [|rewrite Hs; discriminate].
    exists lo', (a + List.length (frame j))%nat, (Datatypes.S j).
    split; [exact A'|]. split; [apply locs_build; exact Hok|]. split; [lia|].
    split; [rewrite blen_S' by exact Hj; lia|]. split; [lia|].
    split; [eapply built_snoc; eassumption|].
    left. exists k. split; [lia|exact Hact].
  Qed.

  Lemma sig_ready : forall k s lo a, agree k lo s -> (lo <= a < k)%nat ->
    ((exists x, (a < x <= k)%nat /\ active s = mkLoc (sq a) (sq x)) \/ (l_empty (active s) = true /\ a = lo)) ->
    ready k lo a s.
  Proof. intros. split; [assumption|]. split; assumption. Qed.

  (* ---------- Pop ---------- *)
  Lemma sig_pop : forall k s, sig k s -> sig k (fst (pop s)).
  Proof.
    intros k s (lo & a & j & A & Hok & Hla & Ea & Hjm & Hb & Hact).
    pose proof n_short. pose proof (ag_le _ _ _ A).
    assert (Hpop : forall s1, sig k s1 -> fst (buildSample false s) = s1 -> sig k (fst (pop s))).
    { intros s1 (lo1 & a1 & j1 & A1 & Hok1 & Hla1 & Ea1 & Hjm1 & Hb1 & Hact1) E. unfold SampleBuilder.pop. rewrite E.
      destruct (l_empty (prepared s1)); cbn [fst]; [exists lo1, a1, j1; repeat (split; [assumption|]); assumption|].
      exists lo1, a1, j1. split; [apply (agree_bf k lo1 s1); [reflexivity|exact A1]|]. split; [exact Hok1|].
      split; [exact Hla1|]. split; [exact Ea1|]. split; [exact Hjm1|]. split; [exact Hb1|exact Hact1]. }
    destruct (Nat.eq_dec a k) as [Eak|Nak].
    - (* everything buffered has been consumed: the window is empty and so is filled *)
      destruct Hact as [(x & Hx & _)|[He Elo]]; [lia|]. subst lo.
      assert (Hfe : l_empty (filled s) = true) by (apply (ag_empty _ _ _ A); lia).
      assert (Eanch : l_empty (active (anchor s)) = true).
      { unfold anchor. rewrite He. cbn [log_ev set_active active]. exact Hfe. }
      destruct (buildSample_bcase is_head is_tail unmarshal c false s) as [E1'|consume E1' Esc'|consume E1' Esc' Hw|consume r E1' Esc' Ece' Hw' Hrun];
        try congruence.
      apply (Hpop (anchor s)); [|reflexivity].
      exists a, a, j. split; [apply (agree_bf k a s); [apply bf_anchor|exact A]|].
      split; [apply active_anchor_ok; exact Hok|]. split; [lia|]. split; [exact Ea|]. split; [exact Hjm|].
      split; [rewrite built_anchor; exact Hb|]. right. split; [exact Eanch|reflexivity].
    - assert (Hj : (j < m)%nat) by (apply blen_lt_m; lia).
      pose proof (sig_ready k s lo a A ltac:(lia) Hact) as Hr.
      destruct (Nat.lt_ge_cases (a + List.length (frame j)) k) as [Hlt|Hge].
      + destruct (sig_built false k lo a j s Hr Hok Ea Hj Hlt Hb) as [Hs _].
        apply (Hpop _ Hs eq_refl).
      + pose proof (build_idle k lo a j s Hr Ea Hj Hge) as Ei.
        destruct (ready_s2 k lo a s Hr) as (E1 & Ebf & Ebuilt & Eact).
        apply (Hpop (extend (anchor s))); [|rewrite Ei; reflexivity].
        exists lo, a, j. split; [apply (agree_bf k lo s); assumption|].
        split; [apply active_extend_ok, active_anchor_ok; exact Hok|]. split; [lia|]. split; [exact Ea|].
        split; [exact Hjm|]. split; [rewrite Ebuilt; exact Hb|]. left. exists k. split; [lia|exact Eact].
  Qed.

  (* ---------- the purge loop ---------- *)
  Hypothesis Hts0 : c_maxLateTs c = 0.
  Hypothesis Hfit : forall j, (j < m)%nat -> N.of_nat (List.length (frame j)) <= c_maxLate c.

  Lemma count_agree : forall k lo s, agree k lo s -> (lo < k)%nat -> l_count (filled s) = N.of_nat (k - lo).
  Proof.
    intros k lo s A Hlt. pose proof n_short. pose proof (ag_le _ _ _ A).
    rewrite (ag_fill _ _ _ A Hlt). unfold l_count. cbn [l_head l_tail].
    destruct (seqnumDistance_spec (sq lo) (sq k) (sqn_lt _ _) (sqn_lt _ _)) as (E & _). rewrite E.
    rewrite (sqn_sub h lo k) by lia. unfold sqn. rewrite sub16_spec, !w16_spec. lia.
  Qed.

  Lemma blen_eq_n : forall j, (j <= m)%nat -> blen j = n -> j = m.
  Proof.
    intros j Hj E. destruct (Nat.eq_dec j m) as [|N]; [assumption|exfalso].
    assert (Hjm : (j < m)%nat) by lia.
    pose proof (blen_S' j Hjm). pose proof (frame_nonempty' j Hjm). pose proof (blen_le_n' (Datatypes.S j)). lia.
  Qed.

  (* frames all built, no partition head left in the buffer: nothing more can be built *)
  Definition omega (s : st) : Prop :=
    locs_ok s /\ map s_pkts (rev (built s)) = fs /\
    (forall key p, In (key, p) (buf s) -> is_head (p_payload p) = false).

  Lemma nohead_build : forall purging s, locs_ok s ->
    (forall key p, In (key, p) (buf s) -> is_head (p_payload p) = false) ->
    built (fst (buildSample purging s)) = built s.
  Proof.
    intros purging s Hok Hno.
    destruct (build_effect is_head is_tail unmarshal c purging s) as [[(Hb & _) _]|(x & Hx & _)]; [exact Hb|exfalso].
    pose proof (active_extend_ok _ (active_anchor_ok s Hok)) as Hok2.
    destruct (buildSample_bcase is_head is_tail unmarshal c purging s) as [E1'|consume E1' Esc'|consume E1' Esc' Hw|consume r E1' Esc' Ece' Hw' Hrun];
      cbn [snd] in Hx; try discriminate Hx.
    destruct (run_facts is_tail _ consume (proj2 Hok2) Esc' Ece') as (k0 & _ & _ & Hcok & Hch & _).
    destruct Hrun; cbn [snd] in Hx; try discriminate Hx.
    destruct (collected_keys _ consume col (hp :: rest) (proj1 Hcok) H H0) as (_ & Hnth).
    specialize (Hnth 0%nat hp eq_refl).
    assert (Hin : In (w16 (l_head consume + N.of_nat 0), hp) (buf s)).
    { pose proof (bf_extend (anchor s)) as E1. pose proof (bf_anchor s) as E0. unfold bf in E1, E0.
      injection E1 as E1 _. injection E0 as E0 _. rewrite <- E0, <- E1. exact Hnth. }
    rewrite (Hno _ _ Hin) in H1. discriminate H1.
  Qed.

  Lemma omega_purge_body : forall s, omega s -> omega (purge_body s).
  Proof.
    intros s (Hok & Hb & Hno). pose proof (rel_purge_body is_head is_tail unmarshal c s) as R.
    split; [apply (r_ok _ _ _ _ _ R); exact Hok|]. split.
    - assert (Ha : built (fst (buildSample true (anchor s))) = built s).
      { rewrite nohead_build; [apply built_anchor|apply active_anchor_ok; exact Hok|].
        intros key p Hin. apply (Hno key p). pose proof (bf_anchor s) as E0. unfold bf in E0. injection E0 as E0 _.
        rewrite <- E0. exact Hin. }
      destruct (purge_body_pcase is_head is_tail unmarshal c s) as [x Hc Hs|Hc Hs|Hc].
      + rewrite Ha. exact Hb.
      + destruct (same3_release_filled_head (SampleBuilderCases.skipped (fst (buildSample true (anchor s))))) as (_ & _ & ->).
        cbn [SampleBuilderCases.skipped set_dropped log_ev set_active built]. rewrite Ha. exact Hb.
      + destruct (same3_release_filled_head (anchor s)) as (_ & _ & ->). rewrite built_anchor. exact Hb.
    - intros key p Hin. apply (Hno key p). apply (r_buf _ _ _ _ _ R). exact Hin.
  Qed.

  (* one iteration from a state of the invariant: either the invariant again, or (only when the
     last frame was force-built) everything is built *)
  Lemma sig_purge_body : forall fl K s, sig K s -> purge_cond c fl s = true ->
    (fl = true -> K = n) ->
    sig K (purge_body s) \/ (fl = true /\ omega (purge_body s)).
  Proof.
    intros fl K s (lo & a & j & A & Hok & Hla & Ea & Hjm & Hb & Hact) Hc HK.
    pose proof n_short. pose proof (ag_le _ _ _ A).
    unfold purge_cond, tooOld in Hc. rewrite Hts0 in Hc. cbn [N.eqb orb] in Hc.
    apply andb_true_iff in Hc. destruct Hc as [Hc Hd].
    assert (Hlt : (lo < K)%nat).
    { destruct (Nat.eq_dec lo K) as [E|]; [|lia]. exfalso.
      pose proof (ag_empty _ _ _ A E) as He. unfold l_hasData in Hd. unfold l_empty in He. rewrite He in Hd. discriminate Hd. }
    pose proof (count_agree K lo s A Hlt) as Hcount.
    pose proof (rel_purge_body is_head is_tail unmarshal c s) as R.
    assert (Hok' : locs_ok (purge_body s)) by (apply (r_ok _ _ _ _ _ R); exact Hok).
    (* the forced build when active.head = filled.head *)
    assert (Hbuild : a = lo -> forall s0, ready K lo a s0 -> locs_ok s0 -> built s0 = built s ->
              (sig K (fst (buildSample true s0)) \/ (fl = true /\ omega (fst (buildSample true s0)))) /\
              snd (buildSample true s0) <> None).
    { intros Ealo s0 Hr Hok0 Eb0.
      assert (Hj : (j < m)%nat) by (apply blen_lt_m; lia).
      assert (Hcomplete : (a + List.length (frame j) <= K)%nat).
      { destruct fl.
        - rewrite (HK eq_refl). rewrite Ea, <- blen_S' by exact Hj. apply blen_le_n'.
        - rewrite orb_false_r in Hc. apply N.ltb_lt in Hc. pose proof (Hfit j Hj). lia. }
      destruct (Nat.eq_dec (a + List.length (frame j)) K) as [Eend|Nend].
      - (* the last buffered frame: only under Flush, and it is the last frame of the stream *)
        destruct (build_frame true K lo a j s0 Hr Ea Hj Hcomplete (or_introl eq_refl)) as (x & lo' & Hs & Hx & Hbu & Hact' & A' & Hlo').
        split; [|rewrite Hs; discriminate]. right.
        assert (Efl : fl = true).
        { destruct fl; [reflexivity|]. rewrite orb_false_r in Hc. apply N.ltb_lt in Hc. pose proof (Hfit j Hj). lia. }
        split; [exact Efl|]. assert (EK : K = n) by (apply HK; exact Efl).
        split; [apply locs_build; exact Hok0|]. split.
        + assert (Ej : Datatypes.S j = m) by (apply blen_eq_n; [lia|rewrite blen_S' by exact Hj; lia]).
          rewrite (built_snoc s0 _ x j Hj); [rewrite Ej; apply firstn_all| |exact Hbu|exact Hx]. rewrite Eb0. exact Hb.
        + intros key p Hin. destruct (ag_dom _ _ _ A' key p Hin) as (i & Hi & _ & ->).
          destruct (frame_flags' j (i - a)%nat Hj ltac:(lia)) as (G & _).
          replace (blen j + (i - a))%nat with i in G by lia. rewrite G. apply Nat.eqb_neq. lia.
      - destruct (sig_built true K lo a j s0 Hr Hok0 Ea Hj ltac:(lia) ltac:(rewrite Eb0; exact Hb)) as [G1 G2].
        split; [left; exact G1|exact G2]. }
    destruct Hact as [(x & Hx & Hact)|[He Ealo]].
    - (* anchored window *)
      assert (Eanch : anchor s = s).
      { unfold anchor. rewrite Hact. unfold l_empty. cbn [l_head l_tail].
        replace (sq a =? sq x) with false; [reflexivity|]. symmetry. apply N.eqb_neq. intro E. apply sq_inj in E; lia. }
      destruct (Nat.eq_dec a lo) as [Ealo|Nalo].
      + destruct (Hbuild Ealo s (sig_ready K s lo a A ltac:(lia) (or_introl (ex_intro _ x (conj Hx Hact)))) Hok eq_refl) as [G1 G2].
        destruct (purge_body_pcase is_head is_tail unmarshal c s) as [y Hcc Hs|Hcc Hs|Hcc]; rewrite Eanch in *.
        * exact G1.
        * contradiction.
        * exfalso. rewrite Hact, (ag_fill _ _ _ A Hlt) in Hcc. unfold l_hasData in Hcc. cbn [l_head l_tail] in Hcc.
          rewrite Ealo, N.eqb_refl, andb_true_r in Hcc. apply negb_false_iff, N.eqb_eq in Hcc. apply sq_inj in Hcc; lia.
      + destruct (purge_body_pcase is_head is_tail unmarshal c s) as [y Hcc Hs|Hcc Hs|Hcc]; rewrite Eanch in *;
          try (exfalso; rewrite Hact, (ag_fill _ _ _ A Hlt) in Hcc; cbn [l_head] in Hcc;
               apply andb_true_iff in Hcc; destruct Hcc as [_ Hcc]; apply N.eqb_eq in Hcc; apply sq_inj in Hcc; lia).
        left. exists (Datatypes.S lo), a, j. split; [apply agree_release; assumption|].
        split; [apply (r_ok _ _ _ _ _ (rel_release_filled_head is_head is_tail unmarshal s)); exact Hok|].
        split; [lia|]. split; [exact Ea|]. split; [exact Hjm|].
        destruct (same3_release_filled_head s) as (_ & _ & Eb'). split; [rewrite Eb'; exact Hb|].
        left. exists x. split; [exact Hx|].
        unfold release_filled_head, releasePacket. destruct (bget _ _); exact Hact.
    - (* the window is empty: it is re-anchored on filled, active.head = filled.head *)
      assert (Eact1 : active (anchor s) = mkLoc (sq lo) (sq K)).
      { unfold anchor. rewrite He. cbn [log_ev set_active active]. apply (ag_fill _ _ _ A Hlt). }
      assert (A1 : agree K lo (anchor s)) by (apply (agree_bf K lo s); [apply bf_anchor|exact A]).
      assert (Hr1 : ready K lo a (anchor s)).
      { apply sig_ready; [exact A1|lia|]. left. exists K. split; [lia|]. rewrite Ealo. exact Eact1. }
      destruct (Hbuild Ealo (anchor s) Hr1 (active_anchor_ok s Hok) (built_anchor s)) as [G1 G2].
      destruct (purge_body_pcase is_head is_tail unmarshal c s) as [y Hcc Hs|Hcc Hs|Hcc].
      + exact G1.
      + contradiction.
      + exfalso. pose proof (bf_anchor s) as E0. unfold bf in E0. injection E0 as _ E0.
        rewrite Eact1, E0, (ag_fill _ _ _ A Hlt) in Hcc. unfold l_hasData in Hcc. cbn [l_head l_tail] in Hcc.
        rewrite N.eqb_refl, andb_true_r in Hcc. apply negb_false_iff, N.eqb_eq in Hcc. apply sq_inj in Hcc; lia.
  Qed.

  (* ---------- the whole purge ---------- *)
  Lemma sig_pcb : forall K s, sig K s -> sig K (purgeConsumedBuffers s).
  Proof.
    intros K s (lo & a & j & A & Hok & Hla & Ea & Hjm & Hb & Hact).
    pose proof n_short. pose proof (ag_le _ _ _ A).
    unfold purgeConsumedBuffers.
    destruct Hact as [(x & Hx & Hact)|[He Ealo]].
    - destruct (Nat.eq_dec lo K) as [ElK|NlK].
      + rewrite pcl_empty_filled by (apply (ag_empty _ _ _ A); exact ElK).
        exists lo, a, j. repeat (split; [assumption|]). left. exists x. split; assumption.
      + rewrite Hact, (pcl_agree K lo s a x false A) by lia.
        rewrite andb_false_r, orb_false_r.
        destruct ((lo <? a)%nat && (a <? x)%nat) eqn:E.
        * apply andb_true_iff in E. destruct E as [E _]. apply Nat.ltb_lt in E.
          exists (Datatypes.S lo), a, j. split; [apply agree_release; [exact A|lia]|].
          split; [apply (r_ok _ _ _ _ _ (rel_release_filled_head is_head is_tail unmarshal s)); exact Hok|].
          split; [lia|]. split; [exact Ea|]. split; [exact Hjm|].
          destruct (same3_release_filled_head s) as (_ & _ & Eb'). split; [rewrite Eb'; exact Hb|].
          left. exists x. split; [exact Hx|]. unfold release_filled_head, releasePacket. destruct (bget _ _); exact Hact.
        * exists lo, a, j. repeat (split; [assumption|]). left. exists x. split; assumption.
    - rewrite pcl_void by exact He. exists lo, a, j. repeat (split; [assumption|]). right. split; assumption.
  Qed.

  Definition phi (fl : bool) (K : nat) (s : st) : Prop := sig K s \/ (fl = true /\ omega s).

  Lemma phi_step : forall fl K s, (fl = true -> K = n) -> phi fl K s -> phi fl K (fst (purge_step fl s)).
  Proof.
    intros fl K s HK [Hs|[Hfl Ho]]; unfold SampleBuilder.purge_step; destruct (purge_cond c fl s) eqn:Ec; cbn [fst].
    - apply (sig_purge_body fl K s Hs Ec HK).
    - left. exact Hs.
    - right. split; [exact Hfl|apply omega_purge_body; exact Ho].
    - right. split; assumption.
  Qed.

  Lemma phi_purgeBuffers : forall fl K s, (fl = true -> K = n) -> sig K s ->
    phi fl K (purgeBuffers fl s) /\
    (fl = true -> l_hasData (filled (purgeBuffers fl s)) = false).
  Proof.
    intros fl K s HK Hs. unfold SampleBuilder.purgeBuffers.
    set (s1 := purgeConsumedBuffers s).
    assert (H1 : phi fl K s1) by (left; apply sig_pcb; exact Hs).
    assert (Hok1 : locs_ok s1) by (destruct (sig_pcb K s Hs) as (lo & a & j & _ & Hok & _); exact Hok).
    pose proof (purge_fuel is_head is_tail unmarshal c fl s1 Hok1) as Hfuel. rewrite Hfuel.
    rewrite iter_pos_nat in *.
    destruct (iter_nat_stop (phi fl K) (purge_step fl) (fun x => phi_step fl K x HK) _ s1 H1 Hfuel) as (s' & Hs' & Es').
    unfold SampleBuilder.purge_step in Es' at 1. destruct (purge_cond c fl s') eqn:Ec; [discriminate Es'|].
    injection Es' as Es'. rewrite <- Es'. split; [exact Hs'|].
    intros ->. unfold purge_cond in Ec. rewrite orb_true_r in Ec. cbn [andb] in Ec. exact Ec.
  Qed.

  (* ---------- Push of the next packet of the stream ---------- *)
  Lemma sig_push : forall k s, sig k s -> (k < n)%nat -> sig (Datatypes.S k) (push (pk k) s).
  Proof.
    intros k s (lo & a & j & A & Hok & Hla & Ea & Hjm & Hb & Hact) Hk.
    pose proof n_short. pose proof (ag_le _ _ _ A).
    unfold SampleBuilder.push. rewrite (pk_seq' k Hk).
    set (s1 := set_buf s (bset (sq k) (pk k) (buf s))).
    set (s2 := match compare (filled s1) (sq k) with CVoid => _ | CBefore => _ | CInside => _ | CAfter => _ end).
    assert (Ef2 : filled s2 = mkLoc (sq lo) (sq (Datatypes.S k)) /\ buf s2 = buf s1 /\ active s2 = active s /\ built s2 = built s /\ fault s2 = fault s).
    { subst s2. change (filled s1) with (filled s).
      destruct (Nat.eq_dec lo k) as [Elk|Nlk].
      - pose proof (ag_empty _ _ _ A Elk) as He. unfold compare. unfold l_empty in He. rewrite He.
        cbn [set_filled filled buf active built fault]. rewrite sqn_inc, Elk. repeat split.
      - rewrite (ag_fill _ _ _ A) by lia. rewrite (compare_sqn h lo k k) by lia.
        replace (k <? lo)%nat with false by (symmetry; apply Nat.ltb_ge; lia). rewrite Nat.ltb_irrefl.
        cbn [set_filled filled buf active built fault l_head]. rewrite sqn_inc. repeat split. }
    destruct Ef2 as (Ef2 & Eb2 & Ea2 & Ebu2 & Efa2).
    assert (A2 : agree (Datatypes.S k) lo s2).
    { constructor.
      - lia.
      - intros i Hi. rewrite Eb2. subst s1. cbn [set_buf buf].
        destruct (Nat.eq_dec i k) as [->|Nik]; [apply bget_bset_same|].
        rewrite bget_bset_other; [apply (ag_get _ _ _ A); lia|]. intro E. apply sq_inj in E; lia.
      - intros key p Hin. rewrite Eb2 in Hin. subst s1. cbn [set_buf buf bset] in Hin. destruct Hin as [E|Hin].
        + injection E as <- <-. exists k. split; [lia|split; reflexivity].
        + apply In_bdel in Hin. destruct (ag_dom _ _ _ A key p (proj1 Hin)) as (i & Hi & G). exists i. split; [lia|exact G].
      - intros _. exact Ef2.
      - lia. }
    assert (Hok2 : locs_ok s2).
    { destruct Hok as [Hf Ha]. split; [rewrite Ef2; split; apply sqn_lt|rewrite Ea2; exact Ha]. }
    assert (S2 : sig (Datatypes.S k) s2).
    { exists lo, a, j. split; [exact A2|]. split; [exact Hok2|]. split; [lia|]. split; [exact Ea|]. split; [exact Hjm|].
      split; [rewrite Ebu2; exact Hb|]. rewrite Ea2. destruct Hact as [(x & Hx & Hact)|Hact]; [left; exists x; split; [lia|exact Hact]|right; exact Hact]. }
    destruct (phi_purgeBuffers false (Datatypes.S k) s2 ltac:(discriminate) S2) as [[G|[G _]] _]; [exact G|discriminate G].
  Qed.

  (* ---------- Flush at the end of the stream ---------- *)
  Lemma omega_flush : forall s, sig n s -> omega (flush s).
  Proof.
    intros s Hs. unfold SampleBuilder.flush.
    destruct (phi_purgeBuffers true n s (fun _ => eq_refl) Hs) as [[G|[_ G]] Hd]; [|exact G].
    specialize (Hd eq_refl). destruct G as (lo & a & j & A & Hok & Hla & Ea & Hjm & Hb & Hact).
    pose proof (ag_le _ _ _ A).
    assert (Elo : lo = n).
    { destruct (Nat.eq_dec lo n) as [|N]; [assumption|exfalso].
      rewrite (agree_hasData n lo _ A) in Hd by lia. discriminate Hd. }
    split; [exact Hok|]. split.
    - assert (Ej : j = m) by (apply blen_eq_n; [exact Hjm|lia]). rewrite Hb, Ej. apply firstn_all.
    - intros key p Hin. destruct (ag_dom _ _ _ A key p Hin) as (i & Hi & _). lia.
  Qed.

  Lemma omega_pop : forall s, omega s -> omega (fst (pop s)) /\ built (fst (pop s)) = built s.
  Proof.
    intros s (Hok & Hb & Hno). unfold SampleBuilder.pop.
    pose proof (proj1 (buildSample_rel is_head is_tail unmarshal c false s)) as R.
    pose proof (nohead_build false s Hok Hno) as Eb.
    set (s1 := fst (buildSample false s)) in *.
    assert (O1 : omega s1).
    { split; [apply (r_ok _ _ _ _ _ R); exact Hok|]. split; [rewrite Eb; exact Hb|].
      intros key p Hin. apply (Hno key p). apply (r_buf _ _ _ _ _ R). exact Hin. }
    destruct (l_empty (prepared s1)); cbn [fst]; [split; [exact O1|exact Eb]|].
    split; [|exact Eb]. destruct O1 as (H1 & H2 & H3). split; [exact H1|]. split; [exact H2|exact H3].
  Qed.

  (* ---------- histories ---------- *)
  Definition foldF := (fun (acc : st * list sample) (o : op) =>
                 let r := step (fst acc) o in
                 (fst r, match snd r with Some x => snd acc ++ [x] | None => snd acc end)).

  Lemma skipn_cons_nth : forall {A} (l : list A) k p t d, skipn k l = p :: t ->
    (k < List.length l)%nat /\ p = nth k l d /\ t = skipn (Datatypes.S k) l.
  Proof.
    intros A l. induction l as [|a l IH]; intros k p t d H.
    - destruct k; discriminate H.
    - destruct k as [|k].
      + cbn in H. injection H as <- <-. cbn. split; [lia|split; reflexivity].
      + cbn [skipn] in H. destruct (IH k p t d H) as (H1 & H2 & H3). cbn [List.length nth]. split; [lia|split; assumption].
  Qed.

  Lemma sig_ops : forall ops k s outs, sig k s -> pushed_of ops = skipn k (concat fs) ->
    (forall o, In o ops -> o <> OFlush) ->
    sig n (fst (fold_left foldF ops (s, outs))).
  Proof.
    induction ops as [|o ops IH]; intros k s outs Hs Hp Hnf; cbn [fold_left].
    - cbn [fst]. cbn in Hp. destruct Hs as (lo & a & j & A & Hrest). pose proof (ag_le _ _ _ A) as Hle.
      assert (k = n).
      { destruct (Nat.eq_dec k n) as [|N]; [assumption|exfalso].
        assert (Hlen : List.length (skipn k (concat fs)) = (n - k)%nat) by apply skipn_length.
        rewrite <- Hp in Hlen. cbn in Hlen. lia. }
      subst k. exists lo, a, j. split; assumption.
    - destruct o as [p| |]; unfold foldF at 2; cbn [SampleBuilder.step fst snd].
      + change (pushed_of (OPush p :: ops)) with (p :: pushed_of ops) in Hp. symmetry in Hp.
        destruct (skipn_cons_nth _ _ _ _ dummy Hp) as (Hk & Ep & Et).
        apply (IH (Datatypes.S k)).
        * subst p. apply sig_push; assumption.
        * exact Et.
        * intros o Ho. apply Hnf. right. exact Ho.
      + apply (IH k); [apply sig_pop; exact Hs|exact Hp|intros o Ho; apply Hnf; right; exact Ho].
      + exfalso. apply (Hnf OFlush); [left; reflexivity|reflexivity].
  Qed.

  Lemma sig_st0 : sig 0 st0.
  Proof.
    exists 0%nat, 0%nat, 0%nat. split.
    - constructor; cbn; try lia; try (intros; contradiction); try (intros; reflexivity).
    - split; [split; split; cbn; lia|]. split; [lia|]. split; [reflexivity|]. split; [lia|].
      split; [reflexivity|]. right. split; reflexivity.
  Qed.

  (* the final Pops hand out what is pending, one sample each *)
  Lemma pop_pending : forall s outs, omega s -> qinv s outs -> few s ->
    (List.length outs < List.length (built s))%nat -> snd (pop s) <> None.
  Proof.
    intros s outs Ho Q Hf Hlen. unfold SampleBuilder.pop.
    destruct (omega_pop s Ho) as [_ Eb]. unfold SampleBuilder.pop in Eb.
    pose proof (nohead_build false s (proj1 Ho) (proj2 (proj2 Ho))) as Eb1.
    set (s1 := fst (buildSample false s)) in *.
    assert (Q1 : qinv s1 outs) by (eapply qinv_eff; [apply eff_buildSample|exact Q]).
    assert (Hf1 : few s1) by (unfold few in *; rewrite Eb1; exact Hf).
    destruct (Q1 Hf1) as (pend & E & Hh0 & Ht & Hl).
    pose proof (pend_short s1 outs pend Hf1 E) as Hp.
    assert (Hpl : (0 < List.length pend)%nat).
    { apply (f_equal (@List.length _)) in E. rewrite rev_length, app_length, Eb1 in E. lia. }
    destruct pend as [|x pend]; [cbn in Hpl; lia|].
    assert (Ene : l_empty (prepared s1) = false).
    { unfold l_empty. apply N.eqb_neq. rewrite Ht. cbn [List.length] in *. rewrite w16_spec. lia. }
    rewrite Ene. cbn [snd].
    specialize (Hl 0%nat x eq_refl). rewrite w16_small in Hl by lia.
    replace (l_head (prepared s1) + N.of_nat 0) with (l_head (prepared s1)) in Hl by lia.
    rewrite Hl. discriminate.
  Qed.

  Lemma pops_drain : forall t s outs, omega s -> qinv s outs -> few s ->
    omega (fst (fold_left foldF (repeat OPop t) (s, outs))) /\
    built (fst (fold_left foldF (repeat OPop t) (s, outs))) = built s /\
    qinv (fst (fold_left foldF (repeat OPop t) (s, outs))) (snd (fold_left foldF (repeat OPop t) (s, outs))) /\
    (Nat.min (List.length outs + t) (List.length (built s)) <= List.length (snd (fold_left foldF (repeat OPop t) (s, outs))))%nat.
  Proof.
    induction t as [|t IH]; intros s outs Ho Q Hf; cbn [repeat fold_left].
    - cbn [fst snd]. split; [exact Ho|]. split; [reflexivity|]. split; [exact Q|lia].
    - change (foldF (s, outs) OPop) with (fst (pop s), match snd (pop s) with Some x => outs ++ [x] | None => outs end).
      destruct (omega_pop s Ho) as [Ho' Eb'].
      pose proof (qinv_pop is_head is_tail unmarshal c s outs Q) as Q'.
      assert (Hf' : few (fst (pop s))) by (unfold few in *; rewrite Eb'; exact Hf).
      set (outs' := match snd (pop s) with Some x => outs ++ [x] | None => outs end) in *.
      destruct (IH (fst (pop s)) outs' Ho' Q' Hf') as (G1 & G2 & G3 & G4).
      split; [exact G1|]. split; [rewrite G2; exact Eb'|]. split; [exact G3|].
      rewrite Eb' in G4.
      assert (Hstep : (Nat.min (List.length outs + 1) (List.length (built s)) <= List.length outs')%nat).
      { destruct (Nat.lt_ge_cases (List.length outs) (List.length (built s))) as [Hlt|Hge].
        - pose proof (pop_pending s outs Ho Q Hf Hlt) as Hne. subst outs'.
          destruct (snd (pop s)); [rewrite app_length; cbn; lia|contradiction].
        - subst outs'. destruct (snd (pop s)); [rewrite app_length; cbn; lia|lia]. }
      lia.
  Qed.

  Lemma m_le_n : (m <= n)%nat.
  Proof.
    assert (G : forall j, (j <= m)%nat -> (j <= blen j)%nat).
    { induction j as [|j IH]; intro Hj; [lia|]. rewrite blen_S' by lia. pose proof (frame_nonempty' j ltac:(lia)). specialize (IH ltac:(lia)). lia. }
    specialize (G m (le_n _)). rewrite (blen_all fs) in G. exact G.
  Qed.

  Theorem complete_inorder_run : forall ops, pushed_of ops = concat fs ->
    (forall o, In o ops -> o <> OFlush) ->
    all_frames_emitted fs (snd (run (ops ++ OFlush :: repeat OPop m))).
  Proof.
    intros ops Hp Hnf.
    assert (Erun : forall ops0, run ops0 = fold_left foldF ops0 (st0, [])) by reflexivity.
    rewrite Erun, fold_left_app.
    remember (fold_left foldF ops (st0, [])) as X eqn:E1. symmetry in E1.
    change (fold_left foldF (OFlush :: repeat OPop m) X) with (fold_left foldF (repeat OPop m) (foldF X OFlush)).
    destruct X as [s1 outs1].
    assert (S1 : sig n s1).
    { pose proof (sig_ops ops 0%nat st0 [] sig_st0 Hp Hnf) as G. rewrite E1 in G. exact G. }
    assert (Q1 : qinv s1 outs1).
    { pose proof (fifo is_head is_tail unmarshal c ops st0 [] qinv_st0) as G.
      change (qinv (fst (fold_left foldF ops (st0, []))) (snd (fold_left foldF ops (st0, [])))) in G.
      rewrite E1 in G. exact G. }
    change (foldF (s1, outs1) OFlush) with (flush s1, outs1).
    pose proof (omega_flush s1 S1) as O2.
    assert (Q2 : qinv (flush s1) outs1) by (apply qinv_purgeBuffers; exact Q1).
    assert (Hlen : List.length (built (flush s1)) = m).
    { destruct O2 as (_ & Hb & _). apply (f_equal (@List.length _)) in Hb. rewrite map_length, rev_length in Hb. exact Hb. }
    assert (Hf2 : few (flush s1)).
    { unfold few. rewrite Hlen. pose proof m_le_n. pose proof n_short. lia. }
    destruct (pops_drain m (flush s1) outs1 O2 Q2 Hf2) as (O3 & Eb3 & Q3 & Hcount).
    set (r := fold_left foldF (repeat OPop m) (flush s1, outs1)) in *.
    assert (Hf3 : few (fst r)) by (unfold few in *; rewrite Eb3; exact Hf2).
    destruct (Q3 Hf3) as (pend & E & _).
    assert (Hpend : pend = []).
    { apply (f_equal (@List.length _)) in E. rewrite rev_length, app_length, Eb3, Hlen in E.
      rewrite Hlen in Hcount. destruct pend; [reflexivity|cbn in E; lia]. }
    subst pend. rewrite app_nil_r in E.
    destruct O3 as (_ & Hb3 & _). rewrite E in Hb3.
    intros f Hf. rewrite <- Hb3 in Hf. apply in_map_iff in Hf. destruct Hf as (x & Hx & Hin).
    exists x. split; [exact Hin|exact Hx].
  Qed.
End Inorder.

(* delivery without displacement is delivery in stream order *)
Lemma delivers0_eq : forall fs ops, delivers 0 fs ops -> pushed_of ops = concat fs.
Proof.
  intros fs ops (Hperm & Hd & _).
  pose proof (Permutation_length Hperm) as Hlen.
  apply list_eq_nth_error. intro j.
  destruct (nth_error (pushed_of ops) j) as [p|] eqn:E.
  - assert (Hin : In p (concat fs)) by (apply (Permutation_in _ Hperm); eapply nth_error_In; exact E).
    apply In_nth_error in Hin. destruct Hin as (i & Hi). destruct (Hd i j p Hi E) as [H1 H2].
    assert (i = j) by lia. subst i. symmetry. exact Hi.
  - symmetry. apply nth_error_None. apply nth_error_None in E. lia.
Qed.

Theorem complete_inorder : forall is_head is_tail unmarshal c fs ops,
  stream_ok is_head is_tail fs -> delivers 0 fs ops ->
  c_maxLateTs c = 0 ->
  (forall f, In f fs -> N.of_nat (List.length f) <= c_maxLate c) ->
  (forall p, In p (concat fs) -> unmarshal (p_payload p) <> None) ->
  all_frames_emitted fs
    (snd (run is_head is_tail unmarshal c (ops ++ OFlush :: repeat OPop (List.length fs)))).
Proof.
  intros is_head is_tail unmarshal c fs ops (Hfr & _ & (h & Hh & Hseq) & Hshort & _) Hd Hts Hfit Hunm.
  apply (complete_inorder_run is_head is_tail unmarshal c fs h Hh Hfr Hseq Hshort Hunm Hts).
  - intros j Hj. apply Hfit. apply nth_In. exact Hj.
  - apply delivers0_eq. exact Hd.
  - apply Hd.
Qed.
