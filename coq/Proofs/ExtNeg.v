(* C10, negotiated branch: when the remote description uses extmap ids within
   1..14 and pairs ids and URIs one-to-one across its sections, the extmap
   lines of every section have distinct ids within 1..14 and each URI once. *)
From Coq Require Import List ZArith NArith String Bool Lia Sorted.
Import ListNotations.
From Verif Require Import Common.Base Model.Codec Model.HeaderExt Model.Section Proofs.Section.
Open Scope string_scope.
Open Scope list_scope.

(* ---------- id_set keeps the map sorted by id ---------- *)

Definition keys_sorted (m : idmap) : Prop := StronglySorted Z.lt (map fst m).

Lemma id_set_in : forall id h m i h',
  In (i, h') (id_set id h m) -> (i = id /\ h' = h) \/ In (i, h') m.
Proof.
  induction m as [|[j hj] t IH]; intros i h' H; cbn in H.
  - destruct H as [H|[]]. inversion H. now left.
  - destruct (Z.eqb j id).
    + destruct H as [H|H]; [inversion H; now left|right; now right].
    + destruct (Z.ltb id j).
      * destruct H as [H|H]; [inversion H; now left|now right].
      * destruct H as [H|H]; [right; now left|].
        destruct (IH _ _ H) as [Hl|Hr]; [now left|right; now right].
Qed.

Lemma id_set_keys : forall id h m i,
  In i (map fst (id_set id h m)) -> i = id \/ In i (map fst m).
Proof.
  intros id h m i H. apply in_map_iff in H. destruct H as [[j hj] [<- Hin]]. cbn [fst].
  destruct (id_set_in _ _ _ _ _ Hin) as [[-> _]|Hm]; [now left|right].
  apply in_map_iff. exists (j, hj). auto.
Qed.

Lemma id_set_sorted : forall id h m, keys_sorted m -> keys_sorted (id_set id h m).
Proof.
  unfold keys_sorted. induction m as [|[j hj] t IH]; intros H; cbn.
  - constructor; constructor.
  - cbn [map fst] in H. inversion H as [|x xs Hs Hall]; subst.
    destruct (Z.eqb j id) eqn:He.
    + apply Z.eqb_eq in He. subst j. cbn [map fst]. constructor; assumption.
    + destruct (Z.ltb id j) eqn:Hl.
      * apply Z.ltb_lt in Hl. cbn [map fst]. constructor; [exact H|].
        constructor; [assumption|]. eapply Forall_impl; [|exact Hall]. intros a Ha. cbn in Ha. lia.
      * apply Z.ltb_ge in Hl. apply Z.eqb_neq in He. cbn [map fst]. constructor; [now apply IH|].
        apply Forall_forall. intros a Ha. apply id_set_keys in Ha. destruct Ha as [->|Ha]; [lia|].
        rewrite Forall_forall in Hall. now apply Hall.
Qed.

Lemma sorted_nodup : forall l, StronglySorted Z.lt l -> NoDup l.
Proof.
  induction l as [|a t IH]; intros H; [constructor|].
  inversion H as [|x xs Hs Hall]; subst. constructor; [|now apply IH].
  intros Hin. rewrite Forall_forall in Hall. specialize (Hall a Hin). lia.
Qed.

Lemma id_lookup_in : forall id m h, id_lookup id m = Some h -> In (id, h) m.
Proof.
  induction m as [|[j hj] t IH]; intros h H; [discriminate|]. cbn in H.
  destruct (Z.eqb j id) eqn:He; [apply Z.eqb_eq in He; inversion H; subst; now left|right; now apply IH].
Qed.

(* ---------- every entry of the negotiated map is an (id, uri) pair of the remote ---------- *)

Section Pairs.
  Variable pairs : list (Z * string).   (* every extmap line of the remote description *)

  Definition map_ok (m : idmap) : Prop :=
    keys_sorted m /\ forall i h, In (i, h) m -> In (i, h_uri h) pairs.

  Definition x_ok (x : xstate) : Prop := map_ok (neg_of x).

  Lemma update_ext_ok : forall x id uri k,
    x_ok x -> In (id, uri) pairs -> x_ok (update_ext x id uri k).
  Proof.
    intros x id uri k Hx Hp. unfold update_ext.
    destruct (x_neg x) as [m0|] eqn:Hn; [|exact Hx].
    unfold x_ok, neg_of in *. rewrite Hn in Hx. cbn [x_neg].
    clear Hn. generalize dependent m0. induction (x_ext x) as [|loc t IH]; intros m0 Hm; [exact Hm|].
    cbn [fold_left]. apply IH.
    destruct (String.eqb (h_uri loc) uri); [|exact Hm].
    destruct Hm as [Hs Hin].
    set (h0 := match id_lookup id m0 with Some existing => existing | None => mkHext uri false false (h_dirs loc) end).
    assert (Hh0 : In (id, h_uri h0) pairs).
    { unfold h0. destruct (id_lookup id m0) as [ex|] eqn:Hl; [|exact Hp].
      apply Hin. now apply id_lookup_in. }
    match goal with |- map_ok (id_set id ?hh m0) => set (h1 := hh) end.
    assert (Hh1 : h_uri h1 = h_uri h0).
    { unfold h1. destruct (h_audio loc && kind_eqb k KAudio); [reflexivity|].
      destruct (h_video loc && kind_eqb k KVideo); reflexivity. }
    split; [now apply id_set_sorted|].
    intros i h Hih. destruct (id_set_in _ _ _ _ _ Hih) as [[-> ->]|Hold]; [now rewrite Hh1|now apply Hin].
  Qed.

  Lemma uri_set_in : forall uri id l u i,
    In (u, i) (uri_set uri id l) -> (u = uri /\ i = id) \/ In (u, i) l.
  Proof.
    induction l as [|[u0 i0] t IH]; intros u i H; cbn in H.
    - destruct H as [H|[]]. inversion H. now left.
    - destruct (String.eqb u0 uri).
      + destruct H as [H|H]; [inversion H; now left|right; now right].
      + destruct H as [H|H]; [right; now left|].
        destruct (IH _ _ H); [now left|right; now right].
  Qed.

  Lemma ext_map_of_in : forall exts u i, In (u, i) (ext_map_of exts) -> In (i, u) exts.
  Proof.
    intros exts. unfold ext_map_of.
    assert (G : forall acc u i,
              In (u, i) (fold_left (fun acc e => uri_set (snd e) (fst e) acc) exts acc) ->
              In (u, i) acc \/ In (i, u) exts).
    { induction exts as [|[i0 u0] t IH]; intros acc u i H; [now left|].
      cbn [fold_left fst snd] in H. destruct (IH _ _ _ H) as [Ha|Ht]; [|right; now right].
      destruct (uri_set_in _ _ _ _ _ Ha) as [[-> ->]|Ho]; [right; now left|now left]. }
    intros u i H. destruct (G [] u i H) as [[]|Hr]. exact Hr.
  Qed.

  Lemma update_ext_fold_ok : forall k l x0,
    x_ok x0 -> (forall u i, In (u, i) l -> In (i, u) pairs) ->
    x_ok (fold_left (fun x1 (ui : string * Z) => update_ext x1 (snd ui) (fst ui) k) l x0).
  Proof.
    induction l as [|[u i] t IH]; intros x0 H0 Hl; [exact H0|].
    cbn [fold_left fst snd]. apply IH.
    - apply update_ext_ok; [exact H0|apply Hl; now left].
    - intros u' i' H'. apply Hl. now right.
  Qed.

  Lemma update_ext_section_ok : forall x k exts,
    x_ok x -> (forall p, In p exts -> In p pairs) -> x_ok (update_ext_section x k exts).
  Proof.
    intros x k exts Hx Hsub. unfold update_ext_section.
    destruct k; [exact Hx| |]; apply update_ext_fold_ok; try exact Hx;
      intros u i Hui; apply Hsub; now apply ext_map_of_in.
  Qed.
End Pairs.

(* registrations leave the negotiated map empty *)
Lemma x_ok_registered : forall pairs regs, x_ok pairs (registered regs).
Proof.
  intros pairs regs. unfold x_ok. destruct (registered_ok regs) as [_ Hn]. rewrite Hn.
  split; [constructor|intros i h []].
Qed.

Definition all_pairs (secs : list rsec_x) : list (Z * string) := flat_map rs_exts secs.

Lemma update_remote_x_ok : forall pairs secs e x e' x' r,
  (forall p, In p (all_pairs secs) -> In p pairs) ->
  x_ok pairs x -> update_remote_x e x secs = (e', x', r) -> x_ok pairs x'.
Proof.
  induction secs as [|s t IH]; intros e x e' x' r Hsub Hx H.
  - cbn in H. inversion H; subst. exact Hx.
  - cbn [update_remote_x] in H.
    destruct (update_section e (rs_kind s, rs_codecs s)) as [[e1 do_ext] err].
    assert (Hx1 : x_ok pairs (if do_ext then update_ext_section x (rs_kind s) (rs_exts s) else x)).
    { destruct do_ext; [|exact Hx]. apply update_ext_section_ok; [exact Hx|].
      intros p Hp. apply Hsub. unfold all_pairs. cbn [flat_map]. apply in_or_app. now left. }
    destruct err.
    + inversion H; subst. exact Hx1.
    + apply (IH _ _ _ _ _ (fun p Hp => Hsub p ltac:(unfold all_pairs; cbn [flat_map]; apply in_or_app; now right)) Hx1 H).
Qed.

(* the guard on the remote description *)
Definition remote_exts_regular (pairs : list (Z * string)) : Prop :=
  (forall i u, In (i, u) pairs -> (1 <= i <= 14)%Z) /\
  (forall i u i' u', In (i, u) pairs -> In (i', u') pairs -> u = u' -> i = i').

Lemma nodup_map_inj : forall (A B : Type) (f : A -> B) (l : list A),
  NoDup l -> (forall a b, In a l -> In b l -> f a = f b -> a = b) -> NoDup (map f l).
Proof.
  induction l as [|a t IH]; intros Hnd Hinj; [constructor|]. cbn.
  inversion Hnd as [|x xs Hni Hnd']; subst. constructor.
  - intros Hin. apply in_map_iff in Hin. destruct Hin as [b [Hfb Hb]].
    assert (b = a) by (apply Hinj; [now right|now left|assumption]). subst. contradiction.
  - apply IH; [assumption|]. intros x y Hx Hy. apply Hinj; now right.
Qed.

Lemma nodup_filter_map : forall (A B : Type) (f : A -> B) (p : A -> bool) (l : list A),
  NoDup (map f l) -> NoDup (map f (filter p l)).
Proof.
  induction l as [|a t IH]; intros H; [constructor|]. cbn in *.
  inversion H as [|x xs Hni Hnd]; subst. destruct (p a); [|now apply IH].
  cbn. constructor; [|now apply IH]. intros Hin. apply Hni.
  apply in_map_iff in Hin. destruct Hin as [b [Hfb Hb]]. apply filter_In in Hb.
  apply in_map_iff. exists b. tauto.
Qed.

Lemma negotiated_ext_ids : forall regs secs e e' x' r k dirs rem,
  remote_exts_regular (all_pairs secs) ->
  update_remote_x e (registered regs) secs = (e', x', r) ->
  let l := filter_match rem (ext_params x' true k dirs) in
  NoDup (map fst l) /\ (forall iu, In iu l -> (1 <= fst iu <= 14)%Z) /\ NoDup (map snd l).
Proof.
  intros regs secs e e' x' r k dirs rem [Hrange Hfun] H l.
  pose proof (update_remote_x_ok (all_pairs secs) secs e (registered regs) e' x' r
                (fun p Hp => Hp) (x_ok_registered _ regs) H) as [Hs Hin].
  set (m := neg_of x') in *.
  assert (Hkeys : NoDup (map fst m)) by (now apply sorted_nodup).
  assert (Hm : NoDup m).
  { apply (NoDup_map_inv fst). exact Hkeys. }
  assert (Huris : NoDup (map (fun ih => h_uri (snd ih)) m)).
  { apply nodup_map_inj; [exact Hm|]. intros [i h] [i' h'] Ha Hb Hu. cbn [snd] in Hu.
    assert (Hii : i = i').
    { apply (Hfun i (h_uri h) i' (h_uri h')); [now apply Hin|now apply Hin|exact Hu]. }
    subst i'.
    (* same key in a list with distinct keys: same entry *)
    clear -Hkeys Ha Hb. induction m as [|[j hj] t IH]; [destruct Ha|].
    cbn [map fst] in Hkeys. inversion Hkeys as [|x xs Hni Hnd]; subst.
    destruct Ha as [Ha|Ha]; destruct Hb as [Hb|Hb].
    - congruence.
    - inversion Ha; subst. exfalso. apply Hni. apply in_map_iff. exists (i, h'). auto.
    - inversion Hb; subst. exfalso. apply Hni. apply in_map_iff. exists (i, h). auto.
    - now apply IH. }
  destruct (select_exts_nodup m k dirs) as [S1 S2].
  assert (Hl : forall iu, In iu l -> In iu (select_exts m k dirs)).
  { intros iu Hiu. unfold l, filter_match, ext_params in Hiu. destruct rem; [now apply filter_In in Hiu|exact Hiu]. }
  unfold l, ext_params. fold m.
  split; [|split].
  - unfold filter_match. destruct rem; [apply nodup_filter_map|]; now apply S1.
  - intros iu Hiu. apply Hl in Hiu. destruct (select_exts_in _ _ _ _ Hiu) as [h [Hm' Hu]].
    apply (Hrange (fst iu) (h_uri h)). now apply Hin.
  - unfold filter_match. destruct rem; [apply nodup_filter_map|]; now apply S2.
Qed.
