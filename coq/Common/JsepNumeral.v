(* strconv.Itoa / strconv.Atoi on Go's 64-bit int, as used for mids in
   peerconnection.go (CreateOffer's greaterMid bookkeeping and the data
   section's strconv.Itoa(len(mediaSections))).

   itoa : canonical decimal, "-" for negatives, "0" for zero.
   atoi : Go's acceptance: optional single leading '+' or '-', then one or
          more ASCII digits (leading zeros allowed, "-0" = 0), no underscores
          (base 10), value must fit int64; anything else is an error (None).
   The conversion between digit strings and numbers is the standard library's
   (DecimalString / DecimalZ); the correspondence suite "numeral" of C06
   compares both functions with strconv on generated strings. *)
From Coq Require Import ZArith NArith String Ascii Bool Lia.
From Coq Require Import DecimalString DecimalPos DecimalN DecimalZ.
Open Scope Z_scope.

Definition min_int : Z := -9223372036854775808.
Definition max_int : Z := 9223372036854775807.
Definition in_int (z : Z) : bool := (min_int <=? z) && (z <=? max_int).

(* Go's int arithmetic wraps modulo 2^64 (greaterMid++) *)
Definition wrap_int (z : Z) : Z := (z + 9223372036854775808) mod 18446744073709551616 - 9223372036854775808.

Definition itoa (z : Z) : string := NilZero.string_of_int (Z.to_int z).

Definition atoi_digits (s : string) : option Z :=
  match NilZero.uint_of_string s with
  | Some d => Some (Z.of_N (N.of_uint d))
  | None => None
  end.

Definition atoi (s : string) : option Z :=
  match s with
  | EmptyString => None
  | String c rest =>
      let r :=
        if Ascii.eqb c "+" then atoi_digits rest
        else if Ascii.eqb c "-" then option_map Z.opp (atoi_digits rest)
        else atoi_digits s in
      match r with
      | Some z => if in_int z then Some z else None
      | None => None
      end
  end.

(* ---------- facts ---------- *)

Lemma wrap_int_id z : in_int z = true -> wrap_int z = z.
Proof.
  unfold in_int, wrap_int, min_int, max_int. intro H.
  apply andb_true_iff in H. destruct H as [H1 H2].
  apply Z.leb_le in H1. apply Z.leb_le in H2.
  rewrite Z.mod_small by lia. lia.
Qed.

Lemma wrap_int_range z : in_int (wrap_int z) = true.
Proof.
  unfold in_int, wrap_int, min_int, max_int.
  pose proof (Z.mod_pos_bound (z + 9223372036854775808) 18446744073709551616 ltac:(lia)) as H.
  apply andb_true_iff. split; apply Z.leb_le; lia.
Qed.

Lemma atoi_in_int s z : atoi s = Some z -> in_int z = true.
Proof.
  unfold atoi. destruct s as [|c rest]; [discriminate|].
  match goal with |- match ?r with _ => _ end = _ -> _ => destruct r as [y|] end; [|discriminate].
  destruct (in_int y) eqn:E; [|discriminate]. intros [= <-]. exact E.
Qed.

(* the first character of a parsable digit string is a digit *)
Lemma uint_of_string_first_digit c rest d :
  NilEmpty.uint_of_string (String c rest) = Some d ->
  Ascii.eqb c "+" = false /\ Ascii.eqb c "-" = false.
Proof.
  cbn [NilEmpty.uint_of_string]. destruct (NilEmpty.uint_of_string rest) as [d0|]; [|discriminate].
  intro H. apply uint_of_char_spec in H.
  repeat (destruct H as [H|H]; [destruct H as [-> _]; split; reflexivity|]).
  destruct H as [-> _]; split; reflexivity.
Qed.

Lemma atoi_digits_pos p : atoi_digits (NilZero.string_of_uint (Pos.to_uint p)) = Some (Z.pos p).
Proof.
  unfold atoi_digits.
  rewrite NilZero.usu by apply DecimalPos.Unsigned.to_uint_nonnil.
  unfold N.of_uint. rewrite DecimalPos.Unsigned.of_to. reflexivity.
Qed.

Lemma string_of_uint_pos_shape p :
  exists c rest, NilZero.string_of_uint (Pos.to_uint p) = String c rest /\
                 Ascii.eqb c "+" = false /\ Ascii.eqb c "-" = false.
Proof.
  pose proof (NilZero.usu (Pos.to_uint p) (DecimalPos.Unsigned.to_uint_nonnil p)) as H.
  destruct (NilZero.string_of_uint (Pos.to_uint p)) as [|c rest] eqn:E.
  - discriminate H.
  - exists c, rest. split; [reflexivity|].
    unfold NilZero.uint_of_string in H. eapply uint_of_string_first_digit; exact H.
Qed.

Theorem atoi_itoa z : in_int z = true -> atoi (itoa z) = Some z.
Proof.
  intro Hr. unfold itoa. destruct z as [|p|p]; cbn [Z.to_int NilZero.string_of_int].
  - reflexivity.
  - destruct (string_of_uint_pos_shape p) as (c & rest & E & Hp & Hm).
    pose proof (atoi_digits_pos p) as Hd. rewrite E in Hd |- *.
    unfold atoi. rewrite Hp, Hm, Hd, Hr. reflexivity.
  - unfold atoi. cbn [Ascii.eqb Bool.eqb].
    replace (Ascii.eqb "-" "+") with false by reflexivity.
    replace (Ascii.eqb "-" "-") with true by reflexivity.
    rewrite atoi_digits_pos. cbn [option_map Z.opp]. rewrite Hr. reflexivity.
Qed.

Theorem itoa_inj a b : itoa a = itoa b -> a = b.
Proof.
  unfold itoa. intro H. apply DecimalZ.to_int_inj.
  assert (Hn : forall z, Z.to_int z <> Decimal.Pos Decimal.Nil /\ Z.to_int z <> Decimal.Neg Decimal.Nil).
  { intros [|p|p]; cbn [Z.to_int]; split; try discriminate;
      intros [= E]; exact (DecimalPos.Unsigned.to_uint_nonnil p E). }
  pose proof (NilZero.isi (Z.to_int a) (proj1 (Hn a)) (proj2 (Hn a))) as Ha.
  pose proof (NilZero.isi (Z.to_int b) (proj1 (Hn b)) (proj2 (Hn b))) as Hb.
  rewrite H in Ha. rewrite Ha in Hb. now injection Hb.
Qed.

(* the fresh-mid fact: a numeral above g differs from every string that is
   not a numeral and from every numeral <= g *)
Theorem itoa_fresh g s :
  in_int (g + 1) = true ->
  (forall n, atoi s = Some n -> n <= g) ->
  s <> itoa (g + 1).
Proof.
  intros Hr Hs ->. specialize (Hs (g + 1) (atoi_itoa _ Hr)). lia.
Qed.

Lemma itoa_nonempty z : itoa z <> EmptyString.
Proof.
  unfold itoa. destruct z as [|p|p]; cbn [Z.to_int NilZero.string_of_int]; try discriminate.
  destruct (string_of_uint_pos_shape p) as (c & rest & E & _). rewrite E. discriminate.
Qed.

(* no numeral contains a space (mids produced by itoa are single tokens) *)
Fixpoint has_space (s : string) : bool :=
  match s with
  | EmptyString => false
  | String c r => Ascii.eqb c " " || has_space r
  end.
