(* Vocabulary of the files tools/go2coq generates (coq/Gen/Go*.v).
   Definitions only.  See tools/go2coq/main.go for the representation. *)
From Coq Require Import List ZArith NArith String Bool.
From Verif Require Import Common.Base Common.SerialUtil.

(* buf[k] on a []byte: out of range is a Go panic *)
Definition go_index (buf : list N) (k : nat) : result N :=
  match nth_error buf k with
  | Some b => Ok b
  | None => Panic
  end.

(* len(buf), an int *)
Definition go_len (buf : list N) : Z := Z.of_nat (List.length buf).

(* strings.EqualFold / strings.ToLower, restricted to ASCII (Common/SerialUtil.v) *)
Definition go_equal_fold (a b : string) : bool := eqfold a b.
Definition go_to_lower (a : string) : string := lower a.
