(* Helpers of the bytes family (C25 C26 C28 C29): byte strings cross the
   harness boundary as [list Byte.byte] literals ([x90; x61; ...]), which Coq
   parses about 25 times faster than string literals of hex digits.
   Definitions only. *)
From Coq Require Import List NArith String.
From Coq Require Export Init.Byte.
From Coq Require Strings.Byte.
From Verif Require Import Common.V Common.Base.

Definition unbytes (l : list byte) : list N := map Strings.Byte.to_N l.

(* observation of a byte string printed by the harness as (vby [..]) *)
Definition vby (l : list byte) : V := VS (hex_encode (unbytes l)).
