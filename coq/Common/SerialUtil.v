(* string helpers shared by the C38 and C14 models: ASCII case mapping
   (strings.ToLower / ToUpper / EqualFold restricted to ASCII), strings.Split
   on one byte, strings.Contains.  Definitions only. *)
From Coq Require Import List NArith String Ascii Bool.
Import ListNotations.
Open Scope string_scope.

Definition lower_ascii (c : ascii) : ascii :=
  let n := N_of_ascii c in
  if andb (N.leb 65 n) (N.leb n 90) then ascii_of_N (n + 32) else c.
Definition upper_ascii (c : ascii) : ascii :=
  let n := N_of_ascii c in
  if andb (N.leb 97 n) (N.leb n 122) then ascii_of_N (n - 32) else c.
Fixpoint lower (s : string) : string :=
  match s with
  | EmptyString => EmptyString
  | String c t => String (lower_ascii c) (lower t)
  end.
Fixpoint upper (s : string) : string :=
  match s with
  | EmptyString => EmptyString
  | String c t => String (upper_ascii c) (upper t)
  end.
Definition eqfold (a b : string) : bool := String.eqb (lower a) (lower b).

(* strings.Split(s, sep) for a one-byte separator: n separators give n+1
   pieces, empty pieces included *)
Fixpoint split_on (sep : ascii) (s : string) : list string :=
  match s with
  | EmptyString => [EmptyString]
  | String c t =>
      if Ascii.eqb c sep then EmptyString :: split_on sep t
      else match split_on sep t with
           | [] => [String c EmptyString]           (* unreachable: split_on is never empty *)
           | h :: r => String c h :: r
           end
  end.

(* strings.Contains *)
Fixpoint contains (sub s : string) : bool :=
  if String.prefix sub s then true
  else match s with
       | EmptyString => false
       | String _ t => contains sub t
       end.

Definition has_byte (c : ascii) (s : string) : bool :=
  existsb (Ascii.eqb c) (list_ascii_of_string s).
