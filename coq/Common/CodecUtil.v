(* Helpers of the codec family (C10 C15 C16 C17): strings <-> bytes <-> hex at
   the harness boundary. Definitions only. *)
From Coq Require Import List NArith ZArith String Ascii Bool.
Import ListNotations.
From Verif Require Import Common.V Common.Base.

Fixpoint bytes_of_string (s : string) : list N :=
  match s with
  | EmptyString => []
  | String c t => N_of_ascii c :: bytes_of_string t
  end.

Fixpoint string_of_bytes (l : list N) : string :=
  match l with
  | [] => EmptyString
  | b :: t => String (ascii_of_N b) (string_of_bytes t)
  end.

(* a string given as lowercase hex (used by the harness for strings holding
   bytes that cannot be written inside a Gallina literal) *)
Definition unhex (h : string) : string := string_of_bytes (hex_decode h).
(* a string rendered as lowercase hex (observations) *)
Definition hexs (s : string) : string := hex_encode (bytes_of_string s).
Definition VSx (s : string) : V := VS (hexs s).
