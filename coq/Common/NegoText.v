(* Text helpers of the negotiation family (C12, C04): Go's strconv.Itoa /
   Atoi / ParseUint(.,10,32), fmt "%d", strings.Split(s, " ").
   Definitions only; laws are in Proofs/NegoText.v. *)
From Coq Require Import List ZArith NArith String Ascii Bool.
From Coq Require Import DecimalString DecimalN.
Import ListNotations.
Open Scope string_scope.

(* fmt.Sprintf("%d", n) for an unsigned value; strconv.Itoa for n >= 0 *)
Definition itoaN (n : N) : string := NilEmpty.string_of_uint (N.to_uint n).

(* strconv.Itoa *)
Definition itoaZ (z : Z) : string :=
  match z with
  | Zneg p => String "-" (itoaN (Npos p))
  | _ => itoaN (Z.to_N z)
  end.

(* a non-empty run of decimal digits, as a number (leading zeros allowed) *)
Definition digitsN (s : string) : option N :=
  match s with
  | EmptyString => None
  | _ => match NilEmpty.uint_of_string s with
         | Some d => Some (N.of_uint d)
         | None => None
         end
  end.

(* strconv.ParseUint(s, 10, 32): digits only, no sign, value < 2^32 *)
Definition parse_u32 (s : string) : option N :=
  match digitsN s with
  | Some n => if N.ltb n 4294967296 then Some n else None
  | None => None
  end.

(* strconv.Atoi on a 64-bit platform: optional sign, digits, int64 range *)
Definition atoiZ (s : string) : option Z :=
  match s with
  | String "+" r =>
      match digitsN r with
      | Some n => if N.leb n 9223372036854775807 then Some (Z.of_N n) else None
      | None => None
      end
  | String "-" r =>
      match digitsN r with
      | Some n => if N.leb n 9223372036854775808 then Some (- Z.of_N n)%Z else None
      | None => None
      end
  | _ =>
      match digitsN s with
      | Some n => if N.leb n 9223372036854775807 then Some (Z.of_N n) else None
      | None => None
      end
  end.

Definition is_space (c : ascii) : bool := Ascii.eqb c " ".

(* strings.Split(s, " "): never empty; Split("", " ") = [""] *)
Fixpoint split_sp (s : string) : list string :=
  match s with
  | EmptyString => [EmptyString]
  | String c r =>
      if is_space c then EmptyString :: split_sp r
      else match split_sp r with
           | h :: t => String c h :: t
           | [] => [String c EmptyString]
           end
  end.

Fixpoint no_space (s : string) : bool :=
  match s with
  | EmptyString => true
  | String c r => negb (is_space c) && no_space r
  end.

(* strings.HasPrefix(s, p) and the remainder s[len(p):] *)
Fixpoint strip_prefix (p s : string) : option string :=
  match p, s with
  | EmptyString, _ => Some s
  | String a p', String b s' => if Ascii.eqb a b then strip_prefix p' s' else None
  | String _ _, EmptyString => None
  end.

Fixpoint join_with (sep : string) (l : list string) : string :=
  match l with
  | [] => EmptyString
  | [x] => x
  | x :: t => x ++ sep ++ join_with sep t
  end.
