(* Universal observation values: what the Go harness prints for the
   implementation and what each model runner returns, compared inside Coq. *)
From Coq Require Import List ZArith String Bool Ascii.
Import ListNotations.
Open Scope Z_scope.

Inductive V : Type :=
| VZ (z : Z)
| VS (s : string)
| VB (b : bool)
| VL (l : list V).

Fixpoint V_eqb (a b : V) {struct a} : bool :=
  match a, b with
  | VZ x, VZ y => Z.eqb x y
  | VS x, VS y => String.eqb x y
  | VB x, VB y => Bool.eqb x y
  | VL x, VL y =>
      (fix go (l1 l2 : list V) {struct l1} : bool :=
         match l1, l2 with
         | [], [] => true
         | h1 :: t1, h2 :: t2 => V_eqb h1 h2 && go t1 t2
         | _, _ => false
         end) x y
  | _, _ => false
  end.

(* cases: (index, model input, observation of the implementation) *)
Definition mismatches {I : Type} (run : I -> V) (cases : list (Z * I * V))
  : list (Z * V) :=
  flat_map (fun c => match c with
                     | (i, inp, obs) =>
                         let m := run inp in
                         if V_eqb m obs then [] else [(i, m)]
                     end) cases.

Definition VN (n : N) : V := VZ (Z.of_N n).
Definition Vnat (n : nat) : V := VZ (Z.of_nat n).
Definition VO {A} (f : A -> V) (o : option A) : V :=
  match o with None => VL [] | Some a => VL [f a] end.
Definition VLm {A} (f : A -> V) (l : list A) : V := VL (map f l).
Definition VP (a b : V) : V := VL [a; b].
