(* Digest of an observation value (negotiation family). The case files of
   C12 / C04 carry thousands of characters of SDP attributes per case; parsing
   them as Gallina literals dominates the run, so harness and model both reduce
   their observation to this digest (same function in harness/nego_util.go) and
   the digests are compared. NEGO_FULL=1 switches both sides to the full value. *)
From Coq Require Import List ZArith NArith String Ascii.
Import ListNotations.
From Verif Require Import Common.V.

Definition dg_p : N := 2305843009213693951%N.   (* 2^61 - 1 *)
Definition dg_step (h x : N) : N := ((h * 1000003 + x + 1) mod dg_p)%N.
Definition dg_Z (z : Z) : N :=
  match z with
  | Z0 => 0%N
  | Zpos p => (2 * Npos p)%N
  | Zneg p => (2 * Npos p - 1)%N
  end.
Fixpoint dg_string (h : N) (s : string) : N :=
  match s with
  | EmptyString => h
  | String c r => dg_string (dg_step h (N_of_ascii c)) r
  end.

Fixpoint dg_V (h : N) (v : V) {struct v} : N :=
  match v with
  | VZ z => dg_step (dg_step h 1) (dg_Z z)
  | VS s => dg_string (dg_step (dg_step h 2) (N.of_nat (String.length s))) s
  | VB b => dg_step (dg_step h 3) (if b then 1 else 0)%N
  | VL l =>
      (fix go (h : N) (l : list V) {struct l} : N :=
         match l with
         | [] => h
         | x :: r => go (dg_V h x) r
         end) (dg_step (dg_step h 4) (N.of_nat (List.length l))) l
  end.

Definition digest (v : V) : V := VZ (Z.of_N (dg_V 7%N v)).
