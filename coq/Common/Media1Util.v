(* Helpers of the media-file checks C34, C35, C36: byte-list slicing with N
   counters (structural on the list, no large nat), compact payload
   descriptions for the harness boundary, digests of long byte strings.
   Definitions only. *)
From Coq Require Import List ZArith NArith String Ascii Bool.
Import ListNotations.
From Verif Require Import Common.V Common.Base.
Open Scope N_scope.

Fixpoint lenN {A} (l : list A) : N :=
  match l with [] => 0 | _ :: t => N.succ (lenN t) end.

Fixpoint takeN {A} (n : N) (l : list A) : list A :=
  match l with
  | [] => []
  | x :: t => if n =? 0 then [] else x :: takeN (N.pred n) t
  end.

Fixpoint dropN {A} (n : N) (l : list A) : list A :=
  match l with
  | [] => []
  | x :: t => if n =? 0 then l else dropN (N.pred n) t
  end.

(* payload descriptions: literal hex, or byte i = (a + b*i) mod 256 for i < len *)
Inductive pspec := PHex (s : string) | PPat (len a b : N).

Definition pat_step (b : N) (st : N * list N) : N * list N :=
  (N.land ((fst st) + b) 255, fst st :: snd st).
(* one period of 256 bytes, then doubled until long enough (appending costs no
   arithmetic, which keeps 65 KiB payloads cheap under vm_compute) *)
Definition pat_period (a b : N) : list N :=
  rev' (snd (N.iter 256 (pat_step b) (N.land a 255, []))).
Fixpoint pat_grow (fuel : nat) (l : list N) (n : N) : list N :=
  match fuel with
  | O => l
  | S f => if n <=? lenN l then l else pat_grow f (l ++ l) n
  end.
Definition pat_bytes (len a b : N) : list N :=
  takeN len (pat_grow 48 (pat_period a b) len).

Definition pbytes (p : pspec) : list N :=
  match p with PHex s => hex_decode s | PPat len a b => pat_bytes len a b end.

(* observation of a byte string: hex when at most 12 bytes, else length and
   two position-sensitive sums (mirrors m1Digest in harness/media1_util.go) *)
Definition sums_step (st : N * N) (x : N) : N * N :=
  let a := fst st + x + 1 in (a, snd st + a).
Definition byte_sums (l : list N) : N * N := fold_left sums_step l (0, 0).

Definition Vbytes (l : list N) : V :=
  if lenN l <=? 12 then VHex l else let s := byte_sums l in VL [VN (lenN l); VN (fst s); VN (snd s)].

Definition bytes_of_string (s : string) : list N :=
  map N_of_ascii (list_ascii_of_string s).
