(* Shared modelling vocabulary (DESIGN.md section 3). Definitions only. *)
From Coq Require Import List ZArith NArith String Ascii Bool.
Import ListNotations.
From Verif Require Import Common.V.

(* results of Go functions: value, error class, or panic (index out of range,
   nil dereference).  Error classes are short strings, never message text. *)
Inductive result (A : Type) : Type :=
| Ok (a : A)
| Err (e : string)
| Panic.
Arguments Ok {A} a.
Arguments Err {A} e.
Arguments Panic {A}.

Definition rbind {A B} (r : result A) (f : A -> result B) : result B :=
  match r with Ok a => f a | Err e => Err e | Panic => Panic end.

Definition Vresult {A} (f : A -> V) (r : result A) : V :=
  match r with
  | Ok a => VL [VS "ok"; f a]
  | Err e => VL [VS "err"; VS e]
  | Panic => VL [VS "panic"]
  end.

(* fixed-width unsigned arithmetic: the wrap is written where Go wraps *)
Definition u8 (x : N) : N := (x mod 256)%N.
Definition u16 (x : N) : N := (x mod 65536)%N.
Definition u32 (x : N) : N := (x mod 4294967296)%N.
Definition u64 (x : N) : N := (x mod 18446744073709551616)%N.
(* subtraction in width w (bits): (a - b) mod 2^w, for a, b < 2^w *)
Definition subw (m : N) (a b : N) : N := ((a + m - b mod m) mod m)%N.

(* bytes: list N with every element < 256; they cross the harness boundary as
   lowercase hex strings *)
Definition bytes_ok (l : list N) : bool := forallb (fun b => N.ltb b 256) l.

Definition hex_val (c : ascii) : option N :=
  let n := N_of_ascii c in
  if andb (N.leb 48 n) (N.leb n 57) then Some (n - 48)%N
  else if andb (N.leb 97 n) (N.leb n 102) then Some (n - 87)%N
  else None.

Fixpoint hex_decode (s : string) : list N :=
  match s with
  | String a (String b rest) =>
      match hex_val a, hex_val b with
      | Some x, Some y => (16 * x + y)%N :: hex_decode rest
      | _, _ => []
      end
  | _ => []
  end.

Definition hex_digit (n : N) : ascii :=
  ascii_of_N (if N.ltb n 10 then 48 + n else 87 + n)%N.

Fixpoint hex_encode (l : list N) : string :=
  match l with
  | [] => EmptyString
  | b :: t => String (hex_digit (b / 16)) (String (hex_digit (b mod 16)) (hex_encode t))
  end.

Definition VHex (l : list N) : V := VS (hex_encode l).

(* big-/little-endian readers and writers over byte lists *)
Definition be_val (l : list N) : N :=
  fold_left (fun acc b => (acc * 256 + b)%N) l 0%N.
Fixpoint le_val (l : list N) : N :=
  match l with [] => 0%N | b :: t => (b + 256 * le_val t)%N end.
Fixpoint le_bytes (width : nat) (n : N) : list N :=
  match width with O => [] | S w => (n mod 256)%N :: le_bytes w (n / 256)%N end.
Definition be_bytes (width : nat) (n : N) : list N := rev (le_bytes width n).

(* checked slicing: Go's b[i:j] panics when out of range *)
Definition slice {A} (l : list A) (i j : nat) : option (list A) :=
  if andb (Nat.leb i j) (Nat.leb j (List.length l)) then Some (firstn (j - i) (skipn i l)) else None.
