(* C33 Ogg/Opus writer output is valid Ogg that reads back as the written
   packets.  Statements only; proofs live in Proofs/Ogg.v. *)
From Coq Require Import String List NArith.
Import ListNotations.
From Verif Require Import Common.Base Model.Ivf Model.Ogg Proofs.Ogg Proofs.OggStream Proofs.OggGlobal.
Open Scope N_scope.

(* lacing: a packet of n bytes gets n/255 entries of 255 and then n mod 255 *)
Theorem lace_sum : forall n,
  sumN (lace n) = n /\ Forall (fun s => s <= 255) (lace n) /\ last (lace n) 0 < 255 /\
  N.of_nat (length (lace n)) = n / 255 + 1.
Proof. exact lace_sum_all. Qed.
Print Assumptions lace_sum.

(* the writer's and the reader's table generators produce the same 256 entries *)
Theorem c33_crc_tables : writer_table = reader_table /\ length writer_table = 256%nat.
Proof. exact (conj tables_equal writer_table_length). Qed.
Print Assumptions c33_crc_tables.

(* the reader (checksum on, its own table) accepts every page the writer's page
   builder produces and returns its fields, segment table and payload *)
Theorem c33_crc : forall payload segs htype granule serial index data rest,
  granule < 18446744073709551616 /\ serial < 4294967296 /\ index < 4294967296 /\
  (length segs <= 255)%nat /\ sumN segs = N.of_nat (length payload) ->
  page_bytes writer_table payload segs htype granule serial index = Some data ->
  parse_next_page true (data ++ rest)
  = Ok (mkRpage (mkPhdr sig_oggs 0 (u8 htype) granule serial index (N.of_nat (length segs)))
                segs payload, rest).
Proof. exact parse_written_page. Qed.
Print Assumptions c33_crc.

(* for every packet, of any size: createPagesForSerial succeeds; reading its
   pages back (checksum on) and joining the page payloads gives the packet; the
   lacing values over all its pages are lace(len), so cutting along them yields
   exactly this one packet *)
Theorem c33_payload_roundtrip : forall payload htype granule serial index rest,
  granule < 18446744073709551616 -> serial < 4294967296 -> index < 4294967296 ->
  exists pages rps,
    create_pages_for writer_table payload htype granule serial index = Ok pages /\
    parse_pages (length pages) (flat_map pg_data pages ++ rest) = Ok (rps, rest) /\
    flat_map rp_payload rps = payload /\
    flat_map rp_segs rps = lace (N.of_nat (length payload)) /\
    split_lacing (flat_map rp_segs rps) (flat_map rp_payload rps) [] = ([payload], []).
Proof. exact payload_roundtrip. Qed.
Print Assumptions c33_payload_roundtrip.

(* opusPacketSampleCount = RFC 6716 frame size x frame count, refused above
   120 ms or when malformed, for all 256 TOC bytes and all 256 second bytes *)
Theorem opus_samples_table : forall toc, toc < 256 ->
  result_to_option (opus_sample_count [toc]) = rfc6716_samples toc None /\
  forall b1 rest, b1 < 256 ->
    result_to_option (opus_sample_count (toc :: b1 :: rest)) = rfc6716_samples toc (Some b1).
Proof. exact opus_samples_table_all. Qed.
Print Assumptions opus_samples_table.

(* the reader's parsers invert the writer's header builders *)
Theorem c33_headers_roundtrip :
  (forall cm preskip rate, chmap_ok cm -> preskip < 65536 -> rate < 4294967296 ->
     parse_opus_head (build_id_header cm preskip rate) = Ok (head_of cm preskip rate)) /\
  (forall t, tags_ok t -> parse_opus_tags (build_comment_header t) = Ok t).
Proof. exact (conj head_roundtrip tags_roundtrip). Qed.
Print Assumptions c33_headers_roundtrip.

(* ------------------------------------------------------------------ *)
(* Whole streams.  Vocabulary (Proofs/OggStream.v):
   packets_pages serial 0 pkts pages : pages are, packet after packet, what
     createPagesForSerial builds for the packets pkts = (header-type argument,
     payload, granule argument), with sequence numbers continuing from 0;
   hdr_id cfg / hdr_tags cfg : the OpusHead / OpusTags packets of a track;
   data_pkts 0 ps : the accepted Opus packets ps = (payload, samples) with the
     running sample count (mod 2^64) as granule argument;
   stream_shape serial pkts g final : final is the pages of pkts followed by a
     nil EOS page (granule g), or the pages of pkts with the EOS flag set on
     the last one (same payload, lacing, granule, sequence number; new CRC). *)

(* single-track writer (OggWriter), both outputs: what is in the output before
   Close, and what Close returns - for every configuration and payload list *)
Theorem c33_stream_single : forall fd rate cm serial t ops,
  exists w0, new_single fd rate cm serial t = Ok w0 /\
    let cfg := new_track rate cm serial t in
    let pkts := [hdr_id cfg; hdr_tags cfg] ++ data_pkts 0 (accepted ops) in
    exists pages,
      packets_pages serial 0 pkts pages /\
      sw_out (single_run w0 ops) = flat_map pg_data pages /\
      (N.of_nat (length pages) < 4294967296 ->
       exists final, close_single (single_run w0 ops) = Ok (flat_map pg_data final) /\
                     stream_shape serial pkts (gsum 0 (accepted ops)) final).
Proof. exact single_stream. Qed.
Print Assumptions c33_stream_single.

(* multi-track writer (Writer/Track), both outputs, any number of tracks with
   distinct serials, any interleaving of WriteRTP calls: every track's pages in
   the closed file have the stream shape for its own packets *)
Theorem c33_stream_multi : forall rw cfgs ops,
  NoDup (map tr_serial cfgs) -> Forall fresh cfgs ->
  exists log : list (N * opage),
    (exists w1, start_locked (multi_run (new_multi rw cfgs) ops) = Ok w1 /\ mw_out w1 = bytes_of log) /\
    (N.of_nat (length log) < 4294967296 ->
     exists final,
       close_multi (multi_run (new_multi rw cfgs) ops) = Ok (bytes_of final) /\
       forall i cfg ps,
         nth_error cfgs i = Some cfg ->
         nth_error (run_pss (map (fun _ => []) cfgs) ops) i = Some ps ->
         stream_shape (tr_serial cfg) ([hdr_id cfg; hdr_tags cfg] ++ data_pkts 0 ps) (gsum 0 ps)
                      (mine (tr_serial cfg) final)).
Proof. exact multi_stream_close. Qed.
Print Assumptions c33_stream_multi.

(* c33_eos, in full: in all four variants (single / multi x file rewrite / nil
   page) the last page of every stream carries end-of-stream and no earlier
   page does.  (After fix 3ad4cd0; before it the single-track writer on a
   non-seekable output wrote no EOS page.)  Bound in the statement: fewer than
   2^32 pages (the 32-bit page counter; at 0 the nil page is skipped). *)
Theorem c33_eos :
  (forall fd rate cm serial t ops,
     exists w0, new_single fd rate cm serial t = Ok w0 /\
       exists pages, sw_out (single_run w0 ops) = flat_map pg_data pages /\
         (N.of_nat (length pages) < 4294967296 ->
          exists front L,
            close_single (single_run w0 ops) = Ok (flat_map pg_data (front ++ [L])) /\
            has_eos L = true /\ Forall (fun P => has_eos P = false) front)) /\
  (forall rw cfgs ops,
     NoDup (map tr_serial cfgs) -> Forall fresh cfgs ->
     exists log : list (N * opage),
       (exists w1, start_locked (multi_run (new_multi rw cfgs) ops) = Ok w1 /\ mw_out w1 = bytes_of log) /\
       (N.of_nat (length log) < 4294967296 ->
        exists final,
          close_multi (multi_run (new_multi rw cfgs) ops) = Ok (bytes_of final) /\
          forall cfg, In cfg cfgs ->
            exists front L, mine (tr_serial cfg) final = front ++ [L] /\
                            has_eos L = true /\ Forall (fun P => has_eos P = false) front)).
Proof. exact (conj eos_single eos_multi). Qed.
Print Assumptions c33_eos.

(* c33_seq: in a finished stream the page sequence numbers are 0, 1, 2, ... (mod 2^32) *)
Theorem c33_seq : forall serial pkts g final,
  stream_shape serial pkts g final -> plain_pkts pkts ->
  map pg_index final = map (fun j => u32 (N.of_nat j)) (seq 0 (length final)).
Proof. exact shape_seq. Qed.
Print Assumptions c33_seq.

(* c33_granule: a page carries a granule position exactly when a packet ends on
   it (all other pages: 2^64-1), and it is that packet's granule argument; the
   nil EOS page repeats the last count.  For the data packets the argument is
   the running sample count mod 2^64 (second part), for the two headers 0. *)
Theorem c33_granule :
  (forall serial pkts g final,
     stream_shape serial pkts g final -> plain_pkts pkts ->
     map pg_granule final = granules_of pkts \/ map pg_granule final = granules_of pkts ++ [g]) /\
  (forall ps g,
     map (fun pk : N * list N * N => snd pk) (data_pkts g ps)
     = map (fun k => gsum g (firstn (S k) ps)) (seq 0 (length ps))).
Proof. exact (conj shape_granule granules_data). Qed.
Print Assumptions c33_granule.

(* c33_bos_order, per stream: the first page carries BOS and (the ID header
   being shorter than a page) exactly the OpusHead packet with granule 0; no
   other page carries BOS.  The OpusTags packet follows (see c33_stream_single, c33_stream_multi). *)
Theorem c33_bos_order : forall serial idp more g final,
  stream_shape serial ((ht_bos, idp, 0) :: more) g final ->
  Forall (fun pk : N * list N * N => fst (fst pk) = 0) more -> more <> [] ->
  exists P0 rest, final = P0 :: rest /\ has_bos P0 = true /\
                  Forall (fun P => has_bos P = false) rest /\
                  (N.of_nat (length idp) < full_page -> pg_payload P0 = idp /\ pg_granule P0 = 0).
Proof. exact shape_bos. Qed.
Print Assumptions c33_bos_order.

(* c33_bos_order, across streams (multi-track writer, both outputs, any number
   of tracks, any interleaving of WriteRTP calls): the closed file begins with
   the beginning-of-stream pages of all tracks, one each, in track order, each
   carrying exactly the OpusHead of its track with granule 0; every later page
   belongs to one of the tracks and carries no BOS. *)
Theorem c33_bos_global : forall rw cfgs ops,
  NoDup (map tr_serial cfgs) -> Forall fresh cfgs ->
  exists log : list (N * opage),
    (exists w1, start_locked (multi_run (new_multi rw cfgs) ops) = Ok w1 /\ mw_out w1 = bytes_of log) /\
    (N.of_nat (length log) < 4294967296 ->
     exists B rest,
       close_multi (multi_run (new_multi rw cfgs) ops) = Ok (bytes_of (B ++ rest)) /\
       map fst B = map tr_serial cfgs /\
       Forall2 (fun cfg sp => has_bos (snd sp) = true /\ pg_granule (snd sp) = 0 /\
                  pg_payload (snd sp) = build_id_header (tr_map cfg) (tr_preskip cfg) (tr_rate cfg))
               cfgs B /\
       Forall (fun sp => has_bos (snd sp) = false /\ known cfgs (fst sp)) rest).
Proof. exact bos_global. Qed.
Print Assumptions c33_bos_global.

(* One reader pass over the whole closed file (checksums on): the pages of the
   interleaved log, all of them, in file order, with their serial, header type,
   granule, sequence number, lacing and payload (rp_of), then EOF; every page
   belongs to a configured track and the pages of each serial have that track's
   stream shape (c33_stream_multi).  Field width in the statement: serials
   below 2^32. *)
Theorem c33_whole_file : forall rw cfgs ops,
  NoDup (map tr_serial cfgs) -> Forall fresh cfgs ->
  Forall (fun c => tr_serial c < 4294967296) cfgs ->
  exists log : list (N * opage),
    (exists w1, start_locked (multi_run (new_multi rw cfgs) ops) = Ok w1 /\ mw_out w1 = bytes_of log) /\
    (N.of_nat (length log) < 4294967296 ->
     exists out final,
       close_multi (multi_run (new_multi rw cfgs) ops) = Ok out /\ out = bytes_of final /\
       read_pages (S (length out)) true out = (map rp_of final, "EOF"%string) /\
       Forall (fun sp => known cfgs (fst sp)) final /\
       forall i cfg ps,
         nth_error cfgs i = Some cfg ->
         nth_error (run_pss (map (fun _ => []) cfgs) ops) i = Some ps ->
         stream_shape (tr_serial cfg) ([hdr_id cfg; hdr_tags cfg] ++ data_pkts 0 ps) (gsum 0 ps)
                      (mine (tr_serial cfg) final)).
Proof. exact whole_file_read. Qed.
Print Assumptions c33_whole_file.

Theorem c33_whole_file_single : forall fd rate cm serial t ops,
  serial < 4294967296 ->
  exists w0, new_single fd rate cm serial t = Ok w0 /\
    let cfg := new_track rate cm serial t in
    let pkts := [hdr_id cfg; hdr_tags cfg] ++ data_pkts 0 (accepted ops) in
    exists pages,
      sw_out (single_run w0 ops) = flat_map pg_data pages /\
      (N.of_nat (length pages) < 4294967296 ->
       exists out final,
         close_single (single_run w0 ops) = Ok out /\ out = flat_map pg_data final /\
         stream_shape serial pkts (gsum 0 (accepted ops)) final /\
         read_pages (S (length out)) true out = (map (fun P => rp_of (serial, P)) final, "EOF"%string)).
Proof. exact whole_file_read_single. Qed.
Print Assumptions c33_whole_file_single.

(* What NewTrack accepts (model of validateChannelMapping / defaultChannelMapping
   / validateOpusTags / the duplicate checks, tied to the code by suite "cfg"):
   an accepted configuration has a new SSRC and a new serial, gives a fresh
   track with the configured serial, rate and tags, a channel mapping that
   satisfies the premise of the OpusHead round trip, UTF-8 vendor and values
   and comment names without '='. *)
Theorem c33_accepted_config : forall used c tr,
  new_track_checked used c = Ok tr -> tc_streams c < 256 -> tc_coupled c < 256 ->
  ~ In (tc_ssrc c) (map fst used) /\ ~ In (tc_serial c) (map snd used) /\
  tr_serial tr = tc_serial c /\ tr_rate tr = tc_rate c /\ tr_tags tr = tc_tags c /\ fresh tr /\
  chmap_ok (tr_map tr) /\ valid_utf8 (t_vendor (tc_tags c)) = true /\
  Forall (fun cm => ~ In 61 (fst cm) /\ valid_utf8 (snd cm) = true) (t_comments (tc_tags c)).
Proof. exact new_track_checked_ok. Qed.
Print Assumptions c33_accepted_config.

(* ... so after any sequence of NewTrack calls the registered tracks have
   pairwise distinct serials and are fresh: the premises NoDup / Forall fresh
   of c33_stream_multi, c33_eos, c33_bos_global and c33_whole_file hold for
   every Writer that can be built *)
Theorem c33_tracks_distinct : forall cs,
  NoDup (map tr_serial (registered (add_tracks [] cs))) /\ Forall fresh (registered (add_tracks [] cs)).
Proof. exact add_tracks_distinct. Qed.
Print Assumptions c33_tracks_distinct.

(* refused and accepted configurations *)
Example c33_config_examples :
  let t := mkTags [112] [] in
  map (fun r => match r with Ok _ => 0 | Err _ => 1 | Panic => 2 end)
      (add_tracks [] [mkTcfg 1 10 48000 0 2 0 0 [] t;                    (* stereo, family 0 *)
                      mkTcfg 2 10 48000 0 1 0 0 [] t;                    (* same serial *)
                      mkTcfg 1 11 48000 0 1 0 0 [] t;                    (* same SSRC *)
                      mkTcfg 3 12 48000 0 3 0 0 [] t;                    (* three channels in family 0 *)
                      mkTcfg 4 13 48000 1 0 1 1 [0; 1] t;                (* family 1 stereo *)
                      mkTcfg 5 14 48000 1 0 2 0 [0; 1; 2] t;             (* two streams *)
                      mkTcfg 6 15 48000 255 0 1 1 [0; 1; 255; 2] t;      (* entry 2 out of range *)
                      mkTcfg 7 16 48000 255 0 1 1 [0; 1; 255] (mkTags [195; 40] []);           (* vendor not UTF-8 *)
                      mkTcfg 8 17 48000 255 0 1 1 [0; 1; 255] (mkTags [] [([97; 61], [98])]);  (* '=' in a name *)
                      mkTcfg 9 18 48000 255 0 1 1 [0; 1; 255] (mkTags [226; 130; 172] [([97], [240; 159; 152; 128])])])
  = [0; 1; 1; 1; 0; 1; 1; 1; 1; 0].
Proof. vm_compute. reflexivity. Qed.

Example c33_example_tags :
  tags_ok (mkTags [112; 105; 111; 110] [([84], [120; 61; 121])]) /\
  chmap_ok (mkChmap 255 3 1 1 [0; 1; 255]).
Proof. exact example_tags_ok. Qed.
