(* C33 Ogg/Opus writer output is valid Ogg that reads back as the written
   packets.  Statements only; proofs live in Proofs/Ogg.v. *)
From Coq Require Import String List NArith.
Import ListNotations.
From Verif Require Import Common.Base Model.Ivf Model.Ogg Proofs.Ogg.
Open Scope N_scope.

(* lacing: a packet of n bytes gets n/255 entries of 255 and then n mod 255 *)
Theorem lace_sum : forall n,
  sumN (lace n) = n /\ Forall (fun s => s <= 255) (lace n) /\ last (lace n) 0 < 255 /\
  N.of_nat (length (lace n)) = n / 255 + 1.
Proof. exact lace_sum_all. Qed.
Print Assumptions lace_sum.

(* the writer's and the reader's table generators produce the same 256 entries *)
Theorem c33_crc_tables : writer_table = reader_table /\ length writer_table = 256%nat.
Proof. exact (conj tables_equal writer_table_length). Qed.
Print Assumptions c33_crc_tables.

(* the reader (checksum on, its own table) accepts every page the writer's page
   builder produces and returns its fields, segment table and payload *)
Theorem c33_crc : forall payload segs htype granule serial index data rest,
  granule < 18446744073709551616 /\ serial < 4294967296 /\ index < 4294967296 /\
  (length segs <= 255)%nat /\ sumN segs = N.of_nat (length payload) ->
  page_bytes writer_table payload segs htype granule serial index = Some data ->
  parse_next_page true (data ++ rest)
  = Ok (mkRpage (mkPhdr sig_oggs 0 (u8 htype) granule serial index (N.of_nat (length segs)))
                segs payload, rest).
Proof. exact parse_written_page. Qed.
Print Assumptions c33_crc.

(* for every packet, of any size: createPagesForSerial succeeds; reading its
   pages back (checksum on) and joining the page payloads gives the packet; the
   lacing values over all its pages are lace(len), so cutting along them yields
   exactly this one packet *)
Theorem c33_payload_roundtrip : forall payload htype granule serial index rest,
  granule < 18446744073709551616 -> serial < 4294967296 -> index < 4294967296 ->
  exists pages rps,
    create_pages_for writer_table payload htype granule serial index = Ok pages /\
    parse_pages (length pages) (flat_map pg_data pages ++ rest) = Ok (rps, rest) /\
    flat_map rp_payload rps = payload /\
    flat_map rp_segs rps = lace (N.of_nat (length payload)) /\
    split_lacing (flat_map rp_segs rps) (flat_map rp_payload rps) [] = ([payload], []).
Proof. exact payload_roundtrip. Qed.
Print Assumptions c33_payload_roundtrip.

(* opusPacketSampleCount = RFC 6716 frame size x frame count, refused above
   120 ms or when malformed, for all 256 TOC bytes and all 256 second bytes *)
Theorem opus_samples_table : forall toc, toc < 256 ->
  result_to_option (opus_sample_count [toc]) = rfc6716_samples toc None /\
  forall b1 rest, b1 < 256 ->
    result_to_option (opus_sample_count (toc :: b1 :: rest)) = rfc6716_samples toc (Some b1).
Proof. exact opus_samples_table_all. Qed.
Print Assumptions opus_samples_table.

(* the reader's parsers invert the writer's header builders *)
Theorem c33_headers_roundtrip :
  (forall cm preskip rate, chmap_ok cm -> preskip < 65536 -> rate < 4294967296 ->
     parse_opus_head (build_id_header cm preskip rate) = Ok (head_of cm preskip rate)) /\
  (forall t, tags_ok t -> parse_opus_tags (build_comment_header t) = Ok t).
Proof. exact (conj head_roundtrip tags_roundtrip). Qed.
Print Assumptions c33_headers_roundtrip.

Example c33_example_tags :
  tags_ok (mkTags [112; 105; 111; 110] [([84], [120; 61; 121])]) /\
  chmap_ok (mkChmap 255 3 1 1 [0; 1; 255]).
Proof. exact example_tags_ok. Qed.
