(* C33 Ogg/Opus writer output is valid Ogg that reads back as the written
   packets.  Statements only; proofs live in Proofs/Ogg.v. *)
From Coq Require Import String List NArith.
Import ListNotations.
From Verif Require Import Common.Base Model.Ivf Model.Ogg Proofs.Ogg.
Open Scope N_scope.

(* the writer's and the reader's table generators produce the same 256 entries *)
Theorem c33_crc_tables : writer_table = reader_table /\ length writer_table = 256%nat.
Proof. exact (conj tables_equal writer_table_length). Qed.
Print Assumptions c33_crc_tables.
