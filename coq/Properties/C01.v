From Verif Require Import Model.Signaling.
