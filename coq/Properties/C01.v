(* C01 Signaling state follows the JSEP transition table, with matching
   descriptions.  Statements only; proofs live in Proofs/Signaling.v and
   Proofs/SignalingHist.v.  `run ops` is the PeerConnection after any history of
   CreateOffer / CreateAnswer / SetLocalDescription / SetRemoteDescription /
   Close calls; `step` is one more call on the code as it is.  Close may stand
   anywhere in a history (the calls after it are rejected with InvalidState);
   CreateOffer / CreateAnswer carry the outcome of SDP generation, which is
   outside the model: a refusal ("excessive retries in CreateOffer", a
   transceiver without a matching mid, an ICE agent that cannot be created) is
   the error class Generate and leaves the whole record alone
   (c01_create_close_keep_negotiation). *)
From Coq Require Import List Bool NArith String.
Import ListNotations.
From Verif Require Import Common.Base Model.Signaling Proofs.Signaling Proofs.SignalingHist.

(* clause 1: after any history, a set-local/set-remote call that returns nil
   follows an edge of the JSEP/W3C table from the current state, the state is
   then that edge's target, and exactly one state-change event with that state
   was emitted *)
Theorem c01_success_is_edge : forall ops sd d n',
  step (run ops) (set_op sd d) = (n', Ok tt) ->
  w3c_edge (st (run ops)) sd (d_ty d) = Some (st n') /\
  events n' = (events (run ops) ++ [st n'])%list.
Proof. intros ops; exact (set_step_ok_edge as_is (run ops)). Qed.
Print Assumptions c01_success_is_edge.

(* stronger: whatever a call returns, the negotiation state is left as it was
   or the signaling state moved along an edge of the table *)
Theorem c01_state_moves_only_along_edges : forall ops sd d n' res,
  step (run ops) (set_op sd d) = (n', res) ->
  n' = run ops \/ w3c_edge (st (run ops)) sd (d_ty d) = Some (st n').
Proof. intros ops; exact (set_step_edge as_is (run ops)). Qed.
Print Assumptions c01_state_moves_only_along_edges.

(* the transition function itself, all values of its four arguments *)
Theorem c01_table_sound : forall cur next op ty s,
  check_next cur next op ty = (s, None) ->
  s = next /\ exists sd, op = op_of_side sd /\ w3c_edge cur sd ty = Some next.
Proof.
  intros cur next op ty s H; split;
    [exact (check_next_fst _ _ _ _ _ H) | exact (check_next_edge _ _ _ _ _ H)].
Qed.
Print Assumptions c01_table_sound.

(* clause 2: LocalDescription / RemoteDescription return the pending
   description if there is one and the current one otherwise *)
Theorem c01_getters : forall ops,
  local_description (run ops) =
    match pending_local (run ops) with Some d => Some d | None => current_local (run ops) end /\
  remote_description (run ops) =
    match pending_remote (run ops) with Some d => Some d | None => current_remote (run ops) end.
Proof. intro ops; split; reflexivity. Qed.
Print Assumptions c01_getters.

(* clause 3: whenever the state is stable both pending descriptions are empty *)
Theorem c01_stable_pending_empty : forall ops,
  st (run ops) = Stable -> pendL (run ops) = None /\ pendR (run ops) = None.
Proof. intro ops; exact (run_stable_inv as_is ops coherent_as_is). Qed.
Print Assumptions c01_stable_pending_empty.

(* clause 4: an offer applied locally, then any calls (accepted or rejected)
   during which the state never returns to stable, then an accepted remote
   answer: the current descriptions are that offer and that answer.
   (subst_local: an offer handed over with empty SDP text stands for the last
   created offer, JSEP 5.4.) *)
Theorem c01_exchange_makes_current_local_offer : forall ops o mid a n1 n3,
  step (run ops) (OSetLocal o) = (n1, Ok tt) -> d_ty o = Offer ->
  never_stable as_is n1 mid ->
  step (run_from n1 mid) (OSetRemote a) = (n3, Ok tt) -> d_ty a = Answer ->
  st n3 = Stable /\ curL n3 = Some (subst_local (run ops) o) /\ curR n3 = Some a.
Proof. exact exchange_local_offer. Qed.
Print Assumptions c01_exchange_makes_current_local_offer.

(* the same for a remote offer answered locally *)
Theorem c01_exchange_makes_current_remote_offer : forall ops o mid a n1 n3,
  step (run ops) (OSetRemote o) = (n1, Ok tt) -> d_ty o = Offer ->
  never_stable as_is n1 mid ->
  step (run_from n1 mid) (OSetLocal a) = (n3, Ok tt) -> d_ty a = Answer ->
  st n3 = Stable /\ curR n3 = Some o /\ curL n3 = Some (subst_local (run_from n1 mid) a).
Proof. exact exchange_remote_offer. Qed.
Print Assumptions c01_exchange_makes_current_remote_offer.

(* CreateOffer / CreateAnswer - accepted, rejected or refused inside SDP
   generation - never touch the signaling state, the four descriptions or the
   event log; Close moves the state to closed and nothing else *)
Theorem c01_create_close_keep_negotiation : forall ops id snd gen,
  same_slots (fst (step (run ops) (OCreateOffer id gen))) (run ops) /\
  same_slots (fst (step (run ops) (OCreateAnswer id snd gen))) (run ops) /\
  fst (step (run ops) OClose) = close_pc (run ops).
Proof.
  intros ops id snd gen. split; [apply create_offer_slots|].
  split; [apply create_answer_slots | reflexivity].
Qed.
Print Assumptions c01_create_close_keep_negotiation.

(* ---- the premises are satisfiable on non-trivial histories ---- *)
Definition tx (id : N) : txt := {| t_id := id; t_fl := good_flags |}.
Definition ds (ty : sdptype) (id : N) : desc := {| d_ty := ty; d_txt := tx id |}.

(* offerer: create, set-local; a rejected stale offer and a remote pranswer in
   between; remote answer *)
Example c01_offerer_history :
  let ops := [OCreateOffer 16 true] in
  let mid := [OSetLocal (ds Offer 99); OSetRemote (ds Pranswer 48); OCreateOffer 64 true] in
  exists n1 n3,
    step (run ops) (OSetLocal (ds Offer 16)) = (n1, Ok tt) /\
    never_stable as_is n1 mid /\
    st (run_from n1 mid) = HaveRemotePranswer /\
    step (run_from n1 mid) (OSetRemote (ds Answer 48)) = (n3, Ok tt) /\
    curL n3 = Some (ds Offer 16) /\ curR n3 = Some (ds Answer 48) /\
    events n3 = [HaveLocalOffer; HaveRemotePranswer; Stable].
Proof.
  cbn zeta. eexists; eexists. split; [reflexivity|].
  split; [cbn; repeat split; discriminate|]. repeat split; reflexivity.
Qed.

(* answerer, with a local pranswer and an empty-text answer (JSEP 5.4) *)
Example c01_answerer_history :
  let mid := [OCreateAnswer 32 true true; OSetLocal (ds Pranswer 32); OSetRemote (ds Offer 16)] in
  exists n1 n3,
    step (run []) (OSetRemote (ds Offer 16)) = (n1, Ok tt) /\
    never_stable as_is n1 mid /\
    step (run_from n1 mid) (OSetLocal {| d_ty := Answer; d_txt := empty_txt |}) = (n3, Ok tt) /\
    curR n3 = Some (ds Offer 16) /\ curL n3 = Some (ds Answer 32) /\ st n3 = Stable.
Proof.
  cbn zeta. eexists; eexists. split; [reflexivity|].
  split; [cbn; repeat split; discriminate|]. repeat split; reflexivity.
Qed.

(* all eight accepted (state, side, type) triples of the code are edges; the
   specification has eight more (four self-loops, four rollbacks) *)
Example c01_accepted_tuples :
  check_next Stable HaveLocalOffer SetLocal Offer = (HaveLocalOffer, None) /\
  check_next HaveRemoteOffer HaveLocalPranswer SetLocal Pranswer = (HaveLocalPranswer, None) /\
  check_next HaveLocalOffer HaveLocalOffer SetLocal Offer
    = (HaveLocalOffer, Some EInvalidModification).
Proof. repeat split; reflexivity. Qed.

(* ---- second tie to the source: the translated function ----
   Gen/GoSignaling.v is regenerated from signalingstate.go by tools/go2coq
   before every run of this check; its checkNextSignalingState, read through
   the adapters of Proofs/GenSignaling.v (an integer is the declared constant
   it equals, every other integer is SOut / OpOut / TOut; the error value is its
   class), IS the model's check_next -- for all integers, not only the 8x8x4x6
   tuples of the differential run.  An edit of the Go function that changes its
   meaning breaks this obligation. *)
From Coq Require Import ZArith.
From Verif Require Proofs.GenSignaling Gen.GoSignaling.
Theorem c01_generated_model_agrees : forall cur next op ty : BinNums.Z,
  GenSignaling.sig_abs (GoSignaling.checkNextSignalingState cur next op ty)
  = check_next (GenSignaling.sig_state_of_Z cur) (GenSignaling.sig_state_of_Z next)
               (GenSignaling.sig_op_of_Z op) (GenSignaling.sig_type_of_Z ty).
Proof. exact GenSignaling.gen_check_next_agrees. Qed.
Print Assumptions c01_generated_model_agrees.

(* the adapters are not vacuous: an accepted edge and a rejected call, computed
   through the generated function *)
Example c01_generated_nontrivial :
  GoSignaling.checkNextSignalingState 1%Z 2%Z 1%Z 1%Z = (2%Z, None) /\
  GoSignaling.checkNextSignalingState 1%Z 1%Z 1%Z 4%Z
    = (1%Z, Some "rtcerr.InvalidModificationError"%string) /\
  GenSignaling.sig_state_of_Z 2%Z = HaveLocalOffer /\ GenSignaling.sig_state_of_Z 99%Z = SOut.
Proof. repeat split; reflexivity. Qed.

(* a refused CreateOffer in the middle of an exchange, and a Close before the
   answer arrives: the refusal changes nothing (the last offer stays the one
   SetLocalDescription accepts), after Close every call is InvalidState *)
Example c01_refused_create_and_close :
  let n := run [OCreateOffer 16 true; OCreateOffer 32 false] in
  snd (step (run [OCreateOffer 16 true]) (OCreateOffer 32 false)) = Err EGenerate /\
  n = run [OCreateOffer 16 true] /\
  snd (step n (OSetLocal (ds Offer 16))) = Ok tt /\
  let c := run [OCreateOffer 16 true; OSetLocal (ds Offer 16); OClose] in
  st c = SClosed /\ events c = [HaveLocalOffer] /\ pendL c = Some (ds Offer 16) /\
  snd (step c (OSetRemote (ds Answer 48))) = Err EInvalidState /\
  snd (step c (OCreateOffer 64 true)) = Err EInvalidState /\
  fst (step c (OSetRemote (ds Answer 48))) = c.
Proof. cbn zeta. repeat split; reflexivity. Qed.
