(* C15 Negotiated codecs are the remote's offered codecs that match local ones.
   Statements only; proofs live in Proofs/Codec.v.  The model (Model/Codec.v)
   follows mediaengine.go / rtpcodec.go; "registered" = the lists RegisterCodec
   built, "negotiated" = negotiatedVideoCodecs / negotiatedAudioCodecs,
   a remote description = its media sections as (kind, codecs read by
   codecsFromMediaDescription). *)
From Coq Require Import List NArith String Bool.
Import ListNotations.
From Verif Require Import Common.Base Model.Fmtp Model.Codec Proofs.Codec Proofs.CodecHist.
Open Scope string_scope.

(* every negotiated codec was offered by the remote, in a section of its kind,
   and carries the remote's payload type (and mime type, clock rate, channels,
   fmtp line): for all registrations, all remote descriptions *)
Theorem c15_subset_remote : forall video audio multi secs e' res k c,
  k = KVideo \/ k = KAudio ->
  update_from_remote (new_engine video audio multi) secs = (e', res) ->
  In c (negotiated_of e' k) ->
  exists rcs r, In (k, rcs) secs /\ In r rcs /\ same_but_fb c r.
Proof. exact negotiated_offered. Qed.
Print Assumptions c15_subset_remote.

(* ... and was matched, exactly or partially, by a registered codec lc of that
   kind; its feedback is lc's feedback filtered by membership in the offered
   codec's feedback (the intersection, in registered order).  The description
   compared exactly is the offered codec itself unless it has an apt parameter,
   in which case its fmtp line may have been rewritten (apt renumbering). *)
Theorem c15_locally_matched_and_feedback : forall video audio multi secs e' res k c,
  k = KVideo \/ k = KAudio ->
  update_from_remote (new_engine video audio multi) secs = (e', res) ->
  In c (negotiated_of e' k) ->
  exists rcs r lc, In (k, rcs) secs /\ In r rcs /\ same_but_fb c r /\
    In lc (match k with KAudio => audio | _ => video end) /\
    c_fb c = filter (fun f => existsb (fb_eqb f) (c_fb r)) (c_fb lc) /\
    exists t, (t = r \/ (apt_of r <> None /\ exists l', t = set_line r l')) /\
              (exact_ok t lc = true \/ partial_ok r lc = true).
Proof. exact negotiated_matched. Qed.
Print Assumptions c15_locally_matched_and_feedback.

(* the intersection function is that filter, and its members are exactly the
   feedback entries present on both sides *)
Theorem c15_feedback : forall a b f,
  fb_intersection a b = filter (fun x => existsb (fb_eqb x) b) a /\
  (In f (fb_intersection a b) <-> In f a /\ In f b).
Proof. exact feedback_is_intersection. Qed.
Print Assumptions c15_feedback.

(* what a section adds to a negotiated list comes from its chosen list ... *)
Theorem c15_section_contribution : forall e s e' x err c,
  update_section e s = (e', x, err) ->
  (In c (e_nvideo e') -> In c (e_nvideo e) \/
     exists ep, fst s = KVideo /\ match_passes (e_video e) (snd s) = Ok ep /\ In c (chosen ep)) /\
  (In c (e_naudio e') -> In c (e_naudio e) \/
     exists ep, fst s = KAudio /\ match_passes (e_audio e) (snd s) = Ok ep /\ In c (chosen ep)).
Proof. exact section_contribution. Qed.
Print Assumptions c15_section_contribution.

(* ... and if any offered codec (without apt parameter) of the section matches
   a registered codec exactly, the chosen list is not empty and holds exact
   matches only: nothing partial is pushed *)
Theorem c15_exact_preferred : forall locals rcs ep r,
  match_passes locals rcs = Ok ep ->
  In r rcs -> apt_of r = None -> snd (fuzzy_search r locals) = MExact ->
  chosen ep <> [] /\ forall c, In c (chosen ep) -> entry_of locals rcs MExact c.
Proof. exact chosen_exact_preferred. Qed.
Print Assumptions c15_exact_preferred.

(* fuzzy search itself: exact result = first exactly matching entry; a partial
   result means no entry matches exactly *)
Theorem c15_fuzzy_search : forall n hay c,
  (fuzzy_search n hay = (c, MExact) -> In c hay /\ exact_ok n c = true) /\
  (fuzzy_search n hay = (c, MPartial) ->
     In c hay /\ partial_ok n c = true /\ forall x, In x hay -> exact_ok n x = false) /\
  (fuzzy_search n hay = (c, MNone) ->
     c = empty_codec /\ forall x, In x hay -> exact_ok n x = false /\ partial_ok n x = false).
Proof. exact fuzzy_search_spec. Qed.
Print Assumptions c15_fuzzy_search.

(* a payload type is resolved in the negotiated lists first (video, then
   audio); once a kind is negotiated its registered list is not consulted *)
Theorem c15_lookup_order : forall e p,
  (forall c, e_negV e = true -> find (pt_is p) (e_nvideo e) = Some c ->
     get_codec_by_payload e p = Ok (c, KVideo)) /\
  (forall c, (e_negV e = true -> find (pt_is p) (e_nvideo e) = None) ->
     e_negA e = true -> find (pt_is p) (e_naudio e) = Some c ->
     get_codec_by_payload e p = Ok (c, KAudio)) /\
  (forall c k, get_codec_by_payload e p = Ok (c, k) ->
     c_pt c = p /\
     ((k = KVideo /\ if e_negV e then In c (e_nvideo e) else In c (e_video e)) \/
      (k = KAudio /\ if e_negA e then In c (e_naudio e) else In c (e_audio e)))).
Proof. exact lookup_order. Qed.
Print Assumptions c15_lookup_order.

(* a negotiated codec with an apt parameter (RTX) names the payload type of a
   negotiated codec of the same kind: for all registrations and descriptions *)
Theorem c15_rtx_follows_primary : forall video audio multi secs e' res k c a,
  update_from_remote (new_engine video audio multi) secs = (e', res) ->
  In c (negotiated_of e' k) -> apt_of c = Some a ->
  exists p, parse_uint8 a = Some p /\ has_pt p (negotiated_of e' k).
Proof. exact rtx_follows_primary. Qed.
Print Assumptions c15_rtx_follows_primary.

(* within one section: the primary is in the same chosen list, so an RTX entry
   pushed as an exact match has an exactly matched primary *)
Theorem c15_rtx_same_list : forall locals rcs ep c a,
  match_passes locals rcs = Ok ep -> In c (chosen ep) -> apt_of c = Some a ->
  exists p, parse_uint8 a = Some p /\ has_pt p (chosen ep).
Proof. exact chosen_apt. Qed.
Print Assumptions c15_rtx_same_list.

(* ---------- engines that already hold negotiated entries ---------- *)

(* The clauses above start from a fresh engine.  An engine in use has been
   through earlier descriptions (renegotiation) and earlier sections of the
   same kind; updateFromRemoteDescription only ever appends to the negotiated
   lists (addCodec), so the clauses are invariants of every history.
   engine_grounded hist e: every negotiated entry of e is what the two passes
   keep for a codec of a section (of its kind) in hist.  It holds of a fresh
   engine with hist = [] and is preserved by every call, whatever the call
   returns (an error leaves the engine with what was pushed before it). *)
Theorem c15_hist_invariant : forall ds hist e,
  engine_grounded hist e -> engine_grounded (hist ++ List.concat ds) (apply_history e ds).
Proof. exact apply_history_grounded. Qed.
Print Assumptions c15_hist_invariant.

(* subset: after any sequence of remote descriptions applied to an engine whose
   entries came from the sections hist0, every negotiated codec is an offered
   codec (remote payload type, mime type, clock rate, channels, fmtp line) of a
   section of its kind of hist0 or of one of the descriptions *)
Theorem c15_hist_subset_remote : forall e0 hist0 ds k c,
  k = KVideo \/ k = KAudio -> engine_grounded hist0 e0 ->
  In c (negotiated_of (apply_history e0 ds) k) ->
  exists rcs r, In (k, rcs) (hist0 ++ List.concat ds) /\ In r rcs /\ same_but_fb c r.
Proof. exact hist_negotiated_offered. Qed.
Print Assumptions c15_hist_subset_remote.

(* locally matched, feedback = the registered codec's filtered by the offered
   one's: same history statement (the registered lists never change) *)
Theorem c15_hist_locally_matched_and_feedback : forall e0 hist0 ds k c,
  k = KVideo \/ k = KAudio -> engine_grounded hist0 e0 ->
  In c (negotiated_of (apply_history e0 ds) k) ->
  exists rcs r lc, In (k, rcs) (hist0 ++ List.concat ds) /\ In r rcs /\ same_but_fb c r /\
    In lc (locals_of e0 k) /\
    c_fb c = filter (fun f => existsb (fb_eqb f) (c_fb r)) (c_fb lc) /\
    exists t, (t = r \/ (apt_of r <> None /\ exists l', t = set_line r l')) /\
              (exact_ok t lc = true \/ partial_ok r lc = true).
Proof. exact hist_negotiated_matched. Qed.
Print Assumptions c15_hist_locally_matched_and_feedback.

(* from a fresh engine: the description is named *)
Theorem c15_hist_fresh : forall video audio multi ds k c,
  k = KVideo \/ k = KAudio ->
  In c (negotiated_of (apply_history (new_engine video audio multi) ds) k) ->
  exists d rcs r lc, In d ds /\ In (k, rcs) d /\ In r rcs /\ same_but_fb c r /\
    In lc (match k with KAudio => audio | _ => video end) /\
    c_fb c = filter (fun f => existsb (fb_eqb f) (c_fb r)) (c_fb lc) /\
    exists t, (t = r \/ (apt_of r <> None /\ exists l', t = set_line r l')) /\
              (exact_ok t lc = true \/ partial_ok r lc = true).
Proof. exact hist_fresh_matched. Qed.
Print Assumptions c15_hist_fresh.

(* one call on an engine about which nothing is assumed: every entry afterwards
   is an entry from before, or an offered and locally matched codec of this
   description with intersected feedback *)
Theorem c15_step_any_engine : forall e secs e' res k c,
  k = KVideo \/ k = KAudio ->
  update_from_remote e secs = (e', res) ->
  In c (negotiated_of e' k) ->
  In c (negotiated_of e k) \/
  exists rcs r lc, In (k, rcs) secs /\ In r rcs /\ same_but_fb c r /\
    In lc (locals_of e k) /\
    c_fb c = filter (fun f => existsb (fb_eqb f) (c_fb r)) (c_fb lc) /\
    exists t, (t = r \/ (apt_of r <> None /\ exists l', t = set_line r l')) /\
              (exact_ok t lc = true \/ partial_ok r lc = true).
Proof. exact step_negotiated_matched. Qed.
Print Assumptions c15_step_any_engine.

(* exact preferred, any engine: if an offered codec (without apt parameter) of
   the section matches a registered codec exactly, every entry the section adds
   to the negotiated list is an exact entry *)
Theorem c15_exact_preferred_any_engine : forall e s e' x err k r c,
  k = KVideo \/ k = KAudio ->
  update_section e s = (e', x, err) -> fst s = k ->
  In r (snd s) -> apt_of r = None -> snd (fuzzy_search r (locals_of e k)) = MExact ->
  In c (negotiated_of e' k) -> ~ In c (negotiated_of e k) ->
  entry_of (locals_of e k) (snd s) MExact c.
Proof. exact section_adds_exact_only. Qed.
Print Assumptions c15_exact_preferred_any_engine.

(* RTX follows its primary after every history *)
Theorem c15_hist_rtx_follows_primary : forall video audio multi ds k c a,
  In c (negotiated_of (apply_history (new_engine video audio multi) ds) k) -> apt_of c = Some a ->
  exists p, parse_uint8 a = Some p /\
            has_pt p (negotiated_of (apply_history (new_engine video audio multi) ds) k).
Proof. exact hist_rtx_follows_primary. Qed.
Print Assumptions c15_hist_rtx_follows_primary.

(* "The remote's payload type is used", read for the description just applied:
     after a description is applied without error, a payload type it offers for
     a matched codec resolves to that codec (fmtp line and intersected feedback
     included).
   False on the faithful model: addCodec returns no error when the payload type
   is already negotiated for an entry with the same mime type, clock rate and
   channels, and keeps that entry -- its fmtp line and feedback are not
   compared.  Witness (replayed on a real MediaEngine, finding
   renegotiated-pt-keeps-earlier-parameters): H264 packetization-mode=1 under
   payload type 102, then packetization-mode=0 with less feedback under 102. *)
Theorem c15_current_binding_refuted :
  exists video d1 d2 e1 e2 rcs ep c d,
    update_from_remote (new_engine video [] true) d1 = (e1, Ok tt) /\
    update_from_remote e1 d2 = (e2, Ok tt) /\
    d2 = [(KVideo, rcs)] /\ match_passes video rcs = Ok ep /\ In c (chosen ep) /\
    get_codec_by_payload e2 (c_pt c) = Ok (d, KVideo) /\
    c_line d <> c_line c /\ c_fb d <> c_fb c.
Proof. exact stale_binding_witness. Qed.
Print Assumptions c15_current_binding_refuted.

(* what does hold, for any engine: a section that reaches the codec part of the
   loop (first of its kind, or multi-codec negotiation) and is applied without
   error leaves every payload type of its chosen list bound to an entry with the
   chosen codec's mime type (ignoring case), clock rate and channels (modulo the
   0 defaults); to the chosen codec itself when the payload type was not
   negotiated before *)
Theorem c15_current_binding_partial : forall e k rcs e' x ep c,
  update_section e (k, rcs) = (e', x, None) -> section_negotiated e k = true ->
  match_passes (locals_of e k) rcs = Ok ep -> In c (chosen ep) ->
  exists d, find (pt_is (c_pt c)) (negotiated_of e' k) = Some d /\
    same_codec_for_add d c = true /\
    (find (pt_is (c_pt c)) (negotiated_of e k) = None -> d = c).
Proof. exact section_binds_pt. Qed.
Print Assumptions c15_current_binding_partial.

(* a negotiated payload type is never rebound: not by the rest of the
   description, not by any later description *)
Theorem c15_binding_stable : forall ds e k p d,
  find (pt_is p) (negotiated_of e k) = Some d ->
  find (pt_is p) (negotiated_of (apply_history e ds) k) = Some d.
Proof. exact apply_history_find_stable. Qed.
Print Assumptions c15_binding_stable.

(* ---------- the premises are satisfiable on non-trivial values ---------- *)

Definition ex_vp8 := mkCodec "video/VP8" 90000 0 "" [("nack", ""); ("nack", "pli"); ("goog-remb", "")] 96.
Definition ex_rtx := mkCodec "video/rtx" 90000 0 "apt=96" [] 97.
Definition ex_h264 := mkCodec "video/H264" 90000 0 "packetization-mode=1;profile-level-id=42001f" [("nack", "")] 102.
Definition ex_offer : list codec :=
  [ mkCodec "video/rtx" 90000 0 "apt=100" [] 101;                       (* forward reference *)
    mkCodec "video/VP8" 90000 0 "" [("nack", "pli"); ("transport-cc", "")] 100;
    mkCodec "video/H264" 90000 0 "packetization-mode=1;profile-level-id=640032" [] 120 ]. (* partial only *)

Example c15_example_negotiation :
  let '(e, r) := update_from_remote (new_engine [ex_vp8; ex_rtx; ex_h264] [] true) [(KVideo, ex_offer)] in
  r = Ok tt /\
  e_nvideo e = [ mkCodec "video/VP8" 90000 0 "" [("nack", "pli")] 100;
                 mkCodec "video/rtx" 90000 0 "apt=100" [] 101 ] /\
  get_codec_by_payload e 100 = Ok (mkCodec "video/VP8" 90000 0 "" [("nack", "pli")] 100, KVideo) /\
  get_codec_by_payload e 96 = Err "codec-not-found".
Proof. vm_compute. repeat split. Qed.

Example c15_example_partial_only :
  let '(e, r) := update_from_remote (new_engine [ex_h264] [] true)
                   [(KVideo, [mkCodec "video/H264" 90000 0 "packetization-mode=1;profile-level-id=640032" [("nack", "")] 120])] in
  e_nvideo e = [mkCodec "video/H264" 90000 0 "packetization-mode=1;profile-level-id=640032" [("nack", "")] 120].
Proof. vm_compute. reflexivity. Qed.

(* the history premise on a non-trivial value: the engine after the example
   negotiation is grounded in that description, and a renegotiation that offers
   VP8 under another payload type adds to it *)
Example c15_example_grounded :
  let e1 := apply_history (new_engine [ex_vp8; ex_rtx; ex_h264] [] true) [[(KVideo, ex_offer)]] in
  engine_grounded [(KVideo, ex_offer)] e1 /\
  map c_pt (e_nvideo (apply_history e1 [[(KVideo, [mkCodec "video/VP8" 90000 0 "" [] 110])]])) = [100%N; 101%N; 110%N].
Proof.
  split.
  - exact (apply_history_grounded [[(KVideo, ex_offer)]] [] _ (engine_grounded_fresh _ _ _)).
  - vm_compute. reflexivity.
Qed.
