(* C15 placeholder: statements are added once the correspondence is green *)
From Coq Require Import List NArith String.
Import ListNotations.
From Verif Require Import Model.Fmtp Model.Codec.
