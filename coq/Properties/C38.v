(* C38 Public value types survive their JSON / text / PEM encodings.
   Statements only; proofs live in Proofs/Serial.v; the model (Model/Serial.v)
   is tied to sdptype.go, *state.go, *policy.go, iceserver.go, stats.go,
   certificate.go by the correspondence suites of harness/c38.go.

   Full statement (the property as written):
     forall x : pubval, in_domain x -> roundtrips x.
   It is refuted on the model and on the code (c38_full_refuted); what holds is
   the same statement outside an exactly characterised defect set
   (c38_partial + c38_guard_is_exact).  The text layers (encoding/json,
   encoding/pem, crypto/x509) enter as assumed bijections: theorems
   c38_json_text_partial and c38_pem_partial carry them as premises. *)
From Coq Require Import List ZArith NArith String.
Import ListNotations.
From Verif Require Import Common.Base Model.Serial Proofs.Serial.
Open Scope string_scope.
Open Scope Z_scope.

(* every declared value of every enum survives String()/new… and
   json.Marshal/json.Unmarshal, except the Unknown constant of an enum whose
   decoder has an error default *)
Theorem c38_enum_roundtrip : forall e v,
  In e all_enums -> In v (e_declared e) ->
  (~ unknown_rejected (e_text e) e v -> text_roundtrips e v) /\
  (~ unknown_rejected (e_json e) e v -> json_roundtrips e v).
Proof. exact enum_roundtrip. Qed.
Print Assumptions c38_enum_roundtrip.

(* the excluded (type, json?, value) cells are exactly these five … *)
Theorem c38_enum_rejected_cells :
  rejected_cells = [("SDPType", true, 0); ("ICEProtocol", false, 0);
                    ("ICECandidateType", false, 0); ("ICECandidateType", true, 0);
                    ("NetworkType", false, 0)].
Proof. exact rejected_cells_are. Qed.
Print Assumptions c38_enum_rejected_cells.

(* … so for these twenty enum types every declared value, the zero value
   included, survives both forms *)
Theorem c38_enum_roundtrip_clean : forall e v,
  In e all_enums -> clean_enum e = true -> In v (e_declared e) ->
  text_roundtrips e v /\ json_roundtrips e v.
Proof. exact enum_roundtrip_clean. Qed.
Print Assumptions c38_enum_roundtrip_clean.

Theorem c38_clean_enums :
  map e_name (filter clean_enum all_enums) =
  ["SignalingState"; "ICEConnectionState"; "ICEGatheringState"; "ICEGathererState";
   "ICETransportState"; "ICERole"; "ICEComponent"; "ICECredentialType"; "ICETransportPolicy";
   "DTLSTransportState"; "DTLSRole"; "SCTPTransportState"; "DataChannelState";
   "PeerConnectionState"; "BundlePolicy"; "RTCPMuxPolicy"; "SDPSemantics";
   "RTPTransceiverDirection"; "ICETrickleCapability"; "RTPCodecType"].
Proof. exact clean_enums_are. Qed.
Print Assumptions c38_clean_enums.

(* an integer that is no declared constant (any Z) prints as "unknown" *)
Theorem c38_enum_undeclared : forall e v,
  In e all_enums -> ~ In v (e_declared e) -> to_string e v = unknown_str.
Proof. exact undeclared_prints_unknown. Qed.
Print Assumptions c38_enum_undeclared.

(* the full statement fails: each witness is in the property's domain and does
   not come back (SDPType(0), ICECandidateType(0), ICEProtocol(0),
   NetworkType(0), SessionDescription{}, two ICEServers whose credential is
   not of the kind the credential type names, ICECandidateStats with
   CandidateType 0) *)
Theorem c38_full_refuted :
  Forall (fun x => in_domain x /\ defect x /\ ~ roundtrips x) c38_witnesses.
Proof. exact witnesses_fail. Qed.
Print Assumptions c38_full_refuted.

(* everything else survives: enum values, session descriptions, candidate
   inits, ICE servers (nil, empty and non-empty URL lists alike), Stats
   values carrying their own tag *)
Theorem c38_partial : forall x, in_domain x -> ~ defect x -> roundtrips x.
Proof. exact c38_partial_all. Qed.
Print Assumptions c38_partial.

(* and the guard is exact: every excluded value really fails *)
Theorem c38_guard_is_exact : forall x, in_domain x -> defect x -> ~ roundtrips x.
Proof. exact c38_defect_fails_all. Qed.
Print Assumptions c38_guard_is_exact.

(* ICEServer after the repair (repo commit "fix: accept "urls":null …"): any
   URL list, nil included *)
Theorem c38_iceserver_roundtrip : forall s,
  In (is_credtype s) [0; 1] ->
  credential_matches_type (is_credential s) (is_credtype s) ->
  server_decode (server_encode s) = Ok s.
Proof. exact server_roundtrip. Qed.
Print Assumptions c38_iceserver_roundtrip.

(* every Stats type's tag (with the kind it needs) routes back to that type,
   and to no other; every type has a tag *)
Theorem c38_stats_dispatch : forall t tag req kind,
  In (tag, req) (stats_tags t) -> kind_ok req kind -> stats_dispatch tag kind = Ok t.
Proof. exact stats_dispatch_own. Qed.
Print Assumptions c38_stats_dispatch.

Theorem c38_stats_dispatch_only : forall tag kind t,
  stats_dispatch tag kind = Ok t ->
  exists req, In (tag, req) (stats_tags t) /\ kind_ok req kind.
Proof. exact stats_dispatch_only. Qed.
Print Assumptions c38_stats_dispatch_only.

Theorem c38_stats_every_type_tagged : forall t, stats_tags t <> [].
Proof. exact stats_every_type_has_a_tag. Qed.
Print Assumptions c38_stats_every_type_tagged.

(* through JSON text, for any printer/parser pair that is faithful on trees
   (the assumption about encoding/json) *)
Theorem c38_json_text_partial :
  forall (text : Type) (print : json -> text) (parse : text -> option json),
  (forall j, parse (print j) = Some j) ->
  (forall d, In (sd_type d) [1; 2; 3; 4] ->
     via_text parse sd_decode (print (sd_encode d)) = Ok d) /\
  (forall c, (forall i, ci_idx c = Some i -> 0 <= i < 65536) ->
     via_text parse ci_decode (print (ci_encode c)) = Ok c) /\
  (forall s, In (is_credtype s) [0; 1] ->
     credential_matches_type (is_credential s) (is_credtype s) ->
     via_text parse server_decode (print (server_encode s)) = Ok s).
Proof.
  intros text print parse H. repeat split.
  - exact (sd_text text print parse H).
  - exact (ci_text text print parse H).
  - exact (server_text text print parse H).
Qed.
Print Assumptions c38_json_text_partial.

(* PEM() then CertificateFromPEM gives back the same key and certificate, for
   any x509 / PKCS#8 coders that invert their own output (assumed) *)
Theorem c38_pem_partial :
  forall (cert key : Type) (cert_raw : cert -> list N) (x509_parse : list N -> option cert)
         (pkcs8_marshal : key -> option (list N)) (pkcs8_parse : list N -> option key)
         (b64_decode : list N -> option (list N)),
  (forall c, x509_parse (cert_raw c) = Some c) ->
  (forall k kb, pkcs8_marshal k = Some kb -> pkcs8_parse kb = Some k) ->
  forall k c bs,
    to_pem cert key cert_raw pkcs8_marshal k c = Ok bs ->
    from_pem cert key x509_parse pkcs8_parse b64_decode bs = Ok (k, c).
Proof. exact pem_roundtrip. Qed.
Print Assumptions c38_pem_partial.

Theorem c38_pem_block_order_partial :
  forall (cert key : Type) (cert_raw : cert -> list N) (x509_parse : list N -> option cert)
         (pkcs8_marshal : key -> option (list N)) (pkcs8_parse : list N -> option key)
         (b64_decode : list N -> option (list N)),
  (forall c, x509_parse (cert_raw c) = Some c) ->
  (forall k kb, pkcs8_marshal k = Some kb -> pkcs8_parse kb = Some k) ->
  forall k c kb, pkcs8_marshal k = Some kb ->
    from_pem cert key x509_parse pkcs8_parse b64_decode
             [("PRIVATE KEY", kb); ("CERTIFICATE", cert_raw c)] = Ok (k, c).
Proof. exact pem_swapped. Qed.
Print Assumptions c38_pem_block_order_partial.

(* premises are satisfiable, on non-trivial values *)
Example c38_partial_nontrivial_server :
  let s := {| is_urls := None; is_username := "";
              is_credential := CredNone; is_credtype := 0 |} in
  in_domain (PICEServer s) /\ ~ defect (PICEServer s) /\
  server_encode s = JObj [("credentialType", JStr "password"); ("urls", JNull)].
Proof. simpl. repeat split; tauto. Qed.

Example c38_partial_nontrivial_oauth :
  let s := {| is_urls := Some ["turn:h"; "turns:h"]; is_username := "u";
              is_credential := CredOAuth "m" "t"; is_credtype := 1 |} in
  in_domain (PICEServer s) /\ ~ defect (PICEServer s).
Proof. simpl. repeat split; tauto. Qed.

Example c38_partial_nontrivial_stats :
  let s := {| sv_ty := TransportStats; sv_tag := "transport"; sv_kind := "";
              sv_enums := [0; 3; 2] |} in
  in_domain (PStats s) /\ ~ defect (PStats s).
Proof.
  simpl. split.
  - split; [exists None; split; [tauto | exact I]|]. repeat constructor; simpl; tauto.
  - intro H. repeat (inversion H as [? ? [_ Hr]|? ? H']; [discriminate Hr|]; clear H; rename H' into H).
    inversion H.
Qed.

Example c38_pem_premises_satisfiable :
  (forall c : N, (fun b => match b with [n] => Some n | _ => None end) ((fun c => [c]) c) = Some c).
Proof. reflexivity. Qed.

(* ---- Stats payloads (every member, not only Type / Kind / enums) ----
   The JSON shape of each Stats type is the table Gen/GoStats.v, regenerated
   from the struct definitions of stats.go by tools/statsgen on every run;
   Model/SerialStats.v codes any such shape the way encoding/json does.
   Assumed contract of encoding/json + strconv on primitives (the two
   premises): the literal written for an integer, resp. for a finite float64
   (F is the type of finite float64 values), parses back to it.  Strings and
   booleans are carried by the tree (text layer, c38_json_text_partial);
   omitempty is modelled, not assumed.
   Domain: [has_type] (integers within their width, enum members within the
   const block, maps as key-sorted lists), [own_tag] (the type's own tag, and
   the kind the dispatch needs).  Guard [lossless]: (a) no enum member at an
   Unknown constant its decoder rejects; (b) no omitempty member that is empty
   but not the zero value; (c) no pointer to a value that prints as null.
   (b) and (c) are losses of encoding/json itself that no Stats type of
   stats.go can exhibit today (omitempty sits on strings and on one pointer to
   a struct); (a) is the recorded ICECandidateType finding. *)
From Verif Require Import Model.SerialShape Model.SerialStats.
From Verif Require Proofs.SerialStats.
Theorem c38_stats_roundtrip :
  forall (num F : Type) (num_of_int : Z -> num) (num_of_flt : F -> num)
         (int_of_num : num -> option Z) (flt_of_num : num -> option F)
         (fzero : F) (fis_zero : F -> bool),
  (forall z, int_of_num (num_of_int z) = Some z) ->
  (forall f, flt_of_num (num_of_flt f) = Some f) ->
  forall t v,
    has_type F (stats_fty t) v -> own_tag F t v ->
    lossless F fzero fis_zero (stats_fty t) v ->
    exists j, marshal_stats num F num_of_int num_of_flt fis_zero t v = Ok j /\
              unmarshal_stats num F int_of_num flt_of_num fzero j = Ok (t, v).
Proof. exact SerialStats.stats_payload_roundtrip. Qed.
Print Assumptions c38_stats_roundtrip.

(* for the shapes stats.go has today, losses (b) and (c) cannot occur
   (omitempty sits only on members whose empty value is their zero value, no
   pointer points to a slice, map or pointer: c38_stats_shapes_plain, checked
   on the generated table), so the guard is clause (a) alone: no enum member
   at a rejected Unknown constant *)
Theorem c38_stats_roundtrip_enum_guard :
  forall (num F : Type) (num_of_int : Z -> num) (num_of_flt : F -> num)
         (int_of_num : num -> option Z) (flt_of_num : num -> option F)
         (fzero : F) (fis_zero : F -> bool),
  (forall z, int_of_num (num_of_int z) = Some z) ->
  (forall f, flt_of_num (num_of_flt f) = Some f) ->
  forall t v,
    has_type F (stats_fty t) v -> own_tag F t v -> enum_ok F (stats_fty t) v ->
    exists j, marshal_stats num F num_of_int num_of_flt fis_zero t v = Ok j /\
              unmarshal_stats num F int_of_num flt_of_num fzero j = Ok (t, v).
Proof. exact SerialStats.stats_payload_roundtrip_enum. Qed.
Print Assumptions c38_stats_roundtrip_enum_guard.

Theorem c38_stats_shapes_plain :
  forallb (fun t => SerialStats.plain_ty (stats_fty t)) all_stats_ty = true.
Proof. exact SerialStats.stats_shapes_plain. Qed.
Print Assumptions c38_stats_shapes_plain.

(* and clause (a) is necessary: a Stats value with an enum member (top level,
   no omitempty - where all enum members of stats.go sit) at a rejected
   Unknown constant does not come back, whatever else it holds *)
Theorem c38_stats_enum_guard_is_necessary :
  forall (num F : Type) (num_of_int : Z -> num) (num_of_flt : F -> num)
         (int_of_num : num -> option Z) (flt_of_num : num -> option F)
         (fzero : F) (fis_zero : F -> bool) t vs j,
    bad_enum_member F (shape_of t) vs ->
    marshal_stats num F num_of_int num_of_flt fis_zero t (GStruct vs) = Ok j ->
    unmarshal_stats num F int_of_num flt_of_num fzero j <> Ok (t, GStruct vs).
Proof. exact SerialStats.stats_bad_enum_fails. Qed.
Print Assumptions c38_stats_enum_guard_is_necessary.

(* the same for any struct shape whose member names are distinct up to case
   (SessionDescription and ICECandidateInit are instances) *)
Theorem c38_struct_roundtrip :
  forall (num F : Type) (num_of_int : Z -> num) (num_of_flt : F -> num)
         (int_of_num : num -> option Z) (flt_of_num : num -> option F)
         (fzero : F) (fis_zero : F -> bool),
  (forall z, int_of_num (num_of_int z) = Some z) ->
  (forall f, flt_of_num (num_of_flt f) = Some f) ->
  forall t v,
    SerialStats.wf_ty t = true -> has_type F t v -> lossless F fzero fis_zero t v ->
    exists j, marshal num F num_of_int num_of_flt fis_zero t v = Ok j /\
              unmarshal num F int_of_num flt_of_num fzero t j = Ok v.
Proof. exact SerialStats.marshal_unmarshal. Qed.
Print Assumptions c38_struct_roundtrip.

(* the guard cannot be dropped: ICECandidateStats{Type: "remote-candidate"}
   (CandidateType 0) is in the domain, is excluded by the guard, and fails *)
Theorem c38_stats_roundtrip_refuted :
  has_type Z (stats_fty ICECandidateStats) SerialStats.cand0 /\
  own_tag Z ICECandidateStats SerialStats.cand0 /\
  ~ lossless Z c_fzero c_fis_zero (stats_fty ICECandidateStats) SerialStats.cand0 /\
  c_stats_roundtrip ICECandidateStats SerialStats.cand0 = Err "unknown-candidate-type".
Proof.
  exact (conj SerialStats.cand0_typed (conj SerialStats.cand0_own
          (conj SerialStats.cand0_excluded SerialStats.cand0_fails))).
Qed.
Print Assumptions c38_stats_roundtrip_refuted.

(* every generated Stats shape is well formed and has the members the
   dispatch reads *)
Theorem c38_stats_table_checked :
  forallb SerialStats.stats_table_ok all_stats_ty = true.
Proof. exact SerialStats.stats_table_checked. Qed.
Print Assumptions c38_stats_table_checked.

(* the decoder on shapes no encoder writes: a member whose name equals no
   member name of the struct, even up to (ASCII) case, is skipped - value,
   saved error and abort are those of the object without it.  (The other
   rules - duplicates, null, wrong kinds, number ranges, saved vs aborting
   errors - are compared with real json.Unmarshal by the djson suite.) *)
Theorem c38_unknown_member_ignored :
  forall (num F : Type) (int_of_num : num -> option Z) (flt_of_num : num -> option F) (fzero : F)
         fs ms1 k j ms2,
  (forall fd, In fd fs -> Common.SerialUtil.eqfold k (fd_json fd) = false) ->
  unmarshal num F int_of_num flt_of_num fzero (TStruct fs) (JvObj (ms1 ++ (k, j) :: ms2)%list)
  = unmarshal num F int_of_num flt_of_num fzero (TStruct fs) (JvObj (ms1 ++ ms2)%list).
Proof. exact SerialStats.unknown_member_ignored. Qed.
Print Assumptions c38_unknown_member_ignored.

(* premises of c38_stats_roundtrip are satisfiable on a non-trivial value: a
   TransportStats with ICERole controlled, BytesSent 2^64-1 *)
Example c38_stats_roundtrip_nontrivial :
  has_type Z (stats_fty TransportStats) SerialStats.transport1 /\
  own_tag Z TransportStats SerialStats.transport1 /\
  lossless Z c_fzero c_fis_zero (stats_fty TransportStats) SerialStats.transport1 /\
  c_stats_roundtrip TransportStats SerialStats.transport1 = Ok (TransportStats, SerialStats.transport1).
Proof. exact SerialStats.transport1_ok. Qed.

(* SessionDescription and ICECandidateInit are instances of
   c38_struct_roundtrip (their generated shapes are well formed) ... *)
From Verif Require Gen.GoStats.
Theorem c38_sd_ci_shapes_wf :
  SerialStats.wf_ty (TStruct GoStats.shape_SessionDescription) = true /\
  SerialStats.wf_ty (TStruct GoStats.shape_ICECandidateInit) = true.
Proof. split; vm_compute; reflexivity. Qed.
Print Assumptions c38_sd_ci_shapes_wf.

(* ... and their decoders on trees no encoder writes (djson suite), worked:
   names and the SDPType value up to case, an unknown member, a duplicate, a
   later null; null / a number into SDPType.UnmarshalJSON; a saved type error
   overridden by an abort; a line index out of range or with a fraction *)
Example c38_decoder_arbitrary_shapes :
  let sd := c_unmarshal (TStruct GoStats.shape_SessionDescription) in
  let ci := c_unmarshal (TStruct GoStats.shape_ICECandidateInit) in
  let n z : jv cnum := JvNum (Some z, None) in
  sd (JvObj [("TYPE", JvStr "OFFER"); ("x", n 1); ("sdp", JvStr "a"); ("Sdp", JvNull)])
    = Ok (GStruct [GInt 1; GStr "a"]) /\
  sd (JvObj [("type", JvStr "offer"); ("type", JvStr "answer")]) = Ok (GStruct [GInt 3; GStr ""]) /\
  sd JvNull = Ok (GStruct [GInt 0; GStr ""]) /\
  sd (JvObj [("type", JvNull)]) = Err "unknown-type" /\
  sd (JvObj [("type", n 1)]) = Err "json-shape" /\
  sd (JvObj [("sdp", n 5); ("type", JvStr "bogus")]) = Err "unknown-type" /\
  sd (JvObj [("sdp", n 5); ("type", JvStr "offer")]) = Err "json-shape" /\
  sd (JvArr []) = Err "json-shape" /\
  ci (JvObj [("sdpMLineIndex", n 65535); ("SDPMID", JvStr "0")])
    = Ok (GStruct [GStr ""; GPtr (Some (GStr "0")); GPtr (Some (GInt 65535)); GPtr None]) /\
  ci (JvObj [("sdpMLineIndex", n 65536)]) = Err "json-shape" /\
  ci (JvObj [("sdpMLineIndex", JvNum (None, Some 4607182418800017408))]) = Err "json-shape" /\
  ci (JvObj [("sdpMLineIndex", n 3); ("sdpMLineIndex", JvNull)])
    = Ok (GStruct [GStr ""; GPtr None; GPtr None; GPtr None]).
Proof. vm_compute. repeat split; reflexivity. Qed.

(* ---- second tie to the source: the translated enum tables ----
   Gen/GoSerial.v is regenerated by tools/go2coq before every run of this
   check from the enum files themselves: every String() method and every
   new…/New…(raw string) function, constants resolved through their const
   blocks (the "…Str" blocks included) and ErrUnknownType.Error() through
   errors.go.  For ALL integers the generated String() IS to_string of the
   model's table, and for ALL strings the generated decoder IS of_text
   (ser_result, Proofs/GenSerial.v: a decoder with an error result yields the
   model's error class instead of the Go value/error pair).  Renaming an enum
   string, swapping two arms or changing a default breaks one of these.
   Not translated: the (Un)MarshalJSON / (Un)MarshalText wrappers. *)
From Verif Require Proofs.GenSerial Gen.GoSerial.
Theorem c38_generated_model_agrees_SDPType :
  (forall v : Z, GoSerial.SDPType_String v = to_string E_SDPType v) /\
  (forall raw : string, Some (Ok (GoSerial.NewSDPType raw)) = of_text E_SDPType raw).
Proof. exact GenSerial.gen_SDPType_agrees. Qed.
Print Assumptions c38_generated_model_agrees_SDPType.

Theorem c38_generated_model_agrees_SignalingState :
  (forall v : Z, GoSerial.SignalingState_String v = to_string E_SignalingState v) /\
  (forall raw : string, Some (Ok (GoSerial.newSignalingState raw)) = of_text E_SignalingState raw).
Proof. exact GenSerial.gen_SignalingState_agrees. Qed.
Print Assumptions c38_generated_model_agrees_SignalingState.

Theorem c38_generated_model_agrees_ICEConnectionState :
  (forall v : Z, GoSerial.ICEConnectionState_String v = to_string E_ICEConnectionState v) /\
  (forall raw : string, Some (Ok (GoSerial.NewICEConnectionState raw)) = of_text E_ICEConnectionState raw).
Proof. exact GenSerial.gen_ICEConnectionState_agrees. Qed.
Print Assumptions c38_generated_model_agrees_ICEConnectionState.

Theorem c38_generated_model_agrees_ICEGatheringState :
  (forall v : Z, GoSerial.ICEGatheringState_String v = to_string E_ICEGatheringState v) /\
  (forall raw : string, Some (Ok (GoSerial.NewICEGatheringState raw)) = of_text E_ICEGatheringState raw).
Proof. exact GenSerial.gen_ICEGatheringState_agrees. Qed.
Print Assumptions c38_generated_model_agrees_ICEGatheringState.

Theorem c38_generated_model_agrees_ICEGathererState :
  (forall v : Z, GoSerial.ICEGathererState_String v = to_string E_ICEGathererState v).
Proof. exact GenSerial.gen_ICEGathererState_agrees. Qed.
Print Assumptions c38_generated_model_agrees_ICEGathererState.

Theorem c38_generated_model_agrees_ICETransportState :
  (forall v : Z, GoSerial.ICETransportState_String v = to_string E_ICETransportState v) /\
  (forall raw : string, Some (Ok (GoSerial.newICETransportState raw)) = of_text E_ICETransportState raw).
Proof. exact GenSerial.gen_ICETransportState_agrees. Qed.
Print Assumptions c38_generated_model_agrees_ICETransportState.

Theorem c38_generated_model_agrees_ICERole :
  (forall v : Z, GoSerial.ICERole_String v = to_string E_ICERole v) /\
  (forall raw : string, Some (Ok (GoSerial.newICERole raw)) = of_text E_ICERole raw).
Proof. exact GenSerial.gen_ICERole_agrees. Qed.
Print Assumptions c38_generated_model_agrees_ICERole.

Theorem c38_generated_model_agrees_ICEComponent :
  (forall v : Z, GoSerial.ICEComponent_String v = to_string E_ICEComponent v) /\
  (forall raw : string, Some (Ok (GoSerial.newICEComponent raw)) = of_text E_ICEComponent raw).
Proof. exact GenSerial.gen_ICEComponent_agrees. Qed.
Print Assumptions c38_generated_model_agrees_ICEComponent.

Theorem c38_generated_model_agrees_ICEProtocol :
  (forall v : Z, GoSerial.ICEProtocol_String v = to_string E_ICEProtocol v) /\
  (forall raw : string, Some (GenSerial.ser_result (GoSerial.NewICEProtocol raw)) = of_text E_ICEProtocol raw).
Proof. exact GenSerial.gen_ICEProtocol_agrees. Qed.
Print Assumptions c38_generated_model_agrees_ICEProtocol.

Theorem c38_generated_model_agrees_ICECandidateType :
  (forall v : Z, GoSerial.ICECandidateType_String v = to_string E_ICECandidateType v) /\
  (forall raw : string, Some (GenSerial.ser_result (GoSerial.NewICECandidateType raw)) = of_text E_ICECandidateType raw).
Proof. exact GenSerial.gen_ICECandidateType_agrees. Qed.
Print Assumptions c38_generated_model_agrees_ICECandidateType.

Theorem c38_generated_model_agrees_ICECredentialType :
  (forall v : Z, GoSerial.ICECredentialType_String v = to_string E_ICECredentialType v) /\
  (forall raw : string, Some (GenSerial.ser_result (GoSerial.newICECredentialType raw)) = of_text E_ICECredentialType raw).
Proof. exact GenSerial.gen_ICECredentialType_agrees. Qed.
Print Assumptions c38_generated_model_agrees_ICECredentialType.

Theorem c38_generated_model_agrees_ICETransportPolicy :
  (forall v : Z, GoSerial.ICETransportPolicy_String v = to_string E_ICETransportPolicy v) /\
  (forall raw : string, Some (Ok (GoSerial.NewICETransportPolicy raw)) = of_text E_ICETransportPolicy raw).
Proof. exact GenSerial.gen_ICETransportPolicy_agrees. Qed.
Print Assumptions c38_generated_model_agrees_ICETransportPolicy.

Theorem c38_generated_model_agrees_DTLSTransportState :
  (forall v : Z, GoSerial.DTLSTransportState_String v = to_string E_DTLSTransportState v) /\
  (forall raw : string, Some (Ok (GoSerial.newDTLSTransportState raw)) = of_text E_DTLSTransportState raw).
Proof. exact GenSerial.gen_DTLSTransportState_agrees. Qed.
Print Assumptions c38_generated_model_agrees_DTLSTransportState.

Theorem c38_generated_model_agrees_DTLSRole :
  (forall v : Z, GoSerial.DTLSRole_String v = to_string E_DTLSRole v).
Proof. exact GenSerial.gen_DTLSRole_agrees. Qed.
Print Assumptions c38_generated_model_agrees_DTLSRole.

Theorem c38_generated_model_agrees_SCTPTransportState :
  (forall v : Z, GoSerial.SCTPTransportState_String v = to_string E_SCTPTransportState v) /\
  (forall raw : string, Some (Ok (GoSerial.newSCTPTransportState raw)) = of_text E_SCTPTransportState raw).
Proof. exact GenSerial.gen_SCTPTransportState_agrees. Qed.
Print Assumptions c38_generated_model_agrees_SCTPTransportState.

Theorem c38_generated_model_agrees_DataChannelState :
  (forall v : Z, GoSerial.DataChannelState_String v = to_string E_DataChannelState v) /\
  (forall raw : string, Some (Ok (GoSerial.newDataChannelState raw)) = of_text E_DataChannelState raw).
Proof. exact GenSerial.gen_DataChannelState_agrees. Qed.
Print Assumptions c38_generated_model_agrees_DataChannelState.

Theorem c38_generated_model_agrees_PeerConnectionState :
  (forall v : Z, GoSerial.PeerConnectionState_String v = to_string E_PeerConnectionState v) /\
  (forall raw : string, Some (Ok (GoSerial.newPeerConnectionState raw)) = of_text E_PeerConnectionState raw).
Proof. exact GenSerial.gen_PeerConnectionState_agrees. Qed.
Print Assumptions c38_generated_model_agrees_PeerConnectionState.

Theorem c38_generated_model_agrees_BundlePolicy :
  (forall v : Z, GoSerial.BundlePolicy_String v = to_string E_BundlePolicy v) /\
  (forall raw : string, Some (Ok (GoSerial.newBundlePolicy raw)) = of_text E_BundlePolicy raw).
Proof. exact GenSerial.gen_BundlePolicy_agrees. Qed.
Print Assumptions c38_generated_model_agrees_BundlePolicy.

Theorem c38_generated_model_agrees_RTCPMuxPolicy :
  (forall v : Z, GoSerial.RTCPMuxPolicy_String v = to_string E_RTCPMuxPolicy v) /\
  (forall raw : string, Some (Ok (GoSerial.newRTCPMuxPolicy raw)) = of_text E_RTCPMuxPolicy raw).
Proof. exact GenSerial.gen_RTCPMuxPolicy_agrees. Qed.
Print Assumptions c38_generated_model_agrees_RTCPMuxPolicy.

Theorem c38_generated_model_agrees_SDPSemantics :
  (forall v : Z, GoSerial.SDPSemantics_String v = to_string E_SDPSemantics v) /\
  (forall raw : string, Some (Ok (GoSerial.newSDPSemantics raw)) = of_text E_SDPSemantics raw).
Proof. exact GenSerial.gen_SDPSemantics_agrees. Qed.
Print Assumptions c38_generated_model_agrees_SDPSemantics.

Theorem c38_generated_model_agrees_RTPTransceiverDirection :
  (forall v : Z, GoSerial.RTPTransceiverDirection_String v = to_string E_RTPTransceiverDirection v) /\
  (forall raw : string, Some (Ok (GoSerial.NewRTPTransceiverDirection raw)) = of_text E_RTPTransceiverDirection raw).
Proof. exact GenSerial.gen_RTPTransceiverDirection_agrees. Qed.
Print Assumptions c38_generated_model_agrees_RTPTransceiverDirection.

Theorem c38_generated_model_agrees_NetworkType :
  (forall v : Z, GoSerial.NetworkType_String v = to_string E_NetworkType v) /\
  (forall raw : string, Some (GenSerial.ser_result (GoSerial.NewNetworkType raw)) = of_text E_NetworkType raw).
Proof. exact GenSerial.gen_NetworkType_agrees. Qed.
Print Assumptions c38_generated_model_agrees_NetworkType.

Theorem c38_generated_model_agrees_ICETrickleCapability :
  (forall v : Z, GoSerial.ICETrickleCapability_String v = to_string E_ICETrickleCapability v).
Proof. exact GenSerial.gen_ICETrickleCapability_agrees. Qed.
Print Assumptions c38_generated_model_agrees_ICETrickleCapability.

Theorem c38_generated_model_agrees_RTPCodecType :
  (forall v : Z, GoSerial.RTPCodecType_String v = to_string E_RTPCodecType v) /\
  (forall raw : string, Some (Ok (GoSerial.NewRTPCodecType raw)) = of_text E_RTPCodecType raw).
Proof. exact GenSerial.gen_RTPCodecType_agrees. Qed.
Print Assumptions c38_generated_model_agrees_RTPCodecType.

Example c38_generated_nontrivial :
  GoSerial.SignalingState_String 2 = "have-local-offer" /\ GoSerial.SignalingState_String 9 = "unknown" /\
  GoSerial.newSignalingState "have-local-offer" = 2 /\
  GenSerial.ser_result (GoSerial.NewICEProtocol "UDP") = Ok 1 /\
  GenSerial.ser_result (GoSerial.NewICEProtocol "sctp") = Err "unknown-protocol".
Proof. repeat split; reflexivity. Qed.
