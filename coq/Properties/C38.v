From Coq Require Import List ZArith String.
Import ListNotations.
From Verif Require Import Common.Base Model.Serial Proofs.Serial.
