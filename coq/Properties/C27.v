(* C27 Transport demultiplexing is exclusive and order-preserving.
   Statements only; proofs live in Proofs/Mux.v. *)
From Coq Require Import List NArith Bool.
Import ListNotations.
From Verif Require Import Common.Base Model.Mux Proofs.Mux.

(* Classification, for ALL byte strings (any length, any byte values): the
   class computed from MatchDTLS / MatchSRTP / MatchSRTCP is the RFC 7983
   class (first byte 20..63 DTLS, 128..191 RTP/RTCP, split by the second byte
   192..223 when the 4-byte RTP/RTCP header is present); in particular no
   function panics and no two accept the same datagram. *)
Theorem c27_classes : forall buf, pion_class buf = Some (rfc_class buf).
Proof. exact pion_class_is_rfc. Qed.
Print Assumptions c27_classes.

(* the same, function by function, as plain statements about bytes *)
Theorem c27_match_dtls : forall buf,
  match_dtls buf = true <->
  exists b0 rest, buf = b0 :: rest /\ (20 <= b0 /\ b0 <= 63)%N.
Proof. exact match_dtls_spec. Qed.
Print Assumptions c27_match_dtls.

Theorem c27_match_srtcp : forall buf,
  match_srtcp buf = Ok true <->
  exists b0 b1 b2 b3 rest, buf = b0 :: b1 :: b2 :: b3 :: rest /\
    (128 <= b0 /\ b0 <= 191)%N /\ (192 <= b1 /\ b1 <= 223)%N.
Proof. exact match_srtcp_spec. Qed.
Print Assumptions c27_match_srtcp.

Theorem c27_match_srtp : forall buf,
  match_srtp buf = Ok true <->
  exists b0 rest, buf = b0 :: rest /\ (128 <= b0 /\ b0 <= 191)%N /\
    ~ (exists b1 b2 b3 r, rest = b1 :: b2 :: b3 :: r /\ (192 <= b1 /\ b1 <= 223)%N).
Proof. exact match_srtp_spec. Qed.
Print Assumptions c27_match_srtp.

Theorem c27_no_panic : forall buf,
  match_srtp buf <> Panic /\ match_srtcp buf <> Panic.
Proof. exact matchers_no_panic. Qed.
Print Assumptions c27_no_panic.

(* the three classes are pairwise exclusive *)
Theorem c27_exclusive : forall buf,
  ~ (match_dtls buf = true /\ match_srtp buf = Ok true) /\
  ~ (match_dtls buf = true /\ match_srtcp buf = Ok true) /\
  ~ (match_srtp buf = Ok true /\ match_srtcp buf = Ok true).
Proof. exact classes_exclusive. Qed.
Print Assumptions c27_exclusive.

(* so the match functions the transports register satisfy the premise of the
   delivery theorems below *)
Theorem c27_real_matchers_exclusive : exclusive real_matchers.
Proof. exact real_matchers_exclusive. Qed.
Print Assumptions c27_real_matchers_exclusive.

(* Delivery order, for every list of datagrams, every list of NewEndpoint
   calls with pairwise exclusive match functions and EVERY schedule: the
   arrival log is the consumed prefix of the conn's datagrams; what an
   endpoint has been handed (plus the one datagram dispatch may hold between
   choosing the endpoint and writing to it) is exactly the accepted datagrams
   its function matches, in arrival order -- queued ones first, later ones
   after; an endpoint not yet created has nothing; the queue holds exactly the
   accepted datagrams no existing endpoint matches, in arrival order. *)
Theorem c27_order : forall ms ps sch,
  exclusive ms ->
  let s := run (init ms ps) sch in
  arrived s ++ rd_rest s = ps /\
  (forall i m, nth_error (crs s) i = Some (m, true) ->
     delivered s i ++ inflight s i = filter m (accepted s)) /\
  (forall i m, nth_error (crs s) i = Some (m, false) -> delivered s i = []) /\
  pendq s = filter (unmatched (regd s)) (accepted s).
Proof. exact order_all_schedules. Qed.
Print Assumptions c27_order.

Theorem c27_order_quiescent : forall ms ps sch,
  exclusive ms ->
  let s := run (init ms ps) sch in
  rd_sel s = None ->
  forall i m, nth_error (crs s) i = Some (m, true) ->
    delivered s i = filter m (accepted s).
Proof. exact order_quiescent. Qed.
Print Assumptions c27_order_quiescent.

(* each accepted datagram is in exactly one place: one endpoint buffer, the
   queue, or dispatch's hand -- never in two endpoints *)
Theorem c27_at_most_one : forall ms ps sch,
  exclusive ms ->
  let s := run (init ms ps) sch in
  total_buffered s + length (pendq s) + inflight_count s = length (accepted s) /\
  length (accepted s) <= length (arrived s).
Proof. exact no_duplication. Qed.
Print Assumptions c27_at_most_one.

(* what "accepted" leaves out: zero-length datagrams, and datagrams that found
   no endpoint while the queue already held maxPendingPackets (the specified
   cap; in that case at least 15 datagrams had been accepted before) *)
Theorem c27_loss_is_cap_or_empty : forall ms ps sch,
  exclusive ms ->
  let s := run (init ms ps) sch in
  (forall p f, In (p, f) (arr s) -> (f = DroppedEmpty <-> p = [])) /\
  ((exists p, In (p, DroppedFull) (arr s)) -> max_pending <= length (accepted s)).
Proof. exact loss_characterised. Qed.
Print Assumptions c27_loss_is_cap_or_empty.

Theorem c27_no_loss_below_cap : forall ms ps sch,
  exclusive ms -> length ps <= max_pending -> (forall p, In p ps -> p <> []) ->
  let s := run (init ms ps) sch in
  accepted s = arrived s.
Proof. exact no_loss_below_cap. Qed.
Print Assumptions c27_no_loss_below_cap.

(* premises are satisfiable on a non-trivial run: two DTLS datagrams and one
   RTP datagram queued, DTLS endpoint created, a third DTLS datagram after it *)
Example c27_order_nontrivial :
  let ps := [[20; 1]; [128; 96; 0; 0]; [20; 2]; [20; 3]]%N in
  let s := run (init real_matchers ps) [0; 0; 0; 1; 0; 0; 2] in
  bufs s = [[[20; 1]; [20; 2]; [20; 3]]; [[128; 96; 0; 0]]; []]%N /\ pendq s = [].
Proof. vm_compute. split; reflexivity. Qed.

(* the code before "fix: flush pending packets inside NewEndpoint's critical
   section" (Model/Mux.v part C): the second datagram overtakes the queued one *)
Example c27_prefix_race_witness :
  o_buf (run0 (init0 match_dtls [[20; 1]; [20; 2]]%N) [0; 1; 0; 0; 1; 2])
  = [[20; 2]; [20; 1]]%N.
Proof. exact legacy_race. Qed.

(* ---- second tie to the source: the translated match functions ----
   Gen/GoMux.v is regenerated from internal/mux/muxfunc.go by tools/go2coq
   before every run of this check (byte strings as list N, buf[k] checked, a
   function that indexes returns result).  For ALL byte strings each generated
   function IS the model's; for the three the model wrote as total functions
   the statement also says that the Go function never panics. *)
From Verif Require Proofs.GenMux Gen.GoMux.
Theorem c27_generated_model_agrees_MatchRange : forall lo hi buf,
  GoMux.MatchRange lo hi buf = Ok (match_range lo hi buf).
Proof. exact GenMux.gen_match_range_agrees. Qed.
Print Assumptions c27_generated_model_agrees_MatchRange.

Theorem c27_generated_model_agrees_MatchDTLS : forall buf,
  GoMux.MatchDTLS buf = Ok (match_dtls buf).
Proof. exact GenMux.gen_match_dtls_agrees. Qed.
Print Assumptions c27_generated_model_agrees_MatchDTLS.

Theorem c27_generated_model_agrees_MatchSRTPOrSRTCP : forall buf,
  GoMux.MatchSRTPOrSRTCP buf = Ok (match_srtp_or_srtcp buf).
Proof. exact GenMux.gen_match_srtp_or_srtcp_agrees. Qed.
Print Assumptions c27_generated_model_agrees_MatchSRTPOrSRTCP.

Theorem c27_generated_model_agrees_isRTCP : forall buf, GoMux.isRTCP buf = is_rtcp buf.
Proof. exact GenMux.gen_is_rtcp_agrees. Qed.
Print Assumptions c27_generated_model_agrees_isRTCP.

Theorem c27_generated_model_agrees_MatchSRTP : forall buf, GoMux.MatchSRTP buf = match_srtp buf.
Proof. exact GenMux.gen_match_srtp_agrees. Qed.
Print Assumptions c27_generated_model_agrees_MatchSRTP.

Theorem c27_generated_model_agrees_MatchSRTCP : forall buf, GoMux.MatchSRTCP buf = match_srtcp buf.
Proof. exact GenMux.gen_match_srtcp_agrees. Qed.
Print Assumptions c27_generated_model_agrees_MatchSRTCP.

Example c27_generated_nontrivial :
  GoMux.MatchSRTCP [128; 200; 0; 0]%N = Ok true /\ GoMux.MatchSRTP [128; 200; 0; 0]%N = Ok false /\
  GoMux.MatchSRTP [128; 200]%N = Ok true /\ GoMux.MatchDTLS [] = Ok false.
Proof. repeat split; reflexivity. Qed.
