(* C31 placeholder *)
From Verif Require Import Model.SampleBuilder.
