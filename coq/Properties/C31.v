(* C31 SampleBuilder emits only well-formed samples, in order, each once.
   Statements only; the model is Model/SampleBuilder.v, the vocabulary of the
   statements Model/SampleBuilderSpec.v, the proofs Proofs/SampleBuilder*.v.

   Every statement about histories quantifies over the depacketizer (any three
   pure functions), the configuration (maxLate, max time delay, handlers) and
   every list of Push / Pop / Flush operations. *)
From Coq Require Import List ZArith NArith Bool.
Import ListNotations.
From Verif Require Import Common.Base Model.SampleBuilder Model.SampleBuilderSpec
  Proofs.SampleBuilderArith Proofs.SampleBuilderIter Proofs.SampleBuilder
  Proofs.SampleBuilderScan Proofs.SampleBuilderBuild Proofs.SampleBuilderFuel Proofs.SampleBuilderFifo
  Proofs.SampleBuilderNoPanic Proofs.SampleBuilderTop Proofs.SampleBuilderInside
  Proofs.SampleBuilderOrder Proofs.SampleBuilderOnce Proofs.SampleBuilderComplete Proofs.SampleBuilderTop2.
Open Scope N_scope.

(* ---------- uint16 / uint32 arithmetic, all values ---------- *)

(* the model's wrap arithmetic is arithmetic modulo 2^16 / 2^32 *)
Theorem c31_wrap_arithmetic : forall a b,
  w16 a = a mod 65536 /\ w32 a = a mod 4294967296 /\
  sub16 a b = subw 65536 a b /\ sub32 a b = (a + 4294967296 - b mod 4294967296) mod 4294967296 /\
  inc16 a = (a + 1) mod 65536.
Proof.
  intros a b. repeat split.
  - exact (w16_spec a). - exact (w32_spec a). - exact (sub16_subw a b).
  - exact (sub32_spec a b). - exact (inc16_spec a).
Qed.
Print Assumptions c31_wrap_arithmetic.

(* seqnumDistance / timestampDistance: the shorter way round the ring,
   symmetric, at most half the ring, zero exactly on equal arguments *)
Theorem c31_distance :
  (forall x y, x < 65536 -> y < 65536 ->
     seqnumDistance x y = N.min (sub16 x y) (sub16 y x) /\
     seqnumDistance x y = seqnumDistance y x /\
     seqnumDistance x y <= 32768 /\
     (seqnumDistance x y = 0 <-> x = y)) /\
  (forall x y, x < 4294967296 -> y < 4294967296 ->
     timestampDistance x y = N.min (sub32 x y) (sub32 y x) /\
     timestampDistance x y = timestampDistance y x /\
     timestampDistance x y <= 2147483648 /\
     (timestampDistance x y = 0 <-> x = y)).
Proof. exact (conj seqnumDistance_spec timestampDistance_spec). Qed.
Print Assumptions c31_distance.

(* sampleSequenceLocation.compare, for every head, tail and position:
   Void exactly for the empty location; Inside exactly when the forward offset
   of pos from head is below the span; otherwise Before when pos is nearer (or
   as near) to the head going backwards than to the tail going forwards, else
   After.  The head of a non-empty location is Inside, its tail After. *)
Theorem c31_compare_lemmas : forall l pos, loc_ok l -> pos < 65536 ->
  (compare l pos = CVoid <-> l_head l = l_tail l) /\
  (compare l pos = CInside <-> l_head l <> l_tail l /\ off l pos < span l) /\
  (compare l pos = CBefore <-> l_head l <> l_tail l /\ span l <= off l pos /\
                               sub16 (l_head l) pos <= sub16 pos (l_tail l)) /\
  (compare l pos = CAfter <-> l_head l <> l_tail l /\ span l <= off l pos /\
                              sub16 pos (l_tail l) < sub16 (l_head l) pos) /\
  (l_head l <> l_tail l -> compare l (l_head l) = CInside /\ compare l (l_tail l) = CAfter).
Proof.
  intros l pos Hl Hp. destruct (compare_spec l pos Hl Hp) as (H1 & H2 & H3 & H4).
  repeat (split; [assumption|]). intro Hn. split; [apply compare_head|apply compare_tail]; assumption.
Qed.
Print Assumptions c31_compare_lemmas.

(* ---------- fuel ---------- *)

(* the two index loops of buildSample end within their 65537 units of fuel:
   the scan whenever the active window is non-empty (buildSample enters it
   only then), the collecting loop always *)
Theorem c31_loop_fuel_suffices : forall is_tail s,
  loc_ok (active s) ->
  (l_head (active s) <> l_tail (active s) -> snd (scan is_tail s) = false) /\
  (forall l, loc_ok l -> snd (collect s l) = false).
Proof.
  intros is_tail s Hl. split.
  - intro Hn. apply scan_fuel; assumption.
  - intros l [H1 H2]. apply collect_fuel; assumption.
Qed.
Print Assumptions c31_loop_fuel_suffices.

(* the loop of purgeBuffers ends within its fuel, from every state whose
   locations are uint16 values: each iteration strictly decreases
   |buffer| * 65536 + (filled.tail - filled.head), and the fuel is that
   measure plus one *)
Theorem c31_purge_fuel_suffices : forall is_head is_tail unmarshal c flush s,
  loc_ok (filled s) /\ loc_ok (active s) ->
  snd (iter_pos (N.succ_pos (purge_measure (purgeConsumedBuffers s)))
                (purge_step is_head is_tail unmarshal c flush) (purgeConsumedBuffers s)) = false.
Proof.
  intros is_head is_tail unmarshal c fl s Hok. apply purge_fuel.
  apply (r_ok _ _ _ _ _ (rel_purgeConsumedBuffers is_head is_tail unmarshal s)). exact Hok.
Qed.
Print Assumptions c31_purge_fuel_suffices.

(* over every history the model never raises fault 2: buildSample never reads
   s.buffer[i].Payload / .Timestamp / .Header of an empty slot, i.e. the Go code
   has no nil dereference there (the depacketizer and the handlers aside) *)
Theorem c31_no_nil_dereference : forall is_head is_tail unmarshal c ops,
  history_ok ops -> fault (fst (run is_head is_tail unmarshal c ops)) <> 2.
Proof. exact no_nil_dereference. Qed.
Print Assumptions c31_no_nil_dereference.

(* ---------- no model fault ---------- *)

(* full statement: forall is_head is_tail unmarshal c ops, history_ok ops ->
     fault (fst (run ... c ops)) = 0
   (no loop of the model runs out of fuel, no nil slot is dereferenced, no sample is
   built over an active window that the tail extension has just emptied).
   Refuted for three kinds of configuration; in each a packet ends up buffered outside
   `filled`, a later Pop extends active.tail to filled.tail = active.head, and
   buildSample runs over the emptied window: the emitted sample has PacketTimestamp 0
   instead of its head packet's timestamp (and the scan no longer stops at a
   timestamp change).
   (a) WithMaxTimeDelay, maxLate 50: purgeBuffers releases and increments filled.head
       once more after a forced buildSample has already advanced it to filled.tail;
       filled becomes [tail+1, tail), 65535 slots, and the Push of seq tail wraps it
       to empty. *)
Theorem c31_no_fault_refuted : exists is_head is_tail unmarshal c ops,
  history_ok ops /\ fault (fst (run is_head is_tail unmarshal c ops)) <> 0 /\
  exists x, In x (snd (run is_head is_tail unmarshal c ops)) /\ ~ sample_ts is_tail x.
Proof.
  exists fk_is_head, fk_is_tail, fk_unmarshal, dcfg, w_fault_delay_ops.
  destruct fault_witness_delay as (H1 & H2 & x & Hx & Hw).
  split; [exact H1|]. split; [exact H2|]. exists x. split; [exact Hx|apply wrong_ts_not_sample_ts; exact Hw].
Qed.
Print Assumptions c31_no_fault_refuted.

(* (b) the same defect without max-time-delay when maxLate = 1 *)
Theorem c31_no_fault_maxlate1_refuted : exists is_head is_tail unmarshal c ops,
  c_maxLateTs c = 0 /\ c_maxLate c = 1 /\
  history_ok ops /\ fault (fst (run is_head is_tail unmarshal c ops)) <> 0 /\
  exists x, In x (snd (run is_head is_tail unmarshal c ops)) /\ ~ sample_ts is_tail x.
Proof.
  exists fk_is_head, fk_is_tail, fk_unmarshal, (wcfg 1), w_fault_late1_ops.
  destruct fault_witness_late1 as (H1 & H2 & x & Hx & Hw).
  split; [reflexivity|]. split; [reflexivity|].
  split; [exact H1|]. split; [exact H2|]. exists x. split; [exact Hx|apply wrong_ts_not_sample_ts; exact Hw].
Qed.
Print Assumptions c31_no_fault_maxlate1_refuted.

(* (c) maxLate = 21845 (the bound of the partial theorem is 21844): filled.count() is
   the shorter way round the ring, so a window of more than 65536 - maxLate slots is
   never purged; it grows to 65535 slots and the next Push wraps it to empty with 20
   packets still buffered.  The sample of seq 0, 1 (timestamp 5000) is emitted with
   PacketTimestamp 0. *)
Theorem c31_no_fault_large_maxlate_refuted : exists is_head is_tail unmarshal c ops,
  c_maxLateTs c = 0 /\ c_maxLate c = 21845 /\
  history_ok ops /\ fault (fst (run is_head is_tail unmarshal c ops)) <> 0 /\
  exists x hp rest, In x (snd (run is_head is_tail unmarshal c ops)) /\
    s_pkts x = hp :: rest /\ s_ts x <> p_ts hp.
Proof.
  exists fk_is_head, fk_is_tail, fk_unmarshal, (wcfg 21845), w_fault_wrap_ops.
  destruct fault_witness_wrap as (H1 & H2 & x & Hx & Hp & Ht).
  split; [reflexivity|]. split; [reflexivity|].
  split; [exact H1|]. split; [exact H2|].
  exists x, (wp 0 0 5000 1), [wp 1 1 5000 2]. split; [exact Hx|]. split; [exact Hp|].
  rewrite Ht. vm_compute. discriminate.
Qed.
Print Assumptions c31_no_fault_large_maxlate_refuted.

(* What is proved: without max-time-delay and with maxLate 0 or 2..21844, no history
   raises a model fault.  The proof carries the invariant "every buffered key is
   Inside filled, and between operations filled spans at most maxLate slots" through
   Push, Pop, Flush and every iteration of the purge loop. *)
Theorem c31_no_fault_partial : forall is_head is_tail unmarshal c ops,
  c_maxLateTs c = 0 -> c_maxLate c <> 1 -> c_maxLate c <= 21844 ->
  history_ok ops ->
  fault (fst (run is_head is_tail unmarshal c ops)) = 0.
Proof. intros. apply no_fault_partial; [repeat split|]; assumption. Qed.
Print Assumptions c31_no_fault_partial.

(* ---------- clause 1: every emitted sample ---------- *)

(* Over every history, with no further condition: every sample returned by a
   Pop is the concatenation, in sequence order, of the depacketized payloads of
   a non-empty run of pushed packets with consecutive sequence numbers whose
   first packet is a partition head. *)
Theorem c31_sample_is_run_from_partition_head : forall is_head is_tail unmarshal c ops x,
  history_ok ops ->
  In x (snd (run is_head is_tail unmarshal c ops)) ->
  sample_run is_head unmarshal (pushed_of ops) x.
Proof. exact emitted_run. Qed.
Print Assumptions c31_sample_is_run_from_partition_head.

(* Over every history: within one emitted sample no pushed packet occurs twice
   (the full clause "no packet contributes to two samples" is refuted below) *)
Theorem c31_packet_once_within_sample : forall is_head is_tail unmarshal c ops x,
  history_ok ops ->
  In x (snd (run is_head is_tail unmarshal c ops)) ->
  NoDup (map p_id (s_pkts x)).
Proof. exact emitted_distinct. Qed.
Print Assumptions c31_packet_once_within_sample.

(* The timestamp part, over every history that raises no model fault: the
   sample's PacketTimestamp is its head packet's; all packets but the last
   carry that timestamp and are not partition tails, and the last carries it
   unless it is a partition tail.

   partial in two respects: (a) "all packets share one timestamp" is false for
   the faithful model (next theorem); (b) the guard fault = 0: the model
   raises a fault when a loop runs out of fuel, when the Go code would
   dereference a nil slot, or when a sample is built although the active window
   was empty after extending its tail (then fetchTimestamp has no data and the
   Go code uses timestamp 0).  The guard is discharged for the configurations of
   c31_no_fault_partial (c31_sample_wellformed_partial below) and cannot be dropped
   in general (c31_no_fault_refuted and its two companions: samples with
   PacketTimestamp 0).  The flag is part of every compared observation of the
   correspondence runs. *)
Theorem c31_sample_timestamp_partial : forall is_head is_tail unmarshal c ops x,
  history_ok ops ->
  fault (fst (run is_head is_tail unmarshal c ops)) = 0 ->
  In x (snd (run is_head is_tail unmarshal c ops)) ->
  sample_wf is_head is_tail unmarshal (pushed_of ops) x.
Proof. exact emitted_wf. Qed.
Print Assumptions c31_sample_timestamp_partial.

(* the same without the fault guard, on the configurations of c31_no_fault_partial *)
Theorem c31_sample_wellformed_partial : forall is_head is_tail unmarshal c ops x,
  c_maxLateTs c = 0 -> c_maxLate c <> 1 -> c_maxLate c <= 21844 ->
  history_ok ops ->
  In x (snd (run is_head is_tail unmarshal c ops)) ->
  sample_wf is_head is_tail unmarshal (pushed_of ops) x.
Proof. intros. apply (emitted_wf_cfg is_head is_tail unmarshal c); [repeat split| |]; assumption. Qed.
Print Assumptions c31_sample_wellformed_partial.

(* full timestamp clause: forall ... x, In x (snd (run ... ops)) -> one_timestamp x.
   Refuted: buildSample tests the partition-tail flag before the timestamp
   change, so a tail-flagged packet that directly follows a frame whose end is
   not flagged is merged into that frame: seq 10 (ts 1, head), seq 11 (ts 2,
   head and tail) give one sample with timestamps 1 and 2. *)
Theorem c31_one_timestamp_refuted : exists is_head is_tail unmarshal c ops,
  history_ok ops /\ fault (fst (run is_head is_tail unmarshal c ops)) = 0 /\
  exists x, In x (snd (run is_head is_tail unmarshal c ops)) /\ ~ one_timestamp x.
Proof. exists fk_is_head, fk_is_tail, fk_unmarshal, (wcfg 50), w_ts_ops. exact one_timestamp_witness. Qed.
Print Assumptions c31_one_timestamp_refuted.

(* ---------- released packets ---------- *)

(* over every history: the release handler gets each packet object at most
   once, only packets that were pushed, and never one that is still buffered *)
Theorem c31_released_once : forall is_head is_tail unmarshal c ops,
  history_ok ops ->
  let s := fst (run is_head is_tail unmarshal c ops) in
  NoDup (map p_id (released s)) /\
  (forall p, In p (released s) -> In p (pushed_of ops)) /\
  NoDup (map p_id (released s) ++ map (fun e => p_id (snd e)) (buf s)).
Proof.
  intros is_head is_tail unmarshal c ops H. cbv zeta.
  destruct (released_once is_head is_tail unmarshal c ops H) as [H1 H2].
  split; [exact H1|]. split; [exact H2|]. apply buffer_disjoint_released. exact H.
Qed.
Print Assumptions c31_released_once.

(* ---------- clause 2: order, each packet once ---------- *)

(* full statement: forall ... ops, history_ok ops -> in_order (snd (run ... ops)).
   Refuted: once the buffer has drained completely (maxLate 0 or 1, or a Flush
   in mid-stream) the builder has no memory of its position; an older packet
   that arrives next is accepted and emitted after the newer one. *)
Theorem c31_in_order_refuted : exists is_head is_tail unmarshal c ops,
  history_ok ops /\ fault (fst (run is_head is_tail unmarshal c ops)) = 0 /\
  ~ in_order (snd (run is_head is_tail unmarshal c ops)).
Proof. exists fk_is_head, fk_is_tail, fk_unmarshal, (wcfg 0), w_order_ops. exact in_order_witness. Qed.
Print Assumptions c31_in_order_refuted.

(* full statement: forall ... ops, history_ok ops -> each_packet_once (snd (run ... ops)).
   Refuted without any duplicate being pushed: a purge that empties the active
   window (Flush here) re-anchors it on filled, whose head still covers packets
   that were consumed but not yet released; when those are partition heads they
   are built again. *)
Theorem c31_each_packet_once_refuted : exists is_head is_tail unmarshal c ops,
  history_ok ops /\ fault (fst (run is_head is_tail unmarshal c ops)) = 0 /\
  ~ each_packet_once (snd (run is_head is_tail unmarshal c ops)).
Proof. exists fk_is_head, fk_is_tail, fk_unmarshal, (wcfg 50), w_once_ops. exact once_witness. Qed.
Print Assumptions c31_each_packet_once_refuted.

(* What does hold of the order, over every history: Pop is a faithful queue.
   The samples returned by the Pops are exactly the first samples buildSample
   produced, in the order it produced them, none skipped, repeated or
   reordered (built is the model's log of every sample buildSample made;
   the 2^16-slot ring of prepared samples is the reason for the bound). *)
Theorem c31_pops_in_build_order : forall is_head is_tail unmarshal c ops,
  N.of_nat (List.length (built (fst (run is_head is_tail unmarshal c ops)))) < 65536 ->
  exists pending,
    rev (built (fst (run is_head is_tail unmarshal c ops)))
    = snd (run is_head is_tail unmarshal c ops) ++ pending.
Proof. exact pops_in_build_order. Qed.
Print Assumptions c31_pops_in_build_order.

(* Partial statements.  Their guards are predicates on the model's ghost event log
   (Model/SampleBuilderSpec.v: log_ok, clean_log), which the history determines.

   Order: as long as the head of the active window never gets 32767 or more sequence
   numbers ahead of the end of the last built sample -- a re-anchoring that lands behind
   the position already reached counts as a forward jump of 32768 or more, so the two
   recorded causes are excluded, and so is half a ring of dropped or skipped packets
   between two samples, where order modulo 2^16 means nothing -- the samples come out in
   sequence-number order.  Every configuration, every depacketizer. *)
Theorem c31_in_order_partial : forall is_head is_tail unmarshal c ops,
  history_ok ops ->
  log_ok (evlog (fst (run is_head is_tail unmarshal c ops))) ->
  N.of_nat (List.length (built (fst (run is_head is_tail unmarshal c ops)))) < 65536 ->
  in_order (snd (run is_head is_tail unmarshal c ops)).
Proof. exact emitted_in_order. Qed.
Print Assumptions c31_in_order_partial.

(* Once: if the active window is never re-anchored while a packet of an already built
   sample is still buffered (the negation of consumed-packets-rebuilt-after-active-
   drained), no pushed packet is part of two samples.  Configurations of
   c31_no_fault_partial (the proof needs every buffered key Inside filled).
   The stronger statement with only "frames have one partition head" in place of
   clean_log (so that a Flush after a frame of three or more packets is covered) is
   not proved. *)
Theorem c31_each_packet_once_partial : forall is_head is_tail unmarshal c ops,
  c_maxLateTs c = 0 -> c_maxLate c <> 1 -> c_maxLate c <= 21844 ->
  history_ok ops ->
  clean_log (evlog (fst (run is_head is_tail unmarshal c ops))) ->
  N.of_nat (List.length (built (fst (run is_head is_tail unmarshal c ops)))) < 65536 ->
  each_packet_once (snd (run is_head is_tail unmarshal c ops)).
Proof. intros. apply emitted_once; [repeat split| | |]; assumption. Qed.
Print Assumptions c31_each_packet_once_partial.

(* both guards hold of a history with reordering, sequence-number wrap, multi-packet
   frames and a final Flush that emits four samples; they fail on the witnesses of the
   two refuted statements above *)
Example c31_order_once_guards_nontrivial :
  history_ok w_ord_ops /\
  log_ok (evlog (fst (run fk_is_head fk_is_tail fk_unmarshal (wcfg 50) w_ord_ops))) /\
  clean_log (evlog (fst (run fk_is_head fk_is_tail fk_unmarshal (wcfg 50) w_ord_ops))) /\
  N.of_nat (List.length (built (fst (run fk_is_head fk_is_tail fk_unmarshal (wcfg 50) w_ord_ops)))) < 65536 /\
  map (fun x => map p_seq (s_pkts x)) (snd (run fk_is_head fk_is_tail fk_unmarshal (wcfg 50) w_ord_ops))
  = [[65534; 65535; 0]; [1; 2; 3]; [4; 5; 6]; [7]].
Proof. exact w_ord_guards. Qed.

(* ---------- clause 3: completeness after Flush ---------- *)

(* full statement:
     forall c fs ops d, stream_ok fs -> delivers d fs ops -> N.of_nat d <= c_maxLate c ->
       all_frames_emitted fs (snd (run ... (ops ++ OFlush :: repeat OPop (length fs)))).
   Refuted by the design probe's stream: packets whose sequence number precedes
   the first packet ever pushed are released unbuilt once a Pop has anchored the
   active window. *)
Theorem c31_complete_full_refuted : exists c fs ops d,
  stream_ok fk_is_head fk_is_tail fs /\ delivers d fs ops /\ N.of_nat d <= c_maxLate c /\
  history_ok ops /\
  fault (fst (run fk_is_head fk_is_tail fk_unmarshal c (ops ++ OFlush :: repeat OPop (List.length fs)))) = 0 /\
  ~ all_frames_emitted fs
      (snd (run fk_is_head fk_is_tail fk_unmarshal c (ops ++ OFlush :: repeat OPop (List.length fs)))).
Proof.
  exists (wcfg 50), w_frames, w_complete_ops, 1%nat.
  destruct complete_witness as (H1 & H2 & H3 & H4 & H5).
  split; [exact H1|]. split; [exact H2|]. split; [vm_compute; discriminate|]. split; [exact H3|].
  split; [exact H4|exact H5].
Qed.
Print Assumptions c31_complete_full_refuted.

(* The statement planned in the first round,
     forall c fs ops d, stream_ok fs -> delivers d fs ops ->
       2 * N.of_nat d + 4 <= c_maxLate c -> c_maxLateTs c = 0 -> first_pushed_is_lowest fs ops ->
       all_frames_emitted fs (snd (run ... (ops ++ OFlush :: repeat OPop (length fs)))),
   is false as well: maxLate has to cover the frame length, not only the reordering.  A frame of
   six packets delivered in order (d = 0) with a Pop after every Push and maxLate 4: when
   filled.count() exceeds maxLate the forced build finds no frame end yet and purgeBuffers
   drops the frame's first packet. *)
Theorem c31_complete_long_frame_refuted : exists c fs ops d,
  stream_ok fk_is_head fk_is_tail fs /\ delivers d fs ops /\
  2 * N.of_nat d + 4 <= c_maxLate c /\ c_maxLateTs c = 0 /\ first_pushed_is_lowest fs ops /\
  history_ok ops /\
  fault (fst (run fk_is_head fk_is_tail fk_unmarshal c (ops ++ OFlush :: repeat OPop (List.length fs)))) = 0 /\
  ~ all_frames_emitted fs
      (snd (run fk_is_head fk_is_tail fk_unmarshal c (ops ++ OFlush :: repeat OPop (List.length fs)))).
Proof.
  exists (wcfg 4), w_long_frames, w_long_ops, 0%nat.
  destruct long_frame_witness as (H1 & H2 & H3 & H4 & H5 & H6).
  split; [exact H1|]. split; [exact H2|]. split; [vm_compute; discriminate|]. split; [reflexivity|].
  split; [exact H3|]. split; [exact H4|]. split; [exact H5|exact H6].
Qed.
Print Assumptions c31_complete_long_frame_refuted.

(* What is proved: the case d = 0.  A loss-free stream of well-formed frames pushed in
   sequence order, with Pops anywhere in between and no Flush before the end, no frame
   longer than maxLate, no max-time-delay, every payload accepted by Unmarshal: after
   Flush, one Pop per frame returns every frame.  (delivers 0 makes the pushes the
   stream itself, so first_pushed_is_lowest holds.)  Any maxLate, any depacketizer.
   The proof describes the state after k pushes against the stream: the buffer holds
   exactly the packets lo .. k-1, filled = [seq lo, seq k), the frames before a frame
   boundary a (lo <= a <= k) are built in order, and the active window is empty or
   [seq a, seq x) with a < x <= k; Flush builds the remaining frames and leaves no
   partition head behind. *)
Theorem c31_complete_inorder_partial : forall is_head is_tail unmarshal c fs ops,
  stream_ok is_head is_tail fs -> delivers 0 fs ops ->
  c_maxLateTs c = 0 ->
  (forall f, In f fs -> N.of_nat (List.length f) <= c_maxLate c) ->
  (forall p, In p (concat fs) -> unmarshal (p_payload p) <> None) ->
  all_frames_emitted fs
    (snd (run is_head is_tail unmarshal c (ops ++ OFlush :: repeat OPop (List.length fs)))).
Proof. exact complete_inorder. Qed.
Print Assumptions c31_complete_inorder_partial.

(* its premises hold of four frames (3, 3, 3, 1 packets) across the sequence-number wrap,
   pushed in order with a Pop after every Push, maxLate 50 *)
Example c31_complete_inorder_nontrivial :
  stream_ok fk_is_head fk_is_tail w_inorder_frames /\ delivers 0 w_inorder_frames w_inorder_ops /\
  (forall f, In f w_inorder_frames -> N.of_nat (List.length f) <= c_maxLate (wcfg 50)) /\
  (forall p, In p (concat w_inorder_frames) -> fk_unmarshal (p_payload p) <> None).
Proof. exact w_inorder_premises. Qed.

(* Not proved (planned_not_proved; the "complete-*" classes of the harness check it on every
   generated stream, 4 <= 2 d + 4 <= maxLate, frames of 1..6 packets, maxLate >= 16): the
   statement with reordering,
     c31_complete_partial :
       forall c fs ops d len, stream_ok fs -> delivers d fs ops ->
         Forall (fun f => length f <= len) fs -> N.of_nat (len + d) <= c_maxLate c ->
         c_maxLateTs c = 0 -> c_maxLate c <> 1 -> first_pushed_is_lowest fs ops ->
         (forall p, In p (concat fs) -> unmarshal (p_payload p) <> None) ->
         all_frames_emitted fs (snd (run ... (ops ++ OFlush :: repeat OPop (length fs)))).
   (bound len + d <= maxLate as far as tested on the model; with d > 0 the buffer has holes and
   the state is no longer a contiguous run of the stream, which is what the proof above uses.)
   The guard first_pushed_is_lowest is sufficient as far as tested, not necessary: *)
Example c31_complete_without_early_pop :
  all_frames_emitted w_frames
    (snd (run fk_is_head fk_is_tail fk_unmarshal (wcfg 50)
            ([OPush (wp 0 11 1100 3); OPush (wp 1 10 1000 3); OPop;
              OPush (wp 2 12 1200 3); OPop; OPush (wp 3 13 1300 3); OPop]
             ++ OFlush :: repeat OPop 4))).
Proof. exact complete_witness_no_early_pop. Qed.

(* the premises of c31_sample_timestamp_partial are satisfiable on a history that emits *)
Example c31_sample_run_nontrivial :
  history_ok w_complete_ops /\
  fault (fst (run fk_is_head fk_is_tail fk_unmarshal (wcfg 50) w_complete_ops)) = 0 /\
  List.length (snd (run fk_is_head fk_is_tail fk_unmarshal (wcfg 50) w_complete_ops)) = 2%nat.
Proof.
  split; [apply complete_witness|]. split; vm_compute; reflexivity.
Qed.

(* the configuration guard of c31_no_fault_partial holds of the usual configuration
   (maxLate 50, no max-time-delay), on which w_complete_ops emits two samples *)
Example c31_no_fault_guard_nontrivial :
  c_maxLateTs (wcfg 50) = 0 /\ c_maxLate (wcfg 50) <> 1 /\ c_maxLate (wcfg 50) <= 21844.
Proof. exact fault_free_cfg_50. Qed.
