(* C13: peers always take complementary ICE and DTLS roles.
   Statements only; proofs are in Proofs/Roles.v. *)
From Coq Require Import List Bool String.
Import ListNotations.
From Verif Require Import Common.Base Model.Roles Proofs.Roles.
Open Scope string_scope.

(* For every combination of ICE-lite on each side, configured answering role
   and offered a=setup -- here: every offered setup TEXT, not only the four
   values of the matrix, and every configured role of the offerer as well --
   the answer's a=setup is active or passive, never actpass. *)
Theorem c13_answer_never_actpass : forall c,
  settable (roleB c) ->
  answer (exchange c) = CRactive \/ answer (exchange c) = CRpassive.
Proof. exact answer_never_actpass. Qed.
Print Assumptions c13_answer_never_actpass.

(* the premise "settable": SetAnsweringDTLSRole stores client or server only,
   so the SettingEngine holds the zero value, client or server *)
Theorem c13_setter_stores_client_or_server : forall cur r r',
  set_answering_role cur r = Ok r' -> r' = r /\ (r' = DClient \/ r' = DServer).
Proof. exact setter_settable. Qed.
Print Assumptions c13_setter_stores_client_or_server.

(* exactly one ICE controlling agent ... *)
Theorem c13_ice_exactly_one_controlling : forall c,
  exactly_one_controlling (exchange c).
Proof. exact ice_exactly_one. Qed.
Print Assumptions c13_ice_exactly_one_controlling.

(* ... and it is the one RFC 8445 6.1.1 names *)
Theorem c13_ice_controlling_is_rfc8445 : forall c, ice_ok c (exchange c).
Proof. exact ice_roles_rfc8445. Qed.
Print Assumptions c13_ice_controlling_is_rfc8445.

(* the two endpoints take opposite DTLS roles, each consistent with the
   a=setup value it sent (full statement; holds since the repair of
   CreateAnswer, repo commit "fix: CreateAnswer answers an explicitly offered
   a=setup with its complement") *)
Theorem c13_dtls_complementary : forall c,
  settable (roleB c) -> dtls_ok c (exchange c).
Proof. exact dtls_complementary. Qed.
Print Assumptions c13_dtls_complementary.

(* every cell whose offer says actpass, nothing, or any text other than
   active/passive -- what pion itself offers -- was right before the repair
   too, with the same outcome *)
Theorem c13_actpass_row : forall c,
  settable (roleB c) -> role_from_sdp (offer c) = DAuto ->
  exchange_with answer_conn_role_before_repair c = exchange c /\
  dtls_ok c (exchange_with answer_conn_role_before_repair c).
Proof. exact actpass_row_before_repair. Qed.
Print Assumptions c13_actpass_row.

(* what the repair changed: of the 48 cells of the matrix exactly these nine
   failed with the lines as they were, and on every other cell the outcome is
   unchanged *)
Theorem c13_nine_cells_failed_before_repair : failing_before_repair =
  [ (false, false, DClient, Some "active"); (false, false, DServer, Some "passive");
    (false, true, DClient, Some "active"); (false, true, DServer, Some "passive");
    (true, false, DUnknown, Some "passive");
    (true, false, DClient, Some "active"); (true, false, DServer, Some "passive");
    (true, true, DClient, Some "active"); (true, true, DServer, Some "passive") ].
Proof. exact failing_before_repair_is. Qed.
Print Assumptions c13_nine_cells_failed_before_repair.

Theorem c13_repair_scope : forall c, In c matrix ->
  dtls_okb c (exchange_with answer_conn_role_before_repair c) = true ->
  exchange_with answer_conn_role_before_repair c = exchange c.
Proof. exact repair_scope. Qed.
Print Assumptions c13_repair_scope.

(* the offerer's own configured answering role never matters *)
Theorem c13_offerer_role_irrelevant : forall c r,
  settable (roleB c) ->
  exchange {| liteA := liteA c; liteB := liteB c; roleA := r; roleB := roleB c; offer := offer c |}
  = exchange {| liteA := liteA c; liteB := liteB c; roleA := DUnknown; roleB := roleB c; offer := offer c |}.
Proof. exact offerer_role_irrelevant. Qed.
Print Assumptions c13_offerer_role_irrelevant.

(* premises are satisfiable and the outcomes are not constant *)
Example c13_cell_lite_offerer :
  let c := {| liteA := true; liteB := false; roleA := DUnknown; roleB := DUnknown; offer := Some "passive" |} in
  settable (roleB c) /\ In c matrix /\
  answer (exchange c) = CRactive /\ iceB (exchange c) = IControlling /\
  dtlsA (exchange c) = DServer /\ dtlsB (exchange c) = DClient /\
  answer (exchange_with answer_conn_role_before_repair c) = CRpassive.
Proof.
  split; [unfold settable; cbn; auto|]. split; [vm_compute; auto 30|]. vm_compute. repeat split.
Qed.

Example c13_cell_default :
  let c := {| liteA := false; liteB := false; roleA := DUnknown; roleB := DUnknown; offer := Some "actpass" |} in
  role_from_sdp (offer c) = DAuto /\ answer (exchange c) = CRactive /\
  iceA (exchange c) = IControlling /\ dtlsA (exchange c) = DServer /\ dtlsB (exchange c) = DClient.
Proof. cbn. repeat split. Qed.
