(* C24 Each local ICE candidate is reported once, then exactly one
   end-of-gathering.  Statements only; proofs live in Proofs/Gather*.v.

   Model (Model/Gather.v): the agent's callback goroutine, the candidate pool,
   any number of flushCandidates calls (SetLocalDescription) and ICE restarts
   (a restart starts the next gathering cycle on the same gatherer).  Every
   delivery carries its cycle number as a ghost tag; [view k o] is what the
   application saw of cycle k, [untagged o] all of it.  [run true] is the code
   after "fix: the flush that is reporting pooled ICE candidates also reports
   the end of candidates"; the defect it removed is kept as an Example on
   [run false], the one the earlier repair removed on Part B of the model.

   Full statement (property text), one gathering cycle: on every schedule, once
   the agent's callbacks and all flushCandidates calls have finished and the
   pool has been flushed (or there is none),
       out = (the gathered candidates, each once, in some order) ++ [nil]
   -- c24_full.  Per gathering cycle with ICE restarts: c24_candidates_once,
   c24_end_at_most_once and c24_order on every schedule; c24_cycles_full
   (c24_partial extended to restarts) when no restart happens while candidates
   are still pooled or being flushed; without that premise the end markers of
   two cycles can merge (c24_restart_pooled_refuted). *)
From Coq Require Import List Arith.
Import ListNotations.
From Verif Require Import Model.Gather Proofs.Gather Proofs.GatherTok Proofs.GatherOrder Proofs.GatherFull.

(* one gathering cycle, pool size 0 or 1, any number of SetLocalDescription
   calls, EVERY schedule: nothing after the nil, the nil exactly once, every
   candidate exactly once *)
Theorem c24_full : forall poolsize cands nflush sch,
  (poolsize = 0 \/ 0 < nflush) ->
  let s := run true (init1 poolsize cands nflush) sch in
  quiescent s = true ->
  nil_last (untagged (out s)) = true /\
  nil_count (untagged (out s)) = 1 /\
  forall c, count_occ Nat.eq_dec (emitted (untagged (out s))) c = count_occ Nat.eq_dec cands c.
Proof. exact full_one_cycle. Qed.
Print Assumptions c24_full.

(* with ICE restarts, every schedule: no candidate of any cycle is ever
   reported more often than it was gathered ... *)
Theorem c24_candidates_never_twice : forall poolsize first more nflush sch x,
  cnt x (cands_of (out (run true (init poolsize first more nflush) sch))) <= cnt x (all_cands first more).
Proof. exact candidates_never_twice. Qed.
Print Assumptions c24_candidates_never_twice.

(* ... and exactly as often once everything has finished and SetLocalDescription
   has flushed the pool (or the pool size is 0) *)
Theorem c24_candidates_once : forall poolsize first more nflush sch,
  (poolsize = 0 \/ 0 < nflush) ->
  let s := run true (init poolsize first more nflush) sch in
  quiescent s = true ->
  forall x, cnt x (cands_of (out s)) = cnt x (all_cands first more).
Proof. exact candidates_exactly_once. Qed.
Print Assumptions c24_candidates_once.

(* the end marker of a gathering cycle is never reported twice: every schedule,
   any number of SetLocalDescription calls and restarts *)
Theorem c24_end_at_most_once : forall k poolsize first more nflush sch,
  nil_count (view k (out (run true (init poolsize first more nflush) sch))) <= 1.
Proof.
  intros. rewrite nil_count_view. apply end_at_most_once_per_cycle.
Qed.
Print Assumptions c24_end_at_most_once.

(* per gathering cycle nothing is reported after the cycle's end marker: every
   schedule, any number of SetLocalDescription calls and restarts *)
Theorem c24_order : forall k poolsize first more nflush sch,
  nil_last (view k (out (run true (init poolsize first more nflush) sch))) = true.
Proof. exact order_per_cycle. Qed.
Print Assumptions c24_order.

(* c24_partial for histories with restarts: when no restart happens while
   candidates are pooled or being flushed (runG; such runs are runs of the
   model), per gathering cycle: every candidate once, nothing after the end
   marker, and the end marker exactly once iff the cycle completed *)
Theorem c24_cycles_full : forall poolsize first more nflush sch,
  (poolsize = 0 \/ 0 < nflush) ->
  let s := runG (init poolsize first more nflush) sch in
  quiescent s = true ->
  (forall x, cnt x (cands_of (out s)) = cnt x (all_cands first more)) /\
  forall k, nil_last (view k (out s)) = true /\
            nil_count (view k (out s)) = if nth k (map snd (first :: more)) false then 1 else 0.
Proof. exact full_cycles. Qed.
Print Assumptions c24_cycles_full.

Theorem c24_guarded_runs_are_runs : forall sch s, exists sch', runG s sch = run true s sch'.
Proof. exact runG_is_run. Qed.
Print Assumptions c24_guarded_runs_are_runs.

(* an ICE restart before the first SetLocalDescription of a connection with a
   candidate pool: the first cycle's candidates and its end marker are still
   pooled; both cycles complete, the flush reports ONE end marker for both *)
Theorem c24_restart_pooled_refuted :
  exists first more sch,
    let s := run true (init 1 first more 1) sch in
    quiescent s = true /\ nth 0 (map snd (first :: more)) false = true /\
    nil_count (view 0 (out s)) = 0.
Proof.
  exists ([1], true), [([2], true)],
    [TAgent; TAgent; TAgent; TRestart; TAgent; TAgent; TAgent; TFlush 0; TFlush 0; TFlush 0; TFlush 0].
  cbv zeta. destruct pooled_restart_merges_ends as (H1 & _ & H3 & _). repeat split; assumption.
Qed.
Print Assumptions c24_restart_pooled_refuted.

(* premises are satisfiable: pool size 1, two candidates, two flushes
   interleaved; two cycles with a restart after the first SetLocalDescription *)
Example c24_full_nontrivial :
  let s := run true (init1 1 [1; 2] 2)
             [TAgent; TFlush 0; TAgent; TFlush 0; TAgent; TAgent; TFlush 1; TAgent; TAgent; TFlush 0] in
  quiescent s = true /\ untagged (out s) = [Some 1; Some 2; None].
Proof. vm_compute. split; reflexivity. Qed.

Example c24_cycles_nontrivial :
  let s := runG (init 1 ([1], true) [([2], true)] 2)
             [TAgent; TAgent; TAgent; TFlush 0; TFlush 0; TFlush 0; TRestart; TAgent; TAgent; TFlush 1;
              TAgent; TAgent; TAgent] in
  quiescent s = true /\ out s = [(0, Some 1); (0, None); (1, Some 2); (1, None)].
Proof. vm_compute. split; reflexivity. Qed.

(* the code before the flushing repair: a candidate after the nil *)
Example c24_before_flushing_repair :
  let s := run false (init1 1 [1] 1) [TAgent; TFlush 0; TAgent; TAgent; TAgent; TFlush 0] in
  quiescent s = true /\ untagged (out s) = [None; Some 1] /\ nil_last (untagged (out s)) = false.
Proof. exact order_refuted_before_repair. Qed.

(* the code before "fix: report the end of ICE candidates once ..." (Model/Gather.v
   part B): sequential double nil, and the race on the state read *)
Example c24_prefix_sequential_double_nil :
  out0 (fst (run_trace0 (init0 1 [1; 2] 2) [0; 0; 0; 0; 1; 1; 1; 1; 1; 2; 2; 2]))
  = [Some 1; Some 2; None; None].
Proof. vm_compute. reflexivity. Qed.

Example c24_prefix_race_double_nil :
  out0 (fst (run_trace0 (init0 1 [1; 2] 1) [1; 0; 0; 0; 0; 0; 0; 0; 1; 1]))
  = [Some 1; Some 2; None; None].
Proof. vm_compute. reflexivity. Qed.
