(* C24 Each local ICE candidate is reported once, then exactly one
   end-of-gathering.  Statements only; proofs live in Proofs/Gather.v.

   Full statement (property text): on every schedule, once the agent's
   callbacks and all flushCandidates calls have finished and the pool has been
   flushed (or there is none),
       out = (the gathered candidates, each once, in some order) ++ [nil].
   It is refuted by c24_full_refuted (a candidate after the nil); what holds on
   every schedule is c24_candidates_once, c24_end_at_most_once and c24_partial
   (everything except the position of the nil), c24_partial_nopool (the full
   statement when there is no pool) and c24_partial_atomic_flush (the position
   of the nil when no flush is interleaved with the agent). *)
From Coq Require Import List Arith.
Import ListNotations.
From Verif Require Import Model.Gather Proofs.Gather Proofs.GatherAtomic.

(* every gathered candidate is reported exactly once: never more often than it
   was gathered, at any moment of any schedule ... *)
Theorem c24_candidates_never_twice : forall poolsize cands nflush sch x,
  count_occ Nat.eq_dec (emitted (out (run (init poolsize cands nflush) sch))) x
  <= count_occ Nat.eq_dec cands x.
Proof. exact candidates_at_most_once. Qed.
Print Assumptions c24_candidates_never_twice.

(* ... and exactly as often once everything has finished and
   SetLocalDescription has flushed the pool (or the pool size is 0) *)
Theorem c24_candidates_once : forall poolsize cands nflush sch,
  (poolsize = 0 \/ 0 < nflush) ->
  let s := run (init poolsize cands nflush) sch in
  quiescent s = true ->
  forall x, count_occ Nat.eq_dec (emitted (out s)) x = count_occ Nat.eq_dec cands x.
Proof. exact candidates_exactly_once. Qed.
Print Assumptions c24_candidates_once.

(* the end-of-candidates marker is never reported twice, on any schedule, with
   any number of SetLocalDescription calls (code after the repair) *)
Theorem c24_end_at_most_once : forall poolsize cands nflush sch,
  nil_count (out (run (init poolsize cands nflush) sch)) <= 1.
Proof. exact end_at_most_once. Qed.
Print Assumptions c24_end_at_most_once.

(* what holds of the full statement on every schedule: each candidate once
   and the marker exactly once (its position is the open point) *)
Theorem c24_partial : forall poolsize cands nflush sch,
  (poolsize = 0 \/ 0 < nflush) ->
  let s := run (init poolsize cands nflush) sch in
  quiescent s = true ->
  (forall x, count_occ Nat.eq_dec (emitted (out s)) x = count_occ Nat.eq_dec cands x) /\
  nil_count (out s) = 1.
Proof. exact partial_all_schedules. Qed.
Print Assumptions c24_partial.

(* the full statement fails with a pool: the flush has taken the pooled
   candidate but not yet reported it when the nil callback reports the end *)
Theorem c24_full_refuted :
  exists poolsize cands nflush sch,
    let s := run (init poolsize cands nflush) sch in
    quiescent s = true /\ nil_last (out s) = false.
Proof. exact full_refuted. Qed.
Print Assumptions c24_full_refuted.

(* without a pool the full statement holds on every schedule: the handler
   sequence is always a prefix of candidates-then-nil, and is all of it at the end *)
Theorem c24_partial_nopool : forall cands nflush sch,
  let s := run (init 0 cands nflush) sch in
  (exists rest, out s ++ rest = map Some cands ++ [None]) /\
  (quiescent s = true -> out s = map Some cands ++ [None]).
Proof. exact nopool_full. Qed.
Print Assumptions c24_partial_nopool.

(* with a pool the full statement holds on every schedule in which no
   flushCandidates call is interleaved with the agent's callbacks (runF runs
   each flush in one block; such runs are runs of the faithful model):
   nothing is reported after the nil *)
Theorem c24_partial_atomic_flush : forall poolsize cands nflush sch,
  nil_last (out (runF (init poolsize cands nflush) sch)) = true.
Proof. exact atomic_flush_order. Qed.
Print Assumptions c24_partial_atomic_flush.

Theorem c24_atomic_flush_runs_are_runs : forall sch s,
  exists sch', runF s sch = run s sch'.
Proof. exact runF_is_run. Qed.
Print Assumptions c24_atomic_flush_runs_are_runs.

(* premises are satisfiable: pool size 1, two candidates, two flushes interleaved *)
Example c24_partial_nontrivial :
  let s := run (init 1 [1; 2] 2) [0; 1; 0; 1; 0; 0; 2; 0; 0] in
  quiescent s = true /\ out s = [Some 1; Some 2; None].
Proof. vm_compute. split; reflexivity. Qed.

(* the code before "fix: report the end of ICE candidates once ..." (Model/Gather.v
   part B): sequential double nil, and the race on the state read *)
Example c24_prefix_sequential_double_nil :
  out0 (fst (run_trace0 (init0 1 [1; 2] 2) [0; 0; 0; 0; 1; 1; 1; 1; 1; 2; 2; 2]))
  = [Some 1; Some 2; None; None].
Proof. vm_compute. reflexivity. Qed.

Example c24_prefix_race_double_nil :
  out0 (fst (run_trace0 (init0 1 [1; 2] 1) [1; 0; 0; 0; 0; 0; 0; 0; 1; 1]))
  = [Some 1; Some 2; None; None].
Proof. vm_compute. reflexivity. Qed.
