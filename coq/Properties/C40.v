(* C40 Concurrent use of PeerConnection is race-free and deadlock-free.
   PARTIAL.  The data-race clause is a statement about the Go memory model
   applied to the implementation's memory accesses; it is NOT addressed by
   proof.  The deadlock clause is addressed for deadlocks by lock order only:
   the "acquired while held" graph over the mutex fields of pion/webrtc is
   extracted from the source on every run (tools/lockgraph) and must pass the
   ranking checker proved sound here; channel waits, WaitGroups, callbacks,
   calls through interfaces and into other modules are outside the graph.
   Statements only; proofs live in Proofs/LockOrder.v. *)
From Coq Require Import List Arith Bool Lia.
Import ListNotations.
From Verif Require Import Model.LockOrder Proofs.LockOrder.

(* In the lock-only interleaving model, for ANY number of threads, ANY
   schedule and ANY ranking r: if every thread acquires locks in strictly
   increasing rank (releases only what it holds and ends holding nothing), no
   reachable state is deadlocked (some thread unfinished, nobody can move). *)
Theorem ranked_locks_no_deadlock : forall (r : lock -> nat) progs sched,
  Forall (fun p => disciplined r p []) progs ->
  ~ deadlocked (lrun (linit progs) sched).
Proof. exact ranked_no_deadlock. Qed.
Print Assumptions ranked_locks_no_deadlock.

(* the checker: a ranking it returns respects every edge of the graph *)
Theorem acyclic_has_ranking : forall edges rk,
  find_ranking edges = Some rk ->
  forall a b, In (a, b) edges -> rank_of rk a < rank_of rk b.
Proof. exact find_ranking_sound. Qed.
Print Assumptions acyclic_has_ranking.

(* together: threads whose nested acquisitions all appear as edges of a graph
   accepted by the checker never deadlock.  The per-run obligation is the
   computation [find_ranking generated_edges <> None] (Gen/LockGraph.v and the
   case file of the suite "lockgraph"). *)
Theorem c40_lock_order_partial : forall edges rk progs sched,
  find_ranking edges = Some rk ->
  Forall (fun p => respects edges p []) progs ->
  ~ deadlocked (lrun (linit progs) sched).
Proof. exact graph_no_deadlock. Qed.
Print Assumptions c40_lock_order_partial.

(* the checker is not vacuous: it accepts a DAG, refuses a cycle and a self-loop *)
Example c40_checker_accepts :
  find_ranking [(0, 1); (0, 2); (1, 3); (2, 3); (3, 4)] = Some [0; 1; 1; 2; 3].
Proof. reflexivity. Qed.
Example c40_checker_refuses_cycle : find_ranking [(0, 1); (1, 2); (2, 0)] = None.
Proof. reflexivity. Qed.
Example c40_checker_refuses_self : find_ranking [(0, 1); (1, 1)] = None.
Proof. reflexivity. Qed.

(* the premise is satisfiable: two disciplined threads ... *)
Example c40_disciplined_pair :
  Forall (fun p => disciplined (fun l => l) p [])
         [[Acq 0; Acq 1; Rel 1; Rel 0]; [Acq 1; Rel 1; Acq 0; Acq 1; Rel 0; Rel 1]].
Proof.
  constructor; [|constructor; [|constructor]]; simpl; repeat split; intros;
    repeat match goal with H : _ \/ _ |- _ => destruct H | H : False |- _ => destruct H end;
    subst; auto; try lia.
Qed.

(* ... and it is needed: opposite orders reach a deadlocked state *)
Example c40_opposite_orders_deadlock :
  deadlocked (lrun (linit [[Acq 0; Acq 1; Rel 1; Rel 0]; [Acq 1; Acq 0; Rel 0; Rel 1]]) [0; 1]).
Proof.
  split.
  - eexists. split; [left; reflexivity|]. simpl. discriminate.
  - intros [|[|tid]]; try reflexivity. vm_compute. destruct tid; reflexivity.
Qed.
