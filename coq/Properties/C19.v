(* C19 Data channels deliver exactly once, in order, intact; in-band channels
   appear remotely with the same parameters.  PARTIAL: pion/sctp and
   pion/datachannel are assumed to be a reliable ordered FIFO per stream that
   carries DCEP (type, reliability, label, protocol) unchanged; that contract
   is the visible premise [fifo_contract] / the definition [dcep_wire].
   Statements only; proofs live in Proofs/DataChannel.v. *)
From Coq Require Import List NArith ZArith String Bool.
Import ListNotations.
From Verif Require Import Common.Base Model.DataChannel Proofs.DataChannel Model.DcAccept Proofs.DcAccept.
Open Scope N_scope.

(* acceptDataChannels undoes DataChannel.open: every parameter record whose
   two limits are uint16 values and not both set comes back unchanged - label,
   protocol, ordered, maxRetransmits, maxPacketLifeTime, negotiated *)
Theorem c19_params_roundtrip : forall p,
  params_ok p -> both_limits p = false -> accept_params (open_params p) = p.
Proof. exact params_roundtrip. Qed.
Print Assumptions c19_params_roundtrip.

(* composed with the DCEP carriage contract: an in-band channel appears on the
   remote peer with exactly p; a negotiated one sends nothing *)
Theorem c19_remote_sees_params : forall p,
  params_ok p -> both_limits p = false ->
  (p_negotiated p = false ->
     option_map accept_params (dcep_wire (open_params p)) = Some p) /\
  (p_negotiated p = true -> dcep_wire (open_params p) = None).
Proof. exact remote_sees_params. Qed.
Print Assumptions c19_remote_sees_params.

(* both limits set: CreateDataChannel refuses (TypeError); through the ORTC
   constructor, which does not check, maxRetransmits wins in open's switch and
   maxPacketLifeTime is silently not signalled *)
Theorem c19_both_limits_rejected : forall p,
  (both_limits p = true -> create_check p = Err "retransmits-or-packet-lifetime") /\
  (both_limits p = false -> create_check p = Ok p).
Proof. exact create_check_spec. Qed.
Print Assumptions c19_both_limits_rejected.

Theorem c19_both_limits_ortc : forall p,
  params_ok p -> both_limits p = true ->
  accept_params (open_params p) =
  {| p_label := p_label p; p_protocol := p_protocol p; p_ordered := p_ordered p;
     p_max_plt := None; p_max_rtx := p_max_rtx p; p_negotiated := p_negotiated p |}.
Proof. exact params_both_limits. Qed.
Print Assumptions c19_both_limits_ortc.

(* any DCEP configuration from the wire (any type byte, any 32-bit
   reliability) yields representable parameters, never both limits; and on
   well-formed configurations open inverts accept as well *)
Theorem c19_accept_total : forall c,
  params_ok (accept_params c) /\ both_limits (accept_params c) = false.
Proof. exact accept_total. Qed.
Print Assumptions c19_accept_total.

Theorem c19_open_accept_roundtrip : forall c,
  cfg_wf c -> open_params (accept_params c) = c.
Proof. exact open_accept_roundtrip. Qed.
Print Assumptions c19_open_accept_roundtrip.

(* FIFO, safety.  For every payload type, every transport satisfying the FIFO
   contract, every interleaving of Send/SendText calls, sender state changes,
   read-loop iterations and transport errors: what OnMessage has seen so far,
   followed by what is still in the stream, is exactly the list of messages
   sent while the sender's readyState was open - same order, each once, same
   isString flag.  (Full property = this + the contract, which is assumed.) *)
Theorem c19_fifo_partial :
  forall (A : Type) (plen : A -> N) (T : Type)
         (t_write : T -> msg A -> T) (t_peek : T -> option (msg A)) (t_pop : T -> T)
         (contents : T -> list (msg A)) (short_n max_msg : N),
  fifo_contract t_write t_peek t_pop contents ->
  forall t0 ops, contents t0 = [] ->
  let c := run A plen T t_write t_peek t_pop short_n max_msg (chan_init A T t0) ops in
  ch_delivered c ++ contents (ch_stream c) = sent_while_open A DcConnecting ops.
Proof. exact fifo_safety. Qed.
Print Assumptions c19_fifo_partial.

(* FIFO, completeness: when no transport error arrives and the short-buffer
   retry is taken (pion/datachannel reports n = 0 < max message size), after
   drain_fuel (or more) further iterations of the read loop the delivered list
   equals the sent-while-open list and the stream is empty - whatever the
   message sizes (the 65535-byte buffer is doubled as needed) *)
Theorem c19_fifo_complete_partial :
  forall (A : Type) (plen : A -> N) (T : Type)
         (t_write : T -> msg A -> T) (t_peek : T -> option (msg A)) (t_pop : T -> T)
         (contents : T -> list (msg A)) (short_n max_msg : N),
  fifo_contract t_write t_peek t_pop contents ->
  forall t0 ops k, contents t0 = [] -> short_n < max_msg -> no_read_err A ops ->
  let c := run A plen T t_write t_peek t_pop short_n max_msg (chan_init A T t0) ops in
  (drain_fuel A plen (contents (ch_stream c)) <= k)%nat ->
  ch_delivered (reads A plen T t_peek t_pop short_n max_msg k c)
    = sent_while_open A DcConnecting ops /\
  contents (ch_stream (reads A plen T t_peek t_pop short_n max_msg k c)) = [].
Proof. exact fifo_complete. Qed.
Print Assumptions c19_fifo_complete_partial.

(* a Send/SendText returns nil exactly for the messages counted as sent while
   open *)
Theorem c19_send_results :
  forall (A : Type) (plen : A -> N) (T : Type)
         (t_write : T -> msg A -> T) (t_peek : T -> option (msg A)) (t_pop : T -> T)
         (short_n max_msg : N) ops (c : chan A T),
  List.length (filter (fun b => b)
     (ch_results (run A plen T t_write t_peek t_pop short_n max_msg c ops))) =
  (List.length (filter (fun b => b) (ch_results c)) +
   List.length (sent_while_open A (ch_send_state c) ops))%nat.
Proof. exact results_count. Qed.
Print Assumptions c19_send_results.

(* ---- the receiving side of an in-band channel (Model/DcAccept.v) ----
   Schedules are arbitrary lists of: a message arriving, the application
   registering an OnMessage handler, its OnDataChannel callback returning, the
   accept loop polling "<-r.onDataChannel(rtcDC)", one read-loop iteration.  A
   SLOW callback is a schedule with many arrivals before RCallbackReturn.
   r_fault = the application returned from its callback without ever
   registering a handler (then loss is its own doing). *)

(* the read loop never runs while the OnDataChannel callback does: the accept
   loop waits for the callback, however long it takes *)
Theorem c19_accept_waits_for_callback : forall (M : Type) (evs : list (rev M)),
  let s := rrun M (rcv_announced M) evs in
  r_loop s = true -> r_cb_running s = false.
Proof. exact loop_after_callback. Qed.
Print Assumptions c19_accept_waits_for_callback.

(* safety, every schedule: no message is read while no handler is installed,
   and handler invocations followed by what is still queued are exactly the
   messages that arrived -- each once, in order -- including everything that
   arrived while the callback was still running *)
Theorem c19_receiver_exactly_once : forall (M : Type) (evs : list (rev M)),
  let s := rrun M (rcv_announced M) evs in
  r_fault s = false ->
  r_dropped s = [] /\ map snd (r_log s) ++ r_queue s = r_arrived s.
Proof. exact receiver_safety. Qed.
Print Assumptions c19_receiver_exactly_once.

(* completeness: once the read loop runs, as many further iterations as there
   are queued messages hand every arrived message to a handler *)
Theorem c19_slow_callback_complete : forall (M : Type) (evs : list (rev M)),
  let s := rrun M (rcv_announced M) evs in
  r_fault s = false -> r_loop s = true ->
  let s' := rrun M s (repeat RRead (List.length (r_queue s))) in
  map snd (r_log s') = r_arrived s' /\ r_dropped s' = [] /\ r_queue s' = [].
Proof. exact receiver_complete. Qed.
Print Assumptions c19_slow_callback_complete.

(* which handler: when handlers are registered only inside the callback (any
   number of times, the last one counts) and later changes are a handler
   replacing itself, the k-th delivery goes to the k-th entry of the handler's
   own replacement sequence -- independent of the schedule *)
Theorem c19_handler_attribution : forall (M : Type) (evs : list (rev M)),
  let s := rrun M (rcv_announced M) evs in
  r_fault s = false -> r_late_set s = false -> r_loop s = true ->
  exists h0, r_h0 s = Some h0 /\ map fst (r_log s) = tags h0 (List.length (r_log s)).
Proof. exact receiver_attribution. Qed.
Print Assumptions c19_handler_attribution.

(* negotiated channels (handler registered before the transport is up) *)
Theorem c19_negotiated_exactly_once : forall (M : Type) h (evs : list (rev M)),
  let s := rrun M (rcv_negotiated M h) evs in
  r_fault s = false ->
  r_dropped s = [] /\ map snd (r_log s) ++ r_queue s = r_arrived s.
Proof. exact negotiated_safety. Qed.
Print Assumptions c19_negotiated_exactly_once.

(* pion/datachannel's empty-message encoding (one layer below the contract):
   decoding inverts encoding for every message, and no empty SCTP user message
   is ever produced *)
Theorem c19_ppid_roundtrip : forall m, ppid_decode (ppid_encode m) = m.
Proof. exact ppid_roundtrip. Qed.
Print Assumptions c19_ppid_roundtrip.

(* the premises are satisfiable: the list transport meets the contract, and a
   non-trivial history behaves as stated *)
Example c19_contract_inhabited :
  @fifo_contract (msg (list N)) (list (msg (list N))) lw lpeek lpop (fun t => t).
Proof. exact (list_fifo_contract _). Qed.

Example c19_history_nontrivial :
  let ops := [OpSend ([1], false); OpSetSendState DcOpen; OpSend ([2; 3], true);
              OpRead; OpSend ([], false); OpSetSendState DcClosing; OpSend ([9], true);
              OpRead; OpRead] in
  let c := run (list N) (fun l => N.of_nat (List.length l)) (list (msg (list N)))
             lw lpeek lpop 0 1073741823 (chan_init _ _ []) ops in
  ch_delivered c = [([2; 3], true); ([], false)] /\
  ch_results c = [false; true; true; false].
Proof. split; reflexivity. Qed.

Example c19_roundtrip_nontrivial :
  let p := {| p_label := "chat"; p_protocol := "v1"; p_ordered := false;
              p_max_plt := Some 65535; p_max_rtx := None; p_negotiated := false |} in
  params_ok p /\ both_limits p = false /\
  c_type (open_params p) = ChTimedUnordered /\ c_rel (open_params p) = 65535.
Proof. cbn. repeat split; reflexivity. Qed.

(* a slow callback: three messages arrive before the handler is registered and
   the callback returns; the handler replaces itself after two invocations *)
Example c19_slow_callback_nontrivial :
  let h := {| h_id := 0%Z; h_left := Some 1%nat; h_next := 1%Z |} in
  let s := rrun N (rcv_announced N) (canonical N h [10; 20; 30]) in
  r_log s = [(0%Z, 10); (0%Z, 20); (1%Z, 30)] /\ r_dropped s = [] /\ r_queue s = [] /\
  r_fault s = false /\ r_late_set s = false /\ r_loop s = true.
Proof. repeat split. Qed.

(* why the wait matters: a read loop started while the callback still runs
   (no handler yet) drops what it reads -- the state c19_accept_waits_for_callback
   shows unreachable *)
Example c19_read_before_callback_returned_would_drop :
  let s := {| r_handler := None; r_cb_running := true; r_loop := true; r_queue := [10; 20];
              r_log := []; r_dropped := []; r_arrived := [10; 20]; r_h0 := None;
              r_fault := false; r_late_set := false |} in
  r_dropped (rrun N s [RRead; RRead]) = [10; 20] /\ r_log (rrun N s [RRead; RRead]) = [].
Proof. split; reflexivity. Qed.
