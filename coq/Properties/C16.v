(* C16 Answer codecs are a subset of the offered codecs, with the offered
   payload types.  Statements only; proofs live in Proofs/Answer.v.

   An answer section lists get_codecs (negotiated list of the kind) (the
   transceiver's preference list) (rtptransceiver.go getCodecs through
   sdp.go addTransceiverSDP).

   Full statement: for every local configuration, every remote offer and every
   preference list, each codec o of an answer section satisfies
     exists r in the corresponding offer section, c_pt r = c_pt o and r is the
     same codec (mime type, clock rate, channels).
   The faithful model violates it (c16_full_refuted; replayed on a real
   PeerConnection, sig=codec-preference-pt-kept-over-negotiated), so it is
   proved under the guard of c16_partial. *)
From Coq Require Import List ZArith NArith String Bool.
Import ListNotations.
From Verif Require Import Common.Base Model.Fmtp Model.Codec Model.Section Proofs.Codec Proofs.Answer.
Open Scope string_scope.

(* witness: VP8 registered and preferred under payload type 96, offered under
   100: the answer lists 96, which the offer section does not contain *)
Theorem c16_full_refuted :
  exists video secs rcs prefs e' res o,
    update_from_remote (new_engine video [] true) secs = (e', res) /\ res = Ok tt /\
    secs = [(KVideo, rcs)] /\
    In o (get_codecs (negotiated_of e' KVideo) prefs) /\
    forall r, In r rcs -> c_pt r <> c_pt o.
Proof. exact answer_pt_not_offered. Qed.
Print Assumptions c16_full_refuted.

(* for all registrations and all remote descriptions in which rcs is the only
   section of its kind: a transceiver created from the remote description
   (preferences = set_prefs_from_remote ...), or a local one whose preferences
   are empty or all carry payload type 0, answers only offered payload types,
   each for a codec compatible with the one offered under it (an exact fmtp
   match, or the same mime type ignoring case, clock rate and channels modulo
   the defaults for 0) *)
Theorem c16_partial : forall video audio multi secs e' res k rcs prefs o,
  k = KVideo \/ k = KAudio ->
  update_from_remote (new_engine video audio multi) secs = (e', res) ->
  (forall rcs', In (k, rcs') secs -> rcs' = rcs) ->
  (prefs = [] \/ (forall p, In p prefs -> c_pt p = 0%N) \/
   prefs = set_prefs_from_remote (negotiated_of e' k) rcs) ->
  In o (get_codecs (negotiated_of e' k) prefs) ->
  exists r, In r rcs /\ c_pt r = c_pt o /\ compatible o r.
Proof. exact answer_codecs_offered. Qed.
Print Assumptions c16_partial.

(* without preferences the answered codec is the offered one itself: same mime
   type, clock rate, channels, fmtp line and payload type *)
Theorem c16_partial_no_prefs : forall video audio multi secs e' res k rcs o,
  k = KVideo \/ k = KAudio ->
  update_from_remote (new_engine video audio multi) secs = (e', res) ->
  (forall rcs', In (k, rcs') secs -> rcs' = rcs) ->
  In o (get_codecs (negotiated_of e' k) []) ->
  exists r, In r rcs /\ same_but_fb o r.
Proof. exact answer_codecs_offered_no_prefs. Qed.
Print Assumptions c16_partial_no_prefs.

(* without the single-section premise the payload type is still an offered one
   for a compatible codec, but possibly of another section of that kind (the
   negotiated list is shared by the sections of a kind: finding
   answer-codec-from-other-section-of-kind) *)
Theorem c16_partial_some_section : forall video audio multi secs e' res k prefs o,
  k = KVideo \/ k = KAudio ->
  update_from_remote (new_engine video audio multi) secs = (e', res) ->
  (prefs = [] \/ (forall p, In p prefs -> c_pt p = 0%N)) ->
  In o (get_codecs (negotiated_of e' k) prefs) ->
  exists rcs r, In (k, rcs) secs /\ In r rcs /\ c_pt r = c_pt o /\ compatible o r.
Proof. exact answer_codecs_offered_somewhere. Qed.
Print Assumptions c16_partial_some_section.

(* the general form behind c16_partial: any preference list whose entries have
   payload type 0 or a payload type offered for a compatible codec *)
Theorem c16_partial_grounded : forall offered neg prefs o,
  grounded_list offered neg ->
  (forall p, In p prefs -> c_pt p = 0%N \/ pref_grounded offered p) ->
  In o (get_codecs neg prefs) ->
  exists r, In r offered /\ c_pt r = c_pt o /\ compatible o r.
Proof. exact get_codecs_offered. Qed.
Print Assumptions c16_partial_grounded.

(* "compatible" by the second criterion is equality of mime type (ignoring
   case), clock rate and channels (0 standing for the default) *)
Theorem c16_compatible_partial_meaning : forall o r,
  partial_ok o r = true ->
  eq_fold (c_mime r) (c_mime o) = true /\
  clock_rate_equal (c_mime r) (c_clock r) (c_clock o) = true /\
  channels_equal (c_mime r) (c_channels r) (c_channels o) = true.
Proof. exact partial_ok_spelled. Qed.
Print Assumptions c16_compatible_partial_meaning.

(* the premises are satisfiable on non-trivial values: a transceiver created
   from a remote section with remapped payload types and RTX *)
Example c16_example_from_remote :
  let rcs := [ mkCodec "video/VP8" 90000 0 "" [] 100; mkCodec "video/rtx" 90000 0 "apt=100" [] 101;
               mkCodec "video/H264" 90000 0 "packetization-mode=1;profile-level-id=42e01f" [] 120 ] in
  let '(e, r) := update_from_remote
                   (new_engine [mkCodec "video/VP8" 90000 0 "" [] 96; mkCodec "video/rtx" 90000 0 "apt=96" [] 97] [] true)
                   [(KVideo, rcs)] in
  r = Ok tt /\
  map c_pt (get_codecs (negotiated_of e KVideo) (set_prefs_from_remote (negotiated_of e KVideo) rcs)) = [100%N; 101%N].
Proof. vm_compute. split; reflexivity. Qed.
