(* C16 Answer codecs are a subset of the offered codecs, with the offered
   payload types.  Statements only; proofs live in Proofs/Answer.v.

   An answer section lists get_codecs (negotiated list of the kind) (the
   transceiver's preference list) (rtptransceiver.go getCodecs through
   sdp.go addTransceiverSDP).

   Full statement: for every local configuration, every remote offer and every
   preference list, each codec o of an answer section satisfies
     exists r in the corresponding offer section, c_pt r = c_pt o and r is the
     same codec (mime type, clock rate, channels).
   The faithful model violates it (c16_full_refuted; replayed on a real
   PeerConnection, sig=codec-preference-pt-kept-over-negotiated), so it is
   proved under the guard of c16_partial. *)
From Coq Require Import List ZArith NArith String Bool.
Import ListNotations.
From Verif Require Import Common.Base Model.Fmtp Model.Codec Model.HeaderExt Model.Section Model.CodecAssoc
     Proofs.Codec Proofs.Answer Proofs.CodecHist Proofs.CodecAssoc Proofs.CodecLit.
Open Scope string_scope.

(* witness: VP8 registered and preferred under payload type 96, offered under
   100: the answer lists 96, which the offer section does not contain *)
Theorem c16_full_refuted :
  exists video secs rcs prefs e' res o,
    update_from_remote (new_engine video [] true) secs = (e', res) /\ res = Ok tt /\
    secs = [(KVideo, rcs)] /\
    In o (get_codecs (negotiated_of e' KVideo) prefs) /\
    forall r, In r rcs -> c_pt r <> c_pt o.
Proof. exact answer_pt_not_offered. Qed.
Print Assumptions c16_full_refuted.

(* for all registrations and all remote descriptions in which rcs is the only
   section of its kind: a transceiver created from the remote description
   (preferences = set_prefs_from_remote ...), or a local one whose preferences
   are empty or all carry payload type 0, answers only offered payload types,
   each for a codec compatible with the one offered under it (an exact fmtp
   match, or the same mime type ignoring case, clock rate and channels modulo
   the defaults for 0) *)
Theorem c16_partial : forall video audio multi secs e' res k rcs prefs o,
  k = KVideo \/ k = KAudio ->
  update_from_remote (new_engine video audio multi) secs = (e', res) ->
  (forall rcs', In (k, rcs') secs -> rcs' = rcs) ->
  (prefs = [] \/ (forall p, In p prefs -> c_pt p = 0%N) \/
   prefs = set_prefs_from_remote (negotiated_of e' k) rcs) ->
  In o (get_codecs (negotiated_of e' k) prefs) ->
  exists r, In r rcs /\ c_pt r = c_pt o /\ compatible o r.
Proof. exact answer_codecs_offered. Qed.
Print Assumptions c16_partial.

(* without preferences the answered codec is the offered one itself: same mime
   type, clock rate, channels, fmtp line and payload type *)
Theorem c16_partial_no_prefs : forall video audio multi secs e' res k rcs o,
  k = KVideo \/ k = KAudio ->
  update_from_remote (new_engine video audio multi) secs = (e', res) ->
  (forall rcs', In (k, rcs') secs -> rcs' = rcs) ->
  In o (get_codecs (negotiated_of e' k) []) ->
  exists r, In r rcs /\ same_but_fb o r.
Proof. exact answer_codecs_offered_no_prefs. Qed.
Print Assumptions c16_partial_no_prefs.

(* without the single-section premise the payload type is still an offered one
   for a compatible codec, but possibly of another section of that kind (the
   negotiated list is shared by the sections of a kind: finding
   answer-codec-from-other-section-of-kind) *)
Theorem c16_partial_some_section : forall video audio multi secs e' res k prefs o,
  k = KVideo \/ k = KAudio ->
  update_from_remote (new_engine video audio multi) secs = (e', res) ->
  (prefs = [] \/ (forall p, In p prefs -> c_pt p = 0%N)) ->
  In o (get_codecs (negotiated_of e' k) prefs) ->
  exists rcs r, In (k, rcs) secs /\ In r rcs /\ c_pt r = c_pt o /\ compatible o r.
Proof. exact answer_codecs_offered_somewhere. Qed.
Print Assumptions c16_partial_some_section.

(* the general form behind c16_partial: any preference list whose entries have
   payload type 0 or a payload type offered for a compatible codec *)
Theorem c16_partial_grounded : forall offered neg prefs o,
  grounded_list offered neg ->
  (forall p, In p prefs -> c_pt p = 0%N \/ pref_grounded offered p) ->
  In o (get_codecs neg prefs) ->
  exists r, In r offered /\ c_pt r = c_pt o /\ compatible o r.
Proof. exact get_codecs_offered. Qed.
Print Assumptions c16_partial_grounded.

(* "compatible" by the second criterion is equality of mime type (ignoring
   case), clock rate and channels (0 standing for the default) *)
Theorem c16_compatible_partial_meaning : forall o r,
  partial_ok o r = true ->
  eq_fold (c_mime r) (c_mime o) = true /\
  clock_rate_equal (c_mime r) (c_clock r) (c_clock o) = true /\
  channels_equal (c_mime r) (c_channels r) (c_channels o) = true.
Proof. exact partial_ok_spelled. Qed.
Print Assumptions c16_compatible_partial_meaning.

(* ---------- "the same codec (mime type, clock rate, channels)", literally ---------- *)

(* The theorems above conclude "compatible": an exact fmtp match, or equal
   mime type / clock rate / channels modulo letter case and the 0 defaults.
   The property text says the answered payload type maps to the same codec:
   same_codec o r = equal mime type (ignoring letter case), equal clock rate,
   equal channels.  The gap between the two is literal_guard a b:
     - both clock rates are stated (non-zero; an rtpmap always states it),
     - both state the channel count or both leave it out,
     - for H264 / VP9 / AV1, whose Match looks at the fmtp line only: entries of
       the same mime type agree in clock rate and channels.
   Under it compatible is literal equality: *)
Theorem c16_compatible_literal : forall a b,
  compatible a b -> literal_guard a b -> same_codec a b.
Proof. exact compatible_literal. Qed.
Print Assumptions c16_compatible_literal.

(* c16_partial with literal equality: for all registrations and all remote
   descriptions in which rcs is the only section of its kind and every two
   entries of rcs are under the guard (section_literal: stated clock rates, and
   no two entries that differ only in clock rate / channels in the way the
   matching cannot see), a transceiver created from the remote description, or a
   local one whose preferences are empty, or carry payload type 0 and are under
   the guard against every offered entry, answers only offered payload types,
   each for the same codec: mime type (ignoring case), clock rate, channels *)
Theorem c16_same_codec_partial : forall video audio multi secs e' res k rcs prefs o,
  k = KVideo \/ k = KAudio ->
  update_from_remote (new_engine video audio multi) secs = (e', res) ->
  (forall rcs', In (k, rcs') secs -> rcs' = rcs) ->
  section_literal rcs ->
  (prefs = [] \/
   (forall p, In p prefs -> c_pt p = 0%N /\ forall r, In r rcs -> literal_guard p r) \/
   prefs = set_prefs_from_remote (negotiated_of e' k) rcs) ->
  In o (get_codecs (negotiated_of e' k) prefs) ->
  exists r, In r rcs /\ c_pt r = c_pt o /\ same_codec o r.
Proof. exact answer_same_codec. Qed.
Print Assumptions c16_same_codec_partial.

(* the general form: any negotiated list that holds offered codecs only, any
   preference list whose entries have payload type 0 and are under the guard, or
   keep a non-zero payload type offered for literally the same codec *)
Theorem c16_same_codec_grounded : forall offered neg prefs o,
  grounded_list offered neg ->
  (forall p, In p prefs ->
     (c_pt p = 0%N /\ forall r, In r offered -> literal_guard p r) \/
     (c_pt p <> 0%N /\ pref_grounded_lit offered p)) ->
  In o (get_codecs neg prefs) ->
  exists r, In r offered /\ c_pt r = c_pt o /\ same_codec o r.
Proof. exact get_codecs_offered_lit. Qed.
Print Assumptions c16_same_codec_grounded.

(* outside the guard the literal statement fails while c16_partial's holds: H264
   offered with one fmtp line under payload types 100 (clock rate 90000) and 101
   (48000); the transceiver created from that section answers payload type 100
   for the 48000 entry (replayed on a real PeerConnection, finding
   answer-pt-of-fmtp-equivalent-offered-codec) *)
Theorem c16_same_codec_refuted :
  exists video secs rcs e' res o,
    update_from_remote (new_engine video [] true) secs = (e', res) /\ res = Ok tt /\
    secs = [(KVideo, rcs)] /\
    In o (get_codecs (negotiated_of e' KVideo) (set_prefs_from_remote (negotiated_of e' KVideo) rcs)) /\
    (exists r, In r rcs /\ c_pt r = c_pt o /\ compatible o r) /\
    (forall r, In r rcs -> c_pt r = c_pt o -> c_clock r <> c_clock o) /\
    ~ section_literal rcs.
Proof. exact answer_not_same_codec. Qed.
Print Assumptions c16_same_codec_refuted.

(* the guard holds of an ordinary section: VP8 with RTX, H264 in two
   packetization modes, every clock rate stated *)
Example c16_section_literal_nontrivial :
  section_literal [ mkCodec "video/VP8" 90000 0 "" [] 100; mkCodec "video/rtx" 90000 0 "apt=100" [] 101;
                    mkCodec "video/H264" 90000 0 lw_line [] 102;
                    mkCodec "video/H264" 90000 0 "packetization-mode=0;profile-level-id=42e01f" [] 104 ].
Proof. exact section_literal_example. Qed.

(* ---------- histories of answered offers, transceiver matching inside the step ---------- *)

(* Model/CodecAssoc.v: the media state of a PeerConnection (engine, header
   extensions, transceivers with mid / kind / direction / sender, their
   preference lists) under AddTransceiverFromKind+SetCodecPreferences and
   exchanges SetRemoteDescription(offer); CreateAnswer; SetLocalDescription.
   Which transceiver answers which offered section is computed by the model
   (findByMid, satisfyTypeAndDirection, creation from the remote description),
   not assumed.

   For every registration, every history os of such steps and every further
   offer, provided that
     - an offered section with mid m is of the same kind K m in every offer,
     - every offered section of kind k lists the same codecs R k (the
       generalisation of "the only section of its kind": the negotiated lists
       are shared by all sections of a kind and by all descriptions),
     - local transceivers get preference lists with payload type 0 throughout
       (or none),
   the answer has one section per offered section that is not skipped, in offer
   order, produced by a transceiver that carries that section's mid, and every
   codec it lists is offered in that very section under the same payload type
   for a compatible codec. *)
Theorem c16_hist_partial : forall K R video audio multi x os offer s' l,
  Forall (mop_ok K R) os -> offer_ok K R offer ->
  exchange (run_mops (new_mpc (new_engine video audio multi) x) os) offer = (s', Ok l) ->
  exists s1 assoc,
    srd_offer (run_mops (new_mpc (new_engine video audio multi) x) os) offer = (s1, Ok tt) /\
    assoc_of s1 offer = Ok assoc /\
    Forall2 (fun oi sec => section_answers (fst oi) sec) assoc l /\
    (forall o i, In (o, i) assoc ->
       exists j t, nth_error offer j = Some o /\ os_kind o <> KUnknown /\
                   nth_error (m_trs s1) i = Some t /\ AD.t_mid t = Some j).
Proof. exact history_answers_offered. Qed.
Print Assumptions c16_hist_partial.

(* the invariant behind it, for any state: transceivers with a mid are of the
   kind of that mid, the negotiated lists hold offered codecs only, every
   preference entry has payload type 0 or an offered payload type for a
   compatible codec -- kept by every step of such a history *)
Theorem c16_hist_invariant : forall K R os s,
  minv K R s -> Forall (mop_ok K R) os -> minv K R (run_mops s os).
Proof. exact minv_run. Qed.
Print Assumptions c16_hist_invariant.

(* what SetRemoteDescription's matching does to the transceiver list, for all
   lists and offers: positions keep kind, sender and a mid they have; a
   transceiver that carries a mid is of that mid's kind afterwards if that held
   before; every appended transceiver was created for a section that is not
   skipped, carries its mid, is of its kind and has no sender *)
Theorem c16_matching : forall K p secs,
  (forall j k d, nth_error secs j = Some (k, d) -> d <> AD.DUnk -> kc k = K j) ->
  grows p (AD.set_remote p secs) /\
  (mid_kind K p -> mid_kind K (AD.set_remote p secs)) /\
  (forall i t, List.length p <= i -> nth_error (AD.set_remote p secs) i = Some t ->
     exists j k d, nth_error secs j = Some (k, d) /\ d <> AD.DUnk /\
                   AD.t_mid t = Some j /\ AD.t_kind t = k /\ AD.t_sender t = false).
Proof. exact set_remote_effect. Qed.
Print Assumptions c16_matching.

(* the premises are satisfiable on non-trivial values: a transceiver created
   from a remote section with remapped payload types and RTX *)
Example c16_example_from_remote :
  let rcs := [ mkCodec "video/VP8" 90000 0 "" [] 100; mkCodec "video/rtx" 90000 0 "apt=100" [] 101;
               mkCodec "video/H264" 90000 0 "packetization-mode=1;profile-level-id=42e01f" [] 120 ] in
  let '(e, r) := update_from_remote
                   (new_engine [mkCodec "video/VP8" 90000 0 "" [] 96; mkCodec "video/rtx" 90000 0 "apt=96" [] 97] [] true)
                   [(KVideo, rcs)] in
  r = Ok tt /\
  map c_pt (get_codecs (negotiated_of e KVideo) (set_prefs_from_remote (negotiated_of e KVideo) rcs)) = [100%N; 101%N].
Proof. vm_compute. split; reflexivity. Qed.

(* the history premises on non-trivial values: a sendonly video offer answered by
   a transceiver created from it; a local recvonly transceiver with a payload
   type 0 preference added; a re-offer with a second video section (same codecs,
   sendrecv) which that local transceiver takes, the first section going inactive *)
Definition ex16_rcs : list codec :=
  [ mkCodec "video/VP8" 90000 0 "" [] 100; mkCodec "video/rtx" 90000 0 "apt=100" [] 101 ].
Definition ex16_K (m : nat) : kind := KVideo.
Definition ex16_R (k : kind) : list codec := ex16_rcs.
Definition ex16_os : list mop :=
  [ MExchange [mkOsec KVideo AD.Sendonly ex16_rcs []];
    MAdd KVideo AD.Recvonly [mkCodec "video/VP8" 90000 0 "" [] 0] ].
Definition ex16_offer : list osec :=
  [ mkOsec KVideo AD.Inactive ex16_rcs []; mkOsec KVideo AD.Sendrecv ex16_rcs [] ].

Example c16_example_history :
  Forall (mop_ok ex16_K ex16_R) ex16_os /\ offer_ok ex16_K ex16_R ex16_offer /\
  let s := run_mops (new_mpc (new_engine [mkCodec "video/VP8" 90000 0 "" [] 96; mkCodec "video/rtx" 90000 0 "apt=96" [] 97] [] true) x_empty) ex16_os in
  match exchange s ex16_offer with
  | (s', Ok l) => map sec_formats l = [[100%N; 101%N]; [100%N]] /\
                  map AD.t_mid (m_trs s') = [Some 0; Some 1] /\ map tx_remote (m_ext s') = [true; false]
  | _ => False
  end.
Proof.
  split; [|split].
  - constructor; [intros m o H Hk; destruct m as [|m]; cbn in H; [|destruct m; discriminate];
                   inversion H; subst; split; reflexivity|].
    constructor; [|constructor]. split; [discriminate|]. intros p [<-|[]]. reflexivity.
  - intros m o H Hk. destruct m as [|[|m]]; cbn in H; try (destruct m; discriminate);
      inversion H; subst; split; reflexivity.
  - vm_compute. repeat split.
Qed.
