(* C21 Close is idempotent, concurrency-safe and final.
   Statements only; proofs live in Proofs/Close.v.  The model (Model/Close.v)
   is an interleaving transition system with one thread per Close /
   GracefulClose caller and per updateConnectionState call; [reach i0 c0 ts
   sched] is the state after running the arbitrary schedule [sched] (a list of
   thread ids, disabled choices skipped) from a fresh connection whose stored
   ICE connection state is [i0] and connection state [c0], with the arbitrary
   list of callers [ts].  Threads that have not taken their first step model
   callers that have not arrived yet. *)
From Coq Require Import List Bool Arith.
Import ListNotations.
From Verif Require Import Model.ConnState Model.Close Proofs.Close Proofs.CloseEntry.

(* All callers return.  (a) no reachable deadlock: a state in which no thread
   can take a step has every thread returned, equivalently an unfinished
   thread list always has an enabled thread; (b) every schedule performs at
   most 6 blocks per thread, so there is no infinite run: every maximal
   schedule ends with all callers returned. *)
Theorem c21_all_return : forall i0 c0 ts sched,
  c0 <> PcClosed ->
  (stuck (reach i0 c0 ts sched) -> all_done (reach i0 c0 ts sched) = true) /\
  taken (init_with i0 c0 ts) sched <= 6 * length ts.
Proof. exact all_return. Qed.
Print Assumptions c21_all_return.

Theorem c21_unfinished_can_move : forall i0 c0 ts sched,
  c0 <> PcClosed -> all_done (reach i0 c0 ts sched) = false ->
  exists tid, step (reach i0 c0 ts sched) tid <> None.
Proof. exact unfinished_can_move. Qed.
Print Assumptions c21_unfinished_can_move.

(* a fair schedule completes: 6 * n rounds of round-robin over n callers leave
   every caller returned *)
Theorem c21_fair_schedule_completes : forall i0 c0 ts,
  c0 <> PcClosed ->
  all_done (run (init_with i0 c0 ts) (rounds (6 * length ts) (length ts))) = true.
Proof. exact fair_schedule_completes. Qed.
Print Assumptions c21_fair_schedule_completes.

(* the variant: every block executed decreases it *)
Theorem c21_variant : forall s tid s', step s tid = Some s' -> measure s' < measure s.
Proof. exact step_measure. Qed.
Print Assumptions c21_variant.

(* the teardown block (steps #3-#10 of close) runs at most once, and no
   done-channel is ever closed twice (that would be a Go panic) *)
Theorem c21_teardown_once : forall i0 c0 ts sched,
  c0 <> PcClosed ->
  teardowns (reach i0 c0 ts sched) <= 1 /\ panicked (reach i0 c0 ts sched) = false.
Proof. exact teardown_once. Qed.
Print Assumptions c21_teardown_once.

(* the graceful-only block runs at most once *)
Theorem c21_graceful_once : forall i0 c0 ts sched,
  c0 <> PcClosed -> gracefulOps (reach i0 c0 ts sched) <= 1.
Proof. exact graceful_once. Qed.
Print Assumptions c21_graceful_once.

(* Once every Close/GracefulClose caller has returned (and there was at least
   one) the state is final: closed flag set, signaling state closed,
   connection state closed, isCloseDone closed, teardown run exactly once --
   whatever the update threads did and wherever they are. *)
Theorem c21_final_state : forall i0 c0 ts sched n t,
  c0 <> PcClosed ->
  let s := reach i0 c0 ts sched in
  closers_done s = true -> nth_error (threads s) n = Some t -> is_closer t = true ->
  isClosed s = true /\ sigClosed s = true /\ connState s = PcClosed /\
  closeDone s = true /\ teardowns s = 1 /\ panicked s = false.
Proof. exact final_state_reach. Qed.
Print Assumptions c21_final_state.

(* ... and if one of them was a GracefulClose, the graceful-only steps ran
   exactly once and isGracefulCloseDone is closed *)
Theorem c21_final_state_graceful : forall i0 c0 ts sched n pc ac ag,
  c0 <> PcClosed ->
  let s := reach i0 c0 ts sched in
  closers_done s = true -> nth_error (threads s) n = Some (Closer true pc ac ag) ->
  gracefulDone s = true /\ gracefulOps s = 1.
Proof. exact final_state_graceful_reach. Qed.
Print Assumptions c21_final_state_graceful.

(* In ANY reachable state (other callers may still be inside close): a
   GracefulClose caller that has returned has waited for everything -- the
   teardown and the graceful-only steps ran exactly once, both done-channels
   are closed, signaling and connection state are closed. *)
Theorem c21_graceful_waits : forall i0 c0 ts sched n ac ag,
  c0 <> PcClosed ->
  let s := reach i0 c0 ts sched in
  nth_error (threads s) n = Some (Closer true CDone ac ag) ->
  closeDone s = true /\ gracefulDone s = true /\ teardowns s = 1 /\ gracefulOps s = 1 /\
  sigClosed s = true /\ connState s = PcClosed.
Proof. exact graceful_waits_reach. Qed.
Print Assumptions c21_graceful_waits.

(* The handler is never handed a non-closed state after closed (dispatch
   order), in every reachable state.  This is the theorem of the repaired
   updateConnectionState (fix commit: compute, compare and store under
   connectionStateMu); on the unrepaired code the schedule
   [update computes connecting; Close runs to the end; update stores] gave
   the dispatch sequence [closed; connecting] (harness corpus, case 0). *)
Theorem c21_no_state_after_closed : forall i0 c0 ts sched l1 l2 v,
  c0 <> PcClosed ->
  connLog (reach i0 c0 ts sched) = l1 ++ PcClosed :: l2 -> In v l2 -> v = PcClosed.
Proof.
  intros i0 c0 ts sched l1 l2 v Hc.
  apply (proj1 (closed_is_final_spec _) (no_state_after_closed i0 c0 ts sched Hc)).
Qed.
Print Assumptions c21_no_state_after_closed.

(* every API that changes negotiation state answers InvalidStateError in every
   state in which some Close/GracefulClose caller has performed its first block *)
Theorem c21_api_guard : forall i0 c0 ts sched n g pc ac ag a has_remote,
  c0 <> PcClosed ->
  let s := reach i0 c0 ts sched in
  nth_error (threads s) n = Some (Closer g pc ac ag) -> pc <> CStart ->
  In a all_apis ->
  entry_is_invalid_state (api_entry a (isClosed s) has_remote) = true.
Proof. exact api_guard_reach. Qed.
Print Assumptions c21_api_guard.

(* The entry protocol: isClosed and isGracefullyClosingOrClosed are read and
   written as a pair (one block under pc.mu).  In EVERY reachable state, for
   every caller list and schedule:
   (1) the caller that observed isClosed = false at its swap observed the
       graceful flag unset in the same block;
   (2) at most one caller registers close(isCloseDone) -- the one that saw
       isClosed = false -- and there is one exactly when isClosed is set;
   (3) at most one caller registers close(isGracefulCloseDone), and there is
       one exactly when the graceful flag is set;
   (4) only the caller of (2) is in the teardown block, which ran at most once;
   (5) a caller waiting on a done-channel waits for ANOTHER caller that closes
       that channel (with c21_all_return: the wait ends);
   (6) a channel is closed exactly when its closer has returned, never twice.
   A close() that swaps isClosed outside the critical section does not refine
   this model: its entry is two blocks (c21_swap_outside_lock_refuted). *)
Theorem c21_flags_updated_as_pair : forall i0 c0 ts sched,
  c0 <> PcClosed ->
  let s := reach i0 c0 ts sched in
  (forall n g pc ag, nth_error (threads s) n = Some (Closer g pc false ag) ->
     pc <> CStart -> ag = false) /\
  (forall n m t u, nth_error (threads s) n = Some t -> closes_closeDone t = true ->
     nth_error (threads s) m = Some u -> closes_closeDone u = true -> n = m) /\
  (isClosed s = true <->
     exists n t, nth_error (threads s) n = Some t /\ closes_closeDone t = true) /\
  (forall n m t u, nth_error (threads s) n = Some t -> closes_gracefulDone t = true ->
     nth_error (threads s) m = Some u -> closes_gracefulDone u = true -> n = m) /\
  (gflag s = true <->
     exists n t, nth_error (threads s) n = Some t /\ closes_gracefulDone t = true) /\
  (forall n t, nth_error (threads s) n = Some t -> in_teardown t = true ->
     closes_closeDone t = true) /\
  teardowns s <= 1 /\
  (forall n g ac ag, nth_error (threads s) n = Some (Closer g CWaitC ac ag) ->
     exists m t, m <> n /\ nth_error (threads s) m = Some t /\ closes_closeDone t = true) /\
  (forall n g ac ag, nth_error (threads s) n = Some (Closer g CWaitG ac ag) ->
     exists m t, m <> n /\ nth_error (threads s) m = Some t /\ closes_gracefulDone t = true) /\
  (closeDone s = true <->
     exists n g ag, nth_error (threads s) n = Some (Closer g CDone false ag)) /\
  (gracefulDone s = true <->
     exists n ac, nth_error (threads s) n = Some (Closer true CDone ac false)) /\
  panicked s = false.
Proof. exact flags_pair_reach. Qed.
Print Assumptions c21_flags_updated_as_pair.

(* The atomicity of the entry block is needed.  In the variant whose entry is
   two blocks -- isClosed.Swap(true) first, the critical section on the
   graceful flag afterwards (Model/Close.v step_split) -- two GracefulClose
   callers suffice: B swaps, C swaps, C passes the critical section, B passes
   it; both register close(isGracefulCloseDone) and the second close panics.
   (This is the interleaving the harness suite "entry" produces on the real
   code by holding pc.mu while B arrives.) *)
Theorem c21_swap_outside_lock_refuted :
  exists sched,
    let r := fst (run_split (init [TGracefulClose; TGracefulClose]) sched) in
    panicked r = true /\ gracefulOps r = 2 /\ teardowns r = 1 /\
    nth_error (threads r) 0 = Some (Closer true CDone false true).
Proof. exists split_witness. exact split_entry_panics. Qed.
Print Assumptions c21_swap_outside_lock_refuted.

(* the same variant with the two entry blocks back to back is the atomic protocol *)
Example c21_split_blocks_adjacent_ok :
  let r := fst (run_split (init [TGracefulClose; TGracefulClose])
                          [0; 0; 1; 1; 0; 0; 0; 0; 1; 1; 1]) in
  panicked r = false /\ gracefulOps r = 1 /\ teardowns r = 1 /\ all_done r = true.
Proof. exact split_adjacent_ok. Qed.

(* premises are satisfiable on non-trivial runs *)
Example c21_run_nontrivial :
  let s := reach IceNew PcNew [TUpdate IceChecking DtlsNew; TClose; TGracefulClose]
                 [0; 1; 2; 1; 1; 0; 1; 1; 2; 2; 2] in
  all_done s = true /\ closers_done s = true /\ connLog s = [PcConnecting; PcClosed]
  /\ teardowns s = 1 /\ gracefulOps s = 1 /\ closeDone s = true /\ gracefulDone s = true.
Proof. vm_compute. repeat split; reflexivity. Qed.

(* a waiter is really disabled while its channel is open, and a closer is
   disabled while an update thread holds connectionStateMu *)
Example c21_blocking_is_modelled :
  let s := reach IceNew PcNew [TGracefulClose; TGracefulClose; TUpdate IceChecking DtlsNew]
                 [0; 1; 1; 2; 0] in
  step s 1 = None /\ step s 0 = None /\ step s 2 <> None.
Proof. vm_compute. repeat split; try reflexivity. discriminate. Qed.
