(* C09 Mids and m-section order are stable across renegotiations.
   Statements only; proofs are in Proofs/JsepMidStable.v (and JsepMid*.v), the
   model in Model/JsepMid.v.

   Full statement (not a theorem of the faithful model, see the refutations):
   in every history, (1) a transceiver's mid never changes once set; (2) in
   every generated description a mid that occurred in an earlier applied local
   or remote description stands at the same index, and new sections come after
   them; (3) a mid given out by CreateOffer (to a transceiver or to the data
   section it appends) never occurred in an earlier local or remote description. *)
From Coq Require Import List ZArith String.
Import ListNotations.
From Verif Require Import Common.Base Common.JsepNumeral Model.JsepMid Model.JsepMidSpec Model.JsepMidPair
  Proofs.JsepMid Proofs.JsepMidGen Proofs.JsepMidWit Proofs.JsepMidStable Proofs.JsepMidChain Proofs.JsepMidPair.
Open Scope string_scope.
Open Scope list_scope.

(* (1) holds for every history, with no guard: the i-th transceiver stays the
   i-th transceiver, keeps its kind and, once set, its mid (histories: any
   interleaving of AddTransceiver, AddTrack - which may reuse a transceiver -,
   RemoveTrack, Stop, CreateDataChannel, CreateOffer, CreateAnswer, SetLocal /
   SetRemoteDescription with offer, pranswer, answer) *)
Theorem c09_mid_immutable : forall ops1 ops2 i t,
  nth_error (trs (run ops1)) i = Some t ->
  exists t', nth_error (trs (run (ops1 ++ ops2))) i = Some t' /\
             t_kind t' = t_kind t /\ (t_mid t <> "" -> t_mid t' = t_mid t).
Proof. exact mid_immutable_lemma. Qed.
Print Assumptions c09_mid_immutable.

(* new transceivers are appended: the transceiver list of a longer history
   extends that of its prefix (same theorem, stated on the lists) *)
Theorem c09_append_only : forall ops1 ops2,
  keeps (trs (run ops1)) (trs (run (ops1 ++ ops2))).
Proof. exact append_only_lemma. Qed.
Print Assumptions c09_append_only.

(* (2), offers: an offer generated against a remote description whose sections
   are all usable (application, or audio/video with a direction) lists that
   description's mids first, at the same indices; every other section is
   appended after them *)
Theorem c09_position_stable_offer_partial : forall s s' d rd,
  create_offer s = (s', Ok d) -> offer_remote (offer_alloc s) = Some rd ->
  (forall r, In r (r_secs rd) -> usable r = true) -> codecs_ok s ->
  exists extra, sec_mids d = map Some (map r_mid (r_secs rd)) ++ extra.
Proof. exact offer_extends_remote_lemma. Qed.
Print Assumptions c09_position_stable_offer_partial.

(* (2), answers: an answer has exactly the offered mids at the offered indices *)
Theorem c09_position_stable_answer_partial : forall s s' d rd,
  create_answer s = (s', Ok d) -> remote_desc s = Some rd ->
  (forall r, In r (r_secs rd) -> usable r = true) -> codecs_ok s ->
  sec_mids d = map Some (map r_mid (r_secs rd)).
Proof. exact answer_same_positions_lemma. Qed.
Print Assumptions c09_position_stable_answer_partial.

(* (2), a whole round: once an exchange has ended with remote description ra
   whose mids are those of our description d1 (ra answers our offer d1, or d1 is
   our answer to the offer ra), every offer created afterwards - after any local
   AddTransceiver / AddTrack / RemoveTrack / Stop / CreateDataChannel /
   CreateOffer calls - starts with the sections of d1 at their places; whatever
   is new comes after them *)
Theorem c09_round_partial : forall s d1 ra ops s2 d2,
  cur_remote s = Some ra -> pend_remote s = None ->
  map Some (map r_mid (r_secs ra)) = sec_mids d1 ->
  (forall r, In r (r_secs ra) -> usable r = true) ->
  Forall is_local ops -> codecs_ok (run_from s ops) ->
  create_offer (run_from s ops) = (s2, Ok d2) ->
  exists extra, sec_mids d2 = sec_mids d1 ++ extra.
Proof. exact round_extends_lemma. Qed.
Print Assumptions c09_round_partial.

(* (2), whole histories.  applied ops lists, in order, the mid lists of the
   descriptions the history applies on this peer: pc.lastOffer / pc.lastAnswer at
   an accepted SetLocalDescription(offer / pranswer / answer), the given
   description at an accepted SetRemoteDescription.  For any two of them, the
   later one extends the earlier one: every mid of the earlier description stands
   at the same index in the later one, which has pairwise distinct mids; what is new
   comes after.  hist_guard (Model/JsepMidSpec.v chain_guard at every call)
   excludes exactly the recorded causes: the duplicate-mid causes of C06 (its guard
   at every CreateOffer / CreateAnswer), remote sections that are skipped because
   they are unusable, stale descriptions (SetLocalDescription applying an offer
   created before the last description was applied, or an answer created for an
   earlier remote offer: pion accepts both, the oracle sets such histories aside),
   and a remote side that does not do its part (its offers extend the description
   applied last, its answers list the offered mids).  Operations: AddTransceiver,
   AddTrack, RemoveTrack, Stop, CreateDataChannel, CreateOffer, CreateAnswer,
   SetLocal / SetRemote with offer, pranswer, answer, in any interleaving. *)
Theorem c09_position_stable_history_partial : forall ops,
  hist_guard ops ->
  forall i j di dj, (i < j)%nat ->
    nth_error (applied ops) i = Some di -> nth_error (applied ops) j = Some dj ->
    (exists extra, dj = di ++ extra) /\ NoDup dj /\
    (forall m x y, nth_error di x = Some m -> nth_error dj y = Some m -> x = y).
Proof. exact chain_lemma. Qed.
Print Assumptions c09_position_stable_history_partial.

(* the extension alone needs less: under hist_guard_light (no clause about
   duplicate mids, remote descriptions not even required to have distinct mids:
   only usable remote sections, a codec for every kind at CreateOffer /
   CreateAnswer, no stale offer or answer applied, a remote side that extends /
   mirrors) every applied description is an extension of every earlier one.  The
   duplicate-mid causes only decide whether "the" index of a mid is well defined. *)
Theorem c09_chain_extends_partial : forall ops,
  hist_guard_light ops ->
  forall i j di dj, (i < j)%nat ->
    nth_error (applied ops) i = Some di -> nth_error (applied ops) j = Some dj ->
    exists extra, dj = di ++ extra.
Proof. exact chain_extends_lemma. Qed.
Print Assumptions c09_chain_extends_partial.

(* two pion peers (Model/JsepMidPair.v): each peer runs the model; PDeliver hands
   the description a peer applied last (pc.LocalDescription()) to the other peer as
   to_remote of what was generated (what SetRemoteDescription's accessors read in
   it).  Nothing is assumed about the delivered descriptions: the remote part of
   the chain guard is discharged by the other peer's invariants.  The guard
   `orderly` keeps, per peer, the LOCAL part of the chain guard (C06's guard at
   CreateOffer / CreateAnswer, no stale description applied) and asks for an orderly
   exchange: no glare, every applied local description is delivered - to a peer
   whose signalling state accepts it - before the next one is applied.  Then on
   both peers every applied description extends every earlier one (same mids at
   the same indices, pairwise distinct), and whenever both peers are stable with
   nothing in flight they agree on the mid list. *)
Theorem c09_two_pion_peers_partial : forall sched,
  orderly sched ->
  let '(A, B) := prun sched in
  (forall p, p = A \/ p = B ->
     forall i j di dj, (i < j)%nat ->
       nth_error (papplied p) i = Some di -> nth_error (papplied p) j = Some dj ->
       (exists extra, dj = di ++ extra) /\ NoDup dj /\
       (forall m x y, nth_error di x = Some m -> nth_error dj y = Some m -> x = y)) /\
  (psig A = Stable -> psig B = Stable -> p_out A = None -> p_out B = None -> top A = top B).
Proof. exact pair_chain_lemma. Qed.
Print Assumptions c09_two_pion_peers_partial.

(* (3): a mid CreateOffer gives a transceiver differs from every mid of the
   current and of the pending remote description (while greaterMid does not
   overflow; before the repair of the numbering loop only the current one was
   scanned: was c09_refuted_pending_remote_mid) ... *)
Theorem c09_no_reuse_partial : forall s i t t' r,
  offer_nowrap s = true ->
  nth_error (trs s) i = Some t -> t_mid t = "" ->
  nth_error (trs (offer_alloc s)) i = Some t' ->
  In r (remote_secs (cur_remote s)) \/ In r (remote_secs (pend_remote s)) -> t_mid t' <> r_mid r.
Proof. exact fresh_mid_not_in_remote_lemma. Qed.
Print Assumptions c09_no_reuse_partial.

(* ... from the mid of every transceiver, wherever it stands in the list ... *)
Theorem c09_no_reuse_of_transceiver_mid_partial : forall s i t t' u,
  offer_nowrap s = true ->
  nth_error (trs s) i = Some t -> t_mid t = "" ->
  nth_error (trs (offer_alloc s)) i = Some t' ->
  In u (trs s) -> t_mid t' <> t_mid u.
Proof. exact fresh_mid_not_a_transceiver_mid_lemma. Qed.
Print Assumptions c09_no_reuse_of_transceiver_mid_partial.

(* ... so that, in histories without counter overflow, the transceivers' mids
   are pairwise distinct at every point of the history *)
Theorem c09_no_reuse_among_transceivers_partial : forall ops,
  remote_ok ops -> nowrap_all ops ->
  forall s o out s', In (s, o, out, s') (trace ops) ->
  NoDup (set_mids (trs s)) /\ NoDup (set_mids (trs s')).
Proof. exact trace_mids_distinct. Qed.
Print Assumptions c09_no_reuse_among_transceivers_partial.

(* refutations of the full statement, each replayed on the implementation *)
(* (3): the appended data section takes "1", the mid of the remote's audio section *)
Theorem c09_full_refuted :
  gen_kind_mids wit_data_mid =
    [[(KAudio, Some "1")]; [(KAudio, Some "1"); (KApplication, Some "1")]].
Proof. exact wit_c09_data_mid. Qed.
Print Assumptions c09_full_refuted.

(* (2): offer audio/0 text/1 video/2 answered [0; 2]: mid "2" moves from index 2 to 1 *)
Theorem c09_refuted_position :
  gen_kind_mids wit_position = [[(KAudio, Some "0"); (KVideo, Some "2")]].
Proof. exact wit_c09_position. Qed.
Print Assumptions c09_refuted_position.

(* (2)+(3): a second CreateOffer before the answer: the new transceiver takes the
   data section's mid "0", the data section becomes "1" *)
Theorem c09_refuted_local_data_mid :
  gen_kind_mids wit_local_data =
    [[(KApplication, Some "0")]; [(KAudio, Some "0"); (KApplication, Some "1")]].
Proof. exact wit_c09_local_data. Qed.
Print Assumptions c09_refuted_local_data_mid.

(* (3): after greaterMid wrapped around, the next CreateOffer gives a new
   transceiver a mid another transceiver already has *)
Theorem c09_refuted_counter_overflow :
  ~ NoDup (set_mids (trs (run wit_overflow))).
Proof. exact wit_c09_overflow. Qed.
Print Assumptions c09_refuted_counter_overflow.

Example c09_partial_nontrivial :
  exists d rd, snd (create_offer st_reneg) = Ok d /\ offer_remote (offer_alloc st_reneg) = Some rd /\
    (forall r, In r (r_secs rd) -> usable r = true) /\ codecs_ok st_reneg /\ offer_nowrap st_reneg = true /\
    sec_mids d = [Some "0"; Some "1"; Some "2"; Some "cam2"; Some "3"].
Proof. exact ex_c09_extension. Qed.

(* the guard of the chain theorem holds on a history of three exchanges started
   from both sides (tracks and transceivers added, removed and stopped, a data
   channel, a remote and a local provisional answer, offers re-created before they
   are applied); it applies eight descriptions of 4, 4, 4, 5, 5, 5, 8 and 8 sections *)
Example c09_chain_nontrivial :
  hist_guard ex_chain /\
  map (@List.length _) (applied ex_chain) = [4; 4; 4; 5; 5; 5; 8; 8]%nat.
Proof. exact ex_chain_ok. Qed.

(* the stale clauses of the guard are needed: pion accepts an offer created
   before an exchange and applied after it, and an answer created for an earlier
   remote offer; neither extends what was applied before (the chain guard is false
   exactly at the stale SetLocalDescription).  Both histories are replayed on the
   real code (corpus); the oracle sets such histories aside. *)
Example c09_chain_guard_stale_offer :
  applied ex_stale_offer = [[Some "v"]; [Some "v"]; [Some "0"]] /\
  map (fun e => match e with (s, g, o) => chain_guardb s g o end) (gtrace ex_stale_offer) =
    [true; true; true; true; true; false].
Proof. exact ex_stale_offer_applied. Qed.
Example c09_chain_guard_stale_answer :
  applied ex_stale_answer = [[Some "a"]; [Some "a"]; [Some "a"; Some "b"]; [Some "a"]] /\
  map (fun e => match e with (s, g, o) => chain_guardb s g o end) (gtrace ex_stale_answer) =
    [true; true; true; true; false].
Proof. exact ex_stale_answer_applied. Qed.

(* an orderly schedule of two exchanges (A offers an audio track, a recvonly video
   transceiver and a data channel; B answers provisionally, adds a track, answers;
   after a RemoveTrack on A, B offers one more transceiver and A answers): both
   peers apply five descriptions of 3, 3, 3, 4 and 4 sections and end with the mid
   list 0 1 2 3 *)
Example c09_two_pion_peers_nontrivial :
  orderly ex_pair /\
  map (@List.length _) (papplied (fst (prun ex_pair))) = [3; 3; 3; 4; 4]%nat /\
  map (@List.length _) (papplied (snd (prun ex_pair))) = [3; 3; 3; 4; 4]%nat /\
  top (fst (prun ex_pair)) = Some [Some "0"; Some "1"; Some "2"; Some "3"].
Proof. exact ex_pair_ok. Qed.
