(* C07 An answer mirrors the offer's m-sections one-for-one.
   Statements only; proofs are in Proofs/JsepMidAnswer.v, the model in
   Model/JsepMid.v, the predicates in Model/JsepMidSpec.v.

   Full statement (not a theorem of the faithful model, see the refutations):
     forall s d, sig s = Stable -> rdesc_ok d ->
       forall a, create_answer (fst (set_remote s TOffer d)) = (_, Ok a) -> c07_mirrors d a
   i.e. whenever CreateAnswer succeeds the answer lists, in order, one section per
   offered section with the offered media type and mid. *)
From Coq Require Import List ZArith String.
Import ListNotations.
From Verif Require Import Common.Base Model.JsepMid Model.JsepMidSpec Proofs.JsepMid Proofs.JsepMidAnswer.
Open Scope string_scope.

(* design witness: offer audio/0, text/1, video/2 without direction attribute on a
   fresh connection: the answer has ONE section *)
Theorem c07_full_refuted :
  answer_of init off_design = Some [(KAudio, Some "0")] /\ rdesc_ok off_design.
Proof. exact wit_c07_design. Qed.
Print Assumptions c07_full_refuted.

(* the missing direction attribute alone *)
Theorem c07_refuted_no_direction :
  answer_of init off_nodir = Some [(KAudio, Some "0"); (KApplication, Some "2")] /\ rdesc_ok off_nodir.
Proof. exact wit_c07_nodir. Qed.
Print Assumptions c07_refuted_no_direction.

(* every section usable, but no known codec for video: rejected in place without mid *)
Theorem c07_refuted_rejected_without_mid :
  answer_of init off_nocodec = Some [(KAudio, Some "0"); (KVideo, None)] /\
  rdesc_ok off_nocodec /\ offer_usable off_nocodec.
Proof. exact wit_c07_nocodec. Qed.
Print Assumptions c07_refuted_rejected_without_mid.

(* a video transceiver numbered "0" by an offer that was never applied answers
   an offered audio section with mid 0 as m=video *)
Theorem c07_refuted_other_kind :
  answer_of st_unsent off_audio0 = Some [(KVideo, Some "0")] /\ sig st_unsent = Stable /\
  offer_usable off_audio0 /\ codecs_ok (fst (set_remote st_unsent TOffer off_audio0)).
Proof. exact wit_c07_other_kind. Qed.
Print Assumptions c07_refuted_other_kind.

(* for every stable state with pairwise distinct transceiver mids and every
   offer with distinct non-empty mids whose sections are application, or
   audio/video with a direction attribute, and whose audio/video mids are not
   already carried by a transceiver of the other kind, and for which a codec is
   known for both kinds afterwards: SetRemoteDescription succeeds, CreateAnswer
   succeeds, and the answer's (media type, mid) list equals the offer's *)
Theorem c07_partial : forall s d,
  sig s = Stable -> NoDup (set_mids (trs s)) ->
  rdesc_ok d -> offer_usable d -> kinds_compatible (trs s) d ->
  codecs_ok (fst (set_remote s TOffer d)) ->
  snd (set_remote s TOffer d) = Ok tt /\
  exists a, snd (create_answer (fst (set_remote s TOffer d))) = Ok a /\ c07_mirrors d a.
Proof. exact c07_partial_lemma. Qed.
Print Assumptions c07_partial.

(* the same after any history (renegotiation), where the distinctness of the
   transceiver mids is the invariant of C06 *)
Theorem c07_partial_history : forall ops d,
  remote_ok ops -> nowrap_all ops ->
  sig (run ops) = Stable ->
  rdesc_ok d -> offer_usable d -> kinds_compatible (trs (run ops)) d ->
  codecs_ok (fst (set_remote (run ops) TOffer d)) ->
  snd (set_remote (run ops) TOffer d) = Ok tt /\
  exists a, snd (create_answer (fst (set_remote (run ops) TOffer d))) = Ok a /\ c07_mirrors d a.
Proof. exact c07_history_lemma. Qed.
Print Assumptions c07_partial_history.

(* the port-0 clause, and exactly which sections are dropped.  For every stable
   state with pairwise distinct transceiver mids and every offer with distinct
   non-empty mids (its sections may be unusable: unknown media type, no direction
   attribute; its BUNDLE group may omit sections, be absent or not be a BUNDLE
   group), whose audio/video mids are not carried by a transceiver of the other
   kind, a codec being known for both kinds: SetRemoteDescription and
   CreateAnswer succeed; the answer has one section per USABLE offered section, in
   order, with the offered media type and mid; such a section is rejected in place
   (port 0) exactly when its mid is outside the remote BUNDLE group, and the
   answer's BUNDLE group lists the others.  The unusable sections are the ones
   that are dropped (refuted above); sections of a kind without codec are rejected
   in place but lose their mid (refuted above, excluded here by codecs_ok). *)
Theorem c07_port0_partial : forall s d,
  sig s = Stable -> NoDup (set_mids (trs s)) ->
  rdesc_ok d -> (forall r, In r (r_secs d) -> r_mid r <> "") -> kinds_compatible (trs s) d ->
  codecs_ok (fst (set_remote s TOffer d)) ->
  snd (set_remote s TOffer d) = Ok tt /\
  exists a, snd (create_answer (fst (set_remote s TOffer d))) = Ok a /\
    map kind_mid_l (l_secs a) = map kind_mid_r (filter usable (r_secs d)) /\
    map l_port0 (l_secs a) = map (port0_r d) (filter usable (r_secs d)) /\
    l_bundle a = filter (in_remote_group d) (map r_mid (filter usable (r_secs d))).
Proof. exact c07_shape_lemma. Qed.
Print Assumptions c07_port0_partial.

(* the same after any history *)
Theorem c07_port0_partial_history : forall ops d,
  remote_ok ops -> nowrap_all ops ->
  sig (run ops) = Stable ->
  rdesc_ok d -> (forall r, In r (r_secs d) -> r_mid r <> "") -> kinds_compatible (trs (run ops)) d ->
  codecs_ok (fst (set_remote (run ops) TOffer d)) ->
  snd (set_remote (run ops) TOffer d) = Ok tt /\
  exists a, snd (create_answer (fst (set_remote (run ops) TOffer d))) = Ok a /\
    map kind_mid_l (l_secs a) = map kind_mid_r (filter usable (r_secs d)) /\
    map l_port0 (l_secs a) = map (port0_r d) (filter usable (r_secs d)) /\
    l_bundle a = filter (in_remote_group d) (map r_mid (filter usable (r_secs d))).
Proof. exact c07_shape_history_lemma. Qed.
Print Assumptions c07_port0_partial_history.

(* the matching loop of SetRemoteDescription binds every usable audio/video
   section to a transceiver with its mid and kind (findByMid cannot fail later)
   and passes over the unusable ones *)
Theorem c07_offer_binds_transceivers : forall secs l,
  NoDup (map r_mid secs) ->
  (forall r, In r secs -> r_mid r <> "") ->
  (forall t a r k, In (t, a) l -> In r secs -> t_mid t = r_mid r ->
                   media_kind (r_kind r) = Some k -> t_kind t = k) ->
  exists l', srd_loop secs l = (l', None) /\
    (forall r k, In r secs -> usable r = true -> media_kind (r_kind r) = Some k -> bound l' (r_mid r) k) /\
    (forall m k, m <> "" -> bound l m k -> bound l' m k).
Proof. exact srd_loop_ok. Qed.
Print Assumptions c07_offer_binds_transceivers.

Example c07_partial_nontrivial :
  sig st_two = Stable /\ NoDup (set_mids (trs st_two)) /\ rdesc_ok off_four /\ offer_usable off_four /\
  kinds_compatible (trs st_two) off_four /\ codecs_ok (fst (set_remote st_two TOffer off_four)) /\
  answer_of st_two off_four = Some (map kind_mid_r (r_secs off_four)).
Proof. exact ex_c07_premises. Qed.

(* premises of c07_port0_partial on an offer of six sections, two of them unusable
   (m=text; video without direction), one usable one outside the BUNDLE group: the
   answer is [v d a w] with w at port 0 *)
Example c07_port0_nontrivial :
  sig st_two = Stable /\ NoDup (set_mids (trs st_two)) /\ rdesc_ok off_mixed /\
  (forall r, In r (r_secs off_mixed) -> r_mid r <> "") /\
  kinds_compatible (trs st_two) off_mixed /\ codecs_ok (fst (set_remote st_two TOffer off_mixed)) /\
  map kind_mid_r (filter usable (r_secs off_mixed)) =
    [(KVideo, Some "v"); (KApplication, Some "d"); (KAudio, Some "a"); (KVideo, Some "w")] /\
  map (port0_r off_mixed) (filter usable (r_secs off_mixed)) = [false; false; false; true].
Proof. exact ex_c07_shape. Qed.
