(* C04 negotiationneeded fires only in stable state, once per needed
   negotiation. Statements only; proofs live in Proofs/Negotiation.v.

   Reading of the property text. Its anchors name the W3C [[NegotiationNeeded]]
   slot, "update the negotiation-needed flag" and checkNegotiationNeeded, so
   - "a change that requires renegotiation" means: W3C's "check if negotiation
     is needed" ([check_negotiation_needed]) is true after the change;
   - "once per needed negotiation" / "not a second time until an exchange
     completes" means: no second firing while the need has been present ever
     since the last firing. A need that was withdrawn (the check turned false,
     W3C 4.7.3.2.4 clears the flag) and arises again is a new needed negotiation.
   The two remarks at the end show why the literal readings are not adopted.

   Partial by the property's own premise: calls are sequential and each call's
   queued work finishes before the next call (concurrent callers excluded). The
   interleaving that remains inside one call -- a queued negotiationNeededOp
   finding the queue busy with the call's own later Enqueue -- is the schedule
   argument [sched], over which every theorem quantifies. *)
From Coq Require Import List NArith String.
Import ListNotations.
From Verif Require Import Common.Base Model.OfferShape Model.Negotiation Proofs.Negotiation.
Open Scope string_scope.

(* Sentence 1, over every history, every start state and every schedule: each
   handler invocation happens with signaling state stable and the connection
   not closed. *)
Theorem c04_only_stable_open : forall h s,
  Forall (Forall (fun f => f_sig f = Stable /\ f_closed f = false)) (snd (nrun s h)).
Proof. exact nrun_fires_ok. Qed.
Print Assumptions c04_only_stable_open.

(* the schedule inside a call has no influence on state, result or firings *)
Theorem c04_schedule_irrelevant : forall s o sched, nstep s o sched = nstep s o [].
Proof. exact nstep_sched_irrelevant. Qed.
Print Assumptions c04_schedule_irrelevant.

(* states reached from a fresh PeerConnection satisfy the invariant used below,
   and checkNegotiationNeeded never dereferences a nil remote description there *)
Theorem c04_reachable_invariant : forall always h, Inv (n_pc (fst (nrun (nn_init always) h))).
Proof. exact reachable_inv. Qed.
Print Assumptions c04_reachable_invariant.

Theorem c04_check_never_panics : forall p, Inv p -> exists b, check_negotiation_needed p = Ok b.
Proof. exact check_never_panics. Qed.
Print Assumptions c04_check_never_panics.

(* Sentence 2: in stable state, not closed, with [[NegotiationNeeded]] clear, a
   successful AddTrack / AddTransceiverFromKind / AddTransceiverFromTrack /
   CreateDataChannel is followed -- once the queue is drained -- by exactly one
   firing if the change requires renegotiation, and by none if it does not. *)
Theorem c04_fires_after_change : forall s o sched s' out fs,
  p_sig (n_pc s) = Stable -> p_closed (n_pc s) = false -> n_flag s = false ->
  is_change o = true -> nstep s o sched = (s', out, fs) -> o_status out = "ok" ->
  (check_negotiation_needed (n_pc s') = Ok true ->
     fs = [{| f_sig := Stable; f_closed := false |}] /\ n_flag s' = true)
  /\ (check_negotiation_needed (n_pc s') = Ok false -> fs = [] /\ n_flag s' = false).
Proof. exact fires_iff_needed. Qed.
Print Assumptions c04_fires_after_change.

(* ... and the changes the property names do require renegotiation in every
   reachable state: a new transceiver always; AddTrack on a reused transceiver
   unless the current local description already announces that very track on
   its m-section; the first CreateDataChannel unless the current local
   description already has an application section ([change_op]). *)
Theorem c04_named_changes_require_renegotiation : forall p o p' out fx,
  Inv p -> change_op p o -> step p o = (p', out, fx) -> o_status out = "ok" ->
  fx = fx_one /\ p_sig p' = p_sig p /\ p_closed p' = p_closed p
  /\ check_negotiation_needed p' = Ok true.
Proof. exact step_change_needed. Qed.
Print Assumptions c04_named_changes_require_renegotiation.

(* Sentence 2 for a change made while an exchange is in progress ("it fires
   once the connection is stable"): the call that brings signaling back to
   stable clears the flag and re-runs the check; the handler fires then, once,
   exactly when negotiation is (still) needed. *)
Theorem c04_fires_on_reaching_stable : forall s o sched s' out fs,
  nstep s o sched = (s', out, fs) ->
  fx_to_stable (snd (step (n_pc s) o)) = true ->
  p_closed (n_pc s') = false -> p_sig (n_pc s') = Stable ->
  (check_negotiation_needed (n_pc s') = Ok true ->
     fs = [{| f_sig := Stable; f_closed := false |}] /\ n_flag s' = true)
  /\ (check_negotiation_needed (n_pc s') = Ok false -> fs = [] /\ n_flag s' = false).
Proof. exact stable_transition_rechecks. Qed.
Print Assumptions c04_fires_on_reaching_stable.

(* Sentence 3: after a firing, over any further calls during which no exchange
   completes and negotiation stays needed ([still_needed]), nothing fires. *)
Theorem c04_no_refire : forall s o sched s' out fs h,
  nstep s o sched = (s', out, fs) -> fs <> [] -> still_needed s' h ->
  Forall (fun x => x = []) (snd (nrun s' h)).
Proof. exact no_refire_after_firing. Qed.
Print Assumptions c04_no_refire.

(* Remarks: why the literal readings are not the property. Both behaviours are
   what W3C's algorithm prescribes; neither is a defect. *)

(* "no second firing until an exchange completes", literally: the remote answers
   a=inactive; RemoveTrack fires; AddTrack of the same track withdraws the need
   (flag cleared); RemoveTrack creates a new need and fires -- two firings, no
   completed exchange in between. *)
Theorem c04_literal_reading_counterexample_withdrawn_need :
  fire_counts (nn_init false) refire_history = [1; 0; 0; 0; 1; 0; 1]
  /\ stable_marks (nn_init false) refire_history = [false; false; false; true; false; false; false].
Proof. exact refire_witness. Qed.
Print Assumptions c04_literal_reading_counterexample_withdrawn_need.

(* "adding a track fires", literally: the remote answers a=sendonly; RemoveTrack
   changes nothing that needs negotiating; AddTrack of the same track reuses the
   transceiver, the local description already says sendrecv with this msid, the
   check is false and nothing fires. *)
Theorem c04_literal_reading_counterexample_already_advertised :
  let s := fst (nrun (nn_init false) nofire_prefix) in
  p_sig (n_pc s) = Stable /\ p_closed (n_pc s) = false /\ n_flag s = false
  /\ add_track_reuse (p_tcvs (n_pc s)) Video (w_enc 2) <> None
  /\ o_status (snd (fst (nstep s (OAddTrack Video (w_enc 2)) []))) = "ok"
  /\ snd (nstep s (OAddTrack Video (w_enc 2)) []) = [].
Proof. exact nofire_witness. Qed.
Print Assumptions c04_literal_reading_counterexample_already_advertised.

(* premises are satisfiable: a fresh connection, AddTrack fires once; a second
   AddTransceiver before any exchange is a non-empty still_needed stretch *)
Example c04_fires_nontrivial :
  snd (nstep (nn_init false) (OAddTrack Video (w_enc 1)) [true; false])
  = [{| f_sig := Stable; f_closed := false |}].
Proof. reflexivity. Qed.

Example c04_still_needed_nontrivial :
  let s := fst (fst (nstep (nn_init false) (OAddTrack Video (w_enc 1)) [])) in
  n_flag s = true
  /\ still_needed s (nosched [OAddTcvKind Audio (Some Recvonly) (w_enc 0); OCreateOffer; OSetLocal TOffer]).
Proof. vm_compute. repeat split. Qed.
