(* C04 negotiationneeded fires only in stable state, once per needed
   negotiation. Statements only; proofs live in Proofs/Negotiation.v.

   Reading of the property text. Its anchors name the W3C [[NegotiationNeeded]]
   slot, "update the negotiation-needed flag" and checkNegotiationNeeded, so
   - "a change that requires renegotiation" means: W3C's "check if negotiation
     is needed" ([check_negotiation_needed]) is true after the change;
   - "once per needed negotiation" / "not a second time until an exchange
     completes" means: no second firing while the need has been present ever
     since the last firing. A need that was withdrawn (the check turned false,
     W3C 4.7.3.2.4 clears the flag) and arises again is a new needed negotiation.
   The two remarks at the end show why the literal readings are not adopted.

   Partial by the property's own premise: calls are sequential and each call's
   queued work finishes before the next call (concurrent callers excluded). The
   interleaving that remains inside one call -- a queued negotiationNeededOp
   finding the queue busy with the call's own later Enqueue -- is the schedule
   argument [sched], over which every theorem quantifies. *)
From Coq Require Import List NArith String.
Import ListNotations.
From Verif Require Import Common.Base Model.OfferShape Model.Negotiation Proofs.Negotiation.
Open Scope string_scope.

(* Sentence 1, over every history, every start state and every schedule: each
   handler invocation happens with signaling state stable and the connection
   not closed. *)
Theorem c04_only_stable_open : forall h s,
  Forall (Forall (fun f => f_sig f = Stable /\ f_closed f = false)) (snd (nrun s h)).
Proof. exact nrun_fires_ok. Qed.
Print Assumptions c04_only_stable_open.

(* the schedule inside a call has no influence on state, result or firings *)
Theorem c04_schedule_irrelevant : forall s o sched, nstep s o sched = nstep s o [].
Proof. exact nstep_sched_irrelevant. Qed.
Print Assumptions c04_schedule_irrelevant.

(* states reached from a fresh PeerConnection satisfy the invariant used below,
   and checkNegotiationNeeded never dereferences a nil remote description there *)
Theorem c04_reachable_invariant : forall always h, Inv (n_pc (fst (nrun (nn_init always) h))).
Proof. exact reachable_inv. Qed.
Print Assumptions c04_reachable_invariant.

Theorem c04_check_never_panics : forall p, Inv p -> exists b, check_negotiation_needed p = Ok b.
Proof. exact check_never_panics. Qed.
Print Assumptions c04_check_never_panics.

(* Sentence 2: in stable state, not closed, with [[NegotiationNeeded]] clear, a
   successful AddTrack / AddTransceiverFromKind / AddTransceiverFromTrack /
   CreateDataChannel is followed -- once the queue is drained -- by exactly one
   firing if the change requires renegotiation, and by none if it does not. *)
Theorem c04_fires_after_change : forall s o sched s' out fs,
  p_sig (n_pc s) = Stable -> p_closed (n_pc s) = false -> n_flag s = false ->
  is_change o = true -> nstep s o sched = (s', out, fs) -> o_status out = "ok" ->
  (check_negotiation_needed (n_pc s') = Ok true ->
     fs = [{| f_sig := Stable; f_closed := false |}] /\ n_flag s' = true)
  /\ (check_negotiation_needed (n_pc s') = Ok false -> fs = [] /\ n_flag s' = false).
Proof. exact fires_iff_needed. Qed.
Print Assumptions c04_fires_after_change.

(* ... and the changes the property names do require renegotiation in every
   reachable state: a new transceiver always; AddTrack on a reused transceiver
   unless the current local description already announces that very track on
   its m-section; the first CreateDataChannel unless the current local
   description already has an application section ([change_op]). *)
Theorem c04_named_changes_require_renegotiation : forall p o p' out fx,
  Inv p -> change_op p o -> step p o = (p', out, fx) -> o_status out = "ok" ->
  fx = fx_one /\ p_sig p' = p_sig p /\ p_closed p' = p_closed p
  /\ check_negotiation_needed p' = Ok true.
Proof. exact step_change_needed. Qed.
Print Assumptions c04_named_changes_require_renegotiation.

(* Sentence 2 for a change made while an exchange is in progress ("it fires
   once the connection is stable"): the call that brings signaling back to
   stable clears the flag and re-runs the check; the handler fires then, once,
   exactly when negotiation is (still) needed. *)
Theorem c04_fires_on_reaching_stable : forall s o sched s' out fs,
  nstep s o sched = (s', out, fs) ->
  fx_to_stable (snd (step (n_pc s) o)) = true ->
  p_closed (n_pc s') = false -> p_sig (n_pc s') = Stable ->
  (check_negotiation_needed (n_pc s') = Ok true ->
     fs = [{| f_sig := Stable; f_closed := false |}] /\ n_flag s' = true)
  /\ (check_negotiation_needed (n_pc s') = Ok false -> fs = [] /\ n_flag s' = false).
Proof. exact stable_transition_rechecks. Qed.
Print Assumptions c04_fires_on_reaching_stable.

(* Sentence 3: after a firing, over any further calls during which no exchange
   completes and negotiation stays needed ([still_needed]), nothing fires. *)
Theorem c04_no_refire : forall s o sched s' out fs h,
  nstep s o sched = (s', out, fs) -> fs <> [] -> still_needed s' h ->
  Forall (fun x => x = []) (snd (nrun s' h)).
Proof. exact no_refire_after_firing. Qed.
Print Assumptions c04_no_refire.

(* The invariant behind sentences 2 and 3: at every quiescent point that is
   stable and open, [[NegotiationNeeded]] is set exactly when
   checkNegotiationNeeded is true ([at_rest_ok]).

   What is true of the model (and of the code): every call that reaches
   onNegotiationNeeded -- AddTrack, RemoveTrack, AddTransceiverFromKind/Track,
   CreateDataChannel, a remote offer / pranswer that creates transceivers,
   setDescription entering stable -- ESTABLISHES the equivalence, from any
   reachable state; every other call PRESERVES it, except two "quiet" calls
   that can change what the check reads without calling onNegotiationNeeded:
   ReplaceTrack (pion's step 5.3.1 compares the msid with the sender's present
   track id; W3C compares stream ids only) and a CreateOffer that gives out mids
   ([quiet_ok]). After one of those the flag may lag behind the check until the
   next call that reaches onNegotiationNeeded. A fresh connection is the other
   exception: the check is true (no local description) and nothing has fired
   (c04_fresh_connection_not_synchronised). Operation set: every op of
   Model/OfferShape.v -- pranswer as description type on both sides, Close at
   any point, RemoveTrack on any transceiver, any number of data channels,
   AddTransceiverFromTrack. *)
Theorem c04_trigger_synchronises_flag_and_check : forall s o sched,
  Inv (n_pc s) -> fx_triggers (snd (step (n_pc s) o)) <> 0 ->
  at_rest_ok (fst (fst (nstep s o sched))).
Proof. exact nstep_trigger_syncs. Qed.
Print Assumptions c04_trigger_synchronises_flag_and_check.

Theorem c04_quiet_call_preserves_flag_iff_check : forall s o sched,
  at_rest_ok s -> fx_triggers (snd (step (n_pc s) o)) = 0 -> quiet_ok (n_pc s) o ->
  at_rest_ok (fst (fst (nstep s o sched))).
Proof. exact nstep_quiet_preserves. Qed.
Print Assumptions c04_quiet_call_preserves_flag_iff_check.

(* over histories: from a synchronised reachable state, along any history whose
   every call reaches onNegotiationNeeded or is not one of the two quiet calls
   ([calm]) ... *)
Theorem c04_flag_iff_check_at_rest : forall h s,
  Inv (n_pc s) -> at_rest_ok s -> calm s h ->
  let s' := fst (nrun s h) in
  p_closed (n_pc s') = false -> p_sig (n_pc s') = Stable ->
  (n_flag s' = true <-> check_negotiation_needed (n_pc s') = Ok true).
Proof. intros h s I A C. exact (flag_iff_check_at_rest h s I A C). Qed.
Print Assumptions c04_flag_iff_check_at_rest.

(* ... and from a fresh connection: any history, then a call that reaches
   onNegotiationNeeded, then a calm history *)
Theorem c04_flag_iff_check_from_first_trigger : forall always h1 o sched h2,
  let s0 := fst (nrun (nn_init always) h1) in
  fx_triggers (snd (step (n_pc s0) o)) <> 0 ->
  calm (fst (fst (nstep s0 o sched))) h2 ->
  at_rest_ok (fst (nrun (fst (fst (nstep s0 o sched))) h2)).
Proof. exact flag_iff_check_from_first_trigger. Qed.
Print Assumptions c04_flag_iff_check_from_first_trigger.

Theorem c04_fresh_connection_not_synchronised : forall always, ~ at_rest_ok (nn_init always).
Proof. exact fresh_not_at_rest_ok. Qed.
Print Assumptions c04_fresh_connection_not_synchronised.

(* Step 5.3.3 (current local description of type answer). pion compares the
   answer's direction a with the transceiver's direction d ([plain_clause]);
   W3C compares a with d "intersected with the offered direction" o
   ([w3c_clause]). The two differ exactly when the answer was not a legal
   response to the offer and nothing changed since (a = d), or when the
   transceiver now wants more than the offer allowed and the answer is exactly
   the allowed part. They agree whenever the transceiver's direction is within
   the offered one, and SetRemoteDescription leaves it within the offer except
   in the two situations recorded as open findings of C08 (a=sendonly offered to
   a sendrecv / sendonly transceiver). The harness oracle judges by the W3C
   clause whenever the local answer was a legal response, and makes no
   prediction only after an answer that was not (C08). *)
Theorem c04_answer_clause_readings_differ_iff : forall a o d,
  plain_clause a d <> w3c_clause a o d <->
  (a = d /\ ~ legal_response a o) \/ (a <> d /\ a = intersect_dir d o).
Proof. exact answer_readings_differ_iff. Qed.
Print Assumptions c04_answer_clause_readings_differ_iff.

Theorem c04_answer_clause_readings_agree_within_offer : forall a o d,
  intersect_dir d o = d -> plain_clause a d = w3c_clause a o d.
Proof. exact answer_readings_agree_within_offer. Qed.
Print Assumptions c04_answer_clause_readings_agree_within_offer.

Theorem c04_remote_offer_keeps_direction_within_offer_except_c08 : forall o d0,
  (o = Inactive -> d0 = Inactive) ->
  intersect_dir (srd_direction o d0) o = srd_direction o d0
  \/ (o = Sendonly /\ (d0 = Sendrecv \/ d0 = Sendonly)).
Proof. exact srd_direction_within_offer. Qed.
Print Assumptions c04_remote_offer_keeps_direction_within_offer_except_c08.

(* Remarks: why the literal readings are not the property. Both behaviours are
   what W3C's algorithm prescribes; neither is a defect. *)

(* "no second firing until an exchange completes", literally: the remote answers
   a=inactive; RemoveTrack fires; AddTrack of the same track withdraws the need
   (flag cleared); RemoveTrack creates a new need and fires -- two firings, no
   completed exchange in between. *)
Theorem c04_literal_reading_counterexample_withdrawn_need :
  fire_counts (nn_init false) refire_history = [1; 0; 0; 0; 1; 0; 1]
  /\ stable_marks (nn_init false) refire_history = [false; false; false; true; false; false; false].
Proof. exact refire_witness. Qed.
Print Assumptions c04_literal_reading_counterexample_withdrawn_need.

(* "adding a track fires", literally: the remote answers a=sendonly; RemoveTrack
   changes nothing that needs negotiating; AddTrack of the same track reuses the
   transceiver, the local description already says sendrecv with this msid, the
   check is false and nothing fires. *)
Theorem c04_literal_reading_counterexample_already_advertised :
  let s := fst (nrun (nn_init false) nofire_prefix) in
  p_sig (n_pc s) = Stable /\ p_closed (n_pc s) = false /\ n_flag s = false
  /\ add_track_reuse (p_tcvs (n_pc s)) Video (w_enc 2) <> None
  /\ o_status (snd (fst (nstep s (OAddTrack Video (w_enc 2)) []))) = "ok"
  /\ snd (nstep s (OAddTrack Video (w_enc 2)) []) = [].
Proof. exact nofire_witness. Qed.
Print Assumptions c04_literal_reading_counterexample_already_advertised.

(* premises are satisfiable: a fresh connection, AddTrack fires once; a second
   AddTransceiver before any exchange is a non-empty still_needed stretch *)
Example c04_fires_nontrivial :
  snd (nstep (nn_init false) (OAddTrack Video (w_enc 1)) [true; false])
  = [{| f_sig := Stable; f_closed := false |}].
Proof. reflexivity. Qed.

Example c04_still_needed_nontrivial :
  let s := fst (fst (nstep (nn_init false) (OAddTrack Video (w_enc 1)) [])) in
  n_flag s = true
  /\ still_needed s (nosched [OAddTcvKind Audio (Some Recvonly) (w_enc 0); OCreateOffer; OSetLocal TOffer]).
Proof. vm_compute. repeat split. Qed.

(* the at-rest premises are satisfiable: after AddTrack and CreateOffer,
   CreateDataChannel synchronises; a second data channel, an exchange with a
   provisional answer, RemoveTrack, Close and RemoveTrack again form a calm history *)
Example c04_at_rest_nontrivial :
  let s0 := fst (nrun (nn_init false) (nosched [OAddTrack Video (w_enc 1); OCreateOffer])) in
  let s := fst (fst (nstep s0 OCreateDC [])) in
  at_rest_ok s /\ n_flag s = true
  /\ calm s (nosched [OCreateDC; OCreateOffer; OSetLocal TOffer;
                      OSetRemote TPranswer [{| sc_mid := Some "0"; sc_media := MVideo; sc_dir := Some Recvonly; sc_attrs := [] |}] w_engine;
                      w_answer Recvonly; ORemoveTrack 0; OClose; ORemoveTrack 0]).
Proof.
  split; [|split].
  - apply c04_trigger_synchronises_flag_and_check; [apply c04_reachable_invariant|vm_compute; discriminate].
  - reflexivity.
  - vm_compute. repeat split;
      first [left; discriminate | right; exact I | right; repeat constructor; discriminate].
Qed.
