From Verif Require Import Model.Negotiation.
