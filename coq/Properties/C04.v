(* C04 negotiationneeded fires only in stable state, once per needed
   negotiation. Statements only; proofs live in Proofs/Negotiation.v.

   Partial by the property's own premise: calls are sequential and each call's
   queued work finishes before the next call (concurrent callers excluded). The
   interleaving that remains inside one call -- a queued negotiationNeededOp
   finding the queue busy with the call's own later Enqueue -- is the schedule
   argument [sched], over which every theorem quantifies. *)
From Coq Require Import List NArith String.
Import ListNotations.
From Verif Require Import Common.Base Model.OfferShape Model.Negotiation Proofs.Negotiation.
Open Scope string_scope.

(* Sentence 1, over every history, every start state and every schedule: each
   handler invocation happens with signaling state stable and the connection
   not closed. *)
Theorem c04_only_stable_open : forall h s,
  Forall (Forall (fun f => f_sig f = Stable /\ f_closed f = false)) (snd (nrun s h)).
Proof. exact nrun_fires_ok. Qed.
Print Assumptions c04_only_stable_open.

(* the schedule inside a call has no influence on state, result or firings *)
Theorem c04_schedule_irrelevant : forall s o sched, nstep s o sched = nstep s o [].
Proof. exact nstep_sched_irrelevant. Qed.
Print Assumptions c04_schedule_irrelevant.

(* states reached from a fresh PeerConnection satisfy the invariant the next
   theorems assume, and checkNegotiationNeeded never dereferences a nil remote
   description there *)
Theorem c04_reachable_invariant : forall always h, Inv (n_pc (fst (nrun (nn_init always) h))).
Proof. exact reachable_inv. Qed.
Print Assumptions c04_reachable_invariant.

Theorem c04_check_never_panics : forall p, Inv p -> exists b, check_negotiation_needed p = Ok b.
Proof. exact check_never_panics. Qed.
Print Assumptions c04_check_never_panics.

(* Sentence 2 -- FULL statement: in a reachable state with signaling stable, not
   closed and [[NegotiationNeeded]] clear, a successful AddTransceiverFromKind /
   AddTransceiverFromTrack / AddTrack (new or reused transceiver) / first
   CreateDataChannel is followed by exactly one firing once the queue is drained.
   The faithful model refutes it for AddTrack on a reusable transceiver whose
   m-section in the current local description already announces that very
   track (c04_fires_after_change_refuted). Proved with [change_op]'s premises:
   AddTrack: not that case (readvertised = false); CreateDataChannel: it is the
   first one and the current local description has no application section. *)
Theorem c04_fires_after_change_partial : forall s o sched s' out fs,
  Inv (n_pc s) -> p_sig (n_pc s) = Stable -> p_closed (n_pc s) = false -> n_flag s = false ->
  change_op (n_pc s) o ->
  nstep s o sched = (s', out, fs) -> o_status out = "ok" ->
  fs = [{| f_sig := Stable; f_closed := false |}] /\ n_flag s' = true.
Proof. exact fires_after_change. Qed.
Print Assumptions c04_fires_after_change_partial.

Theorem c04_fires_after_change_refuted :
  let s := fst (nrun (nn_init false) nofire_prefix) in
  p_sig (n_pc s) = Stable /\ p_closed (n_pc s) = false /\ n_flag s = false
  /\ add_track_reuse (p_tcvs (n_pc s)) Video (w_enc 2) <> None
  /\ o_status (snd (fst (nstep s (OAddTrack Video (w_enc 2)) []))) = "ok"
  /\ snd (nstep s (OAddTrack Video (w_enc 2)) []) = [].
Proof. exact nofire_witness. Qed.
Print Assumptions c04_fires_after_change_refuted.

(* Sentence 2, for a change made while an exchange is in progress ("it fires
   once the connection is stable"): the call that brings signaling back to
   stable clears the flag and re-runs the check; the handler fires then, once,
   exactly when negotiation is (still) needed. *)
Theorem c04_fires_on_reaching_stable : forall s o sched s' out fs,
  nstep s o sched = (s', out, fs) ->
  fx_to_stable (snd (step (n_pc s) o)) = true ->
  p_closed (n_pc s') = false -> p_sig (n_pc s') = Stable ->
  (check_negotiation_needed (n_pc s') = Ok true ->
     fs = [{| f_sig := Stable; f_closed := false |}] /\ n_flag s' = true)
  /\ (check_negotiation_needed (n_pc s') = Ok false -> fs = [] /\ n_flag s' = false).
Proof. exact stable_transition_rechecks. Qed.
Print Assumptions c04_fires_on_reaching_stable.

(* Sentence 3 -- FULL statement: between a firing and the completion of the next
   offer/answer exchange there is no second firing. The faithful model refutes
   it (c04_no_refire_refuted): negotiationNeededOp clears the flag when
   negotiation is no longer needed (W3C 4.7.3.2.4), and a later change fires
   again. Proved: a firing sets the flag, and while the flag is set nothing
   fires over any stretch of calls in which no exchange completes and
   negotiation stays needed. *)
Theorem c04_firing_sets_flag : forall s o sched s' out fs,
  nstep s o sched = (s', out, fs) -> fs <> [] -> n_flag s' = true.
Proof. exact firing_sets_flag. Qed.
Print Assumptions c04_firing_sets_flag.

Theorem c04_no_refire_partial : forall h s,
  n_flag s = true -> still_needed s h -> Forall (fun fs => fs = []) (snd (nrun s h)).
Proof. exact no_refire. Qed.
Print Assumptions c04_no_refire_partial.

Theorem c04_no_refire_refuted :
  fire_counts (nn_init false) refire_history = [1; 0; 0; 0; 1; 0; 1]
  /\ stable_marks (nn_init false) refire_history = [false; false; false; true; false; false; false].
Proof. exact refire_witness. Qed.
Print Assumptions c04_no_refire_refuted.

(* premises are satisfiable: a fresh connection, AddTrack fires once; a second
   AddTransceiver before any exchange is a non-empty still_needed stretch *)
Example c04_fires_nontrivial :
  snd (nstep (nn_init false) (OAddTrack Video (w_enc 1)) [true; false])
  = [{| f_sig := Stable; f_closed := false |}].
Proof. reflexivity. Qed.

Example c04_still_needed_nontrivial :
  let s := fst (fst (nstep (nn_init false) (OAddTrack Video (w_enc 1)) [])) in
  n_flag s = true
  /\ still_needed s (nosched [OAddTcvKind Audio (Some Recvonly) (w_enc 0); OCreateOffer; OSetLocal TOffer]).
Proof. vm_compute. repeat split. Qed.
