(* C35 H.264/H.265 writers emit the packetized NAL units once a keyframe arrives.
   Statements only; proofs live in Proofs/H26xWriter.v.  The depacketizers of
   pion/rtp are parameters: c35_gate holds for every depacketizer, the
   composition with the reader states its contract as a premise. *)
From Coq Require Import List NArith String Bool.
Import ListNotations.
From Verif Require Import Common.Base Common.Media1Util Model.AnnexB Model.H26xWriter Model.H26xDepack
  Proofs.AnnexB Proofs.AnnexB4 Proofs.H26xWriter Proofs.H26xDepack Proofs.H26xFu.
Open Scope N_scope.

(* The bytes the writer emits are the depacketizer's outputs over the packets
   from the first non-empty one that isKeyFrame accepts; nothing before it. *)
Theorem c35_gate : forall (D : Type) (unm : unmarshal D) (isk : list N -> bool) ps d0,
  fst (write_all unm isk {| has_kf := false; dep := d0 |} ps)
  = depack_all unm d0 (from_first isk (filter nonempty ps)).
Proof. exact gate. Qed.
Print Assumptions c35_gate.

(* The reader over what the writers emit.  Every unit is written behind a
   4-byte start code; the reader cuts exactly three zero bytes before the 1
   (never more), so a unit keeps its own trailing zero bytes, and the last unit
   ends with the stream.  The round trip is therefore exact for every non-empty
   unit that has no 0 0 1 inside (nal_ok4: any number of trailing zeros, 0 0 0
   allowed) - a larger domain than C34's nal_ok (no trailing zero, no 0 0 0,
   needed there because 3-byte codes may follow: see
   three_byte_code_eats_trailing_zero in Proofs/AnnexB4.v). *)
Theorem c35_roundtrip_4byte_codes : forall sk cs us,
  (forall b, sk b = false) ->
  chunks_ok cs ->
  List.concat cs = frame (map (fun n => (true, n)) us) ->
  Forall (fun n => nal_ok4 n = true) us ->
  read_all sk cs = (us, "eof"%string).
Proof. exact roundtrip_all4. Qed.
Print Assumptions c35_roundtrip_4byte_codes.

Theorem c35_domain_contains_c34 : forall n, nal_ok n = true -> nal_ok4 n = true.
Proof. exact nal_ok_nal_ok4. Qed.
Print Assumptions c35_domain_contains_c34.

(* units ending in zero bytes are in the domain and come back whole, also as
   the last unit; behind a 3-byte code the same unit would lose a zero *)
Example c35_trailing_zero_example :
  let us := [[103; 66; 0; 31; 0]; [101; 136; 0; 0]; [65; 154; 0; 0; 0; 0]; [65; 0]] in
  forallb nal_ok4 us = true /\ forallb nal_ok us = false /\
  read_all (fun _ => false) [frame (map (fun n => (true, n)) us)] = (us, "eof"%string) /\
  read_all (fun _ => false) [frame [(true, [101; 136; 0]); (false, [65; 154])]] = ([[101; 136]; [65; 154]], "eof"%string).
Proof. vm_compute. repeat split. Qed.

(* Composition with that round trip.  Premise (contract of pion/rtp's
   depacketizer): over a complete packet sequence it emits the carried units,
   each behind a 4-byte start code.  Then the matching reader, whatever the
   chunking, returns exactly the units carried by the packets from the gate on,
   trailing zero bytes included. *)
Theorem c35_reader_sees_nals :
  forall (D : Type) (unm : unmarshal D) (d0 : D)
         (carried : list (list N) -> list (list N)) (complete : list (list N) -> Prop),
  (forall ps, complete ps ->
     depack_all unm d0 ps = frame (map (fun n => (true, n)) (carried ps))) ->
  forall isk ps cs,
  let suffix := from_first isk (filter nonempty ps) in
  complete suffix ->
  Forall (fun n => nal_ok4 n = true) (carried suffix) ->
  chunks_ok cs ->
  List.concat cs = fst (write_all unm isk {| has_kf := false; dep := d0 |} ps) ->
  read_all (fun _ => false) cs = (carried suffix, "eof"%string).
Proof. exact reader_sees_nals. Qed.
Print Assumptions c35_reader_sees_nals.

(* The contract premise is inhabited.  The reference transcriptions of
   pion/rtp's depacketizers (Model/H26xDepack.v; the check compares them with
   pion/rtp on every generated stream) satisfy it over every sequence of
   complete packet groups as the payloaders send them: single NAL packets,
   STAP-A / AP, whole FU-A / FU groups. *)
Theorem c35_h264_depack_contract : forall l,
  Forall wf_apkt l ->
  depack_all unm264 [] (flat_map enc264 l) = frame4 (flat_map carried264 l).
Proof. exact unm264_contract. Qed.
Print Assumptions c35_h264_depack_contract.

Theorem c35_h265_depack_contract : forall l,
  Forall wf_apkt5 l ->
  depack_all unm265 [] (flat_map enc265 l) = frame4 (flat_map carried265 l).
Proof. exact unm265_contract. Qed.
Print Assumptions c35_h265_depack_contract.

(* ... so with these depacketizers the composition holds without a premise
   about them: whatever precedes, if the packets from the gate on are the
   groups l, the reader returns exactly the units of l, then EOF *)
Theorem c35_h264_end_to_end : forall ps l cs,
  from_first is_key_frame_264 (filter nonempty ps) = flat_map enc264 l ->
  Forall wf_apkt l ->
  Forall (fun n => nal_ok4 n = true) (flat_map carried264 l) ->
  chunks_ok cs ->
  List.concat cs = fst (write_all unm264 is_key_frame_264 {| has_kf := false; dep := [] |} ps) ->
  read_all (fun _ => false) cs = (flat_map carried264 l, "eof"%string).
Proof. exact h264_end_to_end. Qed.
Print Assumptions c35_h264_end_to_end.

Theorem c35_h265_end_to_end : forall ps l cs,
  from_first isk265 (filter nonempty ps) = flat_map enc265 l ->
  Forall wf_apkt5 l ->
  Forall (fun n => nal_ok4 n = true) (flat_map carried265 l) ->
  chunks_ok cs ->
  List.concat cs = fst (write_all unm265 isk265 {| has_kf := false; dep := [] |} ps) ->
  read_all (fun _ => false) cs = (flat_map carried265 l, "eof"%string).
Proof. exact h265_end_to_end. Qed.
Print Assumptions c35_h265_end_to_end.

Example c35_end_to_end_example :
  let l := [AStap [[103; 66; 0; 31]; [104; 206; 60; 128]]; AFua 101 [136; 132] [[33; 9]; [7; 7]] [5; 128]; ASingle [65; 154; 2]] in
  let ps := [[65; 154; 2; 5]; []; [101; 136; 1; 1]] ++ flat_map enc264 l in
  from_first is_key_frame_264 (filter nonempty ps) = flat_map enc264 l /\
  read_all (fun _ => false) [fst (write_all unm264 is_key_frame_264 {| has_kf := false; dep := [] |} ps)]
  = ([[103; 66; 0; 31]; [104; 206; 60; 128]; [101; 136; 132; 33; 9; 7; 7; 5; 128]; [65; 154; 2]], "eof"%string).
Proof. exact h264_end_to_end_example. Qed.

(* h265writer's isKeyFrame (aggregation-packet walk with its bounds checks, FU
   header access) returns a value on every byte string: no index panic, the
   loop's fuel suffices. *)
Theorem c35_ap_walk_no_panic : forall data, exists b, is_key_frame_265 data = Ok b.
Proof. exact is_key_frame_265_total. Qed.
Print Assumptions c35_ap_walk_no_panic.

(* FULL STATEMENT (refuted): isKeyFrame accepts exactly the packets that carry
   or start a keyframe unit by the property's definition (H.264: SPS or IDR;
   H.265: VPS/SPS/PPS/IDR), i.e.
     forall p, is_key_frame_264 p = prop_kf_264 p
     forall p, is_key_frame_265 p = Ok (prop_kf_265 p).
   Witnesses, each replayed on the real writers (harness/c35.go corpus):
   IDR as single NAL; 3-byte SPS; SPS in FU-A; SPS second in a STAP-A;
   H.265 IDR in FUs (missed); end fragment of a TRAIL_R and start fragment of
   an SEI (accepted although no keyframe). *)
Theorem c35_keyframe_full_refuted :
  (prop_kf_264 idr_single = true /\ is_key_frame_264 idr_single = false) /\
  (prop_kf_264 sps_short = true /\ is_key_frame_264 sps_short = false) /\
  (prop_kf_264 sps_fua_start = true /\ is_key_frame_264 sps_fua_start = false) /\
  (prop_kf_264 stapa_sps_second = true /\ is_key_frame_264 stapa_sps_second = false) /\
  (prop_kf_265 idr_fu_start_265 = true /\ is_key_frame_265 idr_fu_start_265 = Ok false) /\
  (prop_kf_265 trail_fu_end_265 = false /\ is_key_frame_265 trail_fu_end_265 = Ok true) /\
  (prop_kf_265 sei_fu_start_265 = false /\ is_key_frame_265 sei_fu_start_265 = Ok true).
Proof. exact keyframe_refuted. Qed.
Print Assumptions c35_keyframe_full_refuted.

(* PARTIAL: on the packets outside the recorded deviations the gate is the
   property's.  H.264: at least four bytes; a single NAL other than an IDR; a
   STAP-A whose units parse and whose first unit is the SPS if it carries an
   SPS or IDR at all; an FU-A that does not start an SPS or IDR. *)
Theorem c35_partial_h264 : forall p,
  guard264 p = true -> is_key_frame_264 p = prop_kf_264 p.
Proof. exact partial_264. Qed.
Print Assumptions c35_partial_h264.

Theorem c35_partial_h264_stream : forall ps,
  Forall (fun p => guard264 p = true) ps ->
  from_first is_key_frame_264 ps = from_first prop_kf_264 ps.
Proof. exact partial_264_stream. Qed.
Print Assumptions c35_partial_h264_stream.

(* H.265: every packet that is not an FU: single NAL packets, and aggregation
   packets whose unit sizes fit *)
Theorem c35_partial_h265_single : forall p,
  guard265_single p = true -> is_key_frame_265 p = Ok (prop_kf_265 p).
Proof. exact partial_265_single. Qed.
Print Assumptions c35_partial_h265_single.

Theorem c35_partial_h265_ap : forall p,
  guard265_ap p = true -> is_key_frame_265 p = Ok (prop_kf_265 p).
Proof. exact partial_265_ap. Qed.
Print Assumptions c35_partial_h265_ap.

(* H.265 FU packets.  isKeyFrame takes data[2], the FU header S|E|FuType, for
   a NAL header and looks at (data[2] & 0x7E) >> 1 = E*32 + FuType/2: it says
   "keyframe" iff E = 0 and FuType is 38..41, or E = 1 and FuType is 0..5
   (fu_code_says_key); the property says so iff S = 1 and FuType is one of
   19 20 32 33 34 (fu_starts_key).  On every FU packet in neither set - and on
   an FU packet without FU header - the answer is the property's ... *)
Theorem c35_partial_h265_fu : forall p,
  Forall (fun b => b < 256) p ->
  guard265_fu p = true -> is_key_frame_265 p = Ok (prop_kf_265 p).
Proof. exact partial_265_fu. Qed.
Print Assumptions c35_partial_h265_fu.

(* ... and the guard is exact: on every other FU packet the answer is wrong,
   either a false yes or a missed keyframe start *)
Theorem c35_partial_h265_fu_exact : forall b0 b1 fu rest,
  type265 b0 = 49 -> fu < 256 ->
  guard265_fu (b0 :: b1 :: fu :: rest) = false ->
  is_key_frame_265 (b0 :: b1 :: fu :: rest) <> Ok (prop_kf_265 (b0 :: b1 :: fu :: rest)) /\
  ((fu_code_says_key fu = true /\ prop_kf_265 (b0 :: b1 :: fu :: rest) = false) \/
   (fu_code_says_key fu = false /\ prop_kf_265 (b0 :: b1 :: fu :: rest) = true)).
Proof. exact partial_265_fu_exact. Qed.
Print Assumptions c35_partial_h265_fu_exact.

(* per fragment of a unit of type t (FU headers t, 128+t, 64+t): middle
   fragments are misread iff t is 38..41, start fragments iff t is a keyframe
   type or 38..41, end fragments iff t is 0..5 *)
Theorem c35_h265_fu_fragments : forall t, t < 64 ->
  let start := 128 + t in let middle := t in let stop := 64 + t in
  (fu_code_says_key middle || fu_starts_key middle = ((38 <=? t) && (t <=? 41))) /\
  (fu_code_says_key start || fu_starts_key start = (kf_nalu_265 t || ((38 <=? t) && (t <=? 41)))) /\
  (fu_code_says_key stop || fu_starts_key stop = (t <? 6)).
Proof. exact fu_fragments. Qed.
Print Assumptions c35_h265_fu_fragments.

(* premises are satisfiable *)
Example c35_guard_fu_examples :
  guard265_fu [98; 1; 1; 7; 7] = true /\           (* middle fragment of a TRAIL_R *)
  guard265_fu [98; 1; 129; 7; 7] = true /\         (* its start fragment *)
  guard265_fu [98; 1; 65; 7; 7] = false /\         (* its end fragment: taken for a keyframe *)
  guard265_fu [98; 1; 147; 7; 7] = false /\        (* start fragment of an IDR_W_RADL: missed *)
  guard265_fu [98; 1; 83; 7; 7] = true.            (* end fragment of the IDR *)
Proof. vm_compute. repeat split. Qed.

Example c35_guard_examples :
  guard264 [103; 66; 0; 31; 140] = true /\                                  (* SPS *)
  guard264 [120; 0; 4; 103; 66; 0; 31; 0; 2; 104; 206] = true /\            (* STAP-A [SPS; PPS] *)
  guard264 [65; 154; 2; 5] = true /\                                        (* P slice *)
  guard265_single [64; 1; 12; 1] = true /\                                  (* VPS *)
  guard265_ap [96; 1; 0; 4; 64; 1; 12; 1; 0; 3; 66; 1; 1] = true.           (* AP [VPS; SPS] *)
Proof. vm_compute. repeat split. Qed.
