(* C35 H.264/H.265 writers emit the packetized NAL units once a keyframe arrives.
   Statements only; proofs live in Proofs/H26xWriter.v.  The depacketizers of
   pion/rtp are parameters: c35_gate holds for every depacketizer, the
   composition with the reader states its contract as a premise. *)
From Coq Require Import List NArith String Bool.
Import ListNotations.
From Verif Require Import Common.Base Common.Media1Util Model.AnnexB Model.H26xWriter Model.H26xDepack
  Proofs.AnnexB Proofs.H26xWriter Proofs.H26xDepack.
Open Scope N_scope.

(* The bytes the writer emits are the depacketizer's outputs over the packets
   from the first non-empty one that isKeyFrame accepts; nothing before it. *)
Theorem c35_gate : forall (D : Type) (unm : unmarshal D) (isk : list N -> bool) ps d0,
  fst (write_all unm isk {| has_kf := false; dep := d0 |} ps)
  = depack_all unm d0 (from_first isk (filter nonempty ps)).
Proof. exact gate. Qed.
Print Assumptions c35_gate.

(* Composition with C34's round trip.  Premise (contract of pion/rtp's
   depacketizer): over a complete packet sequence it emits the carried units,
   each behind a 4-byte start code.  Then the matching reader, whatever the
   chunking, returns exactly the units carried by the packets from the gate on. *)
Theorem c35_reader_sees_nals :
  forall (D : Type) (unm : unmarshal D) (d0 : D)
         (carried : list (list N) -> list (list N)) (complete : list (list N) -> Prop),
  (forall ps, complete ps ->
     depack_all unm d0 ps = frame (map (fun n => (true, n)) (carried ps))) ->
  forall isk ps cs,
  let suffix := from_first isk (filter nonempty ps) in
  complete suffix ->
  Forall (fun n => nal_ok n = true) (carried suffix) ->
  chunks_ok cs ->
  List.concat cs = fst (write_all unm isk {| has_kf := false; dep := d0 |} ps) ->
  read_all (fun _ => false) cs = (carried suffix, "eof"%string).
Proof. exact reader_sees_nals. Qed.
Print Assumptions c35_reader_sees_nals.

(* The contract premise is inhabited.  The reference transcriptions of
   pion/rtp's depacketizers (Model/H26xDepack.v; the check compares them with
   pion/rtp on every generated stream) satisfy it over every sequence of
   complete packet groups as the payloaders send them: single NAL packets,
   STAP-A / AP, whole FU-A / FU groups. *)
Theorem c35_h264_depack_contract : forall l,
  Forall wf_apkt l ->
  depack_all unm264 [] (flat_map enc264 l) = frame4 (flat_map carried264 l).
Proof. exact unm264_contract. Qed.
Print Assumptions c35_h264_depack_contract.

Theorem c35_h265_depack_contract : forall l,
  Forall wf_apkt5 l ->
  depack_all unm265 [] (flat_map enc265 l) = frame4 (flat_map carried265 l).
Proof. exact unm265_contract. Qed.
Print Assumptions c35_h265_depack_contract.

(* ... so with these depacketizers the composition holds without a premise
   about them: whatever precedes, if the packets from the gate on are the
   groups l, the reader returns exactly the units of l, then EOF *)
Theorem c35_h264_end_to_end : forall ps l cs,
  from_first is_key_frame_264 (filter nonempty ps) = flat_map enc264 l ->
  Forall wf_apkt l ->
  Forall (fun n => nal_ok n = true) (flat_map carried264 l) ->
  chunks_ok cs ->
  List.concat cs = fst (write_all unm264 is_key_frame_264 {| has_kf := false; dep := [] |} ps) ->
  read_all (fun _ => false) cs = (flat_map carried264 l, "eof"%string).
Proof. exact h264_end_to_end. Qed.
Print Assumptions c35_h264_end_to_end.

Theorem c35_h265_end_to_end : forall ps l cs,
  from_first isk265 (filter nonempty ps) = flat_map enc265 l ->
  Forall wf_apkt5 l ->
  Forall (fun n => nal_ok n = true) (flat_map carried265 l) ->
  chunks_ok cs ->
  List.concat cs = fst (write_all unm265 isk265 {| has_kf := false; dep := [] |} ps) ->
  read_all (fun _ => false) cs = (flat_map carried265 l, "eof"%string).
Proof. exact h265_end_to_end. Qed.
Print Assumptions c35_h265_end_to_end.

Example c35_end_to_end_example :
  let l := [AStap [[103; 66; 0; 31]; [104; 206; 60; 128]]; AFua 101 [136; 132] [[33; 9]; [7; 7]] [5; 128]; ASingle [65; 154; 2]] in
  let ps := [[65; 154; 2; 5]; []; [101; 136; 1; 1]] ++ flat_map enc264 l in
  from_first is_key_frame_264 (filter nonempty ps) = flat_map enc264 l /\
  read_all (fun _ => false) [fst (write_all unm264 is_key_frame_264 {| has_kf := false; dep := [] |} ps)]
  = ([[103; 66; 0; 31]; [104; 206; 60; 128]; [101; 136; 132; 33; 9; 7; 7; 5; 128]; [65; 154; 2]], "eof"%string).
Proof. exact h264_end_to_end_example. Qed.

(* h265writer's isKeyFrame (aggregation-packet walk with its bounds checks, FU
   header access) returns a value on every byte string: no index panic, the
   loop's fuel suffices. *)
Theorem c35_ap_walk_no_panic : forall data, exists b, is_key_frame_265 data = Ok b.
Proof. exact is_key_frame_265_total. Qed.
Print Assumptions c35_ap_walk_no_panic.

(* FULL STATEMENT (refuted): isKeyFrame accepts exactly the packets that carry
   or start a keyframe unit by the property's definition (H.264: SPS or IDR;
   H.265: VPS/SPS/PPS/IDR), i.e.
     forall p, is_key_frame_264 p = prop_kf_264 p
     forall p, is_key_frame_265 p = Ok (prop_kf_265 p).
   Witnesses, each replayed on the real writers (harness/c35.go corpus):
   IDR as single NAL; 3-byte SPS; SPS in FU-A; SPS second in a STAP-A;
   H.265 IDR in FUs (missed); end fragment of a TRAIL_R and start fragment of
   an SEI (accepted although no keyframe). *)
Theorem c35_keyframe_full_refuted :
  (prop_kf_264 idr_single = true /\ is_key_frame_264 idr_single = false) /\
  (prop_kf_264 sps_short = true /\ is_key_frame_264 sps_short = false) /\
  (prop_kf_264 sps_fua_start = true /\ is_key_frame_264 sps_fua_start = false) /\
  (prop_kf_264 stapa_sps_second = true /\ is_key_frame_264 stapa_sps_second = false) /\
  (prop_kf_265 idr_fu_start_265 = true /\ is_key_frame_265 idr_fu_start_265 = Ok false) /\
  (prop_kf_265 trail_fu_end_265 = false /\ is_key_frame_265 trail_fu_end_265 = Ok true) /\
  (prop_kf_265 sei_fu_start_265 = false /\ is_key_frame_265 sei_fu_start_265 = Ok true).
Proof. exact keyframe_refuted. Qed.
Print Assumptions c35_keyframe_full_refuted.

(* PARTIAL: on the packets outside the recorded deviations the gate is the
   property's.  H.264: at least four bytes; a single NAL other than an IDR; a
   STAP-A whose units parse and whose first unit is the SPS if it carries an
   SPS or IDR at all; an FU-A that does not start an SPS or IDR. *)
Theorem c35_partial_h264 : forall p,
  guard264 p = true -> is_key_frame_264 p = prop_kf_264 p.
Proof. exact partial_264. Qed.
Print Assumptions c35_partial_h264.

Theorem c35_partial_h264_stream : forall ps,
  Forall (fun p => guard264 p = true) ps ->
  from_first is_key_frame_264 ps = from_first prop_kf_264 ps.
Proof. exact partial_264_stream. Qed.
Print Assumptions c35_partial_h264_stream.

(* H.265: every packet that is not an FU: single NAL packets, and aggregation
   packets whose unit sizes fit *)
Theorem c35_partial_h265_single : forall p,
  guard265_single p = true -> is_key_frame_265 p = Ok (prop_kf_265 p).
Proof. exact partial_265_single. Qed.
Print Assumptions c35_partial_h265_single.

Theorem c35_partial_h265_ap : forall p,
  guard265_ap p = true -> is_key_frame_265 p = Ok (prop_kf_265 p).
Proof. exact partial_265_ap. Qed.
Print Assumptions c35_partial_h265_ap.

(* premises are satisfiable *)
Example c35_guard_examples :
  guard264 [103; 66; 0; 31; 140] = true /\                                  (* SPS *)
  guard264 [120; 0; 4; 103; 66; 0; 31; 0; 2; 104; 206] = true /\            (* STAP-A [SPS; PPS] *)
  guard264 [65; 154; 2; 5] = true /\                                        (* P slice *)
  guard265_single [64; 1; 12; 1] = true /\                                  (* VPS *)
  guard265_ap [96; 1; 0; 4; 64; 1; 12; 1; 0; 3; 66; 1; 1] = true.           (* AP [VPS; SPS] *)
Proof. vm_compute. repeat split. Qed.
