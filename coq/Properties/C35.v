(* C35 *)
From Verif Require Import Model.H26xWriter.
