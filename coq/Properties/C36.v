(* C36 rtpdump files round-trip, and malformed records are rejected.
   Statements only; proofs live in Proofs/RtpDump.v.  The model
   (Model/RtpDump.v) follows pkg/media/rtpdump after the fix: commits. *)
From Coq Require Import List ZArith NArith String Bool.
Import ListNotations.
From Verif Require Import Common.Base Common.Media1Util Model.RtpDump Proofs.RtpDump.
Open Scope N_scope.

(* For every header with an IPv4 source, a port and a start representable to
   the microsecond, and every list of packets with 1..65527-byte payloads
   (RTCP: 0..65527) and whole-millisecond offsets below 2^32 ms: the writer
   accepts everything, and the reader returns exactly the header (source in
   net.IPv4's 16-byte form) and the packets, IsRTCP kept, then EOF. *)
Theorem c36_roundtrip : forall h ps,
  rep h ps = true ->
  exists out h',
    write_file h ps = Ok (out, map (fun _ => true) ps) /\
    read_file out = Ok (h', ps, "eof"%string) /\
    h_sec h' = h_sec h /\ h_nsec h' = h_nsec h /\ h_port h' = h_port h /\
    to4 (h_src h') = to4 (h_src h).
Proof. exact roundtrip. Qed.
Print Assumptions c36_roundtrip.

(* Every input, representable or not: if the header fits the format the writer
   accepts exactly the packets that fit, and the reader returns those, at the
   format's resolution (start truncated to the microsecond, offsets to the
   millisecond), then EOF. *)
Theorem c36_roundtrip_resolution : forall h ps,
  wf_header h = true -> fit_header h = true ->
  exists out,
    write_file h ps = Ok (out, map fit_packet ps) /\
    read_file out = Ok (trunc_header h, map trunc_packet (filter fit_packet ps), "eof"%string).
Proof. exact roundtrip_resolution. Qed.
Print Assumptions c36_roundtrip_resolution.

(* The writer refuses what the format cannot hold (source not IPv4, start
   outside 32 bits of seconds: NewWriter fails, nothing written; payload over
   65527 bytes, RTP packet without payload, offset outside 32 bits of
   milliseconds: WritePacket fails), and a refused packet leaves no bytes: the
   output is the file of the accepted packets alone. *)
Theorem c36_writer_refuses : forall h ps,
  (fit_header h = false -> write_file h ps = Err "refused"%string) /\
  (fit_header h = true ->
   exists out, write_file h ps = Ok (out, map fit_packet ps) /\
               write_file h (filter fit_packet ps)
               = Ok (out, map (fun _ => true) (filter fit_packet ps))).
Proof. exact writer_refuses. Qed.
Print Assumptions c36_writer_refuses.

(* Next rejects a record whose length field is below the 8-byte record header *)
Theorem c36_reader_rejects : forall data,
  8 <= lenN data -> be_val (takeN 2 data) < 8 -> next data = Err "malformed"%string.
Proof. exact reader_rejects. Qed.
Print Assumptions c36_reader_rejects.

(* ... wherever it stands in a file and whatever follows it: the packets
   before it are returned, then the error *)
Theorem c36_reader_rejects_in_stream : forall h ps bad,
  wf_header h = true -> fit_header h = true -> forallb fit_packet ps = true ->
  8 <= lenN bad -> be_val (takeN 2 bad) < 8 ->
  read_file (file_head h ++ flat_map enc ps ++ bad)
  = Ok (trunc_header h, map trunc_packet ps, "malformed"%string).
Proof. exact reader_rejects_in_stream. Qed.
Print Assumptions c36_reader_rejects_in_stream.

(* the reader model is total on arbitrary bytes: no index/slice panic is
   reachable and the fuel of the Next loop suffices *)
Theorem c36_reader_total : forall data,
  read_file data <> Panic /\
  (forall h ps e, read_file data = Ok (h, ps, e) -> e <> "out-of-fuel"%string /\ e <> "panic"%string).
Proof. exact read_file_total. Qed.
Print Assumptions c36_reader_total.

(* the premises are satisfiable on non-trivial values *)
Definition ex_h : header :=
  {| h_sec := 1553475661; h_nsec := 250000000; h_src := [192; 168; 0; 1]; h_port := 5004 |}.
Definition ex_ps : list packet :=
  [ {| p_off := 1000000; p_rtcp := false; p_payload := [128; 96; 0; 1] |};
    {| p_off := 999000000; p_rtcp := true; p_payload := [129; 200] |};
    {| p_off := 4294967295000000; p_rtcp := true; p_payload := [] |} ].
Example c36_rep_nontrivial : rep ex_h ex_ps = true.
Proof. reflexivity. Qed.
Example c36_roundtrip_example :
  match write_file ex_h ex_ps with
  | Ok (out, _) => match read_file out with
                   | Ok (_, ps, e) => ps = ex_ps /\ e = "eof"%string
                   | _ => False
                   end
  | _ => False
  end.
Proof. vm_compute. split; reflexivity. Qed.
(* the design probes, against the repaired model: all refused *)
Example c36_refusals :
  fit_packet {| p_off := 0; p_rtcp := false; p_payload := pat_bytes 65530 1 1 |} = false /\
  fit_header {| h_sec := 9; h_nsec := 0; h_src := pat_bytes 16 32 1; h_port := 5 |} = false /\
  next ([0; 4; 0; 4; 0; 0; 0; 1] ++ pat_bytes 100 0 0) = Err "malformed"%string.
Proof. vm_compute. repeat split. Qed.
