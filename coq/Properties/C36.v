(* C36 rtpdump files round-trip, and malformed records are rejected. *)
From Coq Require Import List.
From Verif Require Import Model.RtpDump.
