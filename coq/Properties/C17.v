(* C17 Codec compatibility is symmetric and case-insensitive.
   Statements only; proofs live in Proofs/Fmtp.v.  The model (Model/Fmtp.v)
   follows internal/fmtp on byte strings with Go's ToLower / EqualFold /
   TrimSpace modelled for ASCII; it coincides with the Go code only when the
   mime types are ASCII, which is why the premise is written out in c17_sym
   (the Unicode behaviour is a harness finding: sig=mime-unicode-fold-vs-tolower). *)
From Coq Require Import List NArith String.
Import ListNotations.
From Verif Require Import Model.Fmtp Proofs.Fmtp.
Open Scope string_scope.

(* A matches B exactly when B matches A, for any two codec descriptions
   (mime type, clock rate, channels, fmtp line) *)
Theorem c17_sym : forall a b : cdesc,
  ascii_only (d_mime a) = true -> ascii_only (d_mime b) = true ->
  matches a b = matches b a.
Proof. exact matches_sym_ascii. Qed.
Print Assumptions c17_sym.

(* the same at the level of parsed descriptions (what FMTP.Match receives) *)
Theorem c17_sym_parsed : forall a b : fmtp, fmtp_match a b = fmtp_match b a.
Proof. exact fmtp_match_sym. Qed.
Print Assumptions c17_sym_parsed.

(* the result does not change when the mime type's letter case changes, on
   either side *)
Theorem c17_case : forall (a b : cdesc) (m' : string),
  case_variant (d_mime a) m' ->
  matches (with_mime a m') b = matches a b /\
  matches b (with_mime a m') = matches b a.
Proof. exact matches_case. Qed.
Print Assumptions c17_case.

(* every codec RegisterDefaultCodecs registers matches itself (28 entries) *)
Theorem c17_defaults_self : forall c, In c default_codecs -> matches c c = true.
Proof. exact defaults_self_in. Qed.
Print Assumptions c17_defaults_self.

Example c17_case_variant_nontrivial : case_variant "video/H264" "VIDEO/h264".
Proof. reflexivity. Qed.
Example c17_defaults_count : List.length default_codecs = 28.
Proof. reflexivity. Qed.
Example c17_match_nontrivial :
  matches (mkDesc "video/H264" 90000 0 "packetization-mode=1;profile-level-id=42e01f")
          (mkDesc "VIDEO/h264" 0 0 " Profile-Level-Id=42E034 ; PACKETIZATION-MODE=1") = true
  /\ matches (mkDesc "audio/opus" 0 0 "useinbandfec=1")
             (mkDesc "AUDIO/OPUS" 48000 2 "minptime=10;useinbandfec=1") = true
  /\ matches (mkDesc "audio/opus" 0 0 "useinbandfec=1")
             (mkDesc "audio/opus" 48000 1 "") = false.
Proof. vm_compute. repeat split. Qed.
(* self-match is not a general law (so c17_defaults_self says something) *)
Example c17_self_match_not_general :
  matches (mkDesc "video/H264" 90000 0 "profile-level-id=42e01f")
          (mkDesc "video/H264" 90000 0 "profile-level-id=42e01f") = false.
Proof. exact self_match_not_general. Qed.
