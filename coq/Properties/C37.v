(* C37 Container readers never crash or hang on arbitrary bytes.
   Statements only.  Per reader model (explicit Panic on every Go index/slice,
   loops on fuel): no panic for ARBITRARY bytes and chunkings, and progress
   (a successful call strictly consumes input, so the number of successful
   calls is bounded by the input length and the fuel provably suffices).
   Readers covered: rtpdump, h264reader, h265reader (media1 models) and, in
   the second half of the file, ivfreader, oggreader (with and without
   checksum), NewWith, ParseOpusHead and ParseOpusTags (media2 models). *)
From Coq Require Import List NArith String.
Import ListNotations.
From Verif Require Import Common.Base Common.Media1Util Model.RtpDump Model.AnnexB
  Proofs.C37Media1.
Open Scope N_scope.

Theorem c37_rtpdump_no_panic : forall bytes : list N,
  new_reader bytes <> Panic /\ next bytes <> Panic /\ read_file bytes <> Panic.
Proof. exact rtpdump_no_panic. Qed.
Print Assumptions c37_rtpdump_no_panic.

Theorem c37_rtpdump_progress : forall bytes p rest,
  next bytes = Ok (p, rest) -> lenN rest + 8 <= lenN bytes.
Proof. exact rtpdump_progress. Qed.
Print Assumptions c37_rtpdump_progress.

Theorem c37_rtpdump_terminates : forall bytes h ps e,
  read_file bytes = Ok (h, ps, e) -> e <> "out-of-fuel"%string /\ e <> "panic"%string.
Proof. exact rtpdump_fuel_suffices. Qed.
Print Assumptions c37_rtpdump_terminates.

Theorem c37_h264reader_no_panic : forall (include_sei : bool) (cs : list (list N)),
  snd (read_all (sk264 include_sei) cs) <> "panic"%string /\
  snd (read_all (sk264 include_sei) cs) <> "out-of-fuel"%string.
Proof. exact h264reader_no_panic. Qed.
Print Assumptions c37_h264reader_no_panic.

Theorem c37_h265reader_no_panic : forall (include_sei : bool) (cs : list (list N)),
  snd (read_all (sk265 include_sei) cs) <> "panic"%string /\
  snd (read_all (sk265 include_sei) cs) <> "out-of-fuel"%string.
Proof. exact h265reader_no_panic. Qed.
Print Assumptions c37_h265reader_no_panic.

Theorem c37_h264reader_progress : forall include_sei s n s',
  nalrev s = [] -> next_nal (sk264 include_sei) s = (Ok n, s') ->
  (remaining s' < remaining s)%nat /\ nalrev s' = [] /\ n <> [].
Proof. exact h264reader_progress. Qed.
Print Assumptions c37_h264reader_progress.

Theorem c37_h265reader_progress : forall include_sei s n s',
  nalrev s = [] -> next_nal (sk265 include_sei) s = (Ok n, s') ->
  (remaining s' < remaining s)%nat /\ nalrev s' = [] /\ n <> [].
Proof. exact h265reader_progress. Qed.
Print Assumptions c37_h265reader_progress.

Theorem c37_next_nal_no_panic : forall sk s,
  fst (next_nal sk s) <> Panic /\ fst (next_nal sk s) <> Err "out-of-fuel"%string.
Proof. exact h26x_next_nal_no_panic. Qed.
Print Assumptions c37_next_nal_no_panic.

(* ---- readers modelled by the media2 family: IVF, Ogg, OpusHead, OpusTags ---- *)
From Verif Require Model.Ivf Model.Ogg Proofs.C37Media2.

Theorem c37_ivfreader_no_panic : forall bytes : list N,
  Ivf.read_file bytes <> Panic /\
  forall h frs e, Ivf.read_file bytes = Ok (h, frs, e) ->
                  e <> "out-of-fuel"%string /\ e <> "panic"%string.
Proof. exact C37Media2.ivfreader_no_panic. Qed.
Print Assumptions c37_ivfreader_no_panic.

Theorem c37_ivfreader_header_no_panic : forall bytes, Ivf.parse_header bytes <> Panic.
Proof. exact C37Media2.ivfreader_header_no_panic. Qed.
Print Assumptions c37_ivfreader_header_no_panic.

Theorem c37_ivfreader_frame_no_panic : forall den num bytes,
  num <> 0 -> Ivf.parse_next_frame den num bytes <> Panic.
Proof. exact C37Media2.ivfreader_frame_no_panic. Qed.
Print Assumptions c37_ivfreader_frame_no_panic.

Theorem c37_ivfreader_frame_progress : forall den num bytes f rest,
  Ivf.parse_next_frame den num bytes = Ok (f, rest) ->
  (List.length rest + 12 + List.length (Ivf.r_payload f) = List.length bytes)%nat.
Proof. exact C37Media2.ivfreader_frame_progress. Qed.
Print Assumptions c37_ivfreader_frame_progress.

Theorem c37_oggreader_page_no_panic : forall do_checksum bytes,
  Ogg.parse_next_page do_checksum bytes <> Panic.
Proof. exact C37Media2.oggreader_page_no_panic. Qed.
Print Assumptions c37_oggreader_page_no_panic.

Theorem c37_oggreader_page_progress : forall do_checksum bytes pg rest,
  Ogg.parse_next_page do_checksum bytes = Ok (pg, rest) ->
  (List.length rest + 27 + List.length (Ogg.rp_segs pg) + List.length (Ogg.rp_payload pg) = List.length bytes)%nat.
Proof. exact C37Media2.oggreader_page_progress. Qed.
Print Assumptions c37_oggreader_page_progress.

Theorem c37_oggreader_pages_terminate : forall fuel dc bytes,
  (List.length bytes < fuel)%nat ->
  snd (Ogg.read_pages fuel dc bytes) <> "out-of-fuel"%string /\
  snd (Ogg.read_pages fuel dc bytes) <> "panic"%string.
Proof. exact C37Media2.oggreader_pages_terminate. Qed.
Print Assumptions c37_oggreader_pages_terminate.

Theorem c37_oggreader_new_no_panic : forall bytes, Ogg.reader_new bytes <> Panic.
Proof. exact C37Media2.oggreader_new_no_panic. Qed.
Print Assumptions c37_oggreader_new_no_panic.

Theorem c37_opus_head_no_panic : forall payload, Ogg.parse_opus_head payload <> Panic.
Proof. exact C37Media2.oggreader_opus_head_no_panic. Qed.
Print Assumptions c37_opus_head_no_panic.

Theorem c37_opus_tags_no_panic : forall payload, Ogg.parse_opus_tags payload <> Panic.
Proof. exact C37Media2.oggreader_opus_tags_no_panic. Qed.
Print Assumptions c37_opus_tags_no_panic.
