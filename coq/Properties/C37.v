(* C37 Container readers never crash or hang on arbitrary bytes.
   Statements only.  Per reader model (explicit Panic on every Go index/slice,
   loops on fuel): no panic for ARBITRARY bytes and chunkings, and progress
   (a successful call strictly consumes input, so the number of successful
   calls is bounded by the input length and the fuel provably suffices).
   Readers covered here: rtpdump, h264reader, h265reader (media1 models).
   The IVF and Ogg readers and the OpusHead/OpusTags parsers are added from
   the media2 models (see props/C37.json planned_not_proved until then). *)
From Coq Require Import List NArith String.
Import ListNotations.
From Verif Require Import Common.Base Common.Media1Util Model.RtpDump Model.AnnexB
  Proofs.C37Media1.
Open Scope N_scope.

Theorem c37_rtpdump_no_panic : forall bytes : list N,
  new_reader bytes <> Panic /\ next bytes <> Panic /\ read_file bytes <> Panic.
Proof. exact rtpdump_no_panic. Qed.
Print Assumptions c37_rtpdump_no_panic.

Theorem c37_rtpdump_progress : forall bytes p rest,
  next bytes = Ok (p, rest) -> lenN rest + 8 <= lenN bytes.
Proof. exact rtpdump_progress. Qed.
Print Assumptions c37_rtpdump_progress.

Theorem c37_rtpdump_terminates : forall bytes h ps e,
  read_file bytes = Ok (h, ps, e) -> e <> "out-of-fuel"%string /\ e <> "panic"%string.
Proof. exact rtpdump_fuel_suffices. Qed.
Print Assumptions c37_rtpdump_terminates.

Theorem c37_h264reader_no_panic : forall (include_sei : bool) (cs : list (list N)),
  snd (read_all (sk264 include_sei) cs) <> "panic"%string /\
  snd (read_all (sk264 include_sei) cs) <> "out-of-fuel"%string.
Proof. exact h264reader_no_panic. Qed.
Print Assumptions c37_h264reader_no_panic.

Theorem c37_h265reader_no_panic : forall (include_sei : bool) (cs : list (list N)),
  snd (read_all (sk265 include_sei) cs) <> "panic"%string /\
  snd (read_all (sk265 include_sei) cs) <> "out-of-fuel"%string.
Proof. exact h265reader_no_panic. Qed.
Print Assumptions c37_h265reader_no_panic.

Theorem c37_h264reader_progress : forall include_sei s n s',
  nalrev s = [] -> next_nal (sk264 include_sei) s = (Ok n, s') ->
  (remaining s' < remaining s)%nat /\ nalrev s' = [] /\ n <> [].
Proof. exact h264reader_progress. Qed.
Print Assumptions c37_h264reader_progress.

Theorem c37_h265reader_progress : forall include_sei s n s',
  nalrev s = [] -> next_nal (sk265 include_sei) s = (Ok n, s') ->
  (remaining s' < remaining s)%nat /\ nalrev s' = [] /\ n <> [].
Proof. exact h265reader_progress. Qed.
Print Assumptions c37_h265reader_progress.

Theorem c37_next_nal_no_panic : forall sk s,
  fst (next_nal sk s) <> Panic /\ fst (next_nal sk s) <> Err "out-of-fuel"%string.
Proof. exact h26x_next_nal_no_panic. Qed.
Print Assumptions c37_next_nal_no_panic.
