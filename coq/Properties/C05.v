(* C05 Queued work runs serially, in order, exactly once (operations.go).
   Statements only; proofs live in Proofs/Ops.v.  The model is the
   interleaving transition system of Model/Ops.v: any number of client threads
   (Enqueue of ops that may themselves enqueue, Done, GracefulClose, setters
   of the negotiation-needed flag), the worker goroutines start() spawns, the
   negotiation-needed callback enqueueing from inside the worker; one step =
   the code between two verifhook yield points.  Every theorem quantifies
   over all thread lists [cls], callbacks [cbk] and schedules [sch].
   [fx] = true is the working tree (deferred block of start() after the
   repair), [fx] = false the block before it. *)
From Coq Require Import List.
Import ListNotations.
From Verif Require Import Model.Ops Proofs.Ops Proofs.OpsTerm.

(* never two worker goroutines alive at once; in particular never two ops
   between pop and end of fn() *)
Theorem c05_serial : forall fx cbk cls sch,
  Forall initial_cpc cls ->
  let s := run fx (init cbk cls) sch in
  forall j1 j2 w1 w2,
    nth_error (workers s) j1 = Some w1 -> nth_error (workers s) j2 = Some w2 ->
    is_live w1 = true -> is_live w2 = true -> j1 = j2.
Proof. exact serial. Qed.
Print Assumptions c05_serial.

(* the number of start() goroutines is a state component of its own ([live]:
   +1 at every `go o.start()` in tryEnqueue and in the deferred block, -1 when
   a start() goroutine returns).  It never exceeds one, it is exactly the
   number of live entries of the worker list, and busyCh is non-nil exactly
   while a goroutine exists - over all thread lists and all schedules, for
   both versions of the deferred block *)
Theorem c05_one_worker : forall fx cbk cls sch,
  Forall initial_cpc cls ->
  let s := run fx (init cbk cls) sch in
  live s <= 1 /\ live s = count_live (workers s) /\ (live s = 1 <-> busy s <> None).
Proof. exact one_worker. Qed.
Print Assumptions c05_one_worker.

(* the counter is not constantly 0: after the hand-over in the deferred block
   two start() goroutines have been created, one exists *)
Example c05_one_worker_handover :
  let s := run true (init None [CEnq 0; CDone0; CClose0])
               [C 0; W 0; W 0; W 0; W 0; C 1; C 2; W 0] in
  workers s = [WExit; WStart] /\ live s = 1 /\ busy s <> None.
Proof. vm_compute. repeat split; discriminate. Qed.

(* no op runs twice, and ops run in the order in which they were accepted,
   without gaps *)
Theorem c05_order_once : forall fx cbk cls sch,
  Forall initial_cpc cls ->
  let s := run fx (init cbk cls) sch in
  NoDup (ran s) /\ is_prefix (ran s) (accepted s).
Proof. exact order_once. Qed.
Print Assumptions c05_order_once.

(* Done returns only after its own function and every op accepted before it
   have run *)
Theorem c05_done : forall fx cbk cls sch,
  Forall initial_cpc cls ->
  let s := run fx (init cbk cls) sch in
  forall i id, nth_error (clients s) i = Some (CFinDone (Some id)) ->
    In id (ran s) /\ forall x, before x id (accepted s) -> In x (ran s).
Proof. exact done_waits. Qed.
Print Assumptions c05_done.

(* once isClosed is set nothing is accepted any more; once the GracefulClose
   call that set it has returned, no worker goroutine exists and nothing runs *)
Theorem c05_after_close : forall fx cbk cls sch1,
  Forall initial_cpc cls ->
  let s1 := run fx (init cbk cls) sch1 in
  (closed s1 = true -> forall sch2, accepted (run fx s1 sch2) = accepted s1) /\
  (forall i, nth_error (clients s1) i = Some (CFinClose true) ->
     forall sch2, let s2 := run fx s1 sch2 in
       ran s2 = ran s1 /\ accepted s2 = accepted s1 /\ count_live (workers s2) = 0).
Proof. exact after_close. Qed.
Print Assumptions c05_after_close.

(* exactly once, working tree: whenever no thread can move (the end of every
   maximal schedule), every accepted op has run, every Enqueue / Done /
   GracefulClose call has returned, no worker goroutine is left and the queue
   is empty *)
Theorem c05_exactly_once : forall cbk cls sch,
  Forall initial_cpc cls ->
  let s := run true (init cbk cls) sch in
  quiescent true s ->
  ran s = accepted s /\ Forall (fun c => cfinished c = true) (clients s) /\
  count_live (workers s) = 0 /\ queue s = [].
Proof. exact exactly_once_fixed. Qed.
Print Assumptions c05_exactly_once.

(* termination: no schedule takes more than phi(initial state) effective
   steps (phi is linear in the number of threads and the op depths), and every
   schedule can be extended to a state in which nothing can move - so the
   quiescent states c05_exactly_once speaks about are exactly the ends of the
   maximal schedules, and every maximal schedule is finite *)
Theorem c05_terminates : forall fx cbk cls sch,
  Forall initial_cpc cls ->
  let s0 := init cbk cls in
  effective fx s0 sch <= phi s0 /\
  exists ext, quiescent fx (run fx s0 (sch ++ ext)).
Proof. exact terminates. Qed.
Print Assumptions c05_terminates.

(* close(o.busyCh) never hits a nil or closed channel *)
Theorem c05_no_close_panic : forall fx cbk cls sch,
  Forall initial_cpc cls -> panicked (run fx (init cbk cls) sch) = false.
Proof. exact no_panic. Qed.
Print Assumptions c05_no_close_panic.

(* the defect that was repaired (fix: commit in known/C05.txt): with the old
   deferred block this 9-step schedule of Enqueue, Done and GracefulClose
   ends with nothing able to move, the function Done enqueued accepted but
   never run, and Done waiting forever *)
Theorem c05_lost_op_before_fix :
  let s := run false (init None [CEnq 0; CDone0; CClose0])
               [C 0; W 0; W 0; W 0; W 0; C 1; C 2; W 0; C 2] in
  quiescent false s /\ ran s = [0] /\ accepted s = [0; 1] /\
  nth_error (clients s) 1 = Some (CDoneW (Some 1)) /\
  nth_error (clients s) 2 = Some (CFinClose true).
Proof. exact lost_op_before_fix. Qed.
Print Assumptions c05_lost_op_before_fix.

(* ... and the old block was exactly-once as long as nobody closed the queue *)
Theorem c05_exactly_once_before_fix_without_close : forall fx cbk cls sch,
  Forall initial_cpc cls -> Forall (fun c => is_closer c = false) cls ->
  let s := run fx (init cbk cls) sch in
  quiescent fx s ->
  ran s = accepted s /\ Forall (fun c => cfinished c = true) (clients s) /\
  count_live (workers s) = 0 /\ queue s = [].
Proof. exact exactly_once_no_closer. Qed.
Print Assumptions c05_exactly_once_before_fix_without_close.

(* the premises are satisfiable on non-trivial runs: the schedule that lost
   the op, continued on the repaired block, reaches a quiescent state with
   both ops run, Done returned (c05_done's premise) and the closing
   GracefulClose returned (c05_after_close's premise) *)
Example c05_quiescent_reachable :
  let s := run true (init None [CEnq 0; CDone0; CClose0])
               ([C 0; W 0; W 0; W 0; W 0; C 1; C 2; W 0; C 2] ++ [W 1; W 1; W 1; W 1; W 1; C 1; C 2]) in
  quiescent true s /\ ran s = [0; 1] /\ accepted s = [0; 1] /\
  nth_error (clients s) 1 = Some (CFinDone (Some 1)) /\
  nth_error (clients s) 2 = Some (CFinClose true).
Proof. exact lost_schedule_after_fix. Qed.

(* a second, concurrent GracefulClose returns at once (isClosed already set)
   while accepted ops are still to run: c05_after_close speaks about the call
   that set isClosed, not about this one *)
Example c05_second_close_returns_early :
  let s := run true (init None [CEnq 0; CClose0; CClose0]) [C 0; C 1; C 2] in
  nth_error (clients s) 2 = Some (CFinClose false) /\ ran s = [] /\ accepted s = [0].
Proof. vm_compute. auto. Qed.
