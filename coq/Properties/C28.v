(* C28 Sample-based tracks timestamp and sequence RTP without drift.
   Statements only; proofs live in Proofs/SampleTrack.v.
   [run a rate (init a ts0 seq0) os] is the transcription of
   TrackLocalStaticSample.WriteSample / GeneratePadding over the call list
   [os] ([OSample x] or [OPad n]), with the pion/rtp packetizer/sequencer
   contract, parametrised by the arithmetic [a] used for the float64
   expressions; it returns the packets of each call.  [exact_arith] computes in
   exact multiples of 10^-9 tick.  The float64 instance [float_arith] (IEEE
   binary64, round to nearest even, on Q) is the one compared with the real
   code.  For the specification a padding burst counts as a sample of duration
   zero cut into n packets ([as_sample]): it consumes sequence numbers, no time. *)
From Coq Require Import String NArith ZArith Bool List.
Import ListNotations.
From Verif Require Import Common.Base Model.SampleTrack Proofs.SampleTrack Proofs.SampleTrackFloat.

(* No drift, for every sample sequence of any length: in exact arithmetic the
   timestamp of every packet of sample k is
     ts0 + floor( sum_{i<k} d_i*rate*(1+n_i) + n_k*d_k*rate ) mod 2^32
   (d in seconds, n = PrevDroppedPackets): the carried remainder makes the
   per-sample floors telescope.  [sample_ok]: durations are non-negative and a
   sample (with the gap it reports) stays below 2^32-1 ticks, which keeps the
   uint32() conversions in range. *)
Theorem c28_no_drift : forall rate ts0 seq0 os k pk p,
  (ts0 < 4294967296)%N -> Forall (op_ok rate) os ->
  nth_error (run exact_arith rate (init exact_arith ts0 seq0) os) k = Some pk -> In p pk ->
  k_ts p = ideal_ts rate ts0 (map as_sample os) k.
Proof. exact no_drift. Qed.
Print Assumptions c28_no_drift.

(* "Within one tick of rounding": the float64 computation of the real code
   (every float64 operation of WriteSample and of Duration.Seconds() rounded to
   nearest even) puts on every packet of call k a timestamp that differs from
   the ideal one by at most one tick (modulo 2^32), for every history in which
   each call stays below 2^31 ticks (reported gap included; durations >= 0) and
   the whole history stays below 2^48 ticks and 2^48 calls ([hist_ok]); no bound
   on the clock rate or on PrevDroppedPackets beyond those.  The float64
   rounding errors do add up over a history (the remainder carries them along,
   it does not cancel them), but each is at most 12*2^-53 of the ticks the call
   adds plus 6*2^-53, so after 2^48 ticks and 2^48 calls the float64 code's
   elapsed time T + remainder is within 9/16 tick of the exact one; as the
   remainder stays in [0, 1+2^-53] the integer part T is within one of the
   exact floor.  [within_one x y]: x = y, x = y+1 or y = x+1 (mod 2^32). *)
Theorem c28_float_within_one_tick : forall rate ts0 seq0 os k pk p,
  hist_ok rate os ->
  nth_error (run float_arith rate (init float_arith ts0 seq0) os) k = Some pk -> In p pk ->
  within_one (k_ts p) (ideal_ts rate ts0 (map as_sample os) k).
Proof. exact float_within_one_tick. Qed.
Print Assumptions c28_float_within_one_tick.

(* the same, float64 instance against exact instance, packet by packet *)
Theorem c28_float_vs_exact : forall rate ts0 seq0 os k pkf pke pf pe,
  (ts0 < 4294967296)%N -> hist_ok rate os ->
  nth_error (run float_arith rate (init float_arith ts0 seq0) os) k = Some pkf -> In pf pkf ->
  nth_error (run exact_arith rate (init exact_arith ts0 seq0) os) k = Some pke -> In pe pke ->
  within_one (k_ts pf) (k_ts pe).
Proof. exact float_vs_exact. Qed.
Print Assumptions c28_float_vs_exact.

(* the two facts about binary64 rounding the bound rests on, for [rnd64] as
   defined in the model: relative error at most 2^-53, integers below 2^53 exact *)
Theorem c28_rnd64_relative_error : forall q : QArith_base.Q,
  QArith_base.Qle (Qabs.Qabs (QArith_base.Qminus (rnd64 q) q))
                  (QArith_base.Qmult SampleTrackRnd.ulp53 (Qabs.Qabs q)).
Proof. exact SampleTrackRnd.rnd64_rel. Qed.
Print Assumptions c28_rnd64_relative_error.

Theorem c28_rnd64_int_exact : forall z : Z, (0 <= z < 9007199254740992)%Z ->
  QArith_base.Qeq (rnd64 (QArith_base.inject_Z z)) (QArith_base.inject_Z z).
Proof. exact SampleTrackRnd.rnd64_int_exact. Qed.
Print Assumptions c28_rnd64_int_exact.

(* every packet of one sample carries the same timestamp - in any arithmetic,
   hence also for the float64 computation of the real code *)
Theorem c28_same_ts_within_sample : forall a rate os s k pk p p',
  nth_error (run a rate s os) k = Some pk -> In p pk -> In p' pk -> k_ts p = k_ts p'.
Proof. exact same_ts. Qed.
Print Assumptions c28_same_ts_within_sample.

(* sequence numbers - in any arithmetic: packet j of sample k carries
   seq0 + (packets of earlier samples) + (dropped counts reported up to and
   including sample k) + j  mod 2^16, i.e. numbers increase by one per packet
   except that a sample reporting N dropped packets first skips N numbers; and
   sample k yields as many packets as the payloader cut it into; a
   GeneratePadding(n) call yields n packets, numbered like any others *)
Theorem c28_seq : forall a rate ts0 seq0 os k pk j p,
  nth_error (run a rate (init a ts0 seq0) os) k = Some pk -> nth_error pk j = Some p ->
  k_seq p = ((seq0 + seq_before (map as_sample os) k + N.of_nat j) mod 65536)%N /\
  (exists o, nth_error os k = Some o /\ length pk = s_npk (as_sample o)).
Proof. exact seq_numbers. Qed.
Print Assumptions c28_seq.

(* 30 fps at 90 kHz: 33.333333 ms is 2999.99997 ticks; timestamps follow the
   floor of the running total, both in exact and in float64 arithmetic *)
Example c28_30fps :
  let xs := repeat (OSample (mkSample 33333333 0 2)) 4 in
  Forall (op_ok 90000) xs /\
  map (map k_ts) (run exact_arith 90000 (init exact_arith 1000 65535) xs)
    = [[1000; 1000]; [3999; 3999]; [6999; 6999]; [9999; 9999]]%N /\
  map (map k_ts) (run float_arith 90000 (init float_arith 1000 65535) xs)
    = [[1000; 1000]; [3999; 3999]; [6999; 6999]; [9999; 9999]]%N /\
  map (map k_seq) (run exact_arith 90000 (init exact_arith 1000 65535) xs)
    = [[65535; 0]; [1; 2]; [3; 4]; [5; 6]]%N.
Proof. exact ex_30fps. Qed.

(* a dropped-packet report skips numbers and time *)
Example c28_dropped :
  let xs := map OSample [mkSample 20000000 0 1; mkSample 20000000 3 1; mkSample 20000000 0 0; mkSample 20000000 0 1] in
  run exact_arith 8000 (init exact_arith 5 10) xs
    = [[mkRpkt 10 5]; [mkRpkt 14 645]; []; [mkRpkt 15 965]]%N.
Proof. vm_compute. reflexivity. Qed.

(* padding between samples: takes sequence numbers, carries the timestamp the
   next sample will carry, moves no time; the history satisfies [hist_ok] *)
Example c28_padding :
  let os := [OSample (mkSample 33333333 0 2); OPad 3; OSample (mkSample 33333333 2 1); OSample (mkSample 33333333 0 1)] in
  hist_ok 90000 os /\
  run float_arith 90000 (init float_arith 1000 65534) os
    = [[mkRpkt 65534 1000; mkRpkt 65535 1000]; [mkRpkt 0 3999; mkRpkt 1 3999; mkRpkt 2 3999];
       [mkRpkt 5 9999]; [mkRpkt 6 12999]]%N /\
  run exact_arith 90000 (init exact_arith 1000 65534) os
    = run float_arith 90000 (init float_arith 1000 65534) os.
Proof. split; [exact ex_hist_ok|split; vm_compute; reflexivity]. Qed.
