(* C28 Sample-based tracks timestamp and sequence RTP without drift.
   Statements only; proofs live in Proofs/SampleTrack.v.
   [run a rate (init a ts0 seq0) xs] is the transcription of
   TrackLocalStaticSample.WriteSample over the sample list [xs], with the
   pion/rtp packetizer/sequencer contract, parametrised by the arithmetic [a]
   used for the float64 expressions; it returns the packets of each sample.
   [exact_arith] computes in exact multiples of 10^-9 tick.  The float64
   instance [float_arith] is the one compared with the real code; the distance
   between the two is the rounding the property itself allows ("within one
   tick"), measured on every run by the direct oracle. *)
From Coq Require Import String NArith ZArith Bool List.
Import ListNotations.
From Verif Require Import Common.Base Model.SampleTrack Proofs.SampleTrack.

(* No drift, for every sample sequence of any length: in exact arithmetic the
   timestamp of every packet of sample k is
     ts0 + floor( sum_{i<k} d_i*rate*(1+n_i) + n_k*d_k*rate ) mod 2^32
   (d in seconds, n = PrevDroppedPackets): the carried remainder makes the
   per-sample floors telescope.  [sample_ok]: durations are non-negative and a
   sample (with the gap it reports) stays below 2^32-1 ticks, which keeps the
   uint32() conversions in range. *)
Theorem c28_no_drift : forall rate ts0 seq0 xs k pk p,
  (ts0 < 4294967296)%N -> Forall (sample_ok rate) xs ->
  nth_error (run exact_arith rate (init exact_arith ts0 seq0) xs) k = Some pk -> In p pk ->
  k_ts p = ideal_ts rate ts0 xs k.
Proof. exact no_drift. Qed.
Print Assumptions c28_no_drift.

(* every packet of one sample carries the same timestamp - in any arithmetic,
   hence also for the float64 computation of the real code *)
Theorem c28_same_ts_within_sample : forall a rate xs s k pk p p',
  nth_error (run a rate s xs) k = Some pk -> In p pk -> In p' pk -> k_ts p = k_ts p'.
Proof. exact same_ts. Qed.
Print Assumptions c28_same_ts_within_sample.

(* sequence numbers - in any arithmetic: packet j of sample k carries
   seq0 + (packets of earlier samples) + (dropped counts reported up to and
   including sample k) + j  mod 2^16, i.e. numbers increase by one per packet
   except that a sample reporting N dropped packets first skips N numbers; and
   sample k yields as many packets as the payloader cut it into *)
Theorem c28_seq : forall a rate ts0 seq0 xs k pk j p,
  nth_error (run a rate (init a ts0 seq0) xs) k = Some pk -> nth_error pk j = Some p ->
  k_seq p = ((seq0 + seq_before xs k + N.of_nat j) mod 65536)%N /\
  (exists x, nth_error xs k = Some x /\ length pk = s_npk x).
Proof. exact seq_numbers. Qed.
Print Assumptions c28_seq.

(* 30 fps at 90 kHz: 33.333333 ms is 2999.99997 ticks; timestamps follow the
   floor of the running total, both in exact and in float64 arithmetic *)
Example c28_30fps :
  let xs := repeat (mkSample 33333333 0 2) 4 in
  Forall (sample_ok 90000) xs /\
  map (map k_ts) (run exact_arith 90000 (init exact_arith 1000 65535) xs)
    = [[1000; 1000]; [3999; 3999]; [6999; 6999]; [9999; 9999]]%N /\
  map (map k_ts) (run float_arith 90000 (init float_arith 1000 65535) xs)
    = [[1000; 1000]; [3999; 3999]; [6999; 6999]; [9999; 9999]]%N /\
  map (map k_seq) (run exact_arith 90000 (init exact_arith 1000 65535) xs)
    = [[65535; 0]; [1; 2]; [3; 4]; [5; 6]]%N.
Proof. exact ex_30fps. Qed.

(* a dropped-packet report skips numbers and time *)
Example c28_dropped :
  let xs := [mkSample 20000000 0 1; mkSample 20000000 3 1; mkSample 20000000 0 0; mkSample 20000000 0 1] in
  run exact_arith 8000 (init exact_arith 5 10) xs
    = [[mkRpkt 10 5]; [mkRpkt 14 645]; []; [mkRpkt 15 965]]%N.
Proof. vm_compute. reflexivity. Qed.
