(* C28 stub *)
From Verif Require Import Model.SampleTrack.
