(* C06 placeholder; statements follow *)
From Coq Require Import List ZArith String.
From Verif Require Import Common.JsepNumeral Model.JsepMid.
Theorem c06_atoi_itoa : forall z, in_int z = true -> atoi (itoa z) = Some z.
Proof. exact atoi_itoa. Qed.
Print Assumptions c06_atoi_itoa.
