(* C06 Generated descriptions have unique mids and a correct BUNDLE group.
   Statements only; proofs are in Proofs/JsepMid*.v, the model in Model/JsepMid.v,
   the predicates (c06_holds, guards) in Model/JsepMidSpec.v.

   Full statement (not a theorem of the faithful model, see the refutations):
     forall ops, remote_ok ops ->
       forall d, In d (generated ops) -> c06_holds d
   i.e. every description CreateOffer/CreateAnswer returns in any history
   gives every m-section a mid no other section has, its BUNDLE group is the
   list of the accepted sections' mids, each once, and every accepted section has
   ICE credentials, one direction, setup and a fingerprint at one level. *)
From Coq Require Import List ZArith String.
Import ListNotations.
From Verif Require Import Common.Base Common.JsepNumeral Model.JsepMid Model.JsepMidSpec
  Proofs.JsepMid Proofs.JsepMidGen Proofs.JsepMidWit Proofs.JsepMidInitial Proofs.JsepMidStable Proofs.JsepMidBundle.
Open Scope string_scope.

(* the design witness: remote offer with one audio section mid "1"; answer;
   CreateDataChannel; CreateOffer: two sections with mid "1", BUNDLE "1 1" *)
Theorem c06_full_refuted :
  remote_ok wit_data_mid /\ exists d, In d (generated wit_data_mid) /\ ~ c06_holds d.
Proof. exact wit_data_mid_refutes. Qed.
Print Assumptions c06_full_refuted.

Theorem c06_refuted_data_mid_shape :
  exists d, nth_error (generated wit_data_mid) 1 = Some d /\
            sec_mids d = [Some "1"; Some "1"] /\ l_bundle d = ["1"; "1"].
Proof. exact wit_data_mid_shape. Qed.
Print Assumptions c06_refuted_data_mid_shape.

(* further causes found by the correspondence runs, each with its witness *)
Theorem c06_refuted_unsent_mid :
  remote_ok wit_unsent_mid /\ exists d, In d (generated wit_unsent_mid) /\ ~ c06_holds d.
Proof. exact wit_unsent_mid_refutes. Qed.
Print Assumptions c06_refuted_unsent_mid.

Theorem c06_refuted_rejected_without_mid :
  remote_ok wit_no_mid /\ exists d, In d (generated wit_no_mid) /\ ~ c06_holds d.
Proof. exact wit_no_mid_refutes. Qed.
Print Assumptions c06_refuted_rejected_without_mid.

Theorem c06_refuted_counter_overflow :
  remote_ok wit_overflow /\ exists d, In d (generated wit_overflow) /\ ~ c06_holds d.
Proof. exact wit_overflow_refutes. Qed.
Print Assumptions c06_refuted_counter_overflow.

(* Histories: any interleaving of AddTransceiver, AddTrack, RemoveTrack, Stop,
   CreateDataChannel, CreateOffer, CreateAnswer, SetLocalDescription and
   SetRemoteDescription with offer, pranswer and answer.
   Over every history whose remote descriptions have pairwise distinct mids
   and in which greaterMid never overflowed at a CreateOffer: every
   description generated from a state inside the guard (answers: every kind has a
   codec; offers: additionally the counter does not overflow now, no transceiver
   carries the mid of a remote application section and an appended data
   section's mid Itoa(len) is not an existing mid) satisfies all of C06.
   (Since the repair of CreateOffer's numbering loop no guard on the numbering
   itself is left: see c06_numbering_ok_partial.) *)
Theorem c06_partial : forall ops,
  remote_ok ops -> nowrap_all ops ->
  forall s o d s', In (s, o, ODesc (Ok d), s') (trace ops) -> gen_guard s o -> c06_holds d.
Proof. exact c06_partial_lemma. Qed.
Print Assumptions c06_partial.

(* with no guard at all: every description a connection generates before it
   has been given a remote description (any interleaving of AddTransceiver,
   AddTrack, RemoveTrack, Stop, CreateDataChannel, CreateOffer, CreateAnswer,
   SetLocalDescription)
   satisfies C06; mids are then "0", "1", ... and the data section's Itoa(len) is
   the next numeral.  The bound only says the history is shorter than MaxInt64. *)
Theorem c06_before_remote_description : forall ops,
  (forall ty d, ~ In (SetRemote ty d) ops) ->
  (Z.of_nat (List.length ops) <= max_int)%Z ->
  forall d, In d (generated ops) -> c06_holds d.
Proof. exact c06_before_remote_lemma. Qed.
Print Assumptions c06_before_remote_description.

(* the invariant behind it: in every such history the transceivers' set mids
   stay pairwise distinct *)
Theorem c06_transceiver_mids_distinct : forall ops,
  remote_ok ops -> nowrap_all ops ->
  forall s o out s', In (s, o, out, s') (trace ops) ->
  NoDup (set_mids (trs s)) /\ NoDup (set_mids (trs s')).
Proof. exact trace_mids_distinct. Qed.
Print Assumptions c06_transceiver_mids_distinct.

(* numbering_ok (the numbering loop of CreateOffer leaves the transceivers with
   pairwise distinct mids) characterised.  One state: pairwise distinct mids
   before, no overflow of greaterMid during the loop => pairwise distinct mids
   after - wherever the unset transceivers stand in the list and whatever the
   current and the pending remote description contain. *)
Theorem c06_numbering_ok_state_partial : forall s,
  NoDup (set_mids (trs s)) -> offer_nowrap s = true -> numbering_ok s.
Proof. exact numbering_ok_lemma. Qed.
Print Assumptions c06_numbering_ok_state_partial.

(* every state of every history (before and after every call), in any
   signalling state: the numbering loop cannot produce a duplicate unless the
   counter overflows - the recorded cause greater-mid-overflow, refuted above; the
   causes fresh-mid-equals-existing-transceiver-mid and
   fresh-mid-equals-pending-remote-mid are repaired *)
Theorem c06_numbering_ok_partial : forall ops,
  remote_ok ops -> nowrap_all ops ->
  forall s o out s', In (s, o, out, s') (trace ops) ->
  (offer_nowrap s = true -> numbering_ok s) /\ (offer_nowrap s' = true -> numbering_ok s').
Proof. exact numbering_ok_trace_lemma. Qed.
Print Assumptions c06_numbering_ok_partial.

(* by signalling state: stable means no pending remote description (every
   history, no guard) ... *)
Theorem c06_stable_has_no_pending_description : forall ops,
  sig (run ops) = Stable -> pend_remote (run ops) = None.
Proof. exact stable_no_pending_lemma. Qed.
Print Assumptions c06_stable_has_no_pending_description.

(* ... and in state stable, with nothing pending, the next CreateOffer numbers
   without a duplicate unless the counter overflows *)
Theorem c06_numbering_ok_stable_partial : forall ops,
  remote_ok ops -> nowrap_all ops -> sig (run ops) = Stable ->
  pend_remote (run ops) = None /\ (offer_nowrap (run ops) = true -> numbering_ok (run ops)).
Proof. exact numbering_ok_stable_lemma. Qed.
Print Assumptions c06_numbering_ok_stable_partial.

(* the mids the loop gives out differ from every mid of the current and of the
   pending remote description and from the mid of every transceiver *)
Theorem c06_fresh_mid_not_in_use_partial : forall s i t t',
  offer_nowrap s = true ->
  nth_error (trs s) i = Some t -> t_mid t = "" ->
  nth_error (trs (offer_alloc s)) i = Some t' ->
  (forall r, In r (remote_secs (cur_remote s)) \/ In r (remote_secs (pend_remote s)) -> t_mid t' <> r_mid r) /\
  (forall u, In u (trs s) -> t_mid t' <> t_mid u).
Proof. exact fresh_mid_not_in_use_lemma. Qed.
Print Assumptions c06_fresh_mid_not_in_use_partial.

(* the BUNDLE clause for answers, for any remote group value (absent, listing
   only some of the sections, not a BUNDLE group at all): the answer's BUNDLE group
   lists, in section order, exactly the offered mids that the remote group lists,
   and a section has port 0 iff its mid is not listed there.  Guard: the offered
   sections are usable and every kind has a codec (else sections are skipped /
   written without mid: refuted above and in C07). *)
Theorem c06_answer_bundle_partial : forall s s' a rd,
  create_answer s = (s', Ok a) -> remote_desc s = Some rd ->
  all_usable rd -> codecs_ok s ->
  l_bundle a = filter (in_remote_group rd) (map r_mid (r_secs rd)) /\
  map l_port0 (l_secs a) = map (fun m => negb (in_remote_group rd m)) (map r_mid (r_secs rd)) /\
  sec_mids a = map Some (map r_mid (r_secs rd)).
Proof. exact answer_bundle_lemma. Qed.
Print Assumptions c06_answer_bundle_partial.

(* in particular an offer without a=group is answered with every section at
   port 0 and no BUNDLE group *)
Theorem c06_answer_without_remote_group_partial : forall s s' a rd,
  create_answer s = (s', Ok a) -> remote_desc s = Some rd ->
  all_usable rd -> codecs_ok s -> r_group rd = None ->
  l_bundle a = [] /\ (forall x, In x (l_secs a) -> l_port0 x = true).
Proof. exact answer_without_group_lemma. Qed.
Print Assumptions c06_answer_without_remote_group_partial.

(* a numeral above g differs from every string that is not a numeral and from
   every numeral <= g (the allocation greaterMid+1 is fresh with respect to
   everything the counter has seen) *)
Theorem c06_fresh_mid_lemma : forall g s,
  in_int (g + 1) = true -> (forall n, atoi s = Some n -> (n <= g)%Z) -> s <> itoa (g + 1).
Proof. exact itoa_fresh. Qed.
Print Assumptions c06_fresh_mid_lemma.

Theorem c06_atoi_itoa : forall z, in_int z = true -> atoi (itoa z) = Some z.
Proof. exact atoi_itoa. Qed.
Print Assumptions c06_atoi_itoa.

Theorem c06_itoa_injective : forall a b, itoa a = itoa b -> a = b.
Proof. exact itoa_inj. Qed.
Print Assumptions c06_itoa_injective.

(* the premises of c06_partial are satisfiable on a history with three
   generated descriptions of 3, 4 and 5 sections *)
Example c06_partial_nontrivial :
  remote_ok ex_guarded /\ nowrap_all ex_guarded /\
  (forall s o out s', In (s, o, out, s') (trace ex_guarded) -> gen_guard s o) /\
  map (fun d => List.length (l_secs d)) (generated ex_guarded) = [3; 4; 5]%nat.
Proof. exact ex_guarded_ok. Qed.

(* the premises of c06_answer_bundle_partial on an offer whose group "BUNDLE v d a"
   omits the fourth section: BUNDLE v d a, fourth section port 0 *)
Example c06_answer_bundle_nontrivial :
  exists a, snd (create_answer (fst (set_remote init TOffer off_partial_group))) = Ok a /\
    all_usable off_partial_group /\ codecs_ok (fst (set_remote init TOffer off_partial_group)) /\
    l_bundle a = ["v"; "d"; "a"] /\ map l_port0 (l_secs a) = [false; false; false; true].
Proof. exact ex_answer_bundle. Qed.
