(* C06 Generated descriptions have unique mids and a correct BUNDLE group.
   Statements only; proofs are in Proofs/JsepMid*.v, the model in Model/JsepMid.v,
   the predicates (c06_holds, guards) in Model/JsepMidSpec.v.

   Full statement (not a theorem of the faithful model, see the refutations):
     forall ops, remote_ok ops ->
       forall d, In d (generated ops) -> c06_holds d
   i.e. every description CreateOffer/CreateAnswer returns in any history
   gives every m-section a mid no other section has, its BUNDLE group is the
   list of the accepted sections' mids, each once, and every accepted section has
   ICE credentials, one direction, setup and a fingerprint at one level. *)
From Coq Require Import List ZArith String.
Import ListNotations.
From Verif Require Import Common.Base Common.JsepNumeral Model.JsepMid Model.JsepMidSpec
  Proofs.JsepMid Proofs.JsepMidGen Proofs.JsepMidWit Proofs.JsepMidInitial.
Open Scope string_scope.

(* the design witness: remote offer with one audio section mid "1"; answer;
   CreateDataChannel; CreateOffer: two sections with mid "1", BUNDLE "1 1" *)
Theorem c06_full_refuted :
  remote_ok wit_data_mid /\ exists d, In d (generated wit_data_mid) /\ ~ c06_holds d.
Proof. exact wit_data_mid_refutes. Qed.
Print Assumptions c06_full_refuted.

Theorem c06_refuted_data_mid_shape :
  exists d, nth_error (generated wit_data_mid) 1 = Some d /\
            sec_mids d = [Some "1"; Some "1"] /\ l_bundle d = ["1"; "1"].
Proof. exact wit_data_mid_shape. Qed.
Print Assumptions c06_refuted_data_mid_shape.

(* further causes found by the correspondence runs, each with its witness *)
Theorem c06_refuted_unsent_mid :
  remote_ok wit_unsent_mid /\ exists d, In d (generated wit_unsent_mid) /\ ~ c06_holds d.
Proof. exact wit_unsent_mid_refutes. Qed.
Print Assumptions c06_refuted_unsent_mid.

Theorem c06_refuted_rejected_without_mid :
  remote_ok wit_no_mid /\ exists d, In d (generated wit_no_mid) /\ ~ c06_holds d.
Proof. exact wit_no_mid_refutes. Qed.
Print Assumptions c06_refuted_rejected_without_mid.

Theorem c06_refuted_counter_overflow :
  remote_ok wit_overflow /\ exists d, In d (generated wit_overflow) /\ ~ c06_holds d.
Proof. exact wit_overflow_refutes. Qed.
Print Assumptions c06_refuted_counter_overflow.

(* over every history whose remote descriptions have pairwise distinct mids
   and in which CreateOffer's numbering never produced a duplicate: every
   description generated from a state inside the guard (answers: every kind has a
   codec; offers: additionally no transceiver carries the mid of a remote
   application section and an appended data section's mid Itoa(len) is not an
   existing mid) satisfies all of C06 *)
Theorem c06_partial : forall ops,
  remote_ok ops -> nowrap_all ops ->
  forall s o d s', In (s, o, ODesc (Ok d), s') (trace ops) -> gen_guard s o -> c06_holds d.
Proof. exact c06_partial_lemma. Qed.
Print Assumptions c06_partial.

(* with no guard at all: every description a connection generates before it
   has been given a remote description (any interleaving of AddTransceiver,
   Stop, CreateDataChannel, CreateOffer, CreateAnswer, SetLocalDescription)
   satisfies C06; mids are then "0", "1", ... and the data section's Itoa(len) is
   the next numeral.  The bound only says the history is shorter than MaxInt64. *)
Theorem c06_before_remote_description : forall ops,
  (forall ty d, ~ In (SetRemote ty d) ops) ->
  (Z.of_nat (List.length ops) <= max_int)%Z ->
  forall d, In d (generated ops) -> c06_holds d.
Proof. exact c06_before_remote_lemma. Qed.
Print Assumptions c06_before_remote_description.

(* the invariant behind it: in every such history the transceivers' set mids
   stay pairwise distinct *)
Theorem c06_transceiver_mids_distinct : forall ops,
  remote_ok ops -> nowrap_all ops ->
  forall s o out s', In (s, o, out, s') (trace ops) ->
  NoDup (set_mids (trs s)) /\ NoDup (set_mids (trs s')).
Proof. exact trace_mids_distinct. Qed.
Print Assumptions c06_transceiver_mids_distinct.

(* a numeral above g differs from every string that is not a numeral and from
   every numeral <= g (the allocation greaterMid+1 is fresh with respect to
   everything the counter has seen) *)
Theorem c06_fresh_mid_lemma : forall g s,
  in_int (g + 1) = true -> (forall n, atoi s = Some n -> (n <= g)%Z) -> s <> itoa (g + 1).
Proof. exact itoa_fresh. Qed.
Print Assumptions c06_fresh_mid_lemma.

Theorem c06_atoi_itoa : forall z, in_int z = true -> atoi (itoa z) = Some z.
Proof. exact atoi_itoa. Qed.
Print Assumptions c06_atoi_itoa.

Theorem c06_itoa_injective : forall a b, itoa a = itoa b -> a = b.
Proof. exact itoa_inj. Qed.
Print Assumptions c06_itoa_injective.

(* the premises of c06_partial are satisfiable on a history with three
   generated descriptions of 3, 4 and 5 sections *)
Example c06_partial_nontrivial :
  remote_ok ex_guarded /\ nowrap_all ex_guarded /\
  (forall s o out s', In (s, o, out, s') (trace ex_guarded) -> gen_guard s o) /\
  map (fun d => List.length (l_secs d)) (generated ex_guarded) = [3; 4; 5]%nat.
Proof. exact ex_guarded_ok. Qed.
