(* C39: SetConfiguration never changes immutable settings.
   Statements only; proofs are in Proofs/Config.v.

   set_configuration closed has_local cur new = (stored configuration
   afterwards, nil or error class).  changes_immutable has_local cur new: the
   call names a non-zero bundle policy / rtcp-mux policy / peer identity /
   certificate list different from the stored one, or a non-zero candidate pool
   size different from the stored one while a local description exists (zero
   values mean "leave as is" in pion's API).

   A certificate is (key type, key identity, x509 certificate identity);
   "the certificate list is different" is structural: a different x509
   certificate for the SAME key is a different certificate
   (c39_certificate_identity; c39_ex_key_only_equality_would_accept shows the
   statements fail for a comparison by key alone).

   Round 4: a certificate also carries the instant its Expires() returns
   (c_expires, 0 = the zero time.Time) and the clock is an input (now).
   initConfiguration (NewPeerConnection) rejects a list with an expired
   certificate (c39_init_rejects_expired; the IsZero arm:
   c39_zero_expiry_never_expired).  SetConfiguration reads no clock and has no
   expiry check (c39_set_configuration_no_expiry_check).  Certificate.Equals
   does not look at the expiry (c39_expiry_not_compared): a certificate object
   that is the stored one for Equals but reports another expiry
   (CertificateFromX509 with a copied *x509.Certificate whose NotAfter was
   overwritten) is accepted as "the same".  SetConfiguration used to store the
   argument's list at that point, before its remaining checks, so that
   rejected and accepted calls alike replaced the stored certificates (the
   statements below were refuted); since the fix it assigns nothing there and
   the statements hold in full: the stored certificate objects, expiry
   included, are those NewPeerConnection stored. *)
From Coq Require Import List Bool String NArith ZArith.
Import ListNotations.
From Verif Require Import Common.Base Model.Config Proofs.Config.
Open Scope string_scope.

(* a rejected call (any error, or a panic) leaves GetConfiguration exactly as
   it was -- certificates with the expiry they report included *)
Theorem c39_reject_unchanged : forall closed has_local cur new c' r,
  set_configuration closed has_local cur new = (c', r) -> r <> Ok tt -> c' = cur.
Proof. exact reject_unchanged. Qed.
Print Assumptions c39_reject_unchanged.

(* every attempt to change an immutable setting is rejected, with
   InvalidModificationError, whatever else the call contains *)
Theorem c39_change_rejected : forall has_local cur new,
  changes_immutable has_local cur new = true ->
  set_configuration false has_local cur new = (cur, Err E_modification).
Proof. exact change_rejected. Qed.
Print Assumptions c39_change_rejected.

(* a successful call keeps bundle policy, rtcp-mux policy, peer identity,
   certificates -- and the pool size and SDP semantics, with or without a
   local description *)
Theorem c39_immutable : forall closed has_local cur new c',
  set_configuration closed has_local cur new = (c', Ok tt) ->
  bundle c' = bundle cur /\ rtcpmux c' = rtcpmux cur /\ identity c' = identity cur /\
  certs c' = certs cur /\ pool c' = pool cur /\ semantics c' = semantics cur.
Proof. exact immutable_kept. Qed.
Print Assumptions c39_immutable.

(* certificate identity is the x509 certificate together with its key, not
   the key: a call that names, at any position, a certificate Equals can tell
   from the stored one is rejected and changes nothing -- in particular
   (second clause) another x509 certificate issued for the very same key
   (c_key c = c_key n is allowed), and a stored list in another order or with
   duplicates *)
Theorem c39_certificate_identity : forall has_local cur new i c n,
  nth_error (certs cur) i = Some c -> nth_error (certs new) i = Some n ->
  (cert_id c <> cert_id n -> set_configuration false has_local cur new = (cur, Err E_modification)) /\
  (c_x509 c <> c_x509 n -> set_configuration false has_local cur new = (cur, Err E_modification)).
Proof. exact certificate_identity. Qed.
Print Assumptions c39_certificate_identity.

(* the one thing the comparison does not see is the expiry: such a certificate
   is accepted as the stored one (and, c39_immutable, not stored) *)
Theorem c39_expiry_not_compared : forall c n,
  cert_id c = cert_id n -> cert_equals c n = cert_equals c c.
Proof. exact expiry_not_compared. Qed.
Print Assumptions c39_expiry_not_compared.

(* and naming the stored certificates again (a re-import of the same key and
   the same x509 certificate is the same triple) is not a change *)
Theorem c39_same_certificates_accepted : forall cur new,
  certs new = certs cur -> forallb comparable (certs cur) = true ->
  changes_certs cur new = false.
Proof. exact same_certificates_no_change. Qed.
Print Assumptions c39_same_certificates_accepted.

(* what a successful call does change: exactly the mutable tail *)
Theorem c39_success_effect : forall closed has_local cur new c',
  set_configuration closed has_local cur new = (c', Ok tt) ->
  closed = false /\ changes_immutable has_local cur new = false /\
  servers_valid (servers new) = true /\ c' = mutable_tail cur new.
Proof. exact success_effect. Qed.
Print Assumptions c39_success_effect.

(* the error classes: InvalidState exactly when closed; InvalidModification
   exactly for a change of an immutable setting; InvalidAccess exactly for an
   invalid ICE server in an otherwise acceptable call *)
Theorem c39_error_class : forall closed has_local cur new c' e,
  set_configuration closed has_local cur new = (c', Err e) ->
  (closed = true /\ e = E_state) \/
  (closed = false /\ changes_immutable has_local cur new = true /\ e = E_modification) \/
  (closed = false /\ changes_immutable has_local cur new = false /\
   servers_valid (servers new) = false /\ e = E_access).
Proof. exact error_class. Qed.
Print Assumptions c39_error_class.

(* invalid ICE servers are rejected without partial changes, wherever the
   invalid server stands in the list *)
Theorem c39_servers_atomic : forall has_local cur new (a : list server) s b,
  changes_immutable has_local cur new = false ->
  servers new = (a ++ s :: b)%list -> server_valid s = false ->
  set_configuration false has_local cur new = (cur, Err E_access).
Proof. exact servers_atomic_anywhere. Qed.
Print Assumptions c39_servers_atomic.

(* no index out of range in the certificate comparison *)
Theorem c39_never_panics : forall closed has_local cur new,
  snd (set_configuration closed has_local cur new) <> Panic.
Proof. exact never_panics. Qed.
Print Assumptions c39_never_panics.

(* over any history of SetConfiguration calls, SetLocalDescription and Close on
   one connection the immutable settings are those NewPeerConnection stored *)
Theorem c39_history_immutable : forall os s,
  immutable_part (conf (crun s os)) = immutable_part (conf s).
Proof. exact crun_immutable. Qed.
Print Assumptions c39_history_immutable.

(* the stored policies are never zero, so "non-zero and different" is the only
   way to ask for a change *)
Theorem c39_init_nonzero : forall now c c', init_configuration now c = Ok c' ->
  bundle c' <> 0%Z /\ rtcpmux c' <> 0%Z /\ certs c' <> [] /\ (pool c' = 0 \/ pool c' = 1)%N.
Proof. exact init_nonzero. Qed.
Print Assumptions c39_init_nonzero.

(* ---- the clock ---- *)
(* "!Expires().IsZero() && now.After(Expires())" *)
Theorem c39_cert_expired_iff : forall now c,
  cert_expired now c = true <-> (c_expires c <> 0 /\ c_expires c < now)%Z.
Proof. exact cert_expired_iff. Qed.
Print Assumptions c39_cert_expired_iff.

Theorem c39_zero_expiry_never_expired : forall now c,
  c_expires c = 0%Z -> cert_expired now c = false.
Proof. exact zero_expiry_never_expired. Qed.
Print Assumptions c39_zero_expiry_never_expired.

(* NewPeerConnection with an expired certificate anywhere in the list fails
   with InvalidAccess, for every clock reading and whatever else the
   configuration holds (the check stands before the pool-size and ICE-server
   checks) *)
Theorem c39_init_rejects_expired : forall now c,
  existsb (cert_expired now) (certs c) = true -> init_configuration now c = Err E_access.
Proof. exact init_rejects_expired. Qed.
Print Assumptions c39_init_rejects_expired.

(* no certificate NewPeerConnection stores is expired at the instant it read *)
Theorem c39_init_stored_unexpired : forall now c c',
  init_configuration now c = Ok c' -> existsb (cert_expired now) (certs c') = false.
Proof. exact init_stored_unexpired. Qed.
Print Assumptions c39_init_stored_unexpired.

(* SetConfiguration has no expiry check (no clock among its inputs): naming the
   stored configuration again succeeds and changes nothing -- also when every
   stored certificate has expired since (c39_ex_expired_since_accepted) *)
Theorem c39_set_configuration_no_expiry_check : forall has_local cur,
  forallb comparable (certs cur) = true -> servers_valid (servers cur) = true ->
  set_configuration false has_local cur cur = (cur, Ok tt).
Proof. exact same_configuration_accepted. Qed.
Print Assumptions c39_set_configuration_no_expiry_check.

(* non-trivial instances *)
Definition ex_cur : config :=
  {| servers := []; policy := 0; bundle := 2; rtcpmux := 1; identity := "alice";
     certs := [{| c_ktype := KEcdsa; c_key := 0; c_x509 := 0; c_expires := 5000 |}];
     pool := 1; semantics := 0; always_dc := false |}.
Definition ex_bad_server : server :=
  {| s_id := 2; s_urls := [UTurn]; s_user := true; s_cred := CNil; s_credtype := 0 |}.
Definition ex_good_server : server :=
  {| s_id := 1; s_urls := [UStun]; s_user := false; s_cred := CNil; s_credtype := 0 |}.

Example c39_ex_change_bundle :
  changes_immutable false ex_cur (with_bundle ex_cur 3) = true.
Proof. reflexivity. Qed.

Example c39_ex_pool_before_and_after_local :
  let new := {| servers := []; policy := 1; bundle := 0; rtcpmux := 0; identity := ""; certs := [];
                pool := 2; semantics := 0; always_dc := true |} in
  snd (set_configuration false false ex_cur new) = Ok tt /\
  pool (fst (set_configuration false false ex_cur new)) = 1%N /\
  policy (fst (set_configuration false false ex_cur new)) = 1%Z /\
  set_configuration false true ex_cur new = (ex_cur, Err E_modification).
Proof. repeat split. Qed.

Example c39_ex_invalid_server_behind_valid_one :
  let new := with_tail ex_cur 1 true [ex_good_server; ex_bad_server] in
  changes_immutable true ex_cur new = false /\
  set_configuration false true ex_cur new = (ex_cur, Err E_access).
Proof. split; reflexivity. Qed.

(* a renewed certificate: same ECDSA key 0, x509 certificate 4 instead of 0 *)
Definition ex_renewed : config :=
  with_certs ex_cur [{| c_ktype := KEcdsa; c_key := 0; c_x509 := 4; c_expires := 6000 |}].

Example c39_ex_same_key_other_certificate :
  set_configuration false false ex_cur ex_renewed = (ex_cur, Err E_modification) /\
  set_configuration false true ex_cur ex_renewed = (ex_cur, Err E_modification).
Proof. split; reflexivity. Qed.

(* Were certificates compared by key alone, the certificate block would let
   the renewed certificate through as "unchanged" (since the fix nothing is
   stored there, so the stored list stays; the call is accepted against
   c39_change_rejected / c39_certificate_identity) *)
Definition key_only (c o : cert) : bool :=
  keytype_eqb (c_ktype c) (c_ktype o) && comparable c && Z.eqb (c_key c) (c_key o).

Example c39_ex_key_only_equality_would_accept :
  sc_certs_by key_only ex_cur ex_renewed = (ex_cur, Ok tt) /\
  certs ex_renewed <> certs ex_cur /\
  sc_certs ex_cur ex_renewed = (ex_cur, Err E_modification).
Proof. repeat split; try reflexivity. discriminate. Qed.

(* two-certificate list in the other order; the same certificate twice *)
Example c39_ex_reordered_and_duplicated :
  let a := {| c_ktype := KEcdsa; c_key := 0; c_x509 := 0; c_expires := 5000 |} in
  let b := {| c_ktype := KRsa; c_key := 3; c_x509 := 7; c_expires := 0 |} in
  let cur := with_certs ex_cur [a; b] in
  set_configuration false false cur (with_certs cur [b; a]) = (cur, Err E_modification) /\
  set_configuration false false cur (with_certs cur [a; a]) = (cur, Err E_modification) /\
  snd (set_configuration false false cur (with_certs cur [a; b])) = Ok tt.
Proof. repeat split. Qed.

(* ---- the clock: instances ---- *)
Open Scope Z_scope.
(* stored at 4000 (the certificate expires at 5000): accepted; at 5001 the same
   configuration is refused by NewPeerConnection -- and accepted by
   SetConfiguration on the connection that holds it *)
Example c39_ex_expired_since_accepted :
  let c := with_tail ex_cur 0 false [] in
  init_configuration 4000 c = Ok c /\
  init_configuration 5001 c = Err E_access /\
  existsb (cert_expired 5001) (certs c) = true /\
  set_configuration false true c c = (c, Ok tt).
Proof. repeat split. Qed.

(* exactly at the expiry instant the certificate is still good (After is strict);
   a zero expiry never expires *)
Example c39_ex_boundary_and_zero :
  let c e := with_certs ex_cur [{| c_ktype := KEcdsa; c_key := 0; c_x509 := 0; c_expires := e |}] in
  init_configuration 5000 (c 5000) = Ok (c 5000) /\
  init_configuration 5001 (c 5000) = Err E_access /\
  init_configuration 5001 (c 0) = Ok (c 0) /\
  (* the expired one second in the list, behind a good one; and together with
     a pool size the constructor would refuse with NotSupported *)
  init_configuration 5001 (with_certs ex_cur (certs (c 0) ++ certs (c 5000))) = Err E_access.
Proof. repeat split. Qed.

(* the stored certificate named through an object that reports another expiry
   (5000 stored, 1000 named): accepted as the same certificate, alone or in a
   call rejected for its bundle policy -- and the stored one stays *)
Example c39_ex_other_expiry_not_stored :
  let n := with_certs ex_cur [{| c_ktype := KEcdsa; c_key := 0; c_x509 := 0; c_expires := 1000 |}] in
  changes_certs ex_cur n = false /\
  set_configuration false false ex_cur n = (mutable_tail ex_cur n, Ok tt) /\
  certs (mutable_tail ex_cur n) = certs ex_cur /\
  set_configuration false false ex_cur (with_bundle n 3) = (ex_cur, Err E_modification).
Proof. repeat split. Qed.
