From Verif Require Import Model.ReadyState.
