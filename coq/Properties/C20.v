(* C20 Data channel readyState only moves forward and events fire at most
   once.  Statements only; proofs live in Proofs/ReadyState*.v.

   The model (Model/ReadyState.v) covers handleOpen, any number of Close and
   GracefulClose calls, the remote close, the read loop's exit,
   PeerConnection.Close, OnOpen / OnClose registrations before, during and
   after the events (each "go once.Do(handler)" goroutine is a thread of its
   own), Detach and Send.  [post] is the code after the two repairs
   (readyState only moves forward / closed while opening ends in closed; one
   Once per registration); the defects they removed are kept as Examples on
   [pre].  Every theorem quantifies over ALL schedules [sch] and all
   configurations [c] (number and kind of Close calls, number of
   registrations, handlers registered beforehand or not, detach setting)
   unless a premise says otherwise. *)
From Coq Require Import List Arith.
Import ListNotations.
From Verif Require Import Model.ReadyState Proofs.ReadyState Proofs.ReadyStateInv Proofs.ReadyStateWit.

(* readyState only moves forward along connecting -> open -> closing -> closed *)
Theorem c20_monotone : forall c sch, monotone (run post c (init c) sch) = true.
Proof. exact monotone_full. Qed.
Print Assumptions c20_monotone.

(* closed is final *)
Theorem c20_closed_is_final : forall c sch1 sch2,
  rs (run post c (init c) sch1) = Closed -> rs (run post c (init c) (sch1 ++ sch2)) = Closed.
Proof. exact closed_is_final. Qed.
Print Assumptions c20_closed_is_final.

(* Once the transport is gone and the channel's own threads have come to rest
   (handleOpen returned, no Close call under way, the read loop has nothing
   left to do) readyState is closed -- whether or not Close was called, and
   without PeerConnection.Close.  Channels of a detach-enabled API have no read
   loop and are excluded (c20_closed_detached_refuted). *)
Theorem c20_closed : forall c sch,
  detach c = false ->
  let s := run post c (init c) sch in
  gone s = true -> at_rest post s = true -> rs s = Closed.
Proof. exact closed_at_rest. Qed.
Print Assumptions c20_closed.

(* as soon as PeerConnection.Close or the read loop's exit path has run it is closed *)
Theorem c20_closed_after_teardown : forall c sch,
  detach c = false ->
  let s := run post c (init c) sch in
  pc_done s = true \/ rl_pc s <> RRun -> rs s = Closed.
Proof. exact closed_after_teardown. Qed.
Print Assumptions c20_closed_after_teardown.

(* detached channels: Close, transport gone, everything at rest: still closing;
   and after Detach() not even PeerConnection.Close stores closed *)
Theorem c20_closed_detached_refuted :
  (exists c sch, let s := run post c (init c) sch in
     detach c = true /\ at_rest post s = true /\ gone s = true /\ rs s = Closing) /\
  (exists c sch, let s := run post c (init c) sch in
     detach c = true /\ at_rest post s = true /\ pc_done s = true /\ rs s = Closing).
Proof.
  split.
  - exists cfg_det, sch_detached. cbv zeta.
    destruct post_detached_stays_closing as (H1 & H2 & H3 & _). repeat split; assumption.
  - exists cfg_det, sch_detached_pc. cbv zeta.
    destruct post_detached_after_pcclose as (H1 & H2 & H3). repeat split; assumption.
Qed.
Print Assumptions c20_closed_detached_refuted.

(* the handler of every OnOpen / OnClose registration runs at most once,
   however registrations, events and the handler goroutines interleave *)
Theorem c20_once : forall c sch k,
  let s := run post c (init c) sch in
  calls (evo s) k <= 1 /\ calls (evc s) k <= 1.
Proof. exact handlers_at_most_once. Qed.
Print Assumptions c20_once.

(* Send / SendText on a channel that is not open returns an error, in every state *)
Theorem c20_send_closed_errors : forall s, rs s <> Open -> send s = SendClosedPipe.
Proof. exact send_not_open. Qed.
Print Assumptions c20_send_closed_errors.

(* and in state open d.dataChannel is set: Send never dereferences nil (before
   and after the repairs) *)
Theorem c20_send_never_nil : forall v c sch, send (run v c (init c) sch) <> SendNilChannel.
Proof. exact send_never_nil. Qed.
Print Assumptions c20_send_never_nil.

(* a GracefulClose call that has returned leaves no read loop running (before
   and after the repairs) *)
Theorem c20_graceful_close_waits : forall v c sch j,
  let s := run v c (init c) sch in
  nth_error (closers s) j = Some (true, CDone) ->
  rl_started s = true -> rl_done s = true.
Proof. exact graceful_close_waits. Qed.
Print Assumptions c20_graceful_close_waits.

(* ---------- the code before the repairs ---------- *)
Example c20_pre_close_window :
  let s := run pre cfg1 (init cfg1) sch_close_window in
  hist s = [Closed; Closing] /\ monotone s = false /\ rs s = Closing /\ pc_done s = true.
Proof. exact pre_close_window. Qed.
Example c20_pre_open_window :
  let s := run pre cfg1 (init cfg1) sch_open_window in
  hist s = [Closing; Open] /\ monotone s = false /\ rs s = Open /\ rl_started s = false
  /\ o_pc s = ODone.
Proof. exact pre_open_window. Qed.
Example c20_pre_open_after_pcclose :
  let s := run pre cfg0 (init cfg0) sch_open_after_pcclose in
  hist s = [Closed; Open] /\ monotone s = false.
Proof. exact pre_open_after_pcclose. Qed.
Example c20_pre_never_closed :
  let s := run pre cfg1 (init cfg1) sch_never_closed in
  at_rest pre s = true /\ gone s = true /\ calls (evc s) 0 = 1 /\ rs s = Closing.
Proof. exact pre_never_closed. Qed.
Example c20_pre_handler_twice :
  let s := run pre cfg_reg (init cfg_reg) sch_once_twice in
  calls (evo s) 1 = 2 /\ calls (evo s) 2 = 0 /\ pend (evo s) = [].
Proof. exact pre_handler_twice. Qed.

(* ---------- the premises are satisfiable on a full life cycle ---------- *)
Example c20_nontrivial :
  let s := run post cfg_life (init cfg_life)
             [TOpen; TOpen; TOpen; TDoO 0; TClose 0; TClose 0; TClose 0; TRem; TRl; TRl; TDoC 0;
              TClose 0; TRegC 0; TRegC 0; TDoC 0] in
  hist s = [Open; Closing; Closed] /\ calls (evo s) 0 = 1 /\ calls (evc s) 0 = 1
  /\ calls (evc s) 1 = 1 /\ nth_error (closers s) 0 = Some (true, CDone) /\ rl_done s = true.
Proof. exact post_life_cycle. Qed.
Example c20_closed_premises_hold :
  let s := run post cfg1 (init cfg1) sch_never_closed in
  detach cfg1 = false /\ gone s = true /\ at_rest post s = true /\ rs s = Closed.
Proof. vm_compute. repeat split; reflexivity. Qed.
