(* C20 Data channel readyState only moves forward and events fire at most
   once.  Statements only; proofs live in Proofs/ReadyState.v.

   Full statement (property text): on every schedule of handleOpen, Close,
   remote close, readLoop exit and PeerConnection.Close,
       monotone s = true
       /\ (Close has returned /\ the transport is gone -> eventually rs s = Closed).
   It is refuted by the c20_monotone_refuted_* / c20_closed_refuted witnesses;
   c20_monotone_partial is what holds when the two check-then-set windows are
   not interleaved and handleOpen does not run after PeerConnection.Close. *)
From Coq Require Import List Arith.
Import ListNotations.
From Verif Require Import Model.ReadyState Proofs.ReadyState.

(* Close passes its "!= closed" check, PeerConnection.Close stores closed,
   Close stores closing: closed -> closing, and it stays closing *)
Theorem c20_monotone_refuted_close_window :
  exists nclose sch,
    let s := run (init nclose) sch in
    monotone s = false /\ hist s = [Closed; Closing] /\ rs s = Closing /\ pc_done s = true.
Proof. exact refuted_close_window_ex. Qed.
Print Assumptions c20_monotone_refuted_close_window.

(* handleOpen passes its isGracefulClosed check, Close runs completely
   (closing), handleOpen stores open: closing -> open, no read loop is started *)
Theorem c20_monotone_refuted_open_window :
  exists nclose sch,
    let s := run (init nclose) sch in
    monotone s = false /\ hist s = [Closing; Open] /\ rs s = Open /\ rl_started s = false.
Proof. exact refuted_open_window_ex. Qed.
Print Assumptions c20_monotone_refuted_open_window.

(* the same window against PeerConnection.Close: closed -> open *)
Theorem c20_monotone_refuted_open_after_pcclose :
  exists sch, let s := run (init 0) sch in monotone s = false /\ hist s = [Closed; Open].
Proof. exact refuted_open_after_pcclose_ex. Qed.
Print Assumptions c20_monotone_refuted_open_after_pcclose.

(* no race needed: Close while connecting, then the channel opens (OnClose
   fires), then the transport goes: every thread has finished, readyState is
   still closing *)
Theorem c20_closed_refuted :
  exists sch,
    let s := run (init 1) sch in
    closers s = [CDone] /\ o_pc s = ODone /\ gone s = true /\ step s 3 = None /\
    close_calls s = 1 /\ rs s = Closing.
Proof. exact refuted_never_closed_ex. Qed.
Print Assumptions c20_closed_refuted.

(* with the two check-then-set windows atomic and handleOpen not after
   PeerConnection.Close (runA), on EVERY schedule and any number of Close
   calls: readyState only moves forward, and once PeerConnection.Close or the
   read loop's exit has run it is closed and stays closed *)
Theorem c20_monotone_partial : forall nclose sch,
  let s := runA (init nclose) sch in
  monotone s = true /\ (pc_done s = true \/ rl_done s = true -> rs s = Closed).
Proof. exact monotone_partial. Qed.
Print Assumptions c20_monotone_partial.

(* the guarded runs are runs of the faithful model (each atomic window is two
   consecutive blocks of the same thread) *)
Theorem c20_guarded_runs_are_runs : forall sch s, exists sch', runA s sch = run s sch'.
Proof. exact runA_is_run. Qed.
Print Assumptions c20_guarded_runs_are_runs.

(* OnOpen / OnClose handlers run at most once per registration, every schedule
   of the faithful model *)
Theorem c20_once : forall nclose sch,
  open_calls (run (init nclose) sch) <= 1 /\ close_calls (run (init nclose) sch) <= 1.
Proof. exact handlers_at_most_once. Qed.
Print Assumptions c20_once.

(* Send on a channel that is not open returns an error *)
Theorem c20_send_closed_errors : forall s, rs s <> Open -> send s = SendClosedPipe.
Proof. exact send_not_open. Qed.
Print Assumptions c20_send_closed_errors.

(* the guarded model is not vacuous: a full life cycle *)
Example c20_partial_nontrivial :
  let s := runA (init 1) [0; 4; 4; 2; 3] in
  hist s = [Open; Closing; Closed] /\ open_calls s = 1 /\ close_calls s = 1 /\ rl_done s = true.
Proof. vm_compute. repeat split; reflexivity. Qed.
