(* C11 SDP origin keeps a fixed session id and a strictly increasing version
   (sdp.go updateSDPOrigin, called by CreateOffer / CreateAnswer).
   Statements only; proofs live in Proofs/Origin.v. *)
From Coq Require Import List NArith Arith.
Import ListNotations.
From Verif Require Import Common.Base Model.Origin Proofs.Origin.
Open Scope N_scope.

(* sequential calls (the way PeerConnection calls it: under pc.mu).
   Premises = pion/sdp's NewJSEPSessionDescription contract for the FIRST
   fresh description (non-zero id, non-zero version) and room below 2^64 for
   the later increments.  Every call returns, every description carries the
   first description's id, versions strictly increase, the first output is
   the first description itself. *)
Theorem c11_seq : forall d0 ds,
  fst d0 <> 0 -> snd d0 <> 0 -> snd d0 + N.of_nat (length ds) < 2 ^ 64 ->
  exists outs,
    updates origin0 (d0 :: ds) = map Some outs /\
    length outs = S (length ds) /\
    Forall (fun o => fst o = fst d0) outs /\
    strictly_increasing (map snd outs) /\
    hd_error outs = Some d0.
Proof. exact seq_calls. Qed.
Print Assumptions c11_seq.

(* CreateOffer's recompute loop ("offer changed while being generated"): a
   history of calls, each with the fresh description of its first generation
   and those of the generations that follow a detected change; every
   generation calls updateSDPOrigin and the last one is returned, after 128
   detected changes the call gives up (errExcessiveRetries) and hands out
   nothing.  Under c11_seq's premises (room below 2^64 for one version per
   GENERATION): no call hangs; every description handed out carries the first
   description's id; their versions strictly increase; a call with fewer than
   128 changes hands out version  v0 + (generations run so far) - 1  and a
   call with 128 or more hands out nothing. *)
Theorem c11_recompute : forall d0 r0 (h : list gcall),
  fst d0 <> 0 -> snd d0 <> 0 ->
  snd d0 + N.of_nat (total_gens ((d0, r0) :: h)) < 2 ^ 64 ->
  let rs := calls origin0 ((d0, r0) :: h) in
  length rs = S (length h) /\
  ~ In Hangs rs /\
  Forall (fun o => fst o = fst d0) (returned rs) /\
  strictly_increasing (map snd (returned rs)) /\
  (r0 = [] -> hd_error rs = Some (Returned d0)) /\
  (forall k c, nth_error ((d0, r0) :: h) k = Some c ->
     nth_error rs k =
     Some (if (S (length (snd c)) <=? max_retries)%nat
           then Returned (fst d0, snd d0 + N.of_nat (total_gens (firstn (S k) ((d0, r0) :: h)) - 1))
           else Excessive)).
Proof. exact recompute_calls. Qed.
Print Assumptions c11_recompute.

(* any number of threads, any schedule of the atomic steps (CAS, store id,
   load id in the wait loop, add): every completed call is in the
   linearisation log; the log's versions strictly increase (so they are
   pairwise distinct); every logged id is the CAS winner's own fresh id *)
Theorem c11_conc : forall ds sch,
  Forall (fresh_ok (length ds)) ds ->
  let s := orun (oinit ds) sch in
  (forall i o v, nth_error (othreads s) i = Some (TDone o v) -> In (i, o, v) (olog s)) /\
  strictly_increasing (map log_ver (olog s)) /\
  (forall e, In e (olog s) ->
     exists w d v rest, olog s = (w, d, v) :: rest /\ nth_error ds w = Some (d, v) /\
                        d <> 0 /\ log_sid e = d /\ v <= log_ver e).
Proof. exact conc_sid_version. Qed.
Print Assumptions c11_conc.

(* the wait loop: once the id is stored a spinning thread leaves the loop at
   its next step and the id never changes again; while it is not stored, the
   CAS winner stands right before its store, which is always enabled *)
Theorem c11_conc_no_endless_spin : forall ds sch,
  Forall (fresh_ok (length ds)) ds ->
  let s := orun (oinit ds) sch in
  (forall i, nth_error (othreads s) i = Some TSpin -> sid s <> 0 ->
     exists s', ostep s i = Some s' /\ nth_error (othreads s') i = Some (TAdd (sid s))) /\
  (sid s <> 0 -> forall sch2, sid (orun s sch2) = sid s) /\
  (forall i, nth_error (othreads s) i = Some TSpin -> sid s = 0 ->
     exists w d v s', nth_error (othreads s) w = Some (TWon d v) /\
                      ostep s w = Some s' /\ sid s' = d /\ d <> 0).
Proof. exact conc_spin. Qed.
Print Assumptions c11_conc_no_endless_spin.

(* "strictly greater than every earlier one": a call that had returned before
   another call started has the smaller version and the same id *)
Theorem c11_conc_realtime : forall ds sch1 sch2 a b oa va ob vb db wb,
  Forall (fresh_ok (length ds)) ds ->
  let s1 := orun (oinit ds) sch1 in
  let s2 := orun s1 sch2 in
  nth_error (othreads s1) a = Some (TDone oa va) ->
  nth_error (othreads s1) b = Some (T0 db wb) ->
  nth_error (othreads s2) b = Some (TDone ob vb) ->
  va < vb /\ oa = ob.
Proof. exact conc_realtime. Qed.
Print Assumptions c11_conc_realtime.

(* premises are satisfiable; outside them the function misbehaves exactly as
   the premises say *)
Example c11_seq_example :
  updates origin0 [(7, 100); (8, 200); (9, 300)] = [Some (7, 100); Some (7, 101); Some (7, 102)].
Proof. reflexivity. Qed.

Example c11_conc_example :
  let s := orun (oinit [(7, 100); (8, 200); (9, 300)]) [1%nat; 0%nat; 2%nat; 0%nat; 2%nat; 1%nat; 2%nat; 0%nat; 0%nat; 2%nat] in
  othreads s = [TDone 8 201; TDone 8 200; TDone 8 202].
Proof. vm_compute. reflexivity. Qed.

(* three calls; the second recomputes twice (three generations), so it hands
   out the third version after the first call's *)
Example c11_recompute_example :
  calls origin0 [((7, 100), []); ((8, 200), [(9, 300); (10, 400)]); ((11, 500), [])]
  = [Returned (7, 100); Returned (7, 103); Returned (7, 104)].
Proof. vm_compute. reflexivity. Qed.

(* 128 detected changes: the call gives up after 128 generations, the next
   call's version is 128 further on *)
Example c11_recompute_excessive :
  calls origin0 [((7, 100), []); ((8, 200), repeat (1, 1) 128); ((11, 500), [])]
  = [Returned (7, 100); Excessive; Returned (7, 229)].
Proof. vm_compute. reflexivity. Qed.

(* a fresh description with version 0 (outside pion/sdp's contract) lets the
   next call win the CAS again: the id changes *)
Example c11_zero_version_breaks :
  updates origin0 [(7, 0); (8, 200)] = [Some (7, 0); Some (8, 200)].
Proof. reflexivity. Qed.

(* a fresh description with id 0 makes the next call wait forever *)
Example c11_zero_id_hangs :
  updates origin0 [(0, 100); (8, 200)] = [Some (0, 100); None].
Proof. reflexivity. Qed.

(* version wrap-around at 2^64 hands out a new id *)
Example c11_wrap_breaks :
  updates origin0 [(7, 18446744073709551615); (8, 5); (9, 6)]
  = [Some (7, 18446744073709551615); Some (7, 0); Some (9, 6)].
Proof. vm_compute. reflexivity. Qed.
