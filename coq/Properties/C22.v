(* C22 Connection state is the W3C aggregate of ICE and DTLS states.
   Statements only; proofs live in Proofs/ConnState.v. *)
From Coq Require Import List.
Import ListNotations.
From Verif Require Import Model.ConnState Proofs.ConnState.

(* the value computed at every update is the W3C function of
   (closed, ice, dtls) for every declared state value *)
Theorem c22_aggregate : forall closed i d,
  ice_valid i -> dtls_valid d -> w3c closed i d (pion_state closed i d).
Proof. exact pion_meets_w3c. Qed.
Print Assumptions c22_aggregate.

(* the W3C clauses define a function (so "equals" is meaningful) and the
   executable form used in the correspondence check is that function *)
Theorem c22_spec_is_function : forall closed i d s,
  ice_valid i -> dtls_valid d -> (w3c closed i d s <-> w3c_state closed i d = s).
Proof. exact w3c_fun_is_rel. Qed.
Print Assumptions c22_spec_is_function.

(* including out-of-range enum values the code equals the functional spec *)
Theorem c22_aggregate_all_values : forall closed i d,
  pion_state closed i d = w3c_state closed i d.
Proof. exact pion_is_w3c_fun. Qed.
Print Assumptions c22_aggregate_all_values.

(* the switch's implicit default is unreachable on declared values *)
Theorem c22_total : forall closed i d,
  ice_valid i -> dtls_valid d -> pion_arm closed i d <> 6.
Proof. exact arm_total. Qed.
Print Assumptions c22_total.

(* handler is invoked iff the aggregate differs from the stored state, once,
   with the new value *)
Theorem c22_change_only_step : forall s i d,
  let n := pion_state (closedf s) i d in
  (n = stored s -> cstep s (Update i d) = s) /\
  (n <> stored s ->
     log (cstep s (Update i d)) = log s ++ [n] /\
     stored (cstep s (Update i d)) = n).
Proof. exact cstep_called_iff. Qed.
Print Assumptions c22_change_only_step.

(* over every sequential history: the reported sequence never repeats a value
   twice in a row (starting from the initial New), and the stored state is the
   last reported one *)
Theorem c22_change_only_history : forall ops,
  stored (crun ops) = last (log (crun ops)) PcNew /\
  no_stutter PcNew (log (crun ops)).
Proof. exact crun_inv. Qed.
Print Assumptions c22_change_only_history.

Example c22_history_nontrivial :
  log (crun [Update IceChecking DtlsNew; Update IceChecking DtlsNew;
             Update IceConnected DtlsConnected; Update IceDisconnected DtlsConnected;
             SetClosed; Update IceClosed DtlsClosed])
  = [PcConnecting; PcConnected; PcDisconnected; PcClosed].
Proof. reflexivity. Qed.

(* ---- second tie to the source: the translated statements ----
   Gen/GoConnState.v is regenerated from peerconnection.go by tools/go2coq
   before every run of this check: the statements of updateConnectionState
   that compute connectionState, with pc.isClosed.Load() as the parameter
   closed.  For all integers (every value that is not a declared non-zero
   constant reads as IceUnknown / DtlsUnknown) it IS pion_state. *)
From Coq Require Import ZArith.
From Verif Require Proofs.GenConnState Gen.GoConnState.
Theorem c22_generated_model_agrees : forall (closed : bool) (i d : BinNums.Z),
  GoConnState.updateConnectionState_connectionState closed i d
  = GenConnState.cs_pcs_to_Z
      (pion_state closed (GenConnState.cs_ice_of_Z i) (GenConnState.cs_dtls_of_Z d)).
Proof. exact GenConnState.gen_conn_state_agrees. Qed.
Print Assumptions c22_generated_model_agrees.

Example c22_generated_nontrivial :
  GoConnState.updateConnectionState_connectionState false 3%Z 3%Z = 3%Z /\
  GoConnState.updateConnectionState_connectionState false 6%Z 3%Z = 5%Z /\
  GoConnState.updateConnectionState_connectionState true 6%Z 3%Z = 6%Z /\
  GenConnState.cs_ice_of_Z 3%Z = IceConnected.
Proof. repeat split; reflexivity. Qed.
