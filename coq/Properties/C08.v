(* C08: answer directions are legal responses to the offered directions
   (RFC 3264 section 6.1).  Statements only; proofs are in Proofs/AnswerDir.v.

   Vocabulary (Model/AnswerDir.v): run_history os is the connection after any
   sequence of local operations (AddTransceiverFromKind, AddTrack, RemoveTrack,
   transceiver.Stop, transceiver.SetSender) and complete remote-offer
   exchanges; answer_of p secs mid is what CreateAnswer returns after
   SetRemoteDescription(offer secs) followed by the local operations mid;
   all_legal secs ds says the answer has one direction per offered section
   and each is a legal response. *)
From Coq Require Import List Bool Arith.
Import ListNotations.
From Verif Require Import Common.Base Model.AnswerDir Proofs.AnswerDir Proofs.AnswerDirTotal.

(* `legal` is the RFC 3264 6.1 table *)
Theorem c08_legal_is_rfc3264 : forall o a, o <> DUnk ->
  (legal o a = true <->
   (o = Sendrecv /\ a <> DUnk) \/
   (o = Sendonly /\ (a = Recvonly \/ a = Inactive)) \/
   (o = Recvonly /\ (a = Sendonly \/ a = Inactive)) \/
   (o = Inactive /\ a = Inactive)).
Proof. exact legal_table. Qed.
Print Assumptions c08_legal_is_rfc3264.

(* FULL STATEMENT (does not hold):
     forall os secs mid ds,
       answer_of (run_history os) secs mid = Ok ds -> all_legal secs ds = true.
   Refuted in two independent ways:
   (a) the direction switch of SetRemoteDescription keeps a bound transceiver's
       sendrecv or sendonly direction when its mid is re-offered a=sendonly;
   (b) RTPTransceiver.SetSender between SetRemoteDescription and CreateAnswer
       adds the sending half without looking at the offered direction
       (AddTrack looks: isSendAllowed). *)
Theorem c08_full_refuted : exists os secs mid ds,
  answer_of (run_history os) secs mid = Ok ds /\ all_legal secs ds = false.
Proof. exact full_refuted. Qed.
Print Assumptions c08_full_refuted.

(* (a), local sendrecv: AddTrack, negotiated sendrecv, re-offer sendonly => answer sendrecv *)
Theorem c08_full_refuted_reoffer_sendonly_local_sendrecv :
  answer_of (run_history bound_sendrecv) [(Audio, Sendonly)] [] = Ok [Sendrecv] /\
  all_legal [(Audio, Sendonly)] [Sendrecv] = false /\
  reoffer_ok (run_history bound_sendrecv) [(Audio, Sendonly)] = false.
Proof. exact refuted_reoffer_sendrecv. Qed.
Print Assumptions c08_full_refuted_reoffer_sendonly_local_sendrecv.

(* (a), local sendonly: offer recvonly (local becomes sendonly), re-offer sendonly => answer sendonly *)
Theorem c08_full_refuted_reoffer_sendonly_local_sendonly :
  answer_of (run_history bound_sendonly) [(Audio, Sendonly)] [] = Ok [Sendonly] /\
  all_legal [(Audio, Sendonly)] [Sendonly] = false /\
  reoffer_ok (run_history bound_sendonly) [(Audio, Sendonly)] = false.
Proof. exact refuted_reoffer_sendonly. Qed.
Print Assumptions c08_full_refuted_reoffer_sendonly_local_sendonly.

(* (b): first offer, so guard (a) holds; SetSender in the window; sendonly and inactive offers *)
Theorem c08_full_refuted_setsender :
  answer_of (run_history []) [(Audio, Sendonly)] [SetSender 0] = Ok [Sendrecv] /\
  all_legal [(Audio, Sendonly)] [Sendrecv] = false /\
  reoffer_ok (run_history []) [(Audio, Sendonly)] = true /\
  answer_of (run_history []) [(Video, Inactive)] [SetSender 0] = Ok [Sendonly] /\
  all_legal [(Video, Inactive)] [Sendonly] = false.
Proof. exact refuted_setsender. Qed.
Print Assumptions c08_full_refuted_setsender.

(* What holds, over every history, every offer (any number of sections, any
   directions, also sections that were not there before or are gone) and every
   sequence of local operations between set-remote and create-answer, outside
   exactly the two characterised situations:
     reoffer_ok: no section offered a=sendonly whose mid is already bound to a
                 transceiver with direction sendrecv or sendonly;
     setsender_guarded: SetSender in the window only on transceivers whose
                 currentRemoteDirection receives. *)
Theorem c08_partial : forall os secs mid ds,
  reoffer_ok (run_history os) secs = true ->
  setsender_guarded (set_remote (run_history os) secs) mid = true ->
  answer_of (run_history os) secs mid = Ok ds -> all_legal secs ds = true.
Proof. exact history_answer_legal. Qed.
Print Assumptions c08_partial.

(* in particular without SetSender between set-remote and create-answer
   (earlier SetSender calls in the history do not matter) *)
Theorem c08_partial_no_setsender : forall os secs mid ds,
  reoffer_ok (run_history os) secs = true -> no_setsender mid = true ->
  answer_of (run_history os) secs mid = Ok ds -> all_legal secs ds = true.
Proof. exact history_answer_legal_no_setsender. Qed.
Print Assumptions c08_partial_no_setsender.

(* the same from any state with unique mids and declared directions, reachable or not *)
Theorem c08_partial_any_state : forall p secs mid ds,
  wf p -> reoffer_ok p secs = true -> setsender_guarded (set_remote p secs) mid = true ->
  answer_of p secs mid = Ok ds -> all_legal secs ds = true.
Proof. exact answer_legal. Qed.
Print Assumptions c08_partial_any_state.

(* guard (a) is tight for the direction switch: such a transceiver is left as
   it is, and that direction is illegal for a sendonly offer *)
Theorem c08_guard_tight : forall t,
  t_dir t = Sendrecv \/ t_dir t = Sendonly ->
  adjust Sendonly t = t /\ legal Sendonly (t_dir t) = false.
Proof. exact adjust_keeps_sending. Qed.
Print Assumptions c08_guard_tight.

(* CreateAnswer always finds a transceiver for every offered section (no
   errPeerConnTranscieverMidNil, no index panic), whatever the state, the offer
   and the local operations in between: the theorems above are not vacuous *)
Theorem c08_answer_total : forall p secs mid, exists ds, answer_of p secs mid = Ok ds.
Proof. exact answer_total. Qed.
Print Assumptions c08_answer_total.

(* c08_partial and totality in one statement *)
Theorem c08_partial_exists_legal : forall os secs mid,
  reoffer_ok (run_history os) secs = true ->
  setsender_guarded (set_remote (run_history os) secs) mid = true ->
  exists ds, answer_of (run_history os) secs mid = Ok ds /\ all_legal secs ds = true.
Proof. exact history_answer_exists_legal. Qed.
Print Assumptions c08_partial_exists_legal.

Theorem c08_reachable_states_wf : forall os, wf (run_history os).
Proof. exact wf_run. Qed.
Print Assumptions c08_reachable_states_wf.

(* the invariant the lifting rests on: after SetRemoteDescription every
   transceiver bound to an offered section has a legal direction for it and
   remembers the offered direction *)
Theorem c08_set_remote_invariant : forall p secs, wf p -> reoffer_ok p secs = true ->
  forall i t j k d, nth_error (set_remote p secs) i = Some t -> t_mid t = Some j ->
    nth_error secs j = Some (k, d) -> d <> DUnk ->
    legal d (t_dir t) = true /\ t_rem t = d.
Proof. exact set_remote_establishes. Qed.
Print Assumptions c08_set_remote_invariant.

(* non-trivial instances *)
Example c08_hold_legal_case : (* bound recvonly transceiver re-offered sendonly: guard holds *)
  let os := [Exchange [(Audio, Sendrecv)] []] in
  answer_of (run_history os) [(Audio, Sendonly)] [] = Ok [Recvonly] /\
  reoffer_ok (run_history os) [(Audio, Sendonly)] = true /\
  setsender_guarded (set_remote (run_history os) [(Audio, Sendonly)]) [] = true.
Proof. repeat split. Qed.

Example c08_two_sections_with_local_ops :
  let os := [Local (AddTr Video Recvonly); Local (AddTrack Audio);
             Exchange [(Audio, Sendrecv); (Video, Sendonly)] [AddTrack Video]] in
  answer_of (run_history os) [(Audio, Recvonly); (Video, Sendrecv); (Audio, Inactive)] [RmTrack 1]
  = Ok [Inactive; Recvonly; Inactive].
Proof. vm_compute. reflexivity. Qed.

Example c08_setsender_witness :
  answer_of (run_history []) [(Audio, Sendonly)] [SetSender 0] = Ok [Sendrecv] /\
  setsender_guarded (set_remote (run_history []) [(Audio, Sendonly)]) [SetSender 0] = false.
Proof. split; reflexivity. Qed.
