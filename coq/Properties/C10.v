(* C10 placeholder *)
From Verif Require Import Model.Codec Model.Section.
