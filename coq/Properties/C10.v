(* C10 Each generated media section is internally consistent.
   Statements only; proofs live in Proofs/Section.v.

   Full statement (section_ok, Model/Section.v): in every generated m-section
   the payload types are listed once, every rtpmap/fmtp/rtcp-fb line belongs to
   a listed payload type, every RTX entry's apt names a listed payload type,
   extmap ids are distinct and within 1..14, and each URI appears once.
   The faithful model violates it in three ways (c10_full_refuted_*, each
   replayed on the real PeerConnection in the harness corpus); the clauses are
   proved separately, the RTX and attribute clauses for all inputs, the others
   under the narrowest guards found. *)
From Coq Require Import List ZArith NArith String Bool.
Import ListNotations.
From Verif Require Import Common.Base Model.Fmtp Model.Codec Model.HeaderExt Model.Section Model.CodecAssoc
     Proofs.Codec Proofs.Section Proofs.ExtNeg Proofs.CodecHist Proofs.CodecPrefs Proofs.CodecAssoc.
From Coq Require Import Lia.
Open Scope string_scope.

(* after filterUnattachedRTX every RTX entry's apt names the payload type of a
   kept entry, and that entry is not an RTX entry: for all lists.  (Before the
   repair "filterUnattachedRTX does not accept an RTX entry as the primary of
   another" this held only for lists without RTX-to-RTX references:
   [rtx 97 apt=99; rtx 98 apt=97] kept rtx 98.) *)
Theorem c10_rtx_apt_listed : forall l c,
  In c (filter_unattached_rtx l) -> is_rtx c = true ->
  exists a p q, apt_of c = Some a /\ parse_atoi_pt a = Some p /\
    In q (filter_unattached_rtx l) /\ c_pt q = p /\ is_rtx q = false.
Proof. exact filter_rtx_apt_listed. Qed.
Print Assumptions c10_rtx_apt_listed.

(* the filter only removes entries, and never a non-RTX one *)
Theorem c10_filter_sound : forall l x,
  (In x (filter_unattached_rtx l) -> In x l) /\
  (In x l -> is_rtx x = false -> In x (filter_unattached_rtx l)).
Proof. exact filter_rtx_sound. Qed.
Print Assumptions c10_filter_sound.

(* every rtpmap / fmtp / rtcp-fb line of a section starts with the payload
   type of a codec on the section's m= line: for all sections *)
Theorem c10_attr_owner_listed : forall s kv,
  In kv (sec_attr_lines s) ->
  exists c rest, In c (l_codecs s) /\ In (c_pt c) (sec_formats s) /\
    (fst kv = "rtpmap" \/ fst kv = "fmtp" \/ fst kv = "rtcp-fb") /\
    snd kv = dec_of_N (c_pt c) ++ " " ++ rest.
Proof. exact attr_owner_listed. Qed.
Print Assumptions c10_attr_owner_listed.

(* before anything is negotiated: for every sequence of RegisterHeaderExtension
   calls, every kind and direction set, the ids are distinct, within 1..14, and
   each URI appears once *)
Theorem c10_local_ext_ids : forall regs k dirs,
  let l := ext_params (registered regs) false k dirs in
  NoDup (map fst l) /\ (forall iu, In iu l -> (1 <= fst iu <= 14)%Z) /\ NoDup (map snd l).
Proof. exact local_ext_ids_registered. Qed.
Print Assumptions c10_local_ext_ids.

(* payload types are listed once when the engine's list has none twice and the
   preferences are empty, or carry distinct non-zero payload types *)
Theorem c10_pt_unique_partial : forall engine_codecs prefs,
  NoDup (map c_pt engine_codecs) ->
  (prefs = [] \/ ((forall p, In p prefs -> c_pt p <> 0%N) /\ NoDup (map c_pt prefs))) ->
  NoDup (map c_pt (get_codecs engine_codecs prefs)).
Proof. exact get_codecs_pt_nodup. Qed.
Print Assumptions c10_pt_unique_partial.

(* ... and the engine's lists (registered through addCodec, negotiated through
   pushCodecs) satisfy that premise *)
Theorem c10_engine_lists_pt_unique : forall l c,
  NoDup (map c_pt l) -> NoDup (map c_pt (fst (add_codec l c))).
Proof. exact add_codec_nodup. Qed.
Print Assumptions c10_engine_lists_pt_unique.

(* a transceiver created from the remote description: the preference list
   setCodecPreferencesFromRemoteDescription builds never carries a payload type
   twice (for every engine list with distinct payload types, every remote
   section) -- as repaired; the loop used to remove the last fmtp-equivalent
   engine codec instead of the matched one, and an offer listing one codec
   under two payload types was answered "123 123" *)
Theorem c10_pt_unique_from_remote_prefs : forall engine_codecs remote,
  NoDup (map c_pt engine_codecs) ->
  NoDup (map c_pt (set_prefs_from_remote engine_codecs remote)).
Proof. exact set_prefs_from_remote_nodup. Qed.
Print Assumptions c10_pt_unique_from_remote_prefs.

(* ... so its section lists each payload type once (engine payload types non-zero) *)
Theorem c10_pt_unique_from_remote : forall engine_codecs remote,
  NoDup (map c_pt engine_codecs) -> (forall c, In c engine_codecs -> c_pt c <> 0%N) ->
  NoDup (map c_pt (get_codecs engine_codecs (set_prefs_from_remote engine_codecs remote))).
Proof. exact get_codecs_from_remote_nodup. Qed.
Print Assumptions c10_pt_unique_from_remote.

(* over histories, with the transceiver matching inside the step
   (Model/CodecAssoc.v): for every registration, every history of local
   additions and answered offers and every further offer, when an offered
   section with mid m is of the same kind K m in every offer, no offered codec
   has payload type 0 and SetCodecPreferences is given lists with distinct
   non-zero payload types (or none), every section of the answer lists each
   payload type once -- local transceivers and transceivers created from a
   remote description, in this or an earlier exchange, alike *)
Theorem c10_hist_pt_unique_partial : forall K video audio multi x os offer s' l,
  Forall (mop_kp K) os -> mop_kp K (MExchange offer) ->
  exchange (run_mops (new_mpc (new_engine video audio multi) x) os) offer = (s', Ok l) ->
  Forall (fun sec => NoDup (sec_formats sec)) l.
Proof. exact history_answer_pts. Qed.
Print Assumptions c10_hist_pt_unique_partial.

(* negotiated branch, under a guard on the remote description: when every
   extmap id it uses lies within 1..14 and a URI is never offered under two
   different ids (across all its sections), then for every registration
   sequence, kind, direction set and remote section filter the extmap lines
   have distinct ids within 1..14 and each URI once (the two refutations above
   are exactly the two ways of leaving this guard) *)
Theorem c10_negotiated_ext_ids_partial : forall regs secs e e' x' r k dirs rem,
  remote_exts_regular (all_pairs secs) ->
  update_remote_x e (registered regs) secs = (e', x', r) ->
  let l := filter_match rem (ext_params x' true k dirs) in
  NoDup (map fst l) /\ (forall iu, In iu l -> (1 <= fst iu <= 14)%Z) /\ NoDup (map snd l).
Proof. exact negotiated_ext_ids. Qed.
Print Assumptions c10_negotiated_ext_ids_partial.

(* the same over histories, with the transceiver matching inside the step
   (Model/CodecAssoc.v): for every registration sequence, every history of
   local additions and answered offers and every further offer, when an offered
   section with mid m is of the same kind K m in every offer and the extmap
   lines of all the offers (pairs) use ids within 1..14 and pair ids and URIs
   one-to-one, every section of the answer has distinct extmap ids within 1..14
   and each URI once *)
Theorem c10_hist_answer_ext_ids_partial : forall K pairs video audio multi regs os offer s' l,
  remote_exts_regular pairs ->
  Forall (mop_kinds K pairs) os -> mop_kinds K pairs (MExchange offer) ->
  exchange (run_mops (new_mpc (new_engine video audio multi) (registered regs)) os) offer = (s', Ok l) ->
  Forall exts_ok l.
Proof. exact history_answer_exts. Qed.
Print Assumptions c10_hist_answer_ext_ids_partial.

Example c10_remote_exts_regular_nontrivial :
  remote_exts_regular (all_pairs [mkRsec KVideo [] [(3%Z, w_mid); (5%Z, "urn:x:a")]; mkRsec KAudio [] [(3%Z, w_mid)]]).
Proof.
  split.
  - intros i u H. cbn in H. repeat (destruct H as [H|H]; [inversion H; subst; lia|]). destruct H.
  - intros i u i' u' H H' Hu. cbn in H, H'.
    repeat (destruct H as [H|H]; [inversion H; subst; clear H|]); try destruct H;
    repeat (destruct H' as [H'|H']; [inversion H'; subst; clear H'|]); try destruct H';
    try reflexivity; discriminate.
Qed.

(* the full statement is false for the code as it is: *)
(* a remote extmap id 20 is echoed in the answer *)
Theorem c10_full_refuted_ext_id : exists l, w_ext20 = Ok l /\ forallb section_ok l = false /\
  existsb (fun s => existsb (fun iu => Z.ltb 14 (fst iu)) (l_exts s)) l = true.
Proof. exact w_ext20_fails. Qed.
Print Assumptions c10_full_refuted_ext_id.

(* the same URI at two ids (20 and 3) after a remote remap *)
Theorem c10_full_refuted_ext_uri : exists l, w_remap = Ok l /\ forallb section_ok l = false /\
  existsb (fun s => negb (nodup_str (map snd (l_exts s)))) l = true.
Proof. exact w_remap_fails. Qed.
Print Assumptions c10_full_refuted_ext_uri.

(* a payload type twice through SetCodecPreferences with two codecs sharing it *)
Theorem c10_full_refuted_dup_pt : exists l, w_dup_pt = Ok l /\ forallb section_ok l = false /\
  existsb (fun s => negb (nodup_N (sec_formats s))) l = true.
Proof. exact w_dup_pt_fails. Qed.
Print Assumptions c10_full_refuted_dup_pt.

(* section_ok is satisfiable on a non-trivial answer (remapped payload types,
   RTX with its primary, a negotiated extension) *)
Example c10_section_ok_nontrivial : exists l,
  answer_of [w_vp8; mkCodec "video/rtx" 90000 0 "apt=96" [] 97] [] [(w_mid, KVideo)]
            [(mkRsec KVideo [set_pt w_vp8 100; mkCodec "video/rtx" 90000 0 "apt=100" [] 101] [(3%Z, w_mid)], None)]
  = Ok l /\ forallb section_ok l = true /\ map sec_formats l = [[100%N; 101%N]].
Proof. exact w_good. Qed.
(* the former witness of the RTX clause: both RTX entries are dropped *)
Example c10_rtx_chain_repaired : exists l, w_chain = Ok l /\ forallb section_ok l = true /\
  map sec_formats l = [[96%N]].
Proof. exact w_chain_ok. Qed.

(* the history premises on non-trivial values: telephone-event offered under two
   payload types, answered by a transceiver created from the offer; re-offered
   with a second audio section that a local recvonly transceiver takes *)
Definition ex10_te (pt : N) : codec := mkCodec "audio/telephone-event" 8000 0 "" [] pt.
Definition ex10_os : list mop :=
  [ MExchange [mkOsec KAudio AD.Sendrecv [ex10_te 123; ex10_te 124] [(3%Z, w_mid)]];
    MAdd KAudio AD.Recvonly [] ].
Definition ex10_offer : list osec :=
  [ mkOsec KAudio AD.Sendrecv [ex10_te 123; ex10_te 124] [(3%Z, w_mid)];
    mkOsec KAudio AD.Sendonly [ex10_te 123; ex10_te 124] [(3%Z, w_mid)] ].

Example c10_example_history :
  Forall (mop_kp (fun _ => KAudio)) ex10_os /\ mop_kp (fun _ => KAudio) (MExchange ex10_offer) /\
  Forall (mop_kinds (fun _ => KAudio) [(3%Z, w_mid)]) ex10_os /\
  mop_kinds (fun _ => KAudio) [(3%Z, w_mid)] (MExchange ex10_offer) /\
  match exchange (run_mops (new_mpc (new_engine [] [ex10_te 101] true)
                                    (registered [(w_mid, KAudio, [])])) ex10_os) ex10_offer with
  | (_, Ok l) => map sec_formats l = [[124%N; 123%N]; [123%N; 124%N]] /\
                 map l_exts l = [[(3%Z, w_mid)]; [(3%Z, w_mid)]]
  | _ => False
  end.
Proof.
  assert (Hk1 : offer_kinds (fun _ => KAudio) [mkOsec KAudio AD.Sendrecv [ex10_te 123; ex10_te 124] [(3%Z, w_mid)]]).
  { intros m o H _. destruct m as [|m]; cbn in H; [inversion H; reflexivity|destruct m; discriminate]. }
  assert (Hk2 : offer_kinds (fun _ => KAudio) ex10_offer).
  { intros m o H _. destruct m as [|[|m]]; cbn in H; try (inversion H; reflexivity). destruct m; discriminate. }
  assert (Hp : forall offer, (forall o, In o offer -> os_codecs o = [ex10_te 123; ex10_te 124]) -> offer_pts offer).
  { intros offer Ho o c Hin Hc. rewrite (Ho o Hin) in Hc. destruct Hc as [<-|[<-|[]]]; discriminate. }
  split; [|split; [|split; [|split]]].
  - constructor; [split; [exact Hk1|apply Hp; intros o [<-|[]]; reflexivity]|].
    constructor; [apply pts_ok_nil|constructor].
  - split; [exact Hk2|apply Hp; intros o [<-|[<-|[]]]; reflexivity].
  - constructor; [split; [exact Hk1|intros p Hin; exact Hin]|]. constructor; [exact I|constructor].
  - split; [exact Hk2|]. intros p Hin. cbn in Hin. destruct Hin as [<-|[<-|[]]]; now left.
  - vm_compute. split; reflexivity.
Qed.
