(* C18 Data-channel stream ids are unique and follow the DTLS-role parity rule
   (sctptransport.go generateAndSetDataChannelID, dataChannelIDsUsed
   bookkeeping, datachannel.go open).  Statements only; proofs live in
   Proofs/Sid.v.  Histories are arbitrary lists of Create (with or without an
   explicit id, before or after the association exists), Open, Connect (either
   role), RemoteOpen (any id) and Close; each op is one critical section of
   the code, so the histories are the interleavings of concurrent callers.
   [m] is MaxChannels(); pion always has m = 65535. *)
From Coq Require Import List NArith String.
Import ListNotations.
From Verif Require Import Common.Base Model.Sid Proofs.Sid.
Open Scope N_scope.

(* the allocator: right parity, below maxChannels-1 (hence never 65534 or
   65535), not in use, the smallest such id; an error exactly when no such id
   exists; never a panic, never out of fuel *)
Theorem c18_alloc : forall cl m used,
  1 <= m -> m <= 65535 ->
  match alloc cl m used with
  | Ok id => parity_ok cl id /\ id < m - 1 /\ id < 65534 /\ ~ In id used /\
             (forall x, x < id -> parity_ok cl x -> In x used)
  | Err e => e = "max-data-channel-id"%string /\
             (forall x, x < m - 1 -> parity_ok cl x -> In x used)
  | Panic => False
  end.
Proof. exact alloc_spec. Qed.
Print Assumptions c18_alloc.

(* over every history: every id the connection has assigned is even for a
   DTLS client and odd for a server (c18_parity), is below 65534
   (c18_not_65535), the assigned ids are pairwise distinct and all marked in
   use (c18_unique_assigned) *)
Theorem c18_parity_range_unique : forall m ops,
  1 <= m -> m <= 65535 ->
  let s := srun (sinit m) ops in
  Forall (parity_ok (client s)) (assigned s) /\
  Forall (fun id => id < 65534) (assigned s) /\
  NoDup (assigned s) /\
  Forall (fun id => In id (used s)) (assigned s).
Proof. exact assigned_facts. Qed.
Print Assumptions c18_parity_range_unique.

(* c18_fresh: at the moment an id is assigned (the only op that assigns is
   Open on a channel without id) it differs from every id in use on the
   connection - explicit, remote or assigned earlier - has the role's parity,
   and lands in that channel *)
Theorem c18_fresh : forall m ops k id,
  1 <= m -> m <= 65535 ->
  let s := srun (sinit m) ops in
  assigned (sstep s (Open k)) = id :: assigned s ->
  ~ In id (used s) /\ parity_ok (client s) id /\ id < 65534 /\
  nth_error (chans (sstep s (Open k))) k = Some (mkchan (Some id) true) /\
  (exists c, nth_error (chans s) k = Some c /\ cid c = None).
Proof.
  intros m ops k id M1 M2 s. apply (open_fresh m s k M1 M2).
  apply srun_inv; auto. apply sinit_inv.
Qed.
Print Assumptions c18_fresh.

(* c18_immutable: once a channel has an id it keeps it over every
   continuation; the role is fixed once the association exists; ids in use
   stay in use (a closed channel's id is never handed out again); the list of
   assigned ids only grows *)
Theorem c18_immutable : forall s ops,
  (connected s = true -> client (srun s ops) = client s) /\
  (forall k c id, nth_error (chans s) k = Some c -> cid c = Some id ->
     exists c', nth_error (chans (srun s ops)) k = Some c' /\ cid c' = Some id) /\
  (forall id, In id (used s) -> In id (used (srun s ops))) /\
  (exists ext, assigned (srun s ops) = ext ++ assigned s).
Proof. exact srun_stable. Qed.
Print Assumptions c18_immutable.

(* c18_exhaustion_is_error: when every id of the role's parity below
   maxChannels-1 is in use, opening a channel without id reports
   ErrMaxDataChannelID, marks nothing, assigns nothing and leaves the channel
   without id *)
Theorem c18_exhaustion_is_error : forall m ops k c,
  1 <= m -> m <= 65535 ->
  let s := srun (sinit m) ops in
  connected s = true -> nth_error (chans s) k = Some c -> opened c = false -> cid c = None ->
  (forall x, x < m - 1 -> parity_ok (client s) x -> In x (used s)) ->
  let s' := sstep s (Open k) in
  used s' = used s /\ assigned s' = assigned s /\
  nth_error (chans s') k = Some (mkchan None true) /\
  alloc (client s) m (used s) = Err "max-data-channel-id".
Proof.
  intros m ops k c M1 M2 s. apply (open_exhausted m s k c M1 M2).
  apply srun_inv; auto. apply sinit_inv.
Qed.
Print Assumptions c18_exhaustion_is_error.

Example c18_history :
  let s := srun (sinit 65535)
             [Create None; Create (Some 0); RemoteOpen 1; Connect true; Open 0; Open 1;
              Create None; Open 3; Create (Some 65535); Close 0; Open 0] in
  map cid (chans s) = [Some 2; Some 0; Some 1; Some 4; Some 65535] /\ assigned s = [4; 2].
Proof. vm_compute. auto. Qed.

Example c18_server_history :
  let s := srun (sinit 65535) [Create None; Create (Some 1); Connect false; Open 0; RemoteOpen 3; Create None; Open 3] in
  map cid (chans s) = [Some 3; Some 1; Some 3; Some 5].
Proof. vm_compute. auto. Qed.

Example c18_exhaustion_example :
  alloc true 7 [0; 2; 4] = Err "max-data-channel-id" /\ alloc true 7 [0; 4] = Ok 2 /\
  alloc false 7 [1; 3; 5] = Err "max-data-channel-id" /\ alloc false 7 [1; 3] = Ok 5.
Proof. vm_compute. auto. Qed.
