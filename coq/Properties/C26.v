(* C26 RTX packets are unwrapped into the original packets (RFC 4588).
   Statements only; proofs live in Proofs/Rtx.v.  [rtx_unwrap ppt pssrc b i]
   is the transcription of rtpreceiver.go:maybeStartRepairStreamReader on the
   pooled buffer [b] and the byte count [i] of the repair interceptor;
   [packet h payload padding] is the RFC 3550 layout of a header record. *)
From Coq Require Import String NArith ZArith Bool List.
Import ListNotations.
From Verif Require Import Common.Base Model.Rtx Proofs.Rtx.
Open Scope N_scope.

(* For every CSRC count 0..15, with or without a header extension (any profile,
   any whole number of words), with or without padding (any count), any
   version/marker/timestamp, any payload = OSN ++ rest and any stale bytes
   behind the packet in the pooled buffer: what TrackRemote.Read receives is
   the same packet with sequence number := OSN, payload type := primary (marker
   kept), SSRC := primary, every other header byte, the CSRC list and the
   extension unchanged, payload := rest, padding bytes and P bit kept; the
   attributes carry the RTX payload type, sequence number and SSRC.
   The only size premise is that the packet is shorter than 65536 bytes (any
   datagram is), which keeps the uint16 headerLength from wrapping. *)
Theorem c26_unwrap : forall h osn rest padding tail ppt pssrc,
  hdr_ok h -> pad_ok h (be_bytes 2 osn ++ rest) padding ->
  ppt < 128 -> pssrc < 4294967296 ->
  N.of_nat (length (packet h (be_bytes 2 osn ++ rest) padding)) < 65536 ->
  rtx_unwrap ppt pssrc (packet h (be_bytes 2 osn ++ rest) padding ++ tail)
             (N.of_nat (length (packet h (be_bytes 2 osn ++ rest) padding)))
  = Ok (Some (mkRtxOut (packet (restore h osn ppt pssrc) rest padding)
                       (h_pt h) (h_seq h) (h_ssrc h))).
Proof. exact unwrap_ok. Qed.
Print Assumptions c26_unwrap.

(* c26_unwrap for histories.  Packets arrive and are read one after the other:
   primary packets (any bytes; TrackRemote.checkAndUpdateTrack moves the
   track's payload type to the packet's when the media engine [known]s it) and
   repair packets (any bytes, well-formed or not).  A well-formed repair packet
   at ANY position of ANY history comes out restored with the primary stream's
   CURRENT payload type - that of the last primary packet before it whose
   payload type is known, or the initial one - and the track's SSRC; everything
   else as in c26_unwrap.  [known] is arbitrary. *)
Theorem c26_unwrap_history : forall known st evs1 evs2 h osn rest padding tail,
  hdr_ok h -> pad_ok h (be_bytes 2 osn ++ rest) padding ->
  st_pt st < 128 -> st_ssrc st < 4294967296 ->
  N.of_nat (length (packet h (be_bytes 2 osn ++ rest) padding)) < 65536 ->
  nth_error
    (rtx_history known st
       (evs1 ++ EvRtx (packet h (be_bytes 2 osn ++ rest) padding ++ tail)
                      (N.of_nat (length (packet h (be_bytes 2 osn ++ rest) padding))) :: evs2))
    (length evs1)
  = Some (ObsRtx (Ok (Some (mkRtxOut
      (packet (restore h osn (current_pt known (st_pt st) evs1) (st_ssrc st)) rest padding)
      (h_pt h) (h_seq h) (h_ssrc h))))).
Proof. exact unwrap_history. Qed.
Print Assumptions c26_unwrap_history.

(* the track state the unwrap reads: after any history the payload type is the
   specification's current one (and stays below 128), the SSRC has not moved *)
Theorem c26_history_state : forall known st evs,
  st_pt (rtx_state_after known st evs) = current_pt known (st_pt st) evs /\
  st_ssrc (rtx_state_after known st evs) = st_ssrc st /\
  (st_pt st < 128 -> current_pt known (st_pt st) evs < 128).
Proof. exact history_state. Qed.
Print Assumptions c26_history_state.

(* c26_no_panic for histories *)
Theorem c26_history_no_panic : forall known st evs,
  Forall event_in_domain evs -> ~ In (ObsRtx Panic) (rtx_history known st evs).
Proof. exact history_no_panic'. Qed.
Print Assumptions c26_history_no_panic.

(* fewer than two payload bytes (after removing the padding): ignored *)
Theorem c26_short_dropped : forall h payload padding tail ppt pssrc,
  hdr_ok h -> pad_ok h payload padding -> (length payload < 2)%nat ->
  N.of_nat (length (packet h payload padding)) < 65536 ->
  rtx_unwrap ppt pssrc (packet h payload padding ++ tail)
             (N.of_nat (length (packet h payload padding))) = Ok None.
Proof. exact short_dropped. Qed.
Print Assumptions c26_short_dropped.

(* no index or slice expression of the unwrap can go out of range, whatever the
   bytes are (well-formed RTP or not, list elements not even required to be
   < 256): for every buffer of at least 76 bytes (the default receive MTU is
   1500) and every reported count 1 <= i <= len(b) *)
Theorem c26_no_panic : forall ppt pssrc (b : list N) i,
  (76 <= length b)%nat -> 1 <= i -> (N.to_nat i <= length b)%nat ->
  rtx_unwrap ppt pssrc b i <> Panic.
Proof. exact no_panic. Qed.
Print Assumptions c26_no_panic.

(* the premises are satisfiable on a non-trivial packet: cc = 2, one-byte-header
   extension of one word, padding of 3, marker set *)
Example c26_premises_ok :
  hdr_ok ex_hdr /\ pad_ok ex_hdr (be_bytes 2 4660 ++ [9; 8; 7]) [0; 0; 3].
Proof. exact ex_premises_ok. Qed.

Example c26_unwrap_example :
  rtx_unwrap 96 1111 (packet ex_hdr (be_bytes 2 4660 ++ [9; 8; 7]) [0; 0; 3] ++ [165; 165]) 36
  = Ok (Some (mkRtxOut
      [178; 224; 18; 52; 0; 1; 95; 144; 0; 0; 4; 87; 1; 2; 3; 4; 5; 6; 7; 8;
       190; 222; 0; 1; 16; 170; 0; 0; 9; 8; 7; 0; 0; 3] 97 513 2222)).
Proof. reflexivity. Qed.

(* VP8/96 -> VP9/98 mid-session: the repair packet after the switch carries 98
   (first byte of the second line: 128 + 98 = 226), the one before it 96 *)
Example c26_history_example :
  let rtx := packet ex_hdr (be_bytes 2 4660 ++ [9; 8; 7]) [0; 0; 3] ++ [165; 165] in
  let prim pt := [128; pt; 0; 1; 0; 0; 0; 0; 0; 0; 4; 87; 1; 2] in
  map (fun o => match o with
                | ObsRtx (Ok (Some r)) => firstn 2 (o_pkt r)
                | _ => []
                end)
      (rtx_history (fun p => existsb (N.eqb p) [96; 97; 98; 99]) (mkRtxState 0 1111 false)
         [EvRtx rtx 36; EvPrimary (prim 96) 14; EvRtx rtx 36; EvPrimary (prim 98) 14;
          EvRtx rtx 36; EvPrimary (prim 111) 14; EvRtx rtx 36])
  = [[178; 128]; []; [178; 224]; []; [178; 226]; []; [178; 226]].
Proof. vm_compute. reflexivity. Qed.

(* the bound 1 <= i of c26_no_panic is tight in the model *)
Example c26_zero_length_read :
  rtx_unwrap 96 1 (32 :: repeat 0 75) 0 = Panic.
Proof. exact zero_length_read_panics. Qed.
