(* C26 RTX unwrap: statements only (stub, filled in below) *)
From Verif Require Import Model.Rtx.
