(* C12 A successful offer describes exactly the local transceivers and data
   channels (Unified Plan). Statements only; proofs live in Proofs/OfferShape.v.
   The state p is ANY PeerConnection state of Model/OfferShape.v -- reachable or
   not, with any remote description -- so every history of the modelled calls
   is covered. *)
From Coq Require Import List NArith String Bool Permutation.
Import ListNotations.
From Verif Require Import Common.Base Common.NegoText Model.OfferShape Model.OfferTrackDetails
  Proofs.OfferShape Proofs.OfferTrackDetails.
Open Scope string_scope.

(* Sections of a successful offer = the remote description's usable media
   sections, in remote order, each answered by the transceiver carrying that
   mid ("matched"), followed by the remaining transceivers in creation order
   ("unmatched"); matched ++ unmatched is a rearrangement of all transceivers,
   so every transceiver has exactly one section; that section carries the
   transceiver's mid, kind and current direction (c12_section_carries). Every
   transceiver has a non-empty mid afterwards and is otherwise unchanged. *)
Theorem c12_sections : forall p p' d fx,
  create_offer p = (p', ok_desc d, fx) ->
  exists matched unmatched,
    media_secs d = map sec_of_tcv (matched ++ unmatched)
    /\ Permutation (matched ++ unmatched) (p_tcvs p')
    /\ subseq unmatched (p_tcvs p')
    /\ (p_cur_remote p = None -> matched = [])
    /\ (forall r, p_cur_remote p <> None -> remote_for_matching p = Some r ->
          map t_mid matched = map mid_value (filter usable (d_secs r)))
    /\ Forall2 same_but_mid (p_tcvs p) (p_tcvs p')
    /\ Forall (fun t => t_mid t <> "") (p_tcvs p').
Proof. exact sections_of_offer. Qed.
Print Assumptions c12_sections.

Theorem c12_section_carries : forall t,
  sc_mid (sec_of_tcv t) = Some (t_mid t)
  /\ sc_media (sec_of_tcv t) = mkind_of (t_kind t)
  /\ sc_dir (sec_of_tcv t) = Some (t_dir t)
  /\ sc_attrs (sec_of_tcv t) = sender_attrs (t_sender t).
Proof. exact sec_of_tcv_fields. Qed.
Print Assumptions c12_section_carries.

(* Remark (not part of C12, which does not ask for distinct mids -- that is
   C06): when the mids after the call are pairwise distinct, a transceiver's mid
   selects exactly its own section ... *)
Theorem c12_remark_sections_by_mid_when_mids_distinct : forall p p' d fx,
  create_offer p = (p', ok_desc d, fx) ->
  NoDup (map t_mid (p_tcvs p')) ->
  forall t, In t (p_tcvs p') ->
    filter (has_mid (t_mid t)) (media_secs d) = [sec_of_tcv t].
Proof. exact one_section_per_mid. Qed.
Print Assumptions c12_remark_sections_by_mid_when_mids_distinct.

(* ... the history on which CreateOffer used to give two transceivers the same
   mid (an unnumbered transceiver precedes one that took mid "0" from a pending
   remote offer; found here, recorded and repaired under C06: the numbering loop
   now looks at the pending remote description and at all transceivers before it
   gives out a mid) now numbers the unnumbered transceiver "1".  Which histories
   keep the mids pairwise distinct is C06's subject (c06_numbering_ok_partial:
   all of them, short of an overflow of greaterMid). *)
Theorem c12_remark_former_mid_collision_repaired :
  exists p' d fx,
    create_offer (run_ops (pc_init false) dup_mid_history) = (p', ok_desc d, fx)
    /\ map t_mid (p_tcvs p') = ["1"; "0"].
Proof. exact dup_mid_repaired. Qed.
Print Assumptions c12_remark_former_mid_collision_repaired.

(* Remark on the calls that do NOT succeed (the gap noted earlier): when
   generateMatchedSDP fails at a remote section -- a mid no local transceiver
   carries, reachable through a remote answer that names such a mid -- the
   transceivers matched before it keep their setNegotiated mark (and the mids
   given out stay). The model follows that (matched_prefix / mark_at); the
   witness: the sender AddTrack put on the first transceiver is not negotiated
   before the failing CreateOffer and is negotiated after it. The same history
   is replayed on the real code in the corpus (the mark shows as AddEncoding
   being refused after the next startRTPSenders). *)
Theorem c12_remark_failed_offer_keeps_marks_witness :
  let p := run_ops (pc_init false) failed_offer_history in
  negotiated_flags p = [Some false; None]
  /\ o_status (snd (fst (create_offer p))) = "mid-not-found"
  /\ negotiated_flags (fst (fst (create_offer p))) = [Some true; None].
Proof. exact failed_offer_keeps_marks. Qed.
Print Assumptions c12_remark_failed_offer_keeps_marks_witness.

(* An application section is present exactly when a data channel was created
   or AlwaysNegotiateDataChannels is set. "A data channel was created" covers
   both sides: locally (CreateDataChannel: want_data) or by the remote peer and
   negotiated -- then the remote description in use (pending, else current)
   carries an application section, which the offer, being built against a
   current remote description, keeps. *)
Theorem c12_app_iff : forall p p' d fx,
  create_offer p = (p', ok_desc d, fx) ->
  (existsb is_app (d_secs d) = true <->
     want_data p = true
     \/ (p_cur_remote p <> None /\
         exists r, remote_for_matching p = Some r /\ existsb is_app (d_secs r) = true)).
Proof. exact app_iff_of_offer. Qed.
Print Assumptions c12_app_iff.

(* Remark: the remote disjunct is needed -- after answering an offer that had an
   application section, this side's next offer mirrors it although no local
   data channel exists (JSEP keeps negotiated m-sections). *)
Theorem c12_remark_app_section_mirrors_remote_witness :
  exists p p' d fx,
    create_offer p = (p', ok_desc d, fx)
    /\ want_data p = false /\ existsb is_app (d_secs d) = true.
Proof. exact app_literal_refuted. Qed.
Print Assumptions c12_remark_app_section_mirrors_remote_witness.

(* addSenderSDP, for a sender with a track, by attribute key:
   msid "<stream> <track>" once per encoding; a=ssrc lines for exactly the
   encodings of GetParameters (primary, then RTX and FEC SSRCs when non-zero);
   ssrc-group FID iff the RTX SSRC is non-zero, FEC-FR iff the FEC SSRC is
   non-zero; rid and simulcast lines iff there is more than one encoding; and
   nothing else. *)
Theorem c12_sender : forall sn tr,
  sender_track sn = Some tr ->
  let a := sender_attrs (Some sn) in
  let encs := sn_encs sn in
  attrs_with "msid" a = map (fun _ => k_stream tr ++ " " ++ k_id tr) encs
  /\ attrs_with "ssrc" a = flat_map (spec_sources (k_stream tr) (k_id tr)) encs
  /\ attrs_with "ssrc-group" a = flat_map spec_groups encs
  /\ attrs_with "rid" a = (if Nat.ltb 1 (List.length encs) then map (fun e => enc_rid e ++ " send") encs else [])
  /\ attrs_with "simulcast" a =
       (if Nat.ltb 1 (List.length encs) then ["send " ++ join_with ";" (map enc_rid encs)] else [])
  /\ Forall (fun x => In (fst x) ["ssrc-group"; "ssrc"; "msid"; "rid"; "simulcast"]) a.
Proof. exact sender_attrs_spec. Qed.
Print Assumptions c12_sender.

(* no sender, or a sender whose track was removed: nothing is announced *)
Theorem c12_sender_without_track : forall s,
  (s = None \/ exists sn, s = Some sn /\ sender_track sn = None) -> sender_attrs s = [].
Proof. exact sender_attrs_none. Qed.
Print Assumptions c12_sender_without_track.

(* trackDetailsFromSDP reads back what addSenderSDP wrote: for a sender with one
   encoding whose track and stream ids contain no space, SSRCs that fit 32 bits
   and non-zero repair SSRCs that differ from the primary SSRC and from each
   other, the m-section's attributes yield exactly one track with that mid,
   kind, stream id, track id, primary SSRC and RTX / FEC SSRCs. (Any number of
   encodings: c12_track_details_sources / c12_track_details_roundtrip_encodings
   below; this is their one-encoding instance, kept in its explicit form.) *)
Theorem c12_track_details_roundtrip : forall mid k tr ssrc rtx fec neg sent stopped,
  no_space (k_id tr) = true -> no_space (k_stream tr) = true ->
  (ssrc < 4294967296)%N -> (rtx < 4294967296)%N -> (fec < 4294967296)%N ->
  (rtx = 0 \/ rtx <> ssrc)%N -> (fec = 0 \/ fec <> ssrc)%N -> (rtx = 0 \/ fec = 0 \/ rtx <> fec)%N ->
  track_details_media mid k
    (sender_attrs (Some {| sn_encs := [{| e_track := Some tr; e_ssrc := ssrc; e_rtx := rtx; e_fec := fec |}];
                           sn_negotiated := neg; sn_sent := sent; sn_stopped := stopped |}))
  = Ok [{| td_mid := mid; td_kind := k; td_stream := k_stream tr; td_id := k_id tr;
           td_ssrcs := [ssrc]; td_rtx := nz rtx; td_fec := nz fec; td_rids := [] |}].
Proof. exact roundtrip_single. Qed.
Print Assumptions c12_track_details_roundtrip.

(* Any number of encodings (the simulcast envelope). Premises: the first
   encoding's track (= Sender().Track(), whose ids addSenderSDP writes) has ids
   without spaces; every announced ssrc value (primary, and the non-zero RTX /
   FEC ones: [enc_vals]) fits 32 bits and all of them are pairwise distinct.

   First the switch over the attribute lines (ssrc-group / msid / ssrc), i.e.
   tracksInMediaSection before the rid step: exactly one track per encoding, in
   encoding order, each with that encoding's primary SSRC and its RTX / FEC
   SSRCs (None when 0), all with the sender's stream / track ids; the running
   streamID / trackID end as the sender's. *)
Theorem c12_track_details_sources : forall mid k tr e0 rest neg sent stopped,
  e_track e0 = Some tr ->
  no_space (k_id tr) = true -> no_space (k_stream tr) = true ->
  Forall (fun n => (n < 4294967296)%N) (flat_map enc_vals (e0 :: rest)) ->
  NoDup (flat_map enc_vals (e0 :: rest)) ->
  exists st,
    td_loop mid k td_init
      (sender_attrs (Some {| sn_encs := e0 :: rest; sn_negotiated := neg; sn_sent := sent; sn_stopped := stopped |}))
    = Ok st
    /\ ts_tracks st = map (fun e => {| td_mid := mid; td_kind := k; td_stream := k_stream tr; td_id := k_id tr;
                                      td_ssrcs := [e_ssrc e]; td_rtx := nz (e_rtx e); td_fec := nz (e_fec e);
                                      td_rids := [] |}) (e0 :: rest)
    /\ ts_stream st = k_stream tr /\ ts_track st = k_id tr.
Proof. exact sources_of_sender. Qed.
Print Assumptions c12_track_details_sources.

(* ... then what trackDetailsFromSDP returns for the section. With one encoding
   there is no rid line and the result is that track. With several encodings
   the section carries one a=rid line per encoding; when the sender's track and
   stream ids are non-empty the code REPLACES the per-ssrc tracks by a single
   simulcast track: mid, kind, stream id, track id, the rids of the encodings in
   order, and no SSRC at all (the per-encoding SSRCs of the offer are not
   reported for a simulcast section; the receiver learns them from the rid
   header extension). With an empty id the per-ssrc tracks stay. Rids without
   spaces (AddEncoding and NewTrackLocalStaticRTP accept any string). *)
Theorem c12_track_details_roundtrip_encodings : forall mid k tr e0 rest neg sent stopped,
  e_track e0 = Some tr ->
  no_space (k_id tr) = true -> no_space (k_stream tr) = true ->
  Forall (fun e => no_space (enc_rid e) = true) (e0 :: rest) ->
  Forall (fun n => (n < 4294967296)%N) (flat_map enc_vals (e0 :: rest)) ->
  NoDup (flat_map enc_vals (e0 :: rest)) ->
  track_details_media mid k
    (sender_attrs (Some {| sn_encs := e0 :: rest; sn_negotiated := neg; sn_sent := sent; sn_stopped := stopped |}))
  = Ok (if Nat.ltb 1 (List.length (e0 :: rest))
           && (negb (String.eqb (k_id tr) "") && negb (String.eqb (k_stream tr) ""))
        then [{| td_mid := mid; td_kind := k; td_stream := k_stream tr; td_id := k_id tr;
                 td_ssrcs := []; td_rtx := None; td_fec := None; td_rids := map enc_rid (e0 :: rest) |}]
        else map (fun e => {| td_mid := mid; td_kind := k; td_stream := k_stream tr; td_id := k_id tr;
                              td_ssrcs := [e_ssrc e]; td_rtx := nz (e_rtx e); td_fec := nz (e_fec e);
                              td_rids := [] |}) (e0 :: rest)).
Proof. exact roundtrip_encodings. Qed.
Print Assumptions c12_track_details_roundtrip_encodings.

(* premises are satisfiable on non-trivial states *)
Example c12_roundtrip_nontrivial :
  track_details_media "3" Video
    (sender_attrs (Some (single_sender {| k_id := "cam"; k_stream := "room"; k_rid := "" |} 4000000000 17 23)))
  = Ok [{| td_mid := "3"; td_kind := Video; td_stream := "room"; td_id := "cam";
           td_ssrcs := [4000000000%N]; td_rtx := Some 17%N; td_fec := Some 23%N; td_rids := [] |}].
Proof. vm_compute. reflexivity. Qed.

Example c12_sections_nontrivial :
  let p := run_ops (pc_init false)
             [OAddTrack Video {| i_trk := {| k_id := "v"; k_stream := "s"; k_rid := "" |};
                                 i_ssrc := 11; i_rtx := 12; i_fec := 0 |};
              OAddTcvKind Audio (Some Recvonly) {| i_trk := {| k_id := ""; k_stream := ""; k_rid := "" |};
                                                  i_ssrc := 0; i_rtx := 0; i_fec := 0 |};
              OCreateDC] in
  exists p' d fx, create_offer p = (p', ok_desc d, fx)
    /\ map mid_value (d_secs d) = ["0"; "1"; "2"]
    /\ attrs_with "ssrc-group" (sc_attrs (hd (sec_of_tcv (new_tcv Audio Inactive None)) (d_secs d))) = ["FID 11 12"].
Proof. vm_compute. eexists _, _, _. repeat split. Qed.

(* the remark's witness is a reachable state: answer an offer that has an
   application section, then offer *)
Example c12_app_witness_reachable :
  let p := run_ops (pc_init false)
             [OSetRemote TOffer [{| sc_mid := Some "0"; sc_media := MApp; sc_dir := Some Sendrecv; sc_attrs := [] |}]
                         {| rtx_audio := false; rtx_video := false; fec_audio := false; fec_video := false |};
              OCreateAnswer; OSetLocal TAnswer] in
  exists p' d fx, create_offer p = (p', ok_desc d, fx)
    /\ want_data p = false /\ existsb is_app (d_secs d) = true.
Proof. vm_compute. eexists _, _, _. repeat split. Qed.

(* three simulcast encodings with RTX on all and FEC on one: the premises of the
   two encodings theorems hold and the outcomes are as stated *)
Definition c12_simulcast_sender : sender :=
  let t r := {| k_id := "cam"; k_stream := "room"; k_rid := r |} in
  {| sn_encs := [ {| e_track := Some (t "q"); e_ssrc := 10; e_rtx := 11; e_fec := 0 |};
                  {| e_track := Some (t "h"); e_ssrc := 20; e_rtx := 21; e_fec := 22 |};
                  {| e_track := Some (t "f"); e_ssrc := 30; e_rtx := 31; e_fec := 0 |} ];
     sn_negotiated := false; sn_sent := false; sn_stopped := false |}.

Example c12_simulcast_nontrivial :
  NoDup (flat_map enc_vals (sn_encs c12_simulcast_sender))
  /\ track_details_media "0" Video (sender_attrs (Some c12_simulcast_sender))
     = Ok [{| td_mid := "0"; td_kind := Video; td_stream := "room"; td_id := "cam";
              td_ssrcs := []; td_rtx := None; td_fec := None; td_rids := ["q"; "h"; "f"] |}]
  /\ (exists st, td_loop "0" Video td_init (sender_attrs (Some c12_simulcast_sender)) = Ok st
                 /\ map td_ssrcs (ts_tracks st) = [[10%N]; [20%N]; [30%N]]
                 /\ map td_rtx (ts_tracks st) = [Some 11%N; Some 21%N; Some 31%N]
                 /\ map td_fec (ts_tracks st) = [None; Some 22%N; None]).
Proof.
  split; [|split].
  - vm_compute. repeat constructor; cbn; intuition congruence.
  - vm_compute. reflexivity.
  - vm_compute. eexists. repeat split.
Qed.
