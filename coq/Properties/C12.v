(* C12 (placeholder while the model is being tied to the code) *)
From Verif Require Import Model.OfferShape.
