(* C34 Annex-B readers return exactly the framed NAL units. *)
From Verif Require Import Model.AnnexB.
