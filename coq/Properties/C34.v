(* C34 Annex-B readers return exactly the framed NAL units.
   Statements only; proofs live in Proofs/AnnexB.v.  Model/AnnexB.v follows
   h264reader.go and h265reader.go after the fix: commits (one automaton,
   parametrised by the skip rule sk on a unit's first byte). *)
From Coq Require Import List NArith String Bool.
Import ListNotations.
From Verif Require Import Common.Base Common.Media1Util Model.AnnexB Proofs.AnnexB.
Open Scope N_scope.

(* The result of reading depends only on the concatenation of the chunks the
   stream delivers, for any chunking in which every Read returns at least one
   byte until EOF. *)
Theorem c34_chunking : forall sk cs,
  chunks_ok cs -> read_all sk cs = flat_read_all sk (List.concat cs).
Proof. exact chunking. Qed.
Print Assumptions c34_chunking.

(* SEI included (no unit is skipped): for every list of units that are not
   empty, do not end in a zero byte and contain no 0 0 0 / 0 0 1, every start
   code width per unit and every chunking, successive NextNAL calls return
   exactly the units, then EOF. *)
Theorem c34_roundtrip_all : forall sk cs ws,
  (forall b, sk b = false) ->
  chunks_ok cs -> List.concat cs = frame ws -> units_ok ws ->
  read_all sk cs = (map snd ws, "eof"%string).
Proof. exact roundtrip_all. Qed.
Print Assumptions c34_roundtrip_all.

Theorem c34_roundtrip_h264_h265 : forall cs ws,
  chunks_ok cs -> List.concat cs = frame ws -> units_ok ws ->
  read_all (sk264 true) cs = (map snd ws, "eof"%string) /\
  read_all (sk265 true) cs = (map snd ws, "eof"%string).
Proof.
  intros cs ws H1 H2 H3.
  split; apply roundtrip_all; auto using sk264_included, sk265_included.
Qed.
Print Assumptions c34_roundtrip_h264_h265.

(* With a skip rule: exactly the units the rule keeps, wherever the skipped
   ones stand (first, last, several in a row), then EOF. *)
Theorem c34_skip : forall sk cs ws,
  chunks_ok cs -> List.concat cs = frame ws -> units_ok ws ->
  read_all sk cs = (filter (fun n => negb (unit_skipped sk n)) (map snd ws), "eof"%string).
Proof. exact skip_all. Qed.
Print Assumptions c34_skip.

(* the rules of the two readers with SEI inclusion off are "type = SEI" *)
Theorem c34_skip_rules : forall b, b < 256 ->
  sk264 false b = (b mod 32 =? 6) /\
  sk265 false b = (((b / 2) mod 64 =? 39) || ((b / 2) mod 64 =? 40)).
Proof. intros b H. split; [apply sk264_is_sei|apply sk265_is_sei]; exact H. Qed.
Print Assumptions c34_skip_rules.

(* parsed header fields = the bit fields of the header bytes, all 256 resp.
   65536 header values *)
Theorem c34_header_fields_264 : forall b rest, b < 256 ->
  exists h, parse_header264 (b :: rest) = Ok h /\
            forbidden264 h = (128 <=? b) /\ ref_idc h = (b / 32) mod 4 /\ unit_type264 h = b mod 32.
Proof. exact header_fields_264. Qed.
Print Assumptions c34_header_fields_264.

Theorem c34_header_fields_265 : forall b0 b1 rest, b0 < 256 -> b1 < 256 ->
  let h := parse_header265 (b0 :: b1 :: rest) in
  forbidden265 h = (128 <=? b0) /\ unit_type265 h = (b0 / 2) mod 64 /\
  layer_id h = (b0 mod 2) * 32 + b1 / 8 /\ tid_plus1 h = b1 mod 8.
Proof. exact header_fields_265. Qed.
Print Assumptions c34_header_fields_265.

(* premises are satisfiable; the design probe [SPS; SEI] with SEI off *)
Definition ex_units : list (bool * list N) :=
  [(true, [103; 66; 0; 31]); (false, [6; 5; 1; 128]); (true, [101; 0; 0; 3; 0; 1]); (false, [6; 128])].
Example c34_units_ok : forallb (fun wn => nal_ok (snd wn)) ex_units = true.
Proof. reflexivity. Qed.
Example c34_probe_sps_sei :
  read_all (sk264 false) [[0; 0; 0; 1; 103; 66]; [0]; [31; 0; 0; 1; 6; 5; 1; 128]]
  = ([[103; 66; 0; 31]], "eof"%string).
Proof. vm_compute. reflexivity. Qed.
Example c34_example_chunked :
  read_all (sk264 false) (map (fun b => [b]) (frame ex_units))
  = ([[103; 66; 0; 31]; [101; 0; 0; 3; 0; 1]], "eof"%string).
Proof. vm_compute. reflexivity. Qed.
