(* C32 IVF writer output reads back as the written frames.
   Statements only; proofs live in Proofs/Ivf.v.

   [pkt] is a packet descriptor: what pion/rtp's depacketizer returned for the
   packet (assumed contract), [frames_of o ps] the list of writeFrame calls
   the writer model makes on the stream [ps] (bytes, timestamp argument, PTS,
   and - ghost - the packets it was assembled from), [written o ps seekable]
   the bytes in the output after Close. *)
From Coq Require Import String List NArith.
Import ListNotations.
From Verif Require Import Common.Base Model.Ivf Proofs.Ivf Proofs.IvfMore.
Open Scope N_scope.

(* little-endian encoding of every n below the width decodes to n *)
Theorem ivf_le_roundtrip : forall w n,
  n < 2 ^ (8 * N.of_nat w) -> le_val (le_bytes w n) = n /\ length (le_bytes w n) = w.
Proof. exact le_statement. Qed.
Print Assumptions ivf_le_roundtrip.

(* For every descriptor stream (starting at a keyframe or not), every option
   set with non-zero timebase (opts_ok: field widths, num <> 0, den <> 0),
   seekable output or not: the reader returns exactly the frames handed to
   writeFrame, in order, each with its size and with the timestamp
   (pts*den) mod 2^64 / num, and then EOF.
   Bound in the statement: frames shorter than 2^32 bytes (the size field). *)
Theorem c32_roundtrip : forall o ps seekable,
  opts_ok o ->
  Forall (fun f => N.of_nat (length (f_bytes f)) < 4294967296) (frames_of o ps) ->
  exists h,
    read_file (written o ps seekable)
    = Ok (h, map (fun f => mkRframe (f_bytes f) (N.of_nat (length (f_bytes f)))
                                    (u64 (f_pts f * o_den o) / o_num o)) (frames_of o ps),
          "EOF"%string).
Proof. exact roundtrip_statement. Qed.
Print Assumptions c32_roundtrip.

(* header: FourCC of the codec, size and timebase as configured; the count
   field is the number of frames (mod 2^32) iff the output seeks, else the
   placeholder 900 the code writes *)
Theorem c32_header : forall o ps seekable,
  opts_ok o ->
  Forall (fun f => N.of_nat (length (f_bytes f)) < 4294967296) (frames_of o ps) ->
  exists frs e,
    read_file (written o ps seekable)
    = Ok (mkFhdr (fourcc (o_codec o)) (o_width o) (o_height o) (o_den o) (o_num o)
                 (if seekable then N.of_nat (length (frames_of o ps)) mod 4294967296 else 900)
                 32 0, frs, e).
Proof. exact header_statement. Qed.
Print Assumptions c32_header.

(* PTS.  Let p0 be the packet that completed the first written frame.  Every
   frame f, completed by packet pl, was written with
     f_time = (ts(pl) - ts(p0)) mod 2^32                              direct mode
            = (1000 * ((ts(pl) - ts(p0)) mod 2^32)) mod 2^64 / 90000  otherwise
     f_pts  = f_time                                                  direct mode
            = (f_time * num) mod 2^64 / den                           otherwise
   (time_fn, pts_fn in Proofs/Ivf.v), and c32_roundtrip says the reader
   reports (f_pts * den) mod 2^64 / num. *)
Theorem c32_pts : forall o ps f0 rest,
  o_den o <> 0 -> N.of_nat (length ps) < 2 ^ 64 ->
  frames_of o ps = f0 :: rest ->
  exists a0 p0, f_src f0 = a0 ++ [p0] /\
    Forall (fun f => exists a pl, f_src f = a ++ [pl] /\
                       f_time f = time_fn o (p_ts pl) (p_ts p0) /\
                       f_pts f = pts_fn o (f_time f)) (f0 :: rest).
Proof. exact pts_of_frames. Qed.
Print Assumptions c32_pts.

(* Gates.  Every written frame f was assembled from packets f_src f of the
   stream, all with non-empty RTP payload and accepted by the depacketizer;
   its bytes are their depacketized payloads in order (AV1: behind the
   temporal delimiter 12 00); for VP8/VP9 the first of them carries the start
   bit (S / B); the last one carries the marker, and an earlier one can carry a
   marker only (VP8/VP9) while everything collected up to it is empty. *)
Theorem c32_gate : forall o ps,
  o_den o <> 0 ->
  Forall (fun f =>
    incl (f_src f) ps /\
    f_bytes f = (match o_codec o with AV1 => [18; 0] | _ => [] end) ++ flat_map p_payload (f_src f) /\
    Forall (fun p => p_raw_empty p = false /\ p_err p = false) (f_src f) /\
    (o_codec o <> AV1 -> match f_src f with [] => True | p :: _ => p_start p = true end) /\
    exists a pl, f_src f = a ++ [pl] /\ p_marker pl = true /\
      forall a1 p b, a = a1 ++ p :: b -> p_marker p = true ->
                     o_codec o <> AV1 /\ flat_map p_payload (a1 ++ [p]) = [])
  (frames_of o ps).
Proof. exact gate_statement. Qed.
Print Assumptions c32_gate.

(* Nothing is written before a keyframe packet: VP8 first payload octet has
   bit 0 clear, VP9 P = 0, AV1 N = 1 or the payload starts with a sequence
   header OBU (key_pkt, Proofs/Ivf.v) *)
Theorem c32_gate_keyframe : forall o ps,
  o_den o <> 0 ->
  Forall (fun p => key_pkt (o_codec o) p = false) ps ->
  frames_of o ps = [] /\ written o ps false = ivf_header o 900.
Proof. exact gate_keyframe_statement. Qed.
Print Assumptions c32_gate_keyframe.

(* The stronger keyframe gate: whatever precedes the first keyframe packet -
   interframes, undecodable or empty payloads, any timestamps, any number of
   packets - leaves no trace: the file (both output kinds), the frames with
   their timestamps and source packets, and the results of the WriteRTP calls
   from the keyframe packet on are those of the stream that starts there; the
   calls of the prefix do not panic.  (firstFrameTimestamp is written by every
   non-empty packet while no frame has been written and read only after the
   same packet has written it, so the value a prefix leaves behind is dead.) *)
Theorem c32_gate_prefix : forall o pre ps seekable,
  Forall (fun p => key_pkt (o_codec o) p = false) pre ->
  written o (pre ++ ps) seekable = written o ps seekable /\
  frames_of o (pre ++ ps) = frames_of o ps /\
  skipn (length pre) (snd (run_packets o (init_state o) (pre ++ ps)))
  = snd (run_packets o (init_state o) ps) /\
  ~ In SPanic (firstn (length pre) (snd (run_packets o (init_state o) (pre ++ ps)))).
Proof. exact prefix_no_trace. Qed.
Print Assumptions c32_gate_prefix.

(* The size premise of c32_roundtrip is needed, for every stream: as soon as
   one assembled frame has 2^32 bytes or more (its size field holds the length
   mod 2^32, c32_oversize_frame), the file does not read back as the frames
   handed to writeFrame, whatever header and final error one allows.  (No
   concrete witness: a 4 GiB frame is not a Coq term, nor a harness case.) *)
Theorem c32_oversize_frame : forall o f rest,
  o_num o <> 0 -> f_pts f < 2 ^ 64 ->
  4294967296 <= N.of_nat (length (f_bytes f)) ->
  exists fr rest',
    parse_next_frame (o_den o) (o_num o) (frame_record f ++ rest) = Ok (fr, rest') /\
    r_size fr = N.of_nat (length (f_bytes f)) mod 4294967296 /\
    N.of_nat (length (r_payload fr)) = N.of_nat (length (f_bytes f)) mod 4294967296 /\
    r_payload fr <> f_bytes f.
Proof. exact parse_frame_oversize. Qed.
Print Assumptions c32_oversize_frame.

Theorem c32_size_premise_needed : forall o ps seekable,
  opts_ok o ->
  ~ Forall (fun f => N.of_nat (length (f_bytes f)) < 4294967296) (frames_of o ps) ->
  forall h e,
    read_file (written o ps seekable)
    <> Ok (h, map (fun f => mkRframe (f_bytes f) (N.of_nat (length (f_bytes f)))
                                     (u64 (f_pts f * o_den o) / o_num o)) (frames_of o ps), e).
Proof. exact size_premise_needed. Qed.
Print Assumptions c32_size_premise_needed.

(* WriteRTP never panics once NewWith accepted the options (after fix 73900d2;
   before it a VP8 descriptor with an empty payload indexed out of range) *)
Theorem c32_no_panic : forall o ps,
  o_den o <> 0 -> ~ In SPanic (snd (run_packets o (init_state o) ps)).
Proof. exact no_panic_statement. Qed.
Print Assumptions c32_no_panic.

(* premises are satisfiable on a non-trivial stream: VP8 keyframe in two
   packets, then an interframe; timestamps across 2^32 *)
Example c32_example :
  let o := mkOpts VP8 640 480 1 30 false in
  let ps := [mkPkt 4294967000 false false false true false [156; 1; 2];
             mkPkt 4294967000 true false false false false [3; 4];
             mkPkt 2704 true false false true false [157; 7]] in
  opts_ok o /\
  map f_bytes (frames_of o ps) = [[156; 1; 2; 3; 4]; [157; 7]] /\
  map f_pts (frames_of o ps) = [0; 1].
Proof. cbv zeta. repeat split; try (vm_compute; congruence); vm_compute; reflexivity. Qed.

(* a prefix without keyframe packet (interframe, undecodable packet, empty
   payload) before the stream of c32_example: same frames, same PTS *)
Example c32_example_prefix :
  let o := mkOpts VP8 640 480 1 30 false in
  let pre := [mkPkt 77 true false false true false [157; 9]; mkPkt 99 false false true false false [];
              mkPkt 5 true true false false false []] in
  let ps := [mkPkt 4294967000 false false false true false [156; 1; 2];
             mkPkt 4294967000 true false false false false [3; 4];
             mkPkt 2704 true false false true false [157; 7]] in
  Forall (fun p => key_pkt VP8 p = false) pre /\
  map f_bytes (frames_of o (pre ++ ps)) = [[156; 1; 2; 3; 4]; [157; 7]] /\
  map f_pts (frames_of o (pre ++ ps)) = [0; 1].
Proof. cbv zeta. split; [repeat constructor|]. split; vm_compute; reflexivity. Qed.

(* a stream without a keyframe packet that is not empty *)
Example c32_example_nokey :
  Forall (fun p => key_pkt VP8 p = false)
         [mkPkt 10 true false false true false [157; 7]; mkPkt 20 true true false false false []].
Proof. repeat constructor. Qed.
