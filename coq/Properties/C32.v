(* C32 IVF writer output reads back as the written frames.
   Statements only; proofs live in Proofs/Ivf.v. *)
From Coq Require Import List NArith.
Import ListNotations.
From Verif Require Import Common.Base Model.Ivf Proofs.Ivf.
Open Scope N_scope.

(* little-endian encoding of every n below the width decodes to n *)
Theorem ivf_le_roundtrip : forall w n,
  n < 2 ^ (8 * N.of_nat w) -> le_val (le_bytes w n) = n /\ length (le_bytes w n) = w.
Proof. intros w n H; split; [exact (le_roundtrip w n H) | exact (le_bytes_length w n)]. Qed.
Print Assumptions ivf_le_roundtrip.
