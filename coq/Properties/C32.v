(* C32 IVF writer output reads back as the written frames.
   Statements only; proofs live in Proofs/Ivf.v.

   [pkt] is a packet descriptor: what pion/rtp's depacketizer returned for the
   packet (assumed contract), [frames_of o ps] the list of writeFrame calls
   the writer model makes on the stream [ps], [written o ps seekable] the
   bytes in the output after Close. *)
From Coq Require Import String List NArith.
Import ListNotations.
From Verif Require Import Common.Base Model.Ivf Proofs.Ivf.
Open Scope N_scope.

(* little-endian encoding of every n below the width decodes to n *)
Theorem ivf_le_roundtrip : forall w n,
  n < 2 ^ (8 * N.of_nat w) -> le_val (le_bytes w n) = n /\ length (le_bytes w n) = w.
Proof. intros w n H; split; [exact (le_roundtrip w n H) | exact (le_bytes_length w n)]. Qed.
Print Assumptions ivf_le_roundtrip.

(* For every descriptor stream (starting at a keyframe or not), every option
   set with non-zero timebase, seekable output or not: the reader returns
   exactly the frames handed to writeFrame, in order, each with its size and
   with the timestamp pts*den/num (uint64), and then EOF.
   Bound in the statement: frames shorter than 2^32 bytes (the size field). *)
Theorem c32_roundtrip : forall o ps seekable,
  opts_ok o ->
  Forall (fun f => N.of_nat (length (f_bytes f)) < 4294967296) (frames_of o ps) ->
  exists h,
    read_file (written o ps seekable)
    = Ok (h, map (read_back o) (frames_of o ps), "EOF"%string).
Proof. intros o ps seekable Hok Hl. eexists. exact (roundtrip o ps seekable Hok Hl). Qed.
Print Assumptions c32_roundtrip.

(* header: FourCC of the codec, size and timebase as configured; the count
   field is the number of frames (mod 2^32) iff the output seeks, else the
   placeholder 900 the code writes *)
Theorem c32_header : forall o ps seekable,
  opts_ok o ->
  Forall (fun f => N.of_nat (length (f_bytes f)) < 4294967296) (frames_of o ps) ->
  exists frs e,
    read_file (written o ps seekable)
    = Ok (mkFhdr (fourcc (o_codec o)) (o_width o) (o_height o) (o_den o) (o_num o)
                 (if seekable then N.of_nat (length (frames_of o ps)) mod 4294967296 else 900)
                 32 0, frs, e).
Proof. intros o ps seekable Hok Hl. do 2 eexists. exact (roundtrip_header o ps seekable Hok Hl). Qed.
Print Assumptions c32_header.

(* WriteRTP never panics once NewWith accepted the options (after fix 73900d2;
   before it a VP8 descriptor with an empty payload indexed out of range) *)
Theorem c32_no_panic : forall o ps,
  o_den o <> 0 -> ~ In SPanic (snd (run_packets o (init_state o) ps)).
Proof. intros o ps H. exact (run_packets_no_panic o ps (init_state o) H). Qed.
Print Assumptions c32_no_panic.

(* premises are satisfiable on a non-trivial stream: VP8 keyframe in two
   packets, then an interframe; timestamps across 2^32 *)
Example c32_example :
  let o := mkOpts VP8 640 480 1 30 false in
  let ps := [mkPkt 4294967000 false false false true false [156; 1; 2];
             mkPkt 4294967000 true false false false false [3; 4];
             mkPkt 2704 true false false true false [157; 7]] in
  opts_ok o /\
  map f_bytes (frames_of o ps) = [[156; 1; 2; 3; 4]; [157; 7]] /\
  map f_pts (frames_of o ps) = [0; 1].
Proof. cbv zeta. repeat split; try (vm_compute; congruence); vm_compute; reflexivity. Qed.
