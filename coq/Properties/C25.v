(* C25 stub *)
From Verif Require Import Model.Candidate.
