(* C25 ICE candidates round-trip through their signalling form.
   Statements only; proofs live in Proofs/Candidate.v.
   [join_exts] / [split_exts] are setExtensions / exportExtensions of
   icecandidate.go transcribed character by character; [from_ice] / [to_ice]
   are newICECandidateFromICE / ToICE; [add_ice_candidate] is the ufrag filter
   of AddICECandidate.  pion/ice candidates are records of what their getters
   return; AddExtension is transcribed as documented; its Marshal /
   UnmarshalCandidate pair is an assumed contract (premise [wire_getters]). *)
From Coq Require Import String Ascii NArith Bool List.
Import ListNotations.
From Verif Require Import Common.Base Model.Candidate Proofs.Candidate.

(* The hand-written splitter inverts the joiner for every extension list whose
   keys are non-empty and space-free and whose values are space-free -
   including empty values anywhere (first, middle, last, consecutive) and
   repeated keys: exportExtensions calls AddExtension with exactly the pairs
   setExtensions wrote, in order. *)
Theorem c25_ext_roundtrip : forall exts,
  Forall ext_ok exts -> split_exts (join_exts exts) = exts.
Proof. exact split_join. Qed.
Print Assumptions c25_ext_roundtrip.

(* Full statement: for every candidate pion/ice can hold,
     ToICE (newICECandidateFromICE i) succeeds and reports the same foundation,
     component, protocol, priority, address, port, type, related address/port,
     TCP type and extensions.
   The faithful model violates it when an extension key is repeated (pion/ice's
   UnmarshalCandidate keeps repeated keys, AddExtension replaces): *)
Theorem c25_fields_refuted :
  Forall ext_ok (i_exts dup_cand) /\
  exists i', to_ice (from_ice dup_cand) = Ok i' /\ w_ext (from_ice i') <> w_ext (from_ice dup_cand).
Proof. exact dup_refuted. Qed.
Print Assumptions c25_fields_refuted.

(* [representable]: well-formed extension pairs with pairwise distinct keys
   other than tcptype (which lives in its own field), no related address on
   host candidates, ports below 2^16 - everything else is arbitrary (any type,
   protocol, foundation, component, priority, address form, TCP type).  With
   that guard the conversion round-trips on every listed field, and so does
   the whole path through the wire, given that pion/ice's Marshal followed by
   UnmarshalCandidate preserves what the getters return (premise
   [wire_getters]; suite icecontract checks exactly this on generated
   candidates on every run, direct oracle ice-contract-getter-not-preserved). *)
Section Wire.
  Variable wire : ice_cand -> ice_cand.     (* UnmarshalCandidate (Marshal i) *)
  Hypothesis wire_getters : forall i, from_ice (wire i) = from_ice i.

  Theorem c25_fields_partial : forall i, representable i ->
    exists i', to_ice (from_ice i) = Ok i' /\ from_ice (wire i') = from_ice i.
  Proof.
    intros i H. destruct (fields_roundtrip i H) as (i' & H1 & H2).
    exists i'. split; [exact H1|]. now rewrite wire_getters.
  Qed.
End Wire.
Print Assumptions c25_fields_partial.

(* AddICECandidate with an applied remote description never fails on a parsed
   candidate; it drops the candidate (returns nil without handing it to the ICE
   transport) exactly when the candidate carries a ufrag extension (the first
   one counts) whose value is neither the session-level ice-ufrag nor the
   ice-ufrag of any media section. *)
Theorem c25_ufrag_filter : forall d i,
  (add_ice_candidate (Some d) i = Dropped <->
     exists u, get_ext (s "ufrag") (i_exts i) = Some u /\ d_session d <> Some u /\ ~ In (Some u) (d_media d)) /\
  (add_ice_candidate (Some d) i = Forwarded \/ add_ice_candidate (Some d) i = Dropped).
Proof. exact ufrag_filter. Qed.
Print Assumptions c25_ufrag_filter.

(* The filter composed with the signalling round trip: for every representable
   candidate (in particular every one whose extension list contains a ufrag),
   ToJSON succeeds and AddICECandidate's decision on the candidate parsed back
   from the signalled string equals its decision on the original.  [wire] is
   pion/ice's UnmarshalCandidate (Marshal i'); the filter reads the parsed
   candidate through GetExtension, whose preservation is the visible premise
   (checked on generated candidates by suite icecontract on every run). *)
Section FilterWire.
  Variable wire : ice_cand -> ice_cand.     (* UnmarshalCandidate (Marshal i) *)
  Hypothesis wire_get_extension : forall i k, get_ext k (i_exts (wire i)) = get_ext k (i_exts i).

  Theorem c25_filter_roundtrip_invariant : forall d i, representable i ->
    exists i', to_ice (from_ice i) = Ok i' /\
               add_ice_candidate d (wire i') = add_ice_candidate d i.
  Proof. exact (filter_roundtrip wire wire_get_extension). Qed.

  (* spelled out for a candidate that carries a ufrag: after the round trip it
     is dropped iff that ufrag is neither the session-level nor a media-level
     ice-ufrag of the applied description, forwarded iff it is one of them *)
  Theorem c25_filter_roundtrip_ufrag : forall d i u, representable i ->
    get_ext (s "ufrag") (i_exts i) = Some u ->
    exists i', to_ice (from_ice i) = Ok i' /\
      (add_ice_candidate (Some d) (wire i') = Dropped <-> d_session d <> Some u /\ ~ In (Some u) (d_media d)) /\
      (add_ice_candidate (Some d) (wire i') = Forwarded <-> (d_session d = Some u \/ In (Some u) (d_media d))).
  Proof. exact (filter_roundtrip_ufrag wire wire_get_extension). Qed.
End FilterWire.
Print Assumptions c25_filter_roundtrip_invariant.
Print Assumptions c25_filter_roundtrip_ufrag.

(* "the ufrag extension": GetExtension returns the first pair with the key *)
Theorem c25_get_extension_first : forall k l v, get_ext k l = Some v <->
  exists l1 l2, l = l1 ++ (k, v) :: l2 /\ ~ In k (keys l1).
Proof. exact get_ext_spec. Qed.
Print Assumptions c25_get_extension_first.

(* premises are satisfiable on a non-trivial candidate: tcp host with tcptype,
   an empty value in the middle and at the end *)
Example c25_representable_example :
  representable ex_cand /\
  string_of_list_ascii (w_ext (from_ice ex_cand)) = "tcptype passive generation 0 a  ufrag "%string.
Proof. exact ex_cand_ok. Qed.
