(* C03 A rejected SetLocal/SetRemoteDescription leaves negotiation state
   unchanged.
   Full statement (the property): if either call returns an error then the
   signaling state and the four pending/current descriptions are what they
   were and no signaling-state-change event is emitted, whatever the error.
   After "fix: validate the remote description before applying it" the checks
   of SetRemoteDescription that only read the parsed description (mid, ICE
   ufrag/pwd, candidate lines, fingerprint) run before setDescription; with
   them every error raised before the state is stored - closed connection,
   JSEP 5.4 refusal, unparsable SDP, unknown type, description differing from
   the last created offer/answer, invalid edge, and now those six - leaves the
   whole negotiation record (state, four descriptions, last offer/answer, event
   log) unchanged (c03_local_partial, c03_remote_partial).
   What is left of the violation: the steps that run after setDescription and
   can fail - remote: MediaEngine.updateFromRemoteDescription (Codec),
   RTPTransceiver.Stop for an inactive section (Stop), ICETransport.
   AddRemoteCandidate (AddCandidate), startRTPSenders (Send); local:
   startRTPSenders (Send), ICEGatherer.Gather (Gather).  The full statement is
   refuted on both sides with one witness per class (c03_remote_full_refuted,
   c03_remote_classes_refuted, c03_local_full_refuted,
   c03_local_classes_refuted), and an error comes with the record changed IF
   AND ONLY IF its class is one of these (c03_error_after_transition_iff,
   c03_post_classes_by_side): the partial theorems and the refutations
   together cover every error class of the model. *)
From Coq Require Import List Bool NArith String.
Import ListNotations.
From Verif Require Import Common.Base Model.Signaling Proofs.Signaling Proofs.SignalingHist
  Proofs.SignalingAtomic.

(* pre_error e  :=  e is one of pre_classes  = InvalidState, InvalidModification, Parse,
                    Type, Operation, NoMid, Candidate, NoUfrag, NoPwd, NoFingerprint,
                    BadFingerprint
   post_error e :=  e is one of post_classes = Codec, Stop, AddCandidate, Send, Gather *)

Theorem c03_local_partial : forall ops d n' e,
  step (run ops) (OSetLocal d) = (n', Err e) -> pre_error e -> n' = run ops.
Proof. intros ops d n' e; exact (set_local_pre_unchanged as_is (run ops) d n' e). Qed.
Print Assumptions c03_local_partial.

Theorem c03_remote_partial : forall ops d n' e,
  step (run ops) (OSetRemote d) = (n', Err e) -> pre_error e -> n' = run ops.
Proof. intros ops d n' e; exact (set_remote_pre_unchanged as_is (run ops) d n' e). Qed.
Print Assumptions c03_remote_partial.

(* every error is of exactly one kind; an error of the second kind always
   comes with the transition applied: state moved along the edge, one event *)
Theorem c03_error_kinds : forall ops sd d n' e,
  step (run ops) (set_op sd d) = (n', Err e) ->
  (pre_error e /\ n' = run ops) \/
  (post_error e /\ n' <> run ops /\
   w3c_edge (st (run ops)) sd (d_ty d) = Some (st n') /\
   events n' = (events (run ops) ++ [st n'])%list).
Proof. intros ops; exact (set_step_error_kinds as_is (run ops)). Qed.
Print Assumptions c03_error_kinds.

(* an error is returned with the negotiation record changed if and only if it
   comes from one of the listed post-transition classes *)
Theorem c03_error_after_transition_iff : forall ops sd d n' e,
  step (run ops) (set_op sd d) = (n', Err e) ->
  (n' <> run ops <-> In e [ECodec; EStop; EAddCand; ESend; EGather]).
Proof. intros ops; exact (set_step_error_after_iff as_is (run ops)). Qed.
Print Assumptions c03_error_after_transition_iff.

(* which of them each side can raise *)
Theorem c03_post_classes_by_side : forall ops d n' e,
  (step (run ops) (OSetLocal d) = (n', Err e) -> n' <> run ops ->
   e = ESend \/ e = EGather) /\
  (step (run ops) (OSetRemote d) = (n', Err e) -> n' <> run ops ->
   e = ECodec \/ e = EStop \/ e = EAddCand \/ e = ESend).
Proof.
  intros ops d n' e; split; intros H Hne.
  - apply (set_local_post_classes as_is (run ops) d n' e H).
    apply (set_step_error_after_iff as_is (run ops) Local d n' e H). exact Hne.
  - apply (set_remote_post_classes as_is (run ops) d n' e H).
    apply (set_step_error_after_iff as_is (run ops) Remote d n' e H). exact Hne.
Qed.
Print Assumptions c03_post_classes_by_side.

(* ---- refutations of the full statement ---- *)
(* flags: media, all-mid, candidates, ufrag, pwd, fingerprint, two-token
   fingerprint, senders; the rest good *)
Definition fl (m a c u p f f2 s : bool) : dflags :=
  {| parses := true; codecs_ok := true; all_mid := a; cands_ok := c; has_ufrag := u;
     has_pwd := p; has_fp := f; fp_two := f2; send_ok := s; has_media := m;
     addcand_ok := true; gather_ok := true; stop_ok := true |}.
(* codecs, add-candidate, gather, stop; the rest good *)
Definition fl2 (c a g s : bool) : dflags :=
  {| parses := true; codecs_ok := c; all_mid := true; cands_ok := true; has_ufrag := true;
     has_pwd := true; has_fp := true; fp_two := true; send_ok := true; has_media := true;
     addcand_ok := a; gather_ok := g; stop_ok := s |}.
Definition dsf (ty : sdptype) (id : N) (f : dflags) : desc :=
  {| d_ty := ty; d_txt := {| t_id := id; t_fl := f |} |}.
Definition ds (ty : sdptype) (id : N) : desc := dsf ty id good_flags.

(* remote: stable + an offer with a media section whose formats
   updateFromRemoteDescription cannot read: error, yet have-remote-offer, the
   offer pending, one event *)
Theorem c03_remote_full_refuted :
  exists ops d n' e,
    step (run ops) (OSetRemote d) = (n', Err e) /\
    st (run ops) = Stable /\ st n' = HaveRemoteOffer /\
    pendR (run ops) = None /\ pendR n' = Some d /\
    events (run ops) = [] /\ events n' = [HaveRemoteOffer].
Proof.
  exists [], (dsf Offer 24 (fl2 false true true true)).
  eexists; eexists. repeat split; reflexivity.
Qed.
Print Assumptions c03_remote_full_refuted.

(* one witness per error class raised after the transition in
   SetRemoteDescription *)
Theorem c03_remote_classes_refuted :
  Forall (fun e => exists ops d n',
            step (run ops) (OSetRemote d) = (n', Err e) /\ st n' <> st (run ops))
         [ECodec; EStop; EAddCand; ESend].
Proof.
  repeat constructor.
  - exists [], (dsf Offer 24 (fl2 false true true true)).
    eexists; split; [reflexivity | discriminate].
  - exists [], (dsf Offer 26 (fl2 true true true false)).
    eexists; split; [reflexivity | discriminate].
  - exists [], (dsf Offer 25 (fl2 true false false true)).
    eexists; split; [reflexivity | discriminate].
  - exists [OCreateOffer 16 true; OSetLocal (ds Offer 16)],
           (dsf Answer 32 (fl true true true true true true true false)).
    eexists; split; [reflexivity | discriminate].
Qed.
Print Assumptions c03_remote_classes_refuted.

(* local: the answer drops the codec of a bound track; SetLocalDescription
   returns the sender's error with the exchange already completed *)
Theorem c03_local_full_refuted :
  exists ops d n' e,
    step (run ops) (OSetLocal d) = (n', Err e) /\
    st (run ops) = HaveRemoteOffer /\ st n' = Stable /\
    curL (run ops) = None /\ curL n' = Some d /\
    curR n' = pendR (run ops) /\ events n' = [HaveRemoteOffer; Stable].
Proof.
  exists [OSetRemote (ds Offer 16); OCreateAnswer 32 false true],
         (dsf Answer 32 (fl true true true true true true true false)).
  eexists; eexists. repeat split; reflexivity.
Qed.
Print Assumptions c03_local_full_refuted.

(* one witness per class on the local side; Gather: a connection whose ICE
   agent cannot be created, given SetLocalDescription({offer, ""}) before any
   CreateOffer (JSEP 5.4 substitutes the empty last offer) *)
Theorem c03_local_classes_refuted :
  Forall (fun e => exists ops d n',
            step (run ops) (OSetLocal d) = (n', Err e) /\ st n' <> st (run ops))
         [ESend; EGather].
Proof.
  repeat constructor.
  - exists [OSetRemote (ds Offer 16); OCreateAnswer 32 false true],
           (dsf Answer 32 (fl true true true true true true true false)).
    eexists; split; [reflexivity | discriminate].
  - exists [], (dsf Offer 0 (with_no_agent empty_flags false)).
    eexists; split; [reflexivity | discriminate].
Qed.
Print Assumptions c03_local_classes_refuted.

(* ---- the premises of the partial theorems are satisfiable, one error cause
   each, on a connection with an exchange in progress ---- *)
Example c03_pre_errors_reachable :
  let n := run [OCreateOffer 16 true; OSetLocal (ds Offer 16)] in
  snd (step n (OSetLocal (ds Offer 99))) = Err EInvalidModification /\      (* not the last offer *)
  snd (step n (OSetLocal (ds Offer 16))) = Err EInvalidModification /\      (* invalid edge *)
  snd (step n (OSetLocal (dsf Rollback 0 empty_flags))) = Err EInvalidModification /\ (* JSEP 5.4 *)
  snd (step n (OSetRemote (ds TOut 48))) = Err EType /\
  snd (step n (OSetRemote (dsf Answer 48
         {| parses := false; codecs_ok := true; all_mid := true; cands_ok := true;
            has_ufrag := true; has_pwd := true; has_fp := true; fp_two := true;
            send_ok := true; has_media := true;
            addcand_ok := true; gather_ok := true; stop_ok := true |}))) = Err EParse /\
  snd (step (fst (step n OClose)) (OSetRemote (ds Answer 48))) = Err EInvalidState /\
  snd (step n (OSetRemote (ds Answer 48))) = Ok tt.
Proof. cbn zeta. repeat split; reflexivity. Qed.

(* the six classes the fix moved in front of setDescription: each is raised on
   a fresh connection given an offer and leaves it exactly as it was (before
   the fix each of these came with have-remote-offer and the offer pending) *)
Example c03_validation_errors_unchanged :
  Forall (fun ef : string * dflags =>
            step (run []) (OSetRemote (dsf Offer 18 (snd ef))) = (run [], Err (fst ef)))
    [(ENoMid, fl true false true true true true true true);
     (ECandidate, fl true true false true true true true true);
     (ENoUfrag, fl true true true false true true true true);
     (ENoPwd, fl true true true true false true true true);
     (ENoFingerprint, fl true true true true true false true true);
     (EBadFingerprint, fl true true true true true true false true)].
Proof. repeat constructor. Qed.
