(* C03 A rejected SetLocal/SetRemoteDescription leaves negotiation state
   unchanged.
   Full statement (the property): if either call returns an error then the
   signaling state and the four pending/current descriptions are what they
   were and no signaling-state-change event is emitted, whatever the error.
   The code as it is violates it on both sides: c03_remote_full_refuted (one
   witness per error class raised after the transition: c03_remote_classes_
   refuted) and c03_local_full_refuted.  Proved: every error raised before the
   transition - closed connection, JSEP 5.4 refusal, unparsable SDP, unknown
   type, description differing from the last created offer/answer, invalid
   edge - leaves the whole negotiation record (state, four descriptions, last
   offer/answer, event log) unchanged (c03_local_partial, c03_remote_partial);
   and the error class alone tells which of the two happened
   (c03_error_kinds). *)
From Coq Require Import List Bool NArith String.
Import ListNotations.
From Verif Require Import Common.Base Model.Signaling Proofs.Signaling Proofs.SignalingHist
  Proofs.SignalingAtomic.

(* pre_error e  :=  e is InvalidState, InvalidModification, Parse, Type or Operation
   post_error e :=  e is Codec, NoMid, Candidate, NoUfrag, NoPwd, NoFingerprint,
                    BadFingerprint or Send *)

Theorem c03_local_partial : forall ops d n' e,
  step (run ops) (OSetLocal d) = (n', Err e) -> pre_error e -> n' = run ops.
Proof. intros ops d n' e; exact (set_local_pre_unchanged as_is (run ops) d n' e). Qed.
Print Assumptions c03_local_partial.

Theorem c03_remote_partial : forall ops d n' e,
  step (run ops) (OSetRemote d) = (n', Err e) -> pre_error e -> n' = run ops.
Proof. intros ops d n' e; exact (set_remote_pre_unchanged as_is (run ops) d n' e). Qed.
Print Assumptions c03_remote_partial.

(* every error is of exactly one kind; an error of the second kind always
   comes with the transition applied: state moved along the edge, one event *)
Theorem c03_error_kinds : forall ops sd d n' e,
  step (run ops) (set_op sd d) = (n', Err e) ->
  (pre_error e /\ n' = run ops) \/
  (post_error e /\ n' <> run ops /\
   w3c_edge (st (run ops)) sd (d_ty d) = Some (st n') /\
   events n' = (events (run ops) ++ [st n'])%list).
Proof. intros ops; exact (set_step_error_kinds as_is (run ops)). Qed.
Print Assumptions c03_error_kinds.

(* ---- refutations of the full statement ---- *)
Definition fl (m a c u p f f2 s : bool) : dflags :=
  {| parses := true; codecs_ok := true; all_mid := a; cands_ok := c; has_ufrag := u;
     has_pwd := p; has_fp := f; fp_two := f2; send_ok := s; has_media := m |}.
Definition dsf (ty : sdptype) (id : N) (f : dflags) : desc :=
  {| d_ty := ty; d_txt := {| t_id := id; t_fl := f |} |}.
Definition ds (ty : sdptype) (id : N) : desc := dsf ty id good_flags.

(* remote: stable + an offer without ice-ufrag: error, yet have-remote-offer,
   the offer pending, one event *)
Theorem c03_remote_full_refuted :
  exists ops d n' e,
    step (run ops) (OSetRemote d) = (n', Err e) /\
    st (run ops) = Stable /\ st n' = HaveRemoteOffer /\
    pendR (run ops) = None /\ pendR n' = Some d /\
    events (run ops) = [] /\ events n' = [HaveRemoteOffer].
Proof.
  exists [], (dsf Offer 19 (fl true true true false true true true true)).
  eexists; eexists. repeat split; reflexivity.
Qed.
Print Assumptions c03_remote_full_refuted.

(* one witness per error class raised after the transition in
   SetRemoteDescription *)
Theorem c03_remote_classes_refuted :
  Forall (fun e => exists ops d n',
            step (run ops) (OSetRemote d) = (n', Err e) /\ st n' <> st (run ops))
         [ENoMid; ECandidate; ENoUfrag; ENoPwd; ENoFingerprint; EBadFingerprint; ESend].
Proof.
  repeat constructor.
  - exists [], (dsf Offer 18 (fl true false true true true true true true)).
    eexists; split; [reflexivity | discriminate].
  - exists [], (dsf Offer 23 (fl true true false true true true true true)).
    eexists; split; [reflexivity | discriminate].
  - exists [], (dsf Offer 19 (fl true true true false true true true true)).
    eexists; split; [reflexivity | discriminate].
  - exists [], (dsf Offer 20 (fl true true true true false true true true)).
    eexists; split; [reflexivity | discriminate].
  - exists [], (dsf Offer 21 (fl true true true true true false true true)).
    eexists; split; [reflexivity | discriminate].
  - exists [], (dsf Offer 22 (fl true true true true true true false true)).
    eexists; split; [reflexivity | discriminate].
  - exists [OCreateOffer 16; OSetLocal (ds Offer 16)],
           (dsf Answer 32 (fl true true true true true true true false)).
    eexists; split; [reflexivity | discriminate].
Qed.
Print Assumptions c03_remote_classes_refuted.

(* local: the answer drops the codec of a bound track; SetLocalDescription
   returns the sender's error with the exchange already completed *)
Theorem c03_local_full_refuted :
  exists ops d n' e,
    step (run ops) (OSetLocal d) = (n', Err e) /\
    st (run ops) = HaveRemoteOffer /\ st n' = Stable /\
    curL (run ops) = None /\ curL n' = Some d /\
    curR n' = pendR (run ops) /\ events n' = [HaveRemoteOffer; Stable].
Proof.
  exists [OSetRemote (ds Offer 16); OCreateAnswer 32 false],
         (dsf Answer 32 (fl true true true true true true true false)).
  eexists; eexists. repeat split; reflexivity.
Qed.
Print Assumptions c03_local_full_refuted.

(* ---- the premises of the partial theorems are satisfiable, one error cause
   each, on a connection with an exchange in progress ---- *)
Example c03_pre_errors_reachable :
  let n := run [OCreateOffer 16; OSetLocal (ds Offer 16)] in
  snd (step n (OSetLocal (ds Offer 99))) = Err EInvalidModification /\      (* not the last offer *)
  snd (step n (OSetLocal (ds Offer 16))) = Err EInvalidModification /\      (* invalid edge *)
  snd (step n (OSetLocal (dsf Rollback 0 empty_flags))) = Err EInvalidModification /\ (* JSEP 5.4 *)
  snd (step n (OSetRemote (ds TOut 48))) = Err EType /\
  snd (step n (OSetRemote (dsf Answer 48
         {| parses := false; codecs_ok := true; all_mid := true; cands_ok := true;
            has_ufrag := true; has_pwd := true; has_fp := true; fp_two := true;
            send_ok := true; has_media := true |}))) = Err EParse /\
  snd (step (fst (step n OClose)) (OSetRemote (ds Answer 48))) = Err EInvalidState /\
  snd (step n (OSetRemote (ds Answer 48))) = Ok tt.
Proof. cbn zeta. repeat split; reflexivity. Qed.
