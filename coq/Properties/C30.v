(* C30 No remote input can crash the process.
   Statements only; proofs live in Proofs/Walkers.v and Proofs/WalkersBytes.v.

   Full property (properties.jsonl): no SDP text given to SetRemoteDescription,
   no candidate string given to AddICECandidate and no RTP/RTCP packet can make
   the process panic, under any SDPSemantics, including background work.
   What is proved here is the part of that statement that lives in pion/webrtc's
   own attribute walkers and byte-level guards: each is modelled with an explicit
   [Panic] at every index expression, slice expression and dereference the Go
   code performs, and shown never to reach one, for every input.  pion/sdp,
   pion/ice, pion/rtp and the rest of the call graph are searched by the harness
   (mutation suites), not proved: see props/C30.json planned_not_proved. *)
From Coq Require Import List NArith String.
Import ListNotations.
From Verif Require Import Common.Base Model.Walkers Proofs.Walkers Proofs.WalkersBytes Proofs.WalkersFilter.
Open Scope string_scope.

(* sdp.go trackDetailsFromSDP: a=ssrc / a=ssrc-group (FID, FEC-FR) / a=msid
   parsing with its Split index accesses and tracks[i].ssrcs[0] *)
Theorem c30_track_details_no_panic : forall d : desc, track_details d <> Panic.
Proof. exact track_details_no_panic. Qed.
Print Assumptions c30_track_details_no_panic.

(* sdp.go getRids: a=rid split[0], a=simulcast slicing *)
Theorem c30_get_rids_no_panic : forall m : media, get_rids m <> Panic.
Proof. exact get_rids_no_panic. Qed.
Print Assumptions c30_get_rids_no_panic.

(* sdp.go descriptionIsPlanB *)
Theorem c30_description_is_planb_no_panic : forall d : desc, description_is_planb d <> Panic.
Proof. exact description_is_planb_no_panic. Qed.
Print Assumptions c30_description_is_planb_no_panic.

(* sdp.go trackDetailsToRTPReceiveParameters: rids[i], ssrcs[i] *)
Theorem c30_receive_parameters_no_panic : forall t : td, receive_parameters t <> Panic.
Proof. exact receive_parameters_no_panic. Qed.
Print Assumptions c30_receive_parameters_no_panic.

(* sdp.go extractBundleID: bundleIDs[1] *)
Theorem c30_extract_bundle_id_no_panic : forall d : desc, extract_bundle_id d <> Panic.
Proof. exact extract_bundle_id_no_panic. Qed.
Print Assumptions c30_extract_bundle_id_no_panic.

(* sdp.go extractFingerprint: parts[0], parts[1] *)
Theorem c30_extract_fingerprint_no_panic : forall d : desc, extract_fingerprint d <> Panic.
Proof. exact extract_fingerprint_no_panic. Qed.
Print Assumptions c30_extract_fingerprint_no_panic.

(* sdp.go extractICEDetails / selectCandidateMediaSection, for every behaviour
   of the external candidate parser *)
Theorem c30_extract_ice_details_no_panic :
  forall (classify : string -> cand_class) (d : desc), extract_ice_details classify d <> Panic.
Proof. exact extract_ice_details_no_panic. Qed.
Print Assumptions c30_extract_ice_details_no_panic.

(* peerconnection.go startRTPReceivers (after the repair of the Plan-B log
   line), for every SDPSemantics, every outcome of runIfNewReceiver and every
   outcome of AddTransceiverFromKind *)
Theorem c30_start_rtp_receivers_no_panic :
  forall (handled : td -> bool) (add_ok : N -> bool) (sem : semantics) (d : desc),
    start_rtp_receivers handled add_ok sem d <> Panic.
Proof. exact start_rtp_receivers_no_panic. Qed.
Print Assumptions c30_start_rtp_receivers_no_panic.

(* the repaired access was reachable: the loop as pinned (log line evaluating
   incomingTrack.ssrcs[0]) panics on a rid-only section under Plan-B semantics
   when no transceiver can be added.  Witness replayed on the real code in the
   corpus of suite recv; fixed in /repo (known/C30.txt). *)
Theorem c30_planb_log_guard_is_needed :
  exists d, start_rtp_receivers_unfixed (fun _ => false) (fun _ => false) PlanB d = Panic.
Proof. exists planb_witness. exact start_rtp_receivers_unfixed_panics. Qed.
Print Assumptions c30_planb_log_guard_is_needed.

(* peerconnection.go handleUndeclaredSSRC: a=msid split[0], split[1] *)
Theorem c30_handle_undeclared_ssrc_no_panic :
  forall (add_ok : N -> bool) (m : media), handle_undeclared_ssrc add_ok m <> Panic.
Proof. exact handle_undeclared_ssrc_no_panic. Qed.
Print Assumptions c30_handle_undeclared_ssrc_no_panic.

(* peerconnection.go handleIncomingSSRC: the length guard and b[1] on the
   peeked packet; i bytes were peeked into the buffer b *)
Theorem c30_incoming_guard_no_panic :
  forall (b : list N) (i : nat), i <= List.length b -> incoming_guard b i <> Panic.
Proof. exact incoming_guard_no_panic. Qed.
Print Assumptions c30_incoming_guard_no_panic.

(* rtpreceiver.go maybeStartRepairStreamReader: the RTX rewrite on the pool
   buffer, every index and slice expression with Go's uint16 wrap-around.
   Full statement (forall b i, no panic) is false for a reader that reports
   i = 0 or a receive MTU below 76 bytes; both are outside what a remote peer
   controls (pion/srtp hands over at least a 12-byte header; the MTU is local
   configuration), so they are premises, and the refutation below shows the
   first one is needed. *)
Theorem c30_rtx_unwrap_no_panic_partial :
  forall (b : list N) (i : nat) (pt : N) (ssrc : list N),
    76 <= List.length b -> 1 <= i -> i <= List.length b -> List.length ssrc = 4 ->
    rtx_unwrap b i pt ssrc <> Panic.
Proof. exact rtx_unwrap_no_panic. Qed.
Print Assumptions c30_rtx_unwrap_no_panic_partial.

Theorem c30_rtx_unwrap_refuted :
  exists b i pt ssrc, List.length b = 100 /\ List.length ssrc = 4 /\ rtx_unwrap b i pt ssrc = Panic.
Proof.
  exists (32%N :: repeat 0%N 99), 0, 96%N, [0; 0; 0; 1]%N.
  split; [reflexivity |]. split; [reflexivity |]. exact rtx_unwrap_zero_read_panics.
Qed.
Print Assumptions c30_rtx_unwrap_refuted.

(* the correspondence check leaves attributes with other keys out of the Coq
   input; this is sound: the models read only keys of relevant_keys *)
Theorem c30_models_ignore_other_attributes :
  forall (d : desc),
    track_details (filter_desc d) = track_details d /\
    extract_bundle_id (filter_desc d) = extract_bundle_id d /\
    extract_fingerprint (filter_desc d) = extract_fingerprint d /\
    (forall classify, extract_ice_details classify (filter_desc d) = extract_ice_details classify d) /\
    possibly_planb (filter_desc d) = possibly_planb d /\
    (forall handled add_ok sem,
       start_rtp_receivers handled add_ok sem (filter_desc d) = start_rtp_receivers handled add_ok sem d).
Proof. exact models_ignore_other_attributes. Qed.
Print Assumptions c30_models_ignore_other_attributes.

Theorem c30_media_models_ignore_other_attributes :
  forall (m : media),
    get_rids (filter_media m) = get_rids m /\
    peer_direction (m_attrs (filter_media m)) = peer_direction (m_attrs m) /\
    (forall add_ok, handle_undeclared_ssrc add_ok (filter_media m) = handle_undeclared_ssrc add_ok m).
Proof. exact media_models_ignore_other_attributes. Qed.
Print Assumptions c30_media_models_ignore_other_attributes.

(* the models are not vacuous: a Chrome-style section with rtx and fec groups
   yields one track with both repair SSRCs, a simulcast section a rid track
   without SSRC (the shape that reached ssrcs[0]) *)
Example c30_tracks_nontrivial :
  track_details {| d_attrs := [];
                   d_media := [ {| m_kind := "video"; m_formats := ["96"];
                                   m_attrs := [("mid", "0"); ("ssrc-group", "FID 1 2");
                                               ("ssrc-group", "FEC-FR 1 3");
                                               ("ssrc", "1 msid:s t"); ("ssrc", "2 msid:s t");
                                               ("ssrc", "3 msid:s t")] |} ] |}
  = Ok [ {| td_mid := "0"; td_kind := 2; td_stream := "s"; td_id := "t"; td_ssrcs := [1%N];
            td_rtx := Some 2%N; td_fec := Some 3%N; td_rids := [] |} ].
Proof. vm_compute. reflexivity. Qed.

Example c30_rid_track_has_no_ssrc :
  track_details planb_witness
  = Ok [ {| td_mid := "0"; td_kind := 2; td_stream := "s"; td_id := "t"; td_ssrcs := [];
            td_rtx := None; td_fec := None; td_rids := ["hi"] |} ].
Proof. vm_compute. reflexivity. Qed.

(* a well-formed RTX packet (12-byte header, OSN 0x1234, payload AA BB) is
   rewritten to the original packet: pt and ssrc replaced (marker kept), seq := OSN *)
Example c30_rtx_nontrivial :
  rtx_unwrap (hex_decode "80e10007000000640000004d1234aabb" ++ repeat 0%N 84) 16 96 [1; 2; 3; 4]%N
  = Ok (Some (hex_decode "80e012340000006401020304aabb", 97%N, 7%N, [0; 0; 0; 77]%N)).
Proof. vm_compute. reflexivity. Qed.
