(* C14 DTLS authenticates the peer against the signalled fingerprint.
   Statements only; proofs live in Proofs/Fingerprint.v; the model
   (Model/Fingerprint.v) is tied to sdp.go:extractFingerprint,
   dtlstransport.go:validateFingerPrint and the fingerprint lines of
   sdp.go:populateSDP by the suites of harness/c14.go.

   The hash (fingerprint.HashFromString + fingerprint.Fingerprint) is a
   parameter H of every statement.  The connection-level statements
   (c14_connection_*_partial) carry the assumed contract of pion/dtls as a
   premise: the handshake completes iff the VerifyPeerCertificate callback
   returns nil.  Nothing is proved about ICE/DTLS/SCTP themselves; the
   harness exercises them with real connected pairs. *)
From Coq Require Import List NArith String Ascii.
Import ListNotations.
From Verif Require Import Common.Base Common.SerialUtil Model.Fingerprint Proofs.Fingerprint.
Open Scope string_scope.

(* what the description generator writes, read back by extractFingerprint, is
   the upper-cased SHA-256 value of the own certificate; session-level form *)
Theorem c14_advertised : forall (cert : Type) (H : string -> cert -> option string) c h so mo,
  H "sha-256" c = Some h -> has_byte space h = false ->
  no_fingerprint_key so ->
  extract_fingerprint (advertise false [("sha-256", h)] so mo) = Ok (upper h, "sha-256").
Proof. exact advertised_session. Qed.
Print Assumptions c14_advertised.

(* media-level form (SettingEngine.SetSDPMediaLevelFingerprints) *)
Theorem c14_advertised_media_level :
  forall (cert : Type) (H : string -> cert -> option string) c h so mo,
  H "sha-256" c = Some h -> has_byte space h = false ->
  no_fingerprint_key so ->
  Forall (fun o => no_fingerprint_key (fst o) /\ no_fingerprint_key (snd o)) mo ->
  let d := advertise true [("sha-256", h)] so mo in
  mo <> [] ->
  (extract_bundle_id d = "" \/
   exists o, In o mo /\ attribute "mid" (fst o) = Some (extract_bundle_id d)) ->
  extract_fingerprint d = Ok (upper h, "sha-256").
Proof. exact advertised_media. Qed.
Print Assumptions c14_advertised_media_level.

(* at exactly one level *)
Theorem c14_advertised_one_level : forall media_level fps so mo,
  fps <> [] -> no_fingerprint_key so ->
  Forall (fun o => no_fingerprint_key (fst o) /\ no_fingerprint_key (snd o)) mo ->
  let d := advertise media_level fps so mo in
  (attribute "fingerprint" (d_session d) <> None <-> media_level = false) /\
  Forall (fun m => attribute "fingerprint" m <> None <-> media_level = true) (d_media d).
Proof. exact advertised_levels. Qed.
Print Assumptions c14_advertised_one_level.

(* and the advertised value is accepted for the certificate it was computed from *)
Theorem c14_advertised_accepts : forall (cert : Type) (H : string -> cert -> option string) c h,
  H "sha-256" c = Some h -> validate cert H [("sha-256", upper h)] c = Ok tt.
Proof. exact advertised_accepts. Qed.
Print Assumptions c14_advertised_accepts.

(* acceptance is sound: some listed fingerprint is the certificate's, up to letter case *)
Theorem c14_accept_sound : forall (cert : Type) (H : string -> cert -> option string) fps c,
  validate cert H fps c = Ok tt ->
  exists a v h, In (a, v) fps /\ H a c = Some h /\ eqfold h v = true.
Proof. exact validate_sound. Qed.
Print Assumptions c14_accept_sound.

(* rejection: no listed fingerprint matches (an altered digit), an unknown
   hash name, or no fingerprint at all *)
Theorem c14_reject : forall (cert : Type) (H : string -> cert -> option string) c,
  (forall fps, (forall a v h, In (a, v) fps -> H a c = Some h -> eqfold h v = false) ->
               validate cert H fps c <> Ok tt) /\
  (forall a v h, H a c = Some h -> lower v <> lower h ->
                 validate cert H [(a, v)] c = Err "no-matching-fingerprint") /\
  (forall a v rest, H a c = None -> validate cert H ((a, v) :: rest) c = Err "hash-error") /\
  validate cert H [] c = Err "no-matching-fingerprint".
Proof.
  intros cert H c. repeat split.
  - intros fps. exact (validate_reject cert H fps c).
  - intros a v h. exact (validate_single_mismatch cert H a v h c).
  - intros a v rest. exact (validate_unknown_hash cert H a v rest c).
Qed.
Print Assumptions c14_reject.

(* one altered character (not a case variant) is a mismatch *)
Theorem c14_altered_digit : forall pre x y post,
  lower_ascii x <> lower_ascii y ->
  lower (pre ++ String x post) <> lower (pre ++ String y post).
Proof. exact altered_digit_differs. Qed.
Print Assumptions c14_altered_digit.

(* the loop accepts a matching entry that is not preceded by a hash error *)
Theorem c14_accept_complete :
  forall (cert : Type) (H : string -> cert -> option string) pre a v post h c,
  (forall a' v', In (a', v') pre -> exists h', H a' c = Some h') ->
  H a c = Some h -> eqfold h v = true ->
  validate cert H (pre ++ (a, v) :: post)%list c = Ok tt.
Proof. exact validate_complete. Qed.
Print Assumptions c14_accept_complete.

(* the certificate chain of the peer's Certificate message: the callback
   accepts only if the LEAF (first) certificate -- the one whose key the DTLS
   handshake authenticates -- matches a signalled fingerprint, records that
   leaf as the remote certificate, and a chain whose leaf does not match is
   rejected whatever follows it (in particular [A; G] with G the signalled
   certificate); the verdict does not depend on the tail at all *)
Theorem c14_chain_leaf_only :
  forall (raw cert : Type) (parse : raw -> option cert) (H : string -> cert -> option string) fps,
  (forall chain, snd (verify_peer raw cert parse H false fps chain) = Ok tt ->
     exists leaf rest c,
       chain = leaf :: rest /\ parse leaf = Some c /\ cert_matches cert H fps c /\
       fst (verify_peer raw cert parse H false fps chain) = Some leaf) /\
  (forall leaf rest,
     (forall c, parse leaf = Some c -> ~ cert_matches cert H fps c) ->
     snd (verify_peer raw cert parse H false fps (leaf :: rest)) <> Ok tt) /\
  (forall disabled leaf rest,
     verify_peer raw cert parse H disabled fps (leaf :: rest) =
     verify_peer raw cert parse H disabled fps [leaf]).
Proof. exact chain_leaf_only. Qed.
Print Assumptions c14_chain_leaf_only.

(* totality of the callback: no certificate at all is an error, never a panic *)
Theorem c14_chain_total :
  forall (raw cert : Type) (parse : raw -> option cert) (H : string -> cert -> option string)
         disabled fps,
  verify_peer raw cert parse H disabled fps [] = (None, Err "no-remote-certificate") /\
  (forall chain, snd (verify_peer raw cert parse H disabled fps chain) <> Panic).
Proof. exact chain_total. Qed.
Print Assumptions c14_chain_total.

(* extraction, all placement cases: session level first; else the bundle
   master's section; else the first section with one; then the two-token
   split.  It never panics. *)
Theorem c14_extract_total : forall d,
  extract_fingerprint d <> Panic /\
  (placement_spec d = None -> extract_fingerprint d = Err "no-fingerprint") /\
  (forall f, placement_spec d = Some f ->
     match split_on space f with
     | [h; v] => extract_fingerprint d = Ok (v, h)
     | _ => extract_fingerprint d = Err "invalid-fingerprint"
     end).
Proof. exact extract_total. Qed.
Print Assumptions c14_extract_total.

(* connection level, under the assumed contract of pion/dtls *)
Theorem c14_connection_accept_partial :
  forall (cert : Type) (H : string -> cert -> option string)
         (completes : (cert -> result unit) -> cert -> bool),
  (forall verify c, completes verify c = true <-> verify c = Ok tt) ->
  forall fps c, completes (validate cert H fps) c = true ->
  exists a v h, In (a, v) fps /\ H a c = Some h /\ eqfold h v = true.
Proof. exact connected_implies_match. Qed.
Print Assumptions c14_connection_accept_partial.

Theorem c14_connection_reject_partial :
  forall (cert : Type) (H : string -> cert -> option string)
         (completes : (cert -> result unit) -> cert -> bool),
  (forall verify c, completes verify c = true <-> verify c = Ok tt) ->
  forall fps c,
  (forall a v h, In (a, v) fps -> H a c = Some h -> eqfold h v = false) ->
  completes (validate cert H fps) c = false.
Proof. exact mismatch_never_connects. Qed.
Print Assumptions c14_connection_reject_partial.

(* premises are satisfiable on non-trivial values *)
Example c14_extract_media_level_example :
  extract_fingerprint
    {| d_session := [("group", "BUNDLE 1 0")];
       d_media := [ [("mid", "0"); ("fingerprint", "sha-256 AA:BB")];
                    [("mid", "1"); ("fingerprint", "sha-1 CC")] ] |}
  = Ok ("CC", "sha-1").
Proof. reflexivity. Qed.

Example c14_extract_bundle_master_without_fingerprint :
  extract_fingerprint
    {| d_session := [("group", "BUNDLE 1 0")];
       d_media := [ [("mid", "0"); ("fingerprint", "sha-256 AA:BB")]; [("mid", "1")] ] |}
  = Err "no-fingerprint".
Proof. reflexivity. Qed.

Example c14_validate_example :
  let H := fun (a : string) (_ : unit) => if String.eqb a "sha-256" then Some "ab:cd" else None in
  validate unit H [("sha-256", "AB:CE"); ("sha-256", "AB:CD")] tt = Ok tt /\
  validate unit H [("sha-256", "AB:CE")] tt = Err "no-matching-fingerprint" /\
  validate unit H [("sha-999", "AB:CD"); ("sha-256", "AB:CD")] tt = Err "hash-error".
Proof. repeat split; reflexivity. Qed.

(* the chain [A; G]: G's fingerprint was signalled, the peer authenticates
   with A and appends G -- rejected; [G; A] is accepted and G is recorded *)
Example c14_chain_example :
  let H := fun (a : string) (c : string) => if String.eqb a "sha-256" then Some c else None in
  let parse := fun (r : string) => if String.eqb r "" then None else Some r in
  let fps := [("sha-256", "AB:CD")] in
  verify_peer string string parse H false fps ["ee:ff"; "ab:cd"] = (Some "ee:ff", Err "no-matching-fingerprint") /\
  verify_peer string string parse H false fps ["ab:cd"; "ee:ff"] = (Some "ab:cd", Ok tt) /\
  verify_peer string string parse H false fps [""; "ab:cd"] = (Some "", Err "parse-error") /\
  verify_peer string string parse H true fps ["ee:ff"; "ab:cd"] = (Some "ee:ff", Ok tt) /\
  (forall c, parse "ee:ff" = Some c -> ~ cert_matches string H fps c).
Proof.
  repeat split; try reflexivity.
  intros c Hc [a [v [h [Hin [Hh Hf]]]]]. cbv in Hc. inversion Hc; subst.
  destruct Hin as [E|[]]. inversion E; subst. cbv in Hh. inversion Hh; subst. cbv in Hf. discriminate.
Qed.
