(* C23 Media written to a local track arrives intact on the negotiated
   stream.  PARTIAL: a composition.  Proved: the in-repo logic - what
   addSenderSDP announces is what trackDetailsFromSDP parses back, the payload
   type a bound static track writes, the lookup order of getCodecByPayload,
   where TrackRemote's ids and codec come from.  ASSUMED (visible premise
   [carry_intact] in c23_media_path_partial): SRTP/ICE/DTLS carry a written
   packet to the read stream of its SSRC unchanged.
   The comparison of one candidate codec inside Bind's search is in the model
   too (Model/MediaBind.v over Model/Codec.v and Model/Fmtp.v, the
   transcription of internal/fmtp): c23_bind_is_fuzzy_search ties the class
   abstraction of c23_payload_type to codecParametersFuzzySearch on full codec
   records, c23_h264_profile_iop_distinct says H264 formats that differ in the
   profile-iop byte of profile-level-id never bind to one another's payload type.
   Statements only; proofs live in Proofs/MediaPath.v and Proofs/MediaBind.v. *)
From Coq Require Import List NArith String Bool.
Import ListNotations.
From Verif Require Import Common.Base Model.MediaPath Proofs.MediaPath.
From Verif Require Import Model.Fmtp Model.MediaBind Proofs.MediaBind.
From Verif Require Model.Codec.
Open Scope string_scope.
Open Scope list_scope.
Open Scope N_scope.

(* For every media section of a sending transceiver - any other attributes
   before and after, any 32-bit ssrc / rtx ssrc / fec ssrc (0 = not enabled,
   repair ssrcs different from the primary), any stream and track ids without
   a space - the receiver's walk yields exactly one track with that mid, kind,
   stream id, track id, ssrc, rtx ssrc and fec ssrc *)
Theorem c23_track_details_roundtrip : forall s,
  sender_ok s -> section_details (fst (render_sec s)) (snd (render_sec s)) = [expected_of s].
Proof. exact section_roundtrip. Qed.
Print Assumptions c23_track_details_roundtrip.

(* ... and a description made of such sections yields their tracks in order *)
Theorem c23_description_roundtrip : forall l,
  Forall sender_ok l -> track_details (map render_sec l) = map expected_of l.
Proof. exact description_roundtrip. Qed.
Print Assumptions c23_description_roundtrip.

(* recvonly / inactive sections, sections without mid or of unknown kind
   contribute no track, whatever ssrc lines they carry *)
Theorem c23_section_skipped : forall media attrs,
  has_key "recvonly" attrs = true \/ has_key "inactive" attrs = true \/
  attr_value "mid" attrs = None \/ attr_value "mid" attrs = Some "" \/ kind_of_media media = 0 ->
  section_details media attrs = [].
Proof. exact section_skipped. Qed.
Print Assumptions c23_section_skipped.

(* the payload type a bound TrackLocalStaticRTP writes is that of the first
   exact match of its codec in the sender's negotiated list, else of the first
   partial match (codecParametersFuzzySearch order); SSRC becomes the
   sender's, everything else passes unchanged *)
Theorem c23_payload_type : forall ctx_ssrc hay b p,
  bind ctx_ssrc hay = Some b -> ctx_ssrc < 4294967296 ->
  let q := write_rtp b p in
  k_ssrc q = ctx_ssrc /\ k_pt q = u8 (b_pt b) /\
  k_payload q = k_payload p /\ k_seq q = k_seq p /\ k_ts q = k_ts p /\ k_marker q = k_marker p /\
  ((exists l1 l2, hay = l1 ++ (b_pt b, 2) :: l2 /\ forall e, In e l1 -> snd e <> 2) \/
   ((forall e, In e hay -> snd e <> 2) /\
    exists l1 l2, hay = l1 ++ (b_pt b, 1) :: l2 /\ forall e, In e l1 -> snd e <> 1)).
Proof. exact bind_write. Qed.
Print Assumptions c23_payload_type.

Theorem c23_bind_fails_iff_no_match : forall ctx hay,
  bind ctx hay = None <-> (forall e, In e hay -> snd e <> 2 /\ snd e <> 1).
Proof. exact bind_none. Qed.
Print Assumptions c23_bind_fails_iff_no_match.

(* the (payload type, class) haystack of c23_payload_type, computed: the class
   of a candidate is what codecParametersFuzzySearch decides for it alone, and
   Bind over the computed vector is codecParametersFuzzySearch over the
   sender's negotiated codec list *)
Theorem c23_bind_is_fuzzy_search : forall ctx needle hay,
  bind_codec ctx needle hay =
  match Codec.fuzzy_search needle hay with
  | (_, Codec.MNone) => None
  | (c, _) => Some {| b_ssrc := ctx; b_pt := Codec.c_pt c |}
  end.
Proof. exact bind_codec_is_fuzzy_search. Qed.
Print Assumptions c23_bind_is_fuzzy_search.

(* the payload type a bound track writes is that of an entry of the negotiated
   list that matches the track's codec: the first exact match (same format per
   internal/fmtp), else -- only when no entry matches exactly -- the first one
   with the same mime type / clock rate / channels *)
Theorem c23_bound_entry_matches : forall ctx needle hay b,
  bind_codec ctx needle hay = Some b ->
  b_ssrc b = ctx /\
  exists l1 c l2, hay = l1 ++ c :: l2 /\ Codec.c_pt c = b_pt b /\
    ((Codec.exact_ok needle c = true /\ forall x, In x l1 -> Codec.exact_ok needle x = false) \/
     (Codec.partial_ok needle c = true /\ (forall x, In x hay -> Codec.exact_ok needle x = false) /\
      forall x, In x l1 -> Codec.partial_ok needle x = false)).
Proof. exact bind_codec_entry. Qed.
Print Assumptions c23_bound_entry_matches.

(* H264: an exact match means the same packetization-mode and
   profile-level-ids whose first TWO bytes (profile_idc, profile-iop) agree;
   the level byte does not take part *)
Theorem c23_h264_exact_match : forall needle c,
  is_h264 needle = true -> is_h264 c = true ->
  (Codec.exact_ok needle c = true <->
   exists pm x y, pmode_of needle = Some pm /\ pmode_of c = Some pm /\
     plid_of needle = Some x /\ plid_of c = Some y /\
     exists x0 x1 xr y0 y1 yr,
       hex_decode_go x = Some (x0 :: x1 :: xr) /\ hex_decode_go y = Some (y0 :: y1 :: yr) /\
       x0 = y0 /\ x1 = y1).
Proof. exact h264_exact_bytes. Qed.
Print Assumptions c23_h264_exact_match.

(* distinct profile-iop bytes do not match: two H264 codecs whose
   profile-level-ids differ in the second byte are never an exact match, so
   neither is the other's class-2 candidate in Bind's search (42e01f does not
   bind to the 42001f entry while its own entry is in the list) *)
Theorem c23_h264_profile_iop_distinct : forall needle c x y x0 x1 xr y0 y1 yr,
  is_h264 needle = true -> is_h264 c = true ->
  plid_of needle = Some x -> plid_of c = Some y ->
  hex_decode_go x = Some (x0 :: x1 :: xr) -> hex_decode_go y = Some (y0 :: y1 :: yr) ->
  x1 <> y1 ->
  Codec.exact_ok needle c = false /\ match_class needle c <> 2.
Proof. exact h264_iop_not_exact. Qed.
Print Assumptions c23_h264_profile_iop_distinct.

(* the receiving side resolves a payload type in the negotiated list of a
   kind first (video before audio), in list order *)
Theorem c23_lookup_order : forall e pt c,
  (e_neg_video e = true -> find_by_pt (e_neg_video_codecs e) pt = Some c ->
     get_codec_by_payload e pt = Some (c, 2)) /\
  (e_neg_audio e = true ->
     (e_neg_video e = true -> find_by_pt (e_neg_video_codecs e) pt = None) ->
     find_by_pt (e_neg_audio_codecs e) pt = Some c ->
     get_codec_by_payload e pt = Some (c, 1)).
Proof. exact lookup_negotiated. Qed.
Print Assumptions c23_lookup_order.

Theorem c23_find_by_pt : forall l pt c,
  find_by_pt l pt = Some c ->
  cd_pt c = pt /\ exists l1 l2, l = l1 ++ c :: l2 /\ forall x, In x l1 -> cd_pt x <> pt.
Proof. exact find_by_pt_spec. Qed.
Print Assumptions c23_find_by_pt.

(* composition (c23_codec_ids included): with the carriage contract, a packet
   written to a bound static track and read on the remote side has the SSRC
   the sender's section announces (= the SSRC of the one parsed track), the
   bound payload type and the written payload; the TrackRemote built from the
   parsed details reports the sender's stream id, track id, ssrc, rtx ssrc and
   kind, and its codec is the getCodecByPayload result for that payload type.
   Full property = this + the contract [carry_intact], which is assumed. *)
Theorem c23_media_path_partial :
  forall carry : rtp_pkt -> option rtp_pkt,
  (forall p q, carry p = Some q -> q = p) ->
  forall s hay b p q e,
  sender_ok s ->
  bind (ss_ssrc s) hay = Some b ->
  carry (write_rtp b p) = Some q ->
  exists d, section_details (fst (render_sec s)) (snd (render_sec s)) = [d] /\
    k_ssrc q = td_ssrc d /\ td_ssrc d = ss_ssrc s /\
    k_pt q = u8 (b_pt b) /\ k_payload q = k_payload p /\
    let rt := remote_track_of d e (k_pt q) in
    rt_stream rt = ss_stream s /\ rt_id rt = ss_track s /\ rt_ssrc rt = ss_ssrc s /\
    rt_rtx rt = opt_nz (ss_rtx s) /\ rt_kind rt = kind_of_media (ss_media s) /\
    rt_codec rt = option_map fst (get_codec_by_payload e (u8 (b_pt b))).
Proof. exact media_path. Qed.
Print Assumptions c23_media_path_partial.

(* the premises are satisfiable on a real-looking section *)
Example c23_sender_ok_inhabited :
  let s := {| ss_media := "video"; ss_mid := "0";
              ss_pre := [("setup", "actpass"); ("mid", "0"); ("rtcp-mux", ""); ("rtpmap", "96 VP8/90000")];
              ss_post := [("sendrecv", "")];
              ss_ssrc := 413806784; ss_rtx := 1786877691; ss_fec := 0;
              ss_stream := "stream-vp8"; ss_track := "track-vp8" |} in
  sender_ok s /\
  section_details (fst (render_sec s)) (snd (render_sec s)) =
    [{| td_mid := "0"; td_kind := 2; td_stream := "stream-vp8"; td_id := "track-vp8";
        td_ssrc := 413806784; td_rtx := Some 1786877691; td_fec := None |}].
Proof.
  split; [|vm_compute; reflexivity].
  unfold sender_ok; cbn [ss_media ss_mid ss_pre ss_post ss_ssrc ss_rtx ss_fec ss_stream ss_track].
  split; [vm_compute; discriminate|]. split; [discriminate|]. split; [vm_compute; reflexivity|].
  split; [apply irrelevantb_sound; reflexivity|]. split; [apply irrelevantb_sound; reflexivity|].
  repeat split; try reflexivity; intros _; discriminate.
Qed.

(* ids with a space are outside the theorem, and the walk does lose them *)
Example c23_spaced_id_lost :
  section_details "audio"
    ([("mid", "0")] ++ sender_attrs 5 0 0 "s" "front mic" ++ [("sendrecv", "")])
  = [{| td_mid := "0"; td_kind := 1; td_stream := ""; td_id := ""; td_ssrc := 5;
        td_rtx := None; td_fec := None |}].
Proof. vm_compute. reflexivity. Qed.

Example c23_bind_nontrivial :
  bind 7 [(96, 0); (98, 1); (102, 2); (45, 2)] = Some {| b_ssrc := 7; b_pt := 102 |} /\
  bind 7 [(96, 0); (98, 1); (99, 1)] = Some {| b_ssrc := 7; b_pt := 98 |} /\
  bind 7 [(96, 0)] = None.
Proof. repeat split; reflexivity. Qed.

(* RegisterDefaultCodecs' video table: every H264 / VP9 variant binds to its
   own payload type; another level binds to the same entry; a profile-iop the
   table does not have falls back to the first H264 entry as a partial match *)
Example c23_default_variants_bind :
  let pt line := option_map b_pt
        (bind_codec 7 (needle_of "video/H264" 90000 0 line) default_video_codecs) in
  pt (h264_line "1" "42001f") = Some 102 /\ pt (h264_line "0" "42001f") = Some 104 /\
  pt (h264_line "1" "42e01f") = Some 106 /\ pt (h264_line "0" "42e01f") = Some 108 /\
  pt (h264_line "1" "4d001f") = Some 127 /\ pt (h264_line "0" "4d001f") = Some 39 /\
  pt (h264_line "1" "64001f") = Some 112 /\
  pt (h264_line "1" "42e028") = Some 106 /\
  pt "profile-level-id=42E01F;packetization-mode=1" = Some 106 /\
  pt (h264_line "1" "42c01f") = Some 102 /\
  match_class (needle_of "video/H264" 90000 0 (h264_line "1" "42c01f"))
              (Codec.mkCodec "video/H264" 90000 0 (h264_line "1" "42001f") [] 102) = 1 /\
  option_map b_pt (bind_codec 7 (needle_of "video/VP9" 90000 0 "profile-id=0") default_video_codecs) = Some 98 /\
  option_map b_pt (bind_codec 7 (needle_of "video/VP9" 90000 0 "profile-id=2") default_video_codecs) = Some 100.
Proof. vm_compute. repeat split; reflexivity. Qed.

Example c23_iop_premises_inhabited :
  let n := needle_of "video/H264" 90000 0 (h264_line "1" "42e01f") in
  let c := Codec.mkCodec "video/H264" 90000 0 (h264_line "1" "42001f") [] 102 in
  is_h264 n = true /\ is_h264 c = true /\ plid_of n = Some "42e01f" /\ plid_of c = Some "42001f" /\
  hex_decode_go "42e01f" = Some [66; 224; 31] /\ hex_decode_go "42001f" = Some [66; 0; 31].
Proof. vm_compute. repeat split; reflexivity. Qed.
