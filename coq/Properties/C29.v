(* C29 stub *)
From Verif Require Import Model.StaticTrack.
