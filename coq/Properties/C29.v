(* C29 Static RTP tracks fan out to each binding and leave the caller's packet
   intact.  Statements only; proofs live in Proofs/StaticTrack.v.
   [run s ops] is the transcription of TrackLocalStaticRTP.Bind/Unbind/WriteRTP
   (append, swap-delete, the range loop over a pooled copy of the packet);
   [spec_run ops] is the unordered set of bound senders keyed by context id;
   [wf ops] is the RTPSender contract: a context id is not bound again while it
   is bound. *)
From Coq Require Import String NArith Bool List Permutation.
Import ListNotations.
From Verif Require Import Common.Base Model.StaticTrack Proofs.StaticTrack.
Open Scope N_scope.

(* In ANY state (any history, well-formed or not) a write calls the writer of
   every binding in the slice exactly once (one delivery per list element, in
   slice order) with that binding's SSRC and payload type, the padding size in
   effect, every other header field and the payload as given; the bindings are
   unchanged, the error count is the number of failing writers, and the
   caller's packet is the one passed in. *)
Theorem c29_write_exact : forall unm s p,
  step unm s (Write p) = Ok (s, OWrite (N.of_nat (length (filter b_fail s))) (map (rewritten p) s) p).
Proof. exact step_write. Qed.
Print Assumptions c29_write_exact.

(* over every well-formed bind/unbind/write history: the packet written next
   reaches exactly the currently bound senders of the specification - each one
   once (their ids are pairwise distinct), rewritten with its own SSRC and
   payload type - and the caller's packet comes back unchanged *)
Theorem c29_fanout : forall unm ops p, wf ops ->
  exists s obs ds errs,
    run unm [] (ops ++ [Write p]) = Ok (s, obs ++ [OWrite errs ds p]) /\
    Permutation ds (map (rewritten p) (spec_run ops)) /\
    NoDup (map b_id (spec_run ops)).
Proof. exact fanout. Qed.
Print Assumptions c29_fanout.

(* in ANY state Unbind removes exactly one binding carrying the id and keeps
   every other binding (swap-delete, as a multiset), or - when no binding
   carries the id - fails with ErrUnbindFailed and changes nothing *)
Theorem c29_unbind_one : forall unm s id,
  (exists x s', step unm s (Unbind id) = Ok (s', OUnbind (Ok tt)) /\ In x s /\ b_id x = id /\
                Permutation s (x :: s'))
  \/ (step unm s (Unbind id) = Ok (s, OUnbind (Err "unbind-failed")) /\ forall y, In y s -> b_id y <> id).
Proof. exact step_unbind. Qed.
Print Assumptions c29_unbind_one.

(* after Unbind id, for as long as id is not bound again, no binding carries id:
   by c29_write_exact no later write reaches the removed binding *)
Theorem c29_unbind : forall unm ops id ops', wf (ops ++ Unbind id :: ops') -> no_bind id ops' ->
  exists s obs, run unm [] (ops ++ Unbind id :: ops') = Ok (s, obs) /\
                forall b, In b s -> b_id b <> id.
Proof. exact unbind_final. Qed.
Print Assumptions c29_unbind.

(* the caller's packet: every write observation of every history returns the
   packet that was passed in (the model mutates only the pooled copy; aliasing
   of the shared CSRC/extension/payload slices is outside the model and is
   checked on the real code by a deep comparison) *)
Theorem c29_caller_unchanged : forall unm s p s' errs ds after,
  step unm s (Write p) = Ok (s', OWrite errs ds after) -> after = p /\ s' = s.
Proof. exact caller_unchanged. Qed.
Print Assumptions c29_caller_unchanged.

(* refinement: the bindings slice is a permutation of the specification's set *)
Theorem c29_refines_multiset : forall unm ops, wf ops ->
  exists s obs, run unm [] ops = Ok (s, obs) /\ Permutation s (spec_run ops) /\ NoDup (map b_id s).
Proof. exact refines. Qed.
Print Assumptions c29_refines_multiset.

(* no history panics (the index arithmetic of the swap-delete stays in range) *)
Theorem c29_no_panic : forall unm ops s, run unm s ops <> Panic.
Proof. exact run_no_panic. Qed.
Print Assumptions c29_no_panic.

(* Write(b []byte) = WriteRTP after rtp.Packet.Unmarshal.  [unm] is the
   unmarshaller (outside the repo, arbitrary here).  In any state the bytes
   either fail to parse - then no writer is called and nothing changes - or
   parse to p, and then every binding gets exactly the delivery WriteRTP(p)
   gives it. *)
Theorem c29_write_bytes : forall unm s raw,
  (exists p, unm raw = Some p /\
     step unm s (WriteRaw raw) = Ok (s, OWriteRaw (Ok (N.of_nat (length (filter b_fail s)), map (rewritten p) s))))
  \/ (unm raw = None /\ step unm s (WriteRaw raw) = Ok (s, OWriteRaw (Err "unmarshal"))).
Proof. exact step_write_raw. Qed.
Print Assumptions c29_write_bytes.

(* Refinement over whole histories: given a marshaller that the unmarshaller
   inverts on padding-free packets (premise [unm_marshal], pion/rtp's contract),
   replacing every WriteRTP(p) of a history by Write(marshal p) yields the same
   final bindings and, op by op, the same error counts and deliveries. *)
Section WriteBytes.
  Variable unm : list N -> option pkt.
  Variable marshal : pkt -> list N.
  Hypothesis unm_marshal : forall p, p_hpad p = 0 -> p_ppad p = 0 -> unm (marshal p) = Some p.

  Theorem c29_write_bytes_refines : forall ops s s' obs, Forall pad_free ops ->
    run unm s ops = Ok (s', obs) ->
    run unm s (map (raw_of marshal) ops) = Ok (s', map raw_obs obs).
  Proof. exact (run_raw_refines unm marshal unm_marshal). Qed.
End WriteBytes.
Print Assumptions c29_write_bytes_refines.

Example c29_history_nontrivial : forall unm,
  let ops := [Bind 0 1000 (Some 96) 0 false; Bind 1 2000 (Some 97) 1 false; Bind 2 3000 (Some 98) 2 false;
              Unbind 0] in
  wf ops /\
  option_map (map b_w) (match run unm [] ops with Ok (s, _) => Some s | _ => None end) = Some [2%nat; 1%nat] /\
  map b_w (spec_run ops) = [2%nat; 1%nat].
Proof. exact ex_history. Qed.
