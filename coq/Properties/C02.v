(* C02 Rollback cancels an in-progress offer/answer exchange.
   Full statement (the property): SetLocalDescription(rollback) succeeds from
   have-local-offer and have-local-pranswer, SetRemoteDescription(rollback)
   from have-remote-offer and have-remote-pranswer; rollback from stable is
   rejected; a successful rollback ends in stable with both pending
   descriptions discarded and the current descriptions those of the last
   stable state.
   The code as it is (`step`, `run`) violates the first clause: c02_full_refuted.
   Proved: c02_stable_rejected (any variant), and the remaining clauses for
   every variant of the model that has the rollback branches clear both
   pending slots (c02_partial, c02_partial_last_stable) - vacuous for the code
   as it is, satisfiable for the repaired variant (c02_repaired_accepts and the
   Examples); for the repaired variant the last clause also as a theorem over
   whole histories (c02_repaired_restores_last_stable). *)
From Coq Require Import List Bool NArith String.
Import ListNotations.
From Verif Require Import Common.Base Model.Signaling Proofs.Signaling Proofs.SignalingHist
  Proofs.SignalingRb.

Definition tx (id : N) : txt := {| t_id := id; t_fl := good_flags |}.
Definition ds (ty : sdptype) (id : N) : desc := {| d_ty := ty; d_txt := tx id |}.

(* histories that reach the four states the property names *)
Definition reach (s : sstate) : list pcop :=
  match s with
  | HaveLocalOffer => [OCreateOffer 16 true; OSetLocal (ds Offer 16)]
  | HaveRemoteOffer => [OSetRemote (ds Offer 16)]
  | HaveLocalPranswer => [OSetRemote (ds Offer 16); OCreateAnswer 32 true true; OSetLocal (ds Pranswer 32)]
  | HaveRemotePranswer => [OCreateOffer 16 true; OSetLocal (ds Offer 16); OSetRemote (ds Pranswer 32)]
  | _ => []
  end.

(* the code as it is: from each of the four (state, side) pairs of the
   property a rollback - whatever its SDP text - is rejected and changes
   nothing *)
Theorem c02_full_refuted : forall s sd,
  w3c_edge s sd Rollback = Some Stable ->
  st (run (reach s)) = s /\
  forall d, d_ty d = Rollback ->
    exists e, step (run (reach s)) (set_op sd d) = (run (reach s), Err e).
Proof.
  intros s sd He. split.
  - destruct s, sd; cbn in He; try discriminate; reflexivity.
  - intros d Hty. destruct (rollback_rejected_as_is (run (reach s)) sd d Hty) as [e [H _]].
    exists e; exact H.
Qed.
Print Assumptions c02_full_refuted.

(* more generally: after any history, on either side, no rollback is ever
   accepted by the code as it is *)
Theorem c02_never_accepted_refuted : forall ops sd d,
  d_ty d = Rollback ->
  exists e, step (run ops) (set_op sd d) = (run ops, Err e) /\ pre_error e.
Proof. intros ops sd d; exact (rollback_rejected_as_is (run ops) sd d). Qed.
Print Assumptions c02_never_accepted_refuted.

(* rollback from stable is rejected and changes nothing - for the code as it
   is and for every repaired variant *)
Theorem c02_stable_rejected : forall r ops sd d,
  st (run_r r ops) = Stable -> d_ty d = Rollback ->
  exists e, step_r r (run_r r ops) (set_op sd d) = (run_r r ops, Err e) /\ pre_error e.
Proof. intros r ops; exact (stable_rollback_rejected r (run_r r ops)). Qed.
Print Assumptions c02_stable_rejected.

(* if a rollback succeeds (any variant whose rollback branches clear both
   slots): it was one of the four named (state, side) pairs, the state is
   stable, both pending descriptions are gone, the current ones untouched, one
   stable event *)
Theorem c02_partial : forall r ops sd d n',
  r_clear_both r = true -> d_ty d = Rollback ->
  step_r r (run_r r ops) (set_op sd d) = (n', Ok tt) ->
  rollback_edge (st (run_r r ops)) (op_of_side sd) = true /\
  st n' = Stable /\ pendL n' = None /\ pendR n' = None /\
  curL n' = curL (run_r r ops) /\ curR n' = curR (run_r r ops) /\
  events n' = (events (run_r r ops) ++ [Stable])%list.
Proof. intros r ops sd d n'; exact (rollback_ok_result r (run_r r ops) sd d n'). Qed.
Print Assumptions c02_partial.

(* ... and the current descriptions are those of the last stable state: any
   calls since then that never reached stable, then the rollback *)
Theorem c02_partial_last_stable : forall r ops mid sd d n',
  r_clear_both r = true -> d_ty d = Rollback ->
  never_stable r (run_r r ops) mid ->
  step_r r (run_from_r r (run_r r ops) mid) (set_op sd d) = (n', Ok tt) ->
  st n' = Stable /\ pendL n' = None /\ pendR n' = None /\
  curL n' = curL (run_r r ops) /\ curR n' = curR (run_r r ops).
Proof. intros r ops; exact (rollback_restores r (run_r r ops)). Qed.
Print Assumptions c02_partial_last_stable.

(* the same as a statement about whole histories of the repaired variant: any
   history ending in a successful rollback leaves as current descriptions the
   pair (current local, current remote) of the last moment in that history at
   which the signaling state was stable (last_stable_pair: the start of the
   history counts as stable with no descriptions) - whatever happened in
   between, accepted or rejected, on either side *)
Theorem c02_repaired_restores_last_stable : forall ops sd d n',
  d_ty d = Rollback ->
  step_r repaired (run_r repaired ops) (set_op sd d) = (n', Ok tt) ->
  st n' = Stable /\ pendL n' = None /\ pendR n' = None /\
  (curL n', curR n') = last_stable_pair repaired ops.
Proof.
  intros ops sd d n'. exact (rollback_restores_last_stable repaired ops sd d n' eq_refl).
Qed.
Print Assumptions c02_repaired_restores_last_stable.

(* the repaired variant does accept the four rollbacks (parsable or, through
   JSEP 5.4, empty text), so with c02_partial and c02_stable_rejected it
   satisfies the whole property *)
Theorem c02_repaired_accepts : forall ops sd d,
  closed (run_r repaired ops) = false ->
  rollback_edge (st (run_r repaired ops)) (op_of_side sd) = true ->
  d_ty d = Rollback -> parses (t_fl (d_txt d)) = true ->
  exists n', step_r repaired (run_r repaired ops) (set_op sd d) = (n', Ok tt).
Proof. intros ops; exact (repaired_rollback_succeeds (run_r repaired ops)). Qed.
Print Assumptions c02_repaired_accepts.

(* adding only the table edges and keeping pion's rollback branches (each
   clears one slot) is not enough: rollback from have-local-pranswer reaches
   stable with the remote offer still pending *)
Theorem c02_edge_only_refuted :
  exists ops d n',
    d_ty d = Rollback /\
    step_r edge_only (run_r edge_only ops) (OSetLocal d) = (n', Ok tt) /\
    st n' = Stable /\ pendR n' = Some (ds Offer 16).
Proof.
  exists (reach HaveLocalPranswer), {| d_ty := Rollback; d_txt := empty_txt |}.
  eexists. split; [reflexivity|]. split; [reflexivity|]. split; reflexivity.
Qed.
Print Assumptions c02_edge_only_refuted.

(* ---- premises of c02_partial / c02_partial_last_stable are satisfiable ---- *)
Example c02_repaired_rollback_after_exchange :
  let ops := [OCreateOffer 16 true; OSetLocal (ds Offer 16); OSetRemote (ds Answer 32)] in
  let mid := [OSetRemote (ds Offer 48); OCreateAnswer 64 true true; OSetLocal (ds Pranswer 64)] in
  exists n',
    never_stable repaired (run_r repaired ops) mid /\
    st (run_from_r repaired (run_r repaired ops) mid) = HaveLocalPranswer /\
    step_r repaired (run_from_r repaired (run_r repaired ops) mid)
           (OSetLocal {| d_ty := Rollback; d_txt := empty_txt |}) = (n', Ok tt) /\
    st n' = Stable /\ pendL n' = None /\ pendR n' = None /\
    curL n' = Some (ds Offer 16) /\ curR n' = Some (ds Answer 32).
Proof.
  cbn zeta.
  exists (fst (step_r repaired
            (run_from_r repaired
               (run_r repaired [OCreateOffer 16 true; OSetLocal (ds Offer 16); OSetRemote (ds Answer 32)])
               [OSetRemote (ds Offer 48); OCreateAnswer 64 true true; OSetLocal (ds Pranswer 64)])
            (OSetLocal {| d_ty := Rollback; d_txt := empty_txt |}))).
  vm_compute. repeat split; discriminate.
Qed.

Example c02_as_is_witness :
  step (run (reach HaveLocalOffer)) (OSetLocal {| d_ty := Rollback; d_txt := empty_txt |})
  = (run (reach HaveLocalOffer), Err EInvalidModification) /\
  step (run (reach HaveRemoteOffer)) (OSetRemote (ds Rollback 16))
  = (run (reach HaveRemoteOffer), Err EInvalidModification).
Proof. split; reflexivity. Qed.

(* c02_repaired_restores_last_stable is not vacuous: two completed exchanges
   (the second one re-negotiates), then a third offer answered provisionally,
   then the rollback: the current descriptions are those of the second exchange *)
Example c02_repaired_last_stable_nontrivial :
  let ops := [OCreateOffer 16 true; OSetLocal (ds Offer 16); OSetRemote (ds Answer 32);
              OSetRemote (ds Offer 48); OCreateAnswer 64 true true; OSetLocal (ds Answer 64);
              OSetLocal (ds Offer 99);                         (* rejected: not the last offer *)
              OCreateOffer 80 true; OSetLocal (ds Offer 80); OSetRemote (ds Pranswer 96)] in
  exists n',
    st (run_r repaired ops) = HaveRemotePranswer /\
    step_r repaired (run_r repaired ops) (OSetRemote (ds Rollback 112)) = (n', Ok tt) /\
    last_stable_pair repaired ops = (Some (ds Answer 64), Some (ds Offer 48)) /\
    (curL n', curR n') = (Some (ds Answer 64), Some (ds Offer 48)) /\
    pendL (run_r repaired ops) = Some (ds Offer 80) /\ pendL n' = None.
Proof.
  cbn zeta.
  exists (fst (step_r repaired
    (run_r repaired
       [OCreateOffer 16 true; OSetLocal (ds Offer 16); OSetRemote (ds Answer 32);
        OSetRemote (ds Offer 48); OCreateAnswer 64 true true; OSetLocal (ds Answer 64);
        OSetLocal (ds Offer 99);
        OCreateOffer 80 true; OSetLocal (ds Offer 80); OSetRemote (ds Pranswer 96)])
    (OSetRemote (ds Rollback 112)))).
  vm_compute. repeat split.
Qed.
