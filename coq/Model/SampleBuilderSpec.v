(* C31: what the property asks of a SampleBuilder history, stated without
   reference to the builder's internals.  Definitions only. *)
From Coq Require Import List ZArith NArith Bool Permutation.
Import ListNotations.
From Verif Require Import Common.Base Model.SampleBuilder.
Open Scope N_scope.

(* the packets handed to Push, in order *)
Definition pushed_of (ops : list op) : list packet :=
  flat_map (fun o => match o with OPush pk => [pk] | _ => [] end) ops.

(* histories the API admits: sequence numbers are uint16, and every Push
   supplies its own packet object (p_id is that object's identity) *)
Definition history_ok (ops : list op) : Prop :=
  (forall pk, In pk (pushed_of ops) -> p_seq pk < 65536) /\
  NoDup (map p_id (pushed_of ops)).

(* the keys h, h+1, ... in uint16 *)
Fixpoint keys_from (h : N) (n : nat) : list N :=
  match n with O => [] | S k => h :: keys_from (inc16 h) k end.

Section Spec.
  Variable is_head : list N -> bool.
  Variable is_tail : bool -> list N -> bool.
  Variable unmarshal : list N -> option (list N).
  Notation ptail p := (is_tail (p_marker p) (p_payload p)).

  (* clause 1 for one sample x, against the packets pushed, in two parts.
     sample_run: x is made of a non-empty run of pushed packets with consecutive
     sequence numbers (fewer than 2^16 of them), the first a partition head, and
     its bytes are their depacketized payloads in order. *)
  Definition sample_run (pushed : list packet) (x : sample) : Prop :=
    exists h hp rest ds,
      h < 65536 /\
      N.of_nat (List.length (hp :: rest)) < 65536 /\
      s_pkts x = hp :: rest /\
      Forall2 (fun k p => In p pushed /\ p_seq p = k) (keys_from h (List.length (hp :: rest))) (hp :: rest) /\
      is_head (p_payload hp) = true /\
      map (fun p => unmarshal (p_payload p)) (hp :: rest) = map Some ds /\
      s_data x = concat ds.

  (* sample_ts: the timestamp part, in the form the code satisfies: the sample's
     timestamp is the head packet's; all packets but the last share it (and are
     not partition tails), and the last shares it unless it is a partition tail;
     "all share one timestamp" is one_timestamp below. *)
  Definition sample_ts (x : sample) : Prop :=
    exists hp rest,
      s_pkts x = hp :: rest /\
      s_ts x = p_ts hp /\
      (forall p, In p (removelast (hp :: rest)) -> p_ts p = p_ts hp /\ ptail p = false) /\
      (ptail (last rest hp) = false -> p_ts (last rest hp) = p_ts hp).

  Definition sample_wf (pushed : list packet) (x : sample) : Prop :=
    sample_run pushed x /\ sample_ts x.
End Spec.

Definition one_timestamp (x : sample) : Prop :=
  forall p q, In p (s_pkts x) -> In q (s_pkts x) -> p_ts p = p_ts q.

(* clause 2: samples come out in sequence-number order (uint16 order: the
   later sample starts less than half the ring after the earlier one ends),
   and no pushed packet is part of two samples *)
Definition seq_after (a b : N) : Prop := 0 < sub16 b a /\ sub16 b a < 32768.
Definition first_seq (x : sample) : N := match s_pkts x with p :: _ => p_seq p | [] => 0 end.
Definition last_seq (x : sample) : N := p_seq (last (s_pkts x) (mkPacket 0 0 0 false [])).
Fixpoint in_order (l : list sample) : Prop :=
  match l with
  | x :: ((y :: _) as t) => seq_after (last_seq x) (first_seq y) /\ in_order t
  | _ => True
  end.
Definition each_packet_once (l : list sample) : Prop :=
  NoDup (flat_map (fun x => map p_id (s_pkts x)) l).

(* ---------- guards of the partial order / once statements, on the ghost event log ----------
   evlog records every change of active.head, newest first:
     EvAnchor a h lag   active = filled: the head jumps from a to h = filled.head; lag = some packet
                        of an already built sample is still buffered at that moment
     EvMove k h t       the run [h, t) was consumed (k = 0: a sample was built from it, 1: dropped
                        because it does not start at a partition head, 2: Unmarshal error)
     EvSkip h           active.head++ in purgeBuffers *)
Definition ev_src (e : ev) : N := match e with EvAnchor a _ _ => a | EvMove _ h _ => h | EvSkip h => h end.
Definition ev_end (e : ev) : N := match e with EvAnchor _ h _ => h | EvMove _ _ t => t | EvSkip h => inc16 h end.
(* how far the event moves the head, counted forwards modulo 2^16 *)
Definition ev_len (e : ev) : N := sub16 (ev_end e) (ev_src e).
Definition is_sample_ev (e : ev) : bool := match e with EvMove 0 _ _ => true | _ => false end.

(* forward distance the head has travelled since the end of the last built sample;
   None before the first sample *)
Fixpoint gapl (l : list ev) : option N :=
  match l with
  | [] => None
  | e :: l' => if is_sample_ev e then Some 0
               else match gapl l' with Some g => Some (g + ev_len e) | None => None end
  end.

(* log_ok: once a sample has been built, the head never gets 32767 or more ahead of the end
   of the last built sample.  A re-anchoring that lands behind the position reached (recorded
   causes consumed-packets-rebuilt-after-active-drained, stale-packet-accepted-after-buffer-
   drained) is a forward jump of 32768 or more and violates it; so do half a ring of dropped
   or skipped sequence numbers between two samples. *)
Fixpoint log_ok (l : list ev) : Prop :=
  match l with
  | [] => True
  | e :: l' => log_ok l' /\ (is_sample_ev e = false -> forall g, gapl l' = Some g -> g + ev_len e < 32767)
  end.

(* clean_log: the active window is never re-anchored while a packet of an already built sample is
   still buffered (the negation of consumed-packets-rebuilt-after-active-drained) *)
Definition clean_log (l : list ev) : Prop := forall a h, ~ In (EvAnchor a h true) l.

(* clause 3: a well-formed frame-structured stream (consecutive sequence
   numbers, one timestamp per frame, different from the next frame's, exactly
   the first packet a partition head and exactly the last a partition tail),
   delivered completely, each packet once, every packet displaced by at most d
   positions; then Flush and one Pop per frame: every frame comes out. *)
Section Complete.
  Variable is_head : list N -> bool.
  Variable is_tail : bool -> list N -> bool.
  Notation ptail p := (is_tail (p_marker p) (p_payload p)).

  Definition frame_ok (f : list packet) : Prop :=
    match f with
    | [] => False
    | hp :: rest =>
        is_head (p_payload hp) = true /\
        (forall p, In p rest -> is_head (p_payload p) = false /\ p_ts p = p_ts hp) /\
        ptail (last rest hp) = true /\
        (forall p, In p (removelast (hp :: rest)) -> ptail p = false)
    end.

  Fixpoint frame_ts_differ (fs : list (list packet)) : Prop :=
    match fs with
    | (p :: _) :: (((q :: _) :: _) as t) => p_ts p <> p_ts q /\ frame_ts_differ t
    | _ => True
    end.

  Definition stream_ok (fs : list (list packet)) : Prop :=
    Forall frame_ok fs /\ frame_ts_differ fs /\
    (exists h, h < 65536 /\ map p_seq (concat fs) = keys_from h (List.length (concat fs))) /\
    N.of_nat (List.length (concat fs)) < 32768 /\
    NoDup (map p_id (concat fs)).

  (* ops pushes exactly the stream's packets, each displaced by at most d *)
  Definition delivers (d : nat) (fs : list (list packet)) (ops : list op) : Prop :=
    Permutation (pushed_of ops) (concat fs) /\
    (forall i j p, nth_error (concat fs) i = Some p -> nth_error (pushed_of ops) j = Some p ->
                   (i <= j + d)%nat /\ (j <= i + d)%nat) /\
    (forall o, In o ops -> o <> OFlush).

  Definition all_frames_emitted (fs : list (list packet)) (outs : list sample) : Prop :=
    forall f, In f fs -> exists x, In x outs /\ s_pkts x = f.

  Definition first_pushed_is_lowest (fs : list (list packet)) (ops : list op) : Prop :=
    hd_error (pushed_of ops) = hd_error (concat fs).
End Complete.
