(* C32: pkg/media/ivfwriter/ivfwriter.go and pkg/media/ivfreader/ivfreader.go
   transcribed statement by statement.  No proofs here.

   What is modelled: the 32-byte file header, the 12-byte frame header, the
   writer's per-codec state machine (WriteRTP -> writeVP8/writeVP9/writeAV1 ->
   writeFrame), Close (frame-count patch when the output can seek), the
   reader's parseFileHeader / NewWith checks / ParseNextFrame.

   What is assumed (the contract of pion/rtp, outside /repo): what
   codecs.VP8Packet.Unmarshal, codecs.VP9Packet.Unmarshal and
   codecs.AV1Depacketizer.Unmarshal return for a packet.  The writer model
   runs over *packet descriptors* [pkt]: the depacketizer's verdict for that
   packet (error or not, start-of-frame bit, P / N flag, depacketized
   payload) together with the RTP timestamp and marker.  The harness dumps
   these descriptors from the real depacketizers for every packet it feeds
   to the real writer. *)
From Coq Require Import String List NArith Bool.
Import ListNotations.
From Verif Require Import Common.V Common.Base.
Open Scope N_scope.

Inductive codec := VP8 | VP9 | AV1.

(* NewWith's options after they were applied (uint16 / uint32 fields) *)
Record opts := mkOpts {
  o_codec : codec;
  o_width : N;    (* uint16 *)
  o_height : N;   (* uint16 *)
  o_num : N;      (* timebaseNumerator, uint32 *)
  o_den : N;      (* timebaseDenominator, uint32 *)
  o_direct : bool (* WithDirectPTS *)
}.

(* "VP80" "VP90" "AV01" *)
Definition fourcc (c : codec) : list N :=
  match c with
  | VP8 => [86; 80; 56; 48]
  | VP9 => [86; 80; 57; 48]
  | AV1 => [65; 86; 48; 49]
  end.

Definition sig_dkif : list N := [68; 75; 73; 70].

(* writeHeader: the count field is the constant 900 until Close patches it *)
Definition ivf_header (o : opts) (count : N) : list N :=
  sig_dkif ++ le_bytes 2 0 ++ le_bytes 2 32 ++ fourcc (o_codec o)
  ++ le_bytes 2 (o_width o) ++ le_bytes 2 (o_height o)
  ++ le_bytes 4 (o_den o) ++ le_bytes 4 (o_num o)
  ++ le_bytes 4 count ++ le_bytes 4 0.

Definition header_count_placeholder : N := 900.

(* one RTP packet as the writer sees it *)
Record pkt := mkPkt {
  p_ts : N;              (* packet.Timestamp, uint32 *)
  p_marker : bool;       (* packet.Marker *)
  p_raw_empty : bool;    (* len(packet.Payload) == 0 *)
  p_err : bool;          (* the codec's Unmarshal returned an error *)
  p_start : bool;        (* VP8: S == 1.  VP9: B.  AV1: unused *)
  p_flag : bool;         (* VP9: P.  AV1: depacketizer.N after Unmarshal.  VP8: unused *)
  p_payload : list N     (* VP8/VP9: Packet.Payload.  AV1: the returned OBU stream *)
}.

(* one call writeFrame(frame, timestamp).  f_src is ghost: the packets whose
   payloads were appended to make the frame; it influences nothing. *)
Record frec := mkFrec {
  f_bytes : list N;
  f_time : N;            (* the timestamp argument *)
  f_pts : N;             (* what went into the frame header *)
  f_src : list pkt
}.

Record wst := mkWst {
  w_out : list N;        (* everything written to ioWriter so far *)
  w_count : N;           (* uint64 *)
  w_seen : bool;         (* seenKeyFrame *)
  w_first : N;           (* firstFrameTimestamp, uint32 *)
  w_cur : list N;        (* currentFrame; nil and empty coincide (see note) *)
  w_cursrc : list pkt;   (* ghost: packets appended to currentFrame *)
  w_log : list frec      (* ghost: the writeFrame calls so far, oldest first *)
}.
(* note on currentFrame == nil: the slice is only ever set to nil or to
   append(currentFrame, payload...); appending zero bytes to nil gives nil and
   appending anything else gives a non-empty slice, so "== nil" and "len == 0"
   are the same condition on every reachable state. *)

Inductive status := SOk | SErr | SPanic.

Definition set_first (s : wst) (t : N) : wst :=
  mkWst (w_out s) (w_count s) (w_seen s) t (w_cur s) (w_cursrc s) (w_log s).

(* seenKeyFrame = true; currentFrame = append(currentFrame, payload...) *)
Definition accept (s : wst) (p : pkt) : wst :=
  mkWst (w_out s) (w_count s) true (w_first s) (w_cur s ++ p_payload p)
        (w_cursrc s ++ [p]) (w_log s).

Definition set_seen (s : wst) : wst :=
  mkWst (w_out s) (w_count s) true (w_first s) (w_cur s) (w_cursrc s) (w_log s).

(* timestampToPts: uint64 product, then uint64 division (panics on zero) *)
Definition timestamp_to_pts (o : opts) (timestamp : N) : option N :=
  if o_den o =? 0 then None
  else Some (u64 (timestamp * o_num o) / o_den o).

Definition frame_header (len pts : N) : list N :=
  le_bytes 4 (u32 len) ++ le_bytes 8 pts.

(* writeFrame followed by currentFrame = nil (every call site does that) *)
Definition write_frame (o : opts) (s : wst) (frame : list N) (timestamp : N) : wst * status :=
  let pts := if o_direct o then Some timestamp else timestamp_to_pts o timestamp in
  match pts with
  | None => (s, SPanic)
  | Some pts =>
      (mkWst (w_out s ++ frame_header (N.of_nat (length frame)) pts ++ frame)
             (u64 (w_count s + 1)) (w_seen s) (w_first s) [] []
             (w_log s ++ [mkFrec frame timestamp pts (w_cursrc s)]),
       SOk)
  end.

Definition is_nil (l : list N) : bool := match l with [] => true | _ => false end.

Definition write_vp8 (o : opts) (s : wst) (p : pkt) (timestamp : N) : wst * status :=
  if p_err p then (s, SErr)
  else match p_payload p with
  | [] => (s, SOk)   (* header-only packet (fix 73900d2; before it: index panic) *)
  | b0 :: _ =>
      let is_key := N.land b0 1 =? 0 in
      if negb (w_seen s) && negb is_key then (s, SOk)
      else if is_nil (w_cur s) && negb (p_start p) then (s, SOk)
      else
        let s1 := accept s p in
        if negb (p_marker p) then (s1, SOk)
        else if is_nil (w_cur s1) then (s1, SOk)
        else write_frame o s1 (w_cur s1) timestamp
  end.

Definition write_vp9 (o : opts) (s : wst) (p : pkt) (timestamp : N) : wst * status :=
  if p_err p then (s, SErr)
  else if negb (w_seen s) && p_flag p then (s, SOk)
  else if is_nil (w_cur s) && negb (p_start p) then (s, SOk)
  else
    let s1 := accept s p in
    if negb (p_marker p) then (s1, SOk)
    else if is_nil (w_cur s1) then (s1, SOk)
    else write_frame o s1 (w_cur s1) timestamp.

(* obu.Header{Type: OBUTemporalDelimiter, HasSizeField: true}.Marshal() ++ [0] *)
Definition av1_delimiter : list N := [18; 0].
Definition obu_sequence_header : N := 1.

Definition write_av1 (o : opts) (s : wst) (p : pkt) (timestamp : N) : wst * status :=
  if p_err p then (s, SErr)
  else
    let is_key :=
      p_flag p ||
      match p_payload p with
      | [] => false
      | b0 :: _ => N.shiftr (N.land b0 120) 3 =? obu_sequence_header
      end in
    if negb (w_seen s) && negb is_key then (s, SOk)
    else
      let s1 := accept s p in
      if negb (p_marker p) then (s1, SOk)
      else write_frame o s1 (av1_delimiter ++ w_cur s1) timestamp.

Definition clock_rate : N := 90000.

Definition write_rtp (o : opts) (s : wst) (p : pkt) : wst * status :=
  if p_raw_empty p then (s, SOk)
  else
    let s0 := if w_count s =? 0 then set_first s (p_ts p) else s in
    let d := subw 4294967296 (p_ts p) (w_first s0) in
    let timestamp := if o_direct o then d else u64 (1000 * d) / clock_rate in
    match o_codec o with
    | VP8 => write_vp8 o s0 p timestamp
    | VP9 => write_vp9 o s0 p timestamp
    | AV1 => write_av1 o s0 p timestamp
    end.

(* NewWith: the header is written before the denominator is checked *)
Definition init_state (o : opts) : wst :=
  mkWst (ivf_header o header_count_placeholder) 0 false 0 [] [] [].

Definition new_writer (o : opts) : wst * status :=
  (init_state o, if o_den o =? 0 then SErr else SOk).

(* feed packets in order; a panic ends the run (the status list stops there) *)
Fixpoint run_packets (o : opts) (s : wst) (ps : list pkt) : wst * list status :=
  match ps with
  | [] => (s, [])
  | p :: rest =>
      match write_rtp o s p with
      | (s1, SPanic) => (s1, [SPanic])
      | (s1, st) => let (s2, sts) := run_packets o s1 rest in (s2, st :: sts)
      end
  end.

(* Close: Seek(24, 0) and a 4-byte write when the output is an io.WriteSeeker *)
Definition patch (l : list N) (off : nat) (data : list N) : list N :=
  firstn off l ++ data ++ skipn (off + length data) l.

Definition close (seekable : bool) (s : wst) : list N :=
  if seekable then patch (w_out s) 24 (le_bytes 4 (u32 (w_count s))) else w_out s.

Definition written (o : opts) (ps : list pkt) (seekable : bool) : list N :=
  close seekable (fst (run_packets o (init_state o) ps)).

Definition frames_of (o : opts) (ps : list pkt) : list frec :=
  w_log (fst (run_packets o (init_state o) ps)).

(* ------------------------------------------------------------------ *)
(* reader *)

Record fhdr := mkFhdr {
  h_fourcc : list N;
  h_width : N; h_height : N;
  h_den : N; h_num : N;
  h_frames : N;
  h_hsize : N; h_unused : N
}.

(* io.ReadFull(stream, make([]byte, n)): all n bytes, or io.EOF when nothing
   could be read and n > 0, or io.ErrUnexpectedEOF.  n stays in N: a frame
   size field can be 2^32-1 and must never become a unary nat. *)
Inductive rd := RdOk (got rest : list N) | RdEOF | RdShort.
Definition read_full (n : N) (l : list N) : rd :=
  if n <=? N.of_nat (length l) then RdOk (firstn (N.to_nat n) l) (skipn (N.to_nat n) l)
  else match l with [] => RdEOF | _ => RdShort end.

Definition list_N_eqb (a b : list N) : bool :=
  (fix go a b := match a, b with
                 | [], [] => true
                 | x :: a', y :: b' => N.eqb x y && go a' b'
                 | _, _ => false
                 end) a b.

Definition sub (l : list N) (i j : nat) : list N := firstn (j - i) (skipn i l).

(* parseFileHeader + the timebase check of NewWith.  The buffer has exactly 32
   bytes after a successful ReadFull, so the fixed slices cannot go out of
   range. *)
Definition parse_header (l : list N) : result (fhdr * list N) :=
  match read_full 32 l with
  | RdEOF => Err "EOF"
  | RdShort => Err "incomplete-file-header"
  | RdOk b rest =>
      let h := mkFhdr (sub b 8 12) (le_val (sub b 12 14)) (le_val (sub b 14 16))
                      (le_val (sub b 16 20)) (le_val (sub b 20 24)) (le_val (sub b 24 28))
                      (le_val (sub b 6 8)) (le_val (sub b 28 32)) in
      if negb (list_N_eqb (sub b 0 4) sig_dkif) then Err "signature"
      else if negb (le_val (sub b 4 6) =? 0) then Err "version"
      else if (h_den h =? 0) || (h_num h =? 0) then Err "timebase"
      else Ok (h, rest)
  end.

(* ptsToTimestamp *)
Definition pts_to_timestamp (den num pts : N) : option N :=
  if num =? 0 then None else Some (u64 (pts * den) / num).

Record rframe := mkRframe { r_payload : list N; r_size : N; r_time : N }.

(* ParseNextFrame *)
Definition parse_next_frame (den num : N) (l : list N) : result (rframe * list N) :=
  match read_full 12 l with
  | RdEOF => Err "EOF"
  | RdShort => Err "incomplete-frame-header"
  | RdOk b rest =>
      let pts := le_val (sub b 4 12) in
      let size := le_val (sub b 0 4) in
      match pts_to_timestamp den num pts with
      | None => Panic
      | Some t =>
          match read_full size rest with
          | RdEOF => Err "EOF"
          | RdShort => Err "incomplete-frame-data"
          | RdOk payload rest' => Ok (mkRframe payload size t, rest')
          end
      end
  end.

(* call ParseNextFrame until it returns an error; the error class ends the
   observation.  Every successful call consumes at least 12 bytes, so
   S (length l) rounds are enough (Proofs/Ivf.v: read_frames_fuel). *)
Fixpoint read_frames (fuel : nat) (den num : N) (l : list N) : list rframe * string :=
  match fuel with
  | O => ([], "out-of-fuel"%string)
  | S f =>
      match parse_next_frame den num l with
      | Ok (fr, rest) => let (frs, e) := read_frames f den num rest in (fr :: frs, e)
      | Err e => ([], e)
      | Panic => ([], "panic"%string)
      end
  end.

Definition read_file (l : list N) : result (fhdr * list rframe * string) :=
  match parse_header l with
  | Ok (h, rest) =>
      let (frs, e) := read_frames (S (length rest)) (h_den h) (h_num h) rest in
      Ok (h, frs, e)
  | Err e => Err e
  | Panic => Panic
  end.
