(* C08: the direction arithmetic behind an answer.  Transcribed from
     peerconnection.go   SetRemoteDescription (transceiver matching and the
                         direction switch), CreateAnswer/generateMatchedSDP
                         (findByMid per offered section), SetLocalDescription +
                         setRTPTransceiverCurrentDirection, AddTrack,
                         RemoveTrack, AddTransceiverFromKind
     rtptransceiver.go   findByMid, satisfyTypeAndDirection, isSendAllowed,
                         setSendingTrack, Stop, newRTPTransceiver
     sdp.go              addTransceiverSDP (emits transceiver.Direction())
   Transceivers are positions in the connection's list (Go: pointers in
   pc.rtpTransceivers, append-only).  No proofs here. *)
From Coq Require Import List Bool Arith String.
Import ListNotations.
From Verif Require Import Common.Base.

Inductive kind := Audio | Video.
(* rtptransceiverdirection.go, iota order; DUnk is the zero value "unknown" *)
Inductive dir := DUnk | Sendrecv | Sendonly | Recvonly | Inactive.

Definition kind_eqb (a b : kind) : bool :=
  match a, b with Audio, Audio | Video, Video => true | _, _ => false end.
Definition dir_eqb (a b : dir) : bool :=
  match a, b with
  | DUnk, DUnk | Sendrecv, Sendrecv | Sendonly, Sendonly | Recvonly, Recvonly
  | Inactive, Inactive => true
  | _, _ => false
  end.

Record tr := {
  t_mid : option nat;      (* Mid(); offered section i carries mid "i" *)
  t_kind : kind;
  t_dir : dir;             (* Direction() *)
  t_cur : dir;             (* getCurrentDirection() *)
  t_rem : dir;             (* getCurrentRemoteDirection() *)
  t_sender : bool;         (* Sender() != nil *)
}.

Definition set_dir (t : tr) (d : dir) : tr :=
  {| t_mid := t_mid t; t_kind := t_kind t; t_dir := d; t_cur := t_cur t; t_rem := t_rem t; t_sender := t_sender t |}.
Definition set_cur (t : tr) (d : dir) : tr :=
  {| t_mid := t_mid t; t_kind := t_kind t; t_dir := t_dir t; t_cur := d; t_rem := t_rem t; t_sender := t_sender t |}.
Definition set_rem (t : tr) (d : dir) : tr :=
  {| t_mid := t_mid t; t_kind := t_kind t; t_dir := t_dir t; t_cur := t_cur t; t_rem := d; t_sender := t_sender t |}.
Definition set_mid (t : tr) (m : nat) : tr :=
  {| t_mid := Some m; t_kind := t_kind t; t_dir := t_dir t; t_cur := t_cur t; t_rem := t_rem t; t_sender := t_sender t |}.
Definition set_sender (t : tr) (s : bool) : tr :=
  {| t_mid := t_mid t; t_kind := t_kind t; t_dir := t_dir t; t_cur := t_cur t; t_rem := t_rem t; t_sender := s |}.

(* newRTPTransceiver *)
Definition new_tr (k : kind) (d : dir) (sender : bool) : tr :=
  {| t_mid := None; t_kind := k; t_dir := d; t_cur := DUnk; t_rem := DUnk; t_sender := sender |}.

Definition pc := list tr.

Fixpoint update {A} (l : list A) (i : nat) (a : A) : list A :=
  match l, i with
  | [], _ => []
  | _ :: t, O => a :: t
  | h :: t, S j => h :: update t j a
  end.

Definition has_mid (m : nat) (t : tr) : bool :=
  match t_mid t with Some x => Nat.eqb x m | None => false end.

(* findByMid over the not-yet-used positions: first candidate whose
   transceiver has the mid; returns it and the remaining candidates *)
Fixpoint find_by_mid (p : pc) (m : nat) (cands : list nat) : option nat * list nat :=
  match cands with
  | [] => (None, [])
  | i :: rest =>
      match nth_error p i with
      | Some t =>
          if has_mid m t then (Some i, rest)
          else let (r, rest') := find_by_mid p m rest in (r, i :: rest')
      | None => let (r, rest') := find_by_mid p m rest in (r, i :: rest')
      end
  end.

(* satisfyTypeAndDirection *)
Definition preferred (remote : dir) : list dir :=
  match remote with
  | Sendrecv => [Recvonly; Sendrecv; Sendonly]
  | Sendonly => [Recvonly]
  | Recvonly => [Sendonly; Sendrecv]
  | _ => []
  end.

Fixpoint first_match (p : pc) (k : kind) (d : dir) (cands : list nat) : option nat * list nat :=
  match cands with
  | [] => (None, [])
  | i :: rest =>
      match nth_error p i with
      | Some t =>
          if match t_mid t with None => true | Some _ => false end
             && kind_eqb (t_kind t) k && dir_eqb d (t_dir t)
          then (Some i, rest)
          else let (r, rest') := first_match p k d rest in (r, i :: rest')
      | None => let (r, rest') := first_match p k d rest in (r, i :: rest')
      end
  end.

Fixpoint satisfy_dirs (p : pc) (k : kind) (ds : list dir) (cands : list nat) : option nat * list nat :=
  match ds with
  | [] => (None, cands)
  | d :: more =>
      match first_match p k d cands with
      | (Some i, rest) => (Some i, rest)
      | (None, _) => satisfy_dirs p k more cands
      end
  end.

Definition satisfy (p : pc) (k : kind) (remote : dir) (cands : list nat) : option nat * list nat :=
  satisfy_dirs p k (preferred remote) cands.

(* RTPTransceiver.Stop: sender and receiver are stopped (no error in
   signalling-only use), direction and currentDirection become inactive *)
Definition stop_tr (t : tr) : tr := set_cur (set_dir t Inactive) Inactive.

(* the direction switch of SetRemoteDescription for a transceiver that exists *)
Definition adjust (offered : dir) (t : tr) : tr :=
  match offered with
  | Recvonly =>
      match t_dir t with
      | Sendrecv => set_dir t Sendonly
      | Recvonly => set_dir t Inactive
      | _ => t
      end
  | Sendrecv =>
      match t_dir t with
      | Sendonly => set_dir t Sendrecv
      | Inactive => set_dir t Recvonly
      | _ => t
      end
  | Sendonly =>
      (* only inactive is adjusted: a local sendrecv or sendonly direction is kept *)
      match t_dir t with
      | Inactive => set_dir t Recvonly
      | _ => t
      end
  | _ => t
  end.

(* direction of a transceiver created for an offered section nobody matches *)
Definition new_local_dir (offered : dir) : dir :=
  match offered with
  | Recvonly => Sendonly
  | Inactive => Inactive
  | _ => Recvonly
  end.

Definition set_mid_if_empty (t : tr) (m : nat) : tr :=
  match t_mid t with None => set_mid t m | Some _ => t end.

(* one media section of a remote offer: loop body of SetRemoteDescription.
   sections with unknown kind or without direction are skipped by the code
   (continue) and are not part of this model's offers *)
Definition remote_section_known (p : pc) (cands : list nat) (m : nat) (k : kind) (d : dir)
  : pc * list nat :=
  match find_by_mid p m cands with
  | (Some i, rest) =>
      match nth_error p i with
      | Some t =>
          let t := if dir_eqb d Inactive then stop_tr t else t in
          let t := set_rem t d in
          let t := adjust d t in
          (update p i (set_mid_if_empty t m), rest)
      | None => (p, cands)
      end
  | (None, _) =>
      match satisfy p k d cands with
      | (Some i, rest) =>
          match nth_error p i with
          | Some t =>
              let t := set_rem t d in
              let t := adjust d t in
              (update p i (set_mid_if_empty t m), rest)
          | None => (p, cands)
          end
      | (None, rest) =>
          let t := set_rem (new_tr k (new_local_dir d) false) d in
          (p ++ [set_mid t m], rest)
      end
  end.

Definition remote_section (st : pc * list nat) (m : nat) (sec : kind * dir) : pc * list nat :=
  let (p, cands) := st in
  let (k, d) := sec in
  match d with
  | DUnk => st
  | _ => remote_section_known p cands m k d
  end.

Fixpoint remote_sections (st : pc * list nat) (m : nat) (secs : list (kind * dir)) : pc * list nat :=
  match secs with
  | [] => st
  | s :: more => remote_sections (remote_section st m s) (S m) more
  end.

(* SetRemoteDescription(offer) as far as transceivers are concerned *)
Definition set_remote (p : pc) (secs : list (kind * dir)) : pc :=
  fst (remote_sections (p, seq 0 (List.length p)) 0 secs).

(* CreateAnswer: generateMatchedSDP finds each offered section's transceiver
   by mid (used ones are removed from the candidates) and addTransceiverSDP
   writes its Direction(); a missing transceiver is an error *)
Fixpoint answer_dirs (p : pc) (cands : list nat) (m : nat) (secs : list (kind * dir)) : result (list dir) :=
  match secs with
  | [] => Ok []
  | (_, DUnk) :: more => answer_dirs p cands (S m) more
  | _ :: more =>
      match find_by_mid p m cands with
      | (Some i, rest) =>
          match nth_error p i with
          | Some t => rbind (answer_dirs p rest (S m) more) (fun l => Ok (t_dir t :: l))
          | None => Panic
          end
      | (None, _) => Err "errPeerConnTranscieverMidNil"
      end
  end.

Definition create_answer (p : pc) (secs : list (kind * dir)) : result (list dir) :=
  answer_dirs p (seq 0 (List.length p)) 0 secs.

(* SetLocalDescription(answer): setRTPTransceiverCurrentDirection(weOffer=false) *)
Fixpoint local_answer (p : pc) (cands : list nat) (m : nat) (secs : list (kind * dir)) : pc :=
  match secs with
  | [] => p
  | (_, DUnk) :: more => local_answer p cands (S m) more
  | _ :: more =>
      match find_by_mid p m cands with
      | (Some i, rest) =>
          match nth_error p i with
          | Some t =>
              let d := t_dir t in
              let d := if dir_eqb d Sendonly && negb (t_sender t) then Inactive else d in
              local_answer (update p i (set_cur t d)) rest (S m) more
          | None => p
          end
      | (None, _) => p   (* error return: the loop stops, the error is discarded *)
      end
  end.

Definition set_local_answer (p : pc) (secs : list (kind * dir)) : pc :=
  local_answer p (seq 0 (List.length p)) 0 secs.

(* ---- local operations ---- *)
Inductive lop :=
| AddTr (k : kind) (d : dir)     (* AddTransceiverFromKind *)
| AddTrack (k : kind)
| RmTrack (i : nat)              (* RemoveTrack(sender of transceiver i) *)
| StopTr (i : nat)               (* transceiver i .Stop() *)
| SetSender (i : nat).           (* transceiver i .SetSender(new sender, new track) *)

(* setSendingTrack with a track: the direction part *)
Definition with_track (t : tr) : tr :=
  match t_dir t with
  | Recvonly => set_dir t Sendrecv
  | Inactive => set_dir t Sendonly
  | _ => t
  end.

Definition is_send_allowed (t : tr) (k : kind) : bool :=
  kind_eqb (t_kind t) k && negb (t_sender t)
  && negb (dir_eqb (t_cur t) Sendrecv || dir_eqb (t_cur t) Sendonly)
  && negb (dir_eqb (t_rem t) Sendonly || dir_eqb (t_rem t) Inactive).

Fixpoint add_track (p : pc) (k : kind) : pc :=
  match p with
  | [] => [new_tr k Sendrecv true]
  | t :: rest =>
      if is_send_allowed t k then with_track (set_sender t true) :: rest
      else t :: add_track rest k
  end.

(* result codes of a local operation as the harness reports them:
   0 ok, 1 error, 2 skipped (no such transceiver / no sender to remove) *)
Definition local_op (p : pc) (o : lop) : pc * nat :=
  match o with
  | AddTr k d =>
      match d with
      | Sendrecv | Sendonly => (p ++ [new_tr k d true], 0)
      | Recvonly => (p ++ [new_tr k Recvonly false], 0)
      | _ => (p, 1)
      end
  | AddTrack k => (add_track p k, 0)
  | RmTrack i =>
      match nth_error p i with
      | Some t =>
          if t_sender t then
            (* sender.Stop(); setSendingTrack(nil): the sender is detached first *)
            let t := set_sender t false in
            match t_dir t with
            | Sendrecv => (update p i (set_dir t Recvonly), 0)
            | Sendonly => (update p i (set_dir t Inactive), 0)
            | _ => (update p i t, 1)   (* errRTPTransceiverSetSendingInvalidState *)
            end
          else (p, 2)
      | None => (p, 2)
      end
  | StopTr i =>
      match nth_error p i with
      | Some t => (update p i (stop_tr t), 0)
      | None => (p, 2)
      end
  | SetSender i =>
      match nth_error p i with
      | Some t => (update p i (with_track (set_sender t true)), 0)
      | None => (p, 2)
      end
  end.

Fixpoint local_ops (p : pc) (os : list lop) : pc * list nat :=
  match os with
  | [] => (p, [])
  | o :: more =>
      let (p1, c) := local_op p o in
      let (p2, cs) := local_ops p1 more in
      (p2, c :: cs)
  end.

(* ---- histories ---- *)
Inductive op :=
| Local (o : lop)
| Exchange (secs : list (kind * dir)) (mid : list lop).
  (* SetRemoteDescription(offer secs); mid; CreateAnswer; SetLocalDescription(answer) *)

(* what an exchange lets the outside see *)
Record xobs := { x_mid_codes : list nat; x_answer : result (list dir) }.

Definition exchange (p : pc) (secs : list (kind * dir)) (mid : list lop) : pc * xobs :=
  let p1 := set_remote p secs in
  let (p2, codes) := local_ops p1 mid in
  let a := create_answer p2 secs in
  let p3 := match a with Ok _ => set_local_answer p2 secs | _ => p2 end in
  (p3, {| x_mid_codes := codes; x_answer := a |}).

Definition step (p : pc) (o : op) : pc :=
  match o with
  | Local l => fst (local_op p l)
  | Exchange secs mid => fst (exchange p secs mid)
  end.

Definition run_history (os : list op) : pc := fold_left step os [].

(* ---- specification: RFC 3264 section 6.1 ---- *)
Definition sends (d : dir) : bool := match d with Sendrecv | Sendonly => true | _ => false end.
Definition recvs (d : dir) : bool := match d with Sendrecv | Recvonly => true | _ => false end.

(* answered direction a is a legal response to offered direction o: the
   answerer sends only if the offerer receives and receives only if the
   offerer sends.  Spelled out: sendrecv -> anything; sendonly -> recvonly or
   inactive; recvonly -> sendonly or inactive; inactive -> inactive. *)
Definition legal (o a : dir) : bool :=
  match a with
  | DUnk => false
  | _ => implb (sends a) (recvs o) && implb (recvs a) (sends o)
  end.

Definition real_dir (d : dir) : bool := negb (dir_eqb d DUnk).

Fixpoint all_legal (secs : list (kind * dir)) (ans : list dir) : bool :=
  match secs, ans with
  | [], [] => true
  | (_, DUnk) :: more, _ => all_legal more ans
  | (_, o) :: more, a :: rest => legal o a && all_legal more rest
  | _, _ => false
  end.

Definition no_setsender (os : list lop) : bool :=
  forallb (fun o => match o with SetSender _ => false | _ => true end) os.

(* SetSender is applied only to a transceiver whose currentRemoteDirection
   receives -- the check AddTrack's isSendAllowed makes and SetSender lacks *)
Definition setsender_ok (p : pc) (o : lop) : bool :=
  match o with
  | SetSender i =>
      match nth_error p i with
      | Some t => negb (dir_eqb (t_rem t) Sendonly || dir_eqb (t_rem t) Inactive)
      | None => true
      end
  | _ => true
  end.

Fixpoint setsender_guarded (p : pc) (os : list lop) : bool :=
  match os with
  | [] => true
  | o :: more => setsender_ok p o && setsender_guarded (fst (local_op p o)) more
  end.

(* the answer an exchange produces *)
Definition answer_of (p : pc) (secs : list (kind * dir)) (mid : list lop) : result (list dir) :=
  x_answer (snd (exchange p secs mid)).

(* the characterised defect of the direction switch: an offered a=sendonly on a
   mid whose already-bound transceiver is sendrecv or sendonly keeps that
   direction.  reoffer_ok p secs: no section of the offer is in that situation
   in state p (the state SetRemoteDescription starts from). *)
Definition keeps_sending (m : nat) (t : tr) : bool :=
  has_mid m t && (dir_eqb (t_dir t) Sendrecv || dir_eqb (t_dir t) Sendonly).

Fixpoint reoffer_ok_from (p : pc) (m : nat) (secs : list (kind * dir)) : bool :=
  match secs with
  | [] => true
  | (_, d) :: more =>
      (if dir_eqb d Sendonly then forallb (fun t => negb (keeps_sending m t)) p else true)
      && reoffer_ok_from p (S m) more
  end.

Definition reoffer_ok (p : pc) (secs : list (kind * dir)) : bool := reoffer_ok_from p 0 secs.
