(* C18: data-channel stream ids.
   sctptransport.go generateAndSetDataChannelID, the bookkeeping of
   dataChannelIDsUsed (peerconnection.go CreateDataChannel, sctptransport.go
   onDataChannel) and datachannel.go open's id assignment.
   Every op below is one critical section of the code (under r.lock / d.mu),
   so histories of ops are exactly the interleavings of concurrent callers.
   Definitions only; proofs are in Proofs/Sid.v. *)
From Coq Require Import List NArith Arith Bool String.
Import ListNotations.
From Verif Require Import Common.Base.
Open Scope N_scope.

Definition memN (x : N) (l : list N) : bool := existsb (N.eqb x) l.

(* var id uint16; if dtlsRole != DTLSRoleClient { id++ } *)
Definition start_of (client : bool) : N := if client then 0 else 1.

(* for ; id < maxVal-1; id += 2 { if used[id] { continue }; return id }; return ErrMaxDataChannelID
   uint16 arithmetic: maxVal-1 and id += 2 wrap.  The loop is bounded by fuel;
   Proofs/Sid.v shows that S (length used) iterations always suffice when
   maxVal >= 1 (pion always has maxVal = 65535). *)
Fixpoint alloc_loop (fuel : nat) (id bound : N) (used : list N) : result N :=
  match fuel with
  | O => Err "out-of-fuel"
  | S f =>
      if id <? bound then
        if memN id used then alloc_loop f (u16 (id + 2)) bound used
        else Ok id
      else Err "max-data-channel-id"
  end.

Definition bound_of (maxv : N) : N := subw 65536 maxv 1.

Definition alloc (client : bool) (maxv : N) (used : list N) : result N :=
  alloc_loop (S (List.length used)) (start_of client) (bound_of maxv) used.

(* ---------- histories ---------- *)

Record chan : Type := mkchan {
  cid : option N;        (* DataChannel.id *)
  opened : bool          (* d.sctpTransport != nil : open() has run *)
}.

Record sst : Type := mksst {
  connected : bool;      (* SCTP association established *)
  client : bool;         (* local DTLS role is client *)
  maxv : N;              (* MaxChannels() *)
  used : list N;         (* dataChannelIDsUsed *)
  chans : list chan;     (* local and remote channels in creation order *)
  assigned : list N      (* ghost: ids handed out by generateAndSetDataChannelID, in order *)
}.

Inductive sop : Type :=
| Create (e : option N)   (* CreateDataChannel's critical section: append; mark an explicit id used *)
| Open (k : nat)          (* DataChannel.open of channel k (from CreateDataChannel when connected, or from SCTPTransport.Start) *)
| Connect (cl : bool)     (* association established, DTLS role known *)
| RemoteOpen (id : N)     (* onDataChannel: channel opened by the peer *)
| Close (k : nat).        (* DataChannel.Close: no effect on ids *)

Fixpoint cupd (l : list chan) (i : nat) (x : chan) : list chan :=
  match l, i with
  | [], _ => []
  | _ :: t, O => x :: t
  | h :: t, S i' => h :: cupd t i' x
  end.

Definition sstep (s : sst) (o : sop) : sst :=
  match o with
  | Create e =>
      mksst (connected s) (client s) (maxv s)
            (match e with Some id => id :: used s | None => used s end)
            (chans s ++ [mkchan e false]) (assigned s)
  | RemoteOpen id =>
      mksst (connected s) (client s) (maxv s) (id :: used s)
            (chans s ++ [mkchan (Some id) true]) (assigned s)
  | Connect cl =>
      if connected s then s
      else mksst true cl (maxv s) (used s) (chans s) (assigned s)
  | Open k =>
      if negb (connected s) then s                      (* errSCTPNotEstablished *)
      else match nth_error (chans s) k with
           | None => s
           | Some c =>
               if opened c then s                        (* already open *)
               else match cid c with
                    | Some id =>
                        mksst (connected s) (client s) (maxv s) (used s)
                              (cupd (chans s) k (mkchan (Some id) true)) (assigned s)
                    | None =>
                        match alloc (client s) (maxv s) (used s) with
                        | Ok id =>
                            mksst (connected s) (client s) (maxv s) (id :: used s)
                                  (cupd (chans s) k (mkchan (Some id) true)) (id :: assigned s)
                        | _ =>                           (* error returned; d.sctpTransport stays set *)
                            mksst (connected s) (client s) (maxv s) (used s)
                                  (cupd (chans s) k (mkchan None true)) (assigned s)
                        end
                    end
           end
  | Close _ => s
  end.

Definition srun (s : sst) (ops : list sop) : sst := fold_left sstep ops s.

Definition sinit (m : N) : sst := mksst false true m [] [] [].

(* explicit and remote ids are uint16 values *)
Definition op_ok (o : sop) : Prop :=
  match o with
  | Create (Some id) | RemoteOpen id => id < 65536
  | _ => True
  end.
