(* C24: icegatherer.go -- the OnCandidate callback registered by Gather, the
   candidate pool and flushCandidates, as an interleaving model.
   Threads: 0 = the ICE agent's callback goroutine (serial candidate callbacks,
   then the nil callback: assumed contract of pion/ice); S j = the j-th
   flushCandidates call (one per SetLocalDescription).  Atomic blocks are the
   code between the yield points gather.cb.{enter,emit,nil-pool} and
   gather.flush.emit.  Part B is the code before commit "fix: report the
   end of candidates once" (flush emitted nil whenever the state was complete).
   No proofs here. *)
From Coq Require Import List Arith Bool.
Import ListNotations.

Definition cand := nat.

Inductive gst := GGathering | GComplete.

(* where the agent's goroutine is *)
Inductive aphase :=
| AEnter                 (* at the top of a callback (or waiting for the next one) *)
| ACandEmit (c : cand)   (* candidate not pooled; before onLocalCandidateHandler(&c) *)
| ANilPool               (* nil: state stored complete; before the pool lock *)
| ANilEmit               (* nil not swallowed; before onLocalCandidateHandler(nil) *)
| ADone.

(* where a flushCandidates call is *)
Inductive fphase :=
| FStart
| FEmit (cs : list cand) (nil_after : bool)  (* before emitting the head of cs, or the nil *)
| FDone.

Record st := {
  gstate : gst;                  (* g.state (atomic) *)
  pool   : option (list cand);   (* g.candidatePool; None = nil slice *)
  psize  : nat;                  (* g.iceCandidatePoolSize *)
  nilp   : bool;                 (* end of candidates swallowed by the pool, not yet flushed *)
  out    : list (option cand);   (* OnLocalCandidate invocations so far; None = nil *)
  a_rest : list cand;            (* candidates the agent will still deliver *)
  a_ph   : aphase;
  fl     : list fphase
}.

Definition pool_active (s : st) : bool :=
  match pool s with Some _ => Nat.ltb 0 (psize s) | None => false end.

Definition set_agent (s : st) (rest : list cand) (ph : aphase) : st :=
  {| gstate := gstate s; pool := pool s; psize := psize s; nilp := nilp s; out := out s;
     a_rest := rest; a_ph := ph; fl := fl s |}.

Fixpoint set_nth {A} (i : nat) (x : A) (l : list A) {struct l} : list A :=
  match l, i with
  | [], _ => []
  | _ :: t, O => x :: t
  | a :: t, S j => a :: set_nth j x t
  end.

(* next position of a flush after emitting: more candidates, then the nil, then return *)
Definition fnext (cs : list cand) (b : bool) : fphase :=
  match cs with
  | _ :: _ => FEmit cs b
  | [] => if b then FEmit [] true else FDone
  end.

(* ---------- agent ---------- *)
Definition agent_step (s : st) : option st :=
  match a_ph s with
  | AEnter =>
      match a_rest s with
      | c :: r =>
          (* candidate != nil: lock; pool active -> append, return *)
          if pool_active s then
            Some {| gstate := gstate s;
                    pool := match pool s with Some l => Some (l ++ [c]) | None => None end;
                    psize := psize s; nilp := nilp s; out := out s;
                    a_rest := r; a_ph := AEnter; fl := fl s |}
          else Some (set_agent s r (ACandEmit c))
      | [] =>
          (* candidate == nil: setState(complete); onGatheringCompleteHandler() *)
          Some {| gstate := GComplete; pool := pool s; psize := psize s; nilp := nilp s;
                  out := out s; a_rest := []; a_ph := ANilPool; fl := fl s |}
      end
  | ACandEmit c =>
      Some {| gstate := gstate s; pool := pool s; psize := psize s; nilp := nilp s;
              out := out s ++ [Some c]; a_rest := a_rest s; a_ph := AEnter; fl := fl s |}
  | ANilPool =>
      (* lock; pool active -> remember the swallowed nil, return *)
      if pool_active s then
        Some {| gstate := gstate s; pool := pool s; psize := psize s; nilp := true;
                out := out s; a_rest := a_rest s; a_ph := ADone; fl := fl s |}
      else Some (set_agent s (a_rest s) ANilEmit)
  | ANilEmit =>
      Some {| gstate := gstate s; pool := pool s; psize := psize s; nilp := nilp s;
              out := out s ++ [None]; a_rest := a_rest s; a_ph := ADone; fl := fl s |}
  | ADone => None
  end.

(* ---------- flushCandidates ---------- *)
Definition flush_step (s : st) (j : nat) : option st :=
  match nth_error (fl s) j with
  | Some FStart =>
      (* lock; candidates := pool; pool = nil; size = 0; take the swallowed nil *)
      let cs := match pool s with Some l => l | None => [] end in
      Some {| gstate := gstate s; pool := None; psize := 0; nilp := false; out := out s;
              a_rest := a_rest s; a_ph := a_ph s;
              fl := set_nth j (fnext cs (nilp s)) (fl s) |}
  | Some (FEmit (c :: r) b) =>
      Some {| gstate := gstate s; pool := pool s; psize := psize s; nilp := nilp s;
              out := out s ++ [Some c]; a_rest := a_rest s; a_ph := a_ph s;
              fl := set_nth j (fnext r b) (fl s) |}
  | Some (FEmit [] true) =>
      Some {| gstate := gstate s; pool := pool s; psize := psize s; nilp := nilp s;
              out := out s ++ [None]; a_rest := a_rest s; a_ph := a_ph s;
              fl := set_nth j FDone (fl s) |}
  | Some (FEmit [] false) =>   (* not a position of the code (fnext never yields it) *)
      Some {| gstate := gstate s; pool := pool s; psize := psize s; nilp := nilp s;
              out := out s; a_rest := a_rest s; a_ph := a_ph s;
              fl := set_nth j FDone (fl s) |}
  | Some FDone | None => None
  end.

Definition step (s : st) (t : nat) : option st :=
  match t with
  | O => agent_step s
  | S j => flush_step s j
  end.

Fixpoint run (s : st) (sch : list nat) : st :=
  match sch with
  | [] => s
  | t :: rest => match step s t with
                 | Some s' => run s' rest
                 | None => run s rest
                 end
  end.

Fixpoint run_trace (s : st) (sch : list nat) : st * list bool :=
  match sch with
  | [] => (s, [])
  | t :: rest => match step s t with
                 | Some s' => let r := run_trace s' rest in (fst r, true :: snd r)
                 | None => let r := run_trace s rest in (fst r, false :: snd r)
                 end
  end.

(* pool size 1: NewPeerConnection starts gathering with an empty pool.
   pool size 0: gathering starts in the first SetLocalDescription, after its
   flushCandidates call (pool nil, size 0). *)
Definition init (poolsize : nat) (cands : list cand) (nflush : nat) : st :=
  {| gstate := GGathering;
     pool := if Nat.ltb 0 poolsize then Some [] else None;
     psize := poolsize; nilp := false; out := [];
     a_rest := cands; a_ph := AEnter; fl := repeat FStart nflush |}.

Definition fdone (f : fphase) : bool := match f with FDone => true | _ => false end.
Definition adone (s : st) : bool := match a_ph s with ADone => true | _ => false end.
Definition quiescent (s : st) : bool := adone s && forallb fdone (fl s).

(* the property on the sequence of handler invocations *)
Definition emitted (o : list (option cand)) : list cand :=
  flat_map (fun e => match e with Some c => [c] | None => [] end) o.
Definition nil_count (o : list (option cand)) : nat :=
  List.length (filter (fun e => match e with None => true | Some _ => false end) o).
(* no candidate after the end-of-candidates marker *)
Fixpoint nil_last (o : list (option cand)) : bool :=
  match o with
  | [] => true
  | None :: t => match t with [] => true | _ => false end
  | Some _ :: t => nil_last t
  end.

(* ---------- the guard of c24_partial_atomic_flush: a flushCandidates call
   that is not interleaved with the agent (all its blocks in a row) ---------- *)
Definition flush_atomic (s : st) (j : nat) : option st :=
  match nth_error (fl s) j with
  | Some FStart =>
      let cs := match pool s with Some l => l | None => [] end in
      Some {| gstate := gstate s; pool := None; psize := 0; nilp := false;
              out := out s ++ map Some cs ++ (if nilp s then [None] else []);
              a_rest := a_rest s; a_ph := a_ph s; fl := set_nth j FDone (fl s) |}
  | _ => None
  end.

Definition stepF (s : st) (t : nat) : option st :=
  match t with
  | O => agent_step s
  | S j => flush_atomic s j
  end.

Fixpoint runF (s : st) (sch : list nat) : st :=
  match sch with
  | [] => s
  | t :: rest => match stepF s t with
                 | Some s' => runF s' rest
                 | None => runF s rest
                 end
  end.

(* ------------------------------------------------------------------ *)
(* Part B: flushCandidates before the repair                           *)
(* ------------------------------------------------------------------ *)
(* The flush read g.State() after releasing the pool lock (its own atomic
   block, between the yield points gather.flush.taken and gather.flush.emit)
   and emitted nil when it read complete; the nil path only returned when the
   pool was active. *)
Inductive fphase0 :=
| F0Start
| F0Taken (cs : list cand)
| F0Emit (cs : list cand) (nil_after : bool)
| F0Done.

Record st0 := {
  gstate0 : gst; pool0 : option (list cand); psize0 : nat;
  out0 : list (option cand); a_rest0 : list cand; a_ph0 : aphase; fl0 : list fphase0
}.

Definition pool_active0 (s : st0) : bool :=
  match pool0 s with Some _ => Nat.ltb 0 (psize0 s) | None => false end.

Definition fnext0 (cs : list cand) (b : bool) : fphase0 :=
  match cs with
  | _ :: _ => F0Emit cs b
  | [] => if b then F0Emit [] true else F0Done
  end.

Definition step0 (s : st0) (t : nat) : option st0 :=
  match t with
  | O =>
      match a_ph0 s with
      | AEnter =>
          match a_rest0 s with
          | c :: r =>
              if pool_active0 s then
                Some {| gstate0 := gstate0 s;
                        pool0 := match pool0 s with Some l => Some (l ++ [c]) | None => None end;
                        psize0 := psize0 s; out0 := out0 s; a_rest0 := r; a_ph0 := AEnter; fl0 := fl0 s |}
              else Some {| gstate0 := gstate0 s; pool0 := pool0 s; psize0 := psize0 s; out0 := out0 s;
                           a_rest0 := r; a_ph0 := ACandEmit c; fl0 := fl0 s |}
          | [] => Some {| gstate0 := GComplete; pool0 := pool0 s; psize0 := psize0 s; out0 := out0 s;
                          a_rest0 := []; a_ph0 := ANilPool; fl0 := fl0 s |}
          end
      | ACandEmit c =>
          Some {| gstate0 := gstate0 s; pool0 := pool0 s; psize0 := psize0 s; out0 := out0 s ++ [Some c];
                  a_rest0 := a_rest0 s; a_ph0 := AEnter; fl0 := fl0 s |}
      | ANilPool =>
          Some {| gstate0 := gstate0 s; pool0 := pool0 s; psize0 := psize0 s; out0 := out0 s;
                  a_rest0 := a_rest0 s; a_ph0 := if pool_active0 s then ADone else ANilEmit; fl0 := fl0 s |}
      | ANilEmit =>
          Some {| gstate0 := gstate0 s; pool0 := pool0 s; psize0 := psize0 s; out0 := out0 s ++ [None];
                  a_rest0 := a_rest0 s; a_ph0 := ADone; fl0 := fl0 s |}
      | ADone => None
      end
  | S j =>
      match nth_error (fl0 s) j with
      | Some F0Start =>
          let cs := match pool0 s with Some l => l | None => [] end in
          Some {| gstate0 := gstate0 s; pool0 := None; psize0 := 0; out0 := out0 s;
                  a_rest0 := a_rest0 s; a_ph0 := a_ph0 s; fl0 := set_nth j (F0Taken cs) (fl0 s) |}
      | Some (F0Taken cs) =>
          (* currentState := g.State() *)
          let b := match gstate0 s with GComplete => true | GGathering => false end in
          Some {| gstate0 := gstate0 s; pool0 := pool0 s; psize0 := psize0 s; out0 := out0 s;
                  a_rest0 := a_rest0 s; a_ph0 := a_ph0 s; fl0 := set_nth j (fnext0 cs b) (fl0 s) |}
      | Some (F0Emit (c :: r) b) =>
          Some {| gstate0 := gstate0 s; pool0 := pool0 s; psize0 := psize0 s; out0 := out0 s ++ [Some c];
                  a_rest0 := a_rest0 s; a_ph0 := a_ph0 s; fl0 := set_nth j (fnext0 r b) (fl0 s) |}
      | Some (F0Emit [] _) =>
          Some {| gstate0 := gstate0 s; pool0 := pool0 s; psize0 := psize0 s; out0 := out0 s ++ [None];
                  a_rest0 := a_rest0 s; a_ph0 := a_ph0 s; fl0 := set_nth j F0Done (fl0 s) |}
      | Some F0Done | None => None
      end
  end.

Fixpoint run_trace0 (s : st0) (sch : list nat) : st0 * list bool :=
  match sch with
  | [] => (s, [])
  | t :: rest => match step0 s t with
                 | Some s' => let r := run_trace0 s' rest in (fst r, true :: snd r)
                 | None => let r := run_trace0 s rest in (fst r, false :: snd r)
                 end
  end.

Definition init0 (poolsize : nat) (cands : list cand) (nflush : nat) : st0 :=
  {| gstate0 := GGathering;
     pool0 := if Nat.ltb 0 poolsize then Some [] else None;
     psize0 := poolsize; out0 := [];
     a_rest0 := cands; a_ph0 := AEnter; fl0 := repeat F0Start nflush |}.
